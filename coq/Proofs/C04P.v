(* C04: unit inference is sound -- lemmas about Model/UnitCalc.v infer *)
From Coq Require Import List ZArith QArith Qabs Bool Lia Reals Lra Qreals.
From Verif Require Import Sexp UnitAlg UnitAlgP Expr Eval EvalP UnitCalc UnitCalcP.
Import ListNotations.
Open Scope R_scope.

(* ---- float(exponent) ------------------------------------------------------------------------------------- *)
Fixpoint xsum (l : list expr) : xval :=
  match l with [] => XNum 0 | y :: r => xbin Qplus (expo_value y) (xsum r) end.
Fixpoint xprod (l : list expr) : xval :=
  match l with [] => XNum 1 | y :: r => xbin Qmult (expo_value y) (xprod r) end.

Lemma expo_add l : expo_value (EAdd l) = xsum l.
Proof. cbn [expo_value]. induction l as [|a l IH]; cbn [xsum]; [reflexivity | rewrite <- IH; reflexivity]. Qed.
Lemma expo_mul l : expo_value (EMul l) = xprod l.
Proof. cbn [expo_value]. induction l as [|a l IH]; cbn [xprod]; [reflexivity | rewrite <- IH; reflexivity]. Qed.

Lemma xbin_num op a b m : xbin op a b = XNum m -> exists x y, a = XNum x /\ b = XNum y /\ m = op x y.
Proof. destruct a, b; cbn; try discriminate. intros [= <-]. eexists _, _. repeat split. Qed.

Fixpoint xsumi (G : env) (l : list expr) : xval :=
  match l with [] => XNum 0 | y :: r => xbin Qplus (expo_infer G y) (xsumi G r) end.
Fixpoint xprodi (G : env) (l : list expr) : xval :=
  match l with [] => XNum 1 | y :: r => xbin Qmult (expo_infer G y) (xprodi G r) end.
Lemma expoi_add G l : expo_infer G (EAdd l) = xsumi G l.
Proof. cbn [expo_infer]. induction l as [|a l IH]; cbn [xsumi]; [reflexivity | rewrite <- IH; reflexivity]. Qed.
Lemma expoi_mul G l : expo_infer G (EMul l) = xprodi G l.
Proof. cbn [expo_infer]. induction l as [|a l IH]; cbn [xprodi]; [reflexivity | rewrite <- IH; reflexivity]. Qed.

(* a closed exponent (no variable) is read the same with and without initial-value substitution *)
Lemma expo_infer_of_value G : forall x m, expo_value x = XNum m -> expo_infer G x = XNum m.
Proof.
  induction x using expr_ind'; intros m Hm; try (cbn [expo_value] in Hm; discriminate).
  - exact Hm.
  - exact Hm.
  - rewrite expo_add in Hm. rewrite expoi_add. revert m Hm.
    induction H as [|x r Px _ IH]; cbn [xsum xsumi]; intros m Hm; [exact Hm|].
    apply xbin_num in Hm as [a [b [Ha [Hb ->]]]]. rewrite (Px _ Ha), (IH _ Hb). reflexivity.
  - rewrite expo_mul in Hm. rewrite expoi_mul. revert m Hm.
    induction H as [|x r Px _ IH]; cbn [xprod xprodi]; intros m Hm; [exact Hm|].
    apply xbin_num in Hm as [a [b [Ha [Hb ->]]]]. rewrite (Px _ Ha), (IH _ Hb). reflexivity.
Qed.

Lemma num_guard G : forall x m, expo_value x = XNum m -> guard G false x = true.
Proof.
  induction x using expr_ind'; intros m Hm; try (cbn [expo_value] in Hm; discriminate); cbn [guard negb andb];
    try reflexivity.
  - rewrite expo_add in Hm. revert m Hm. induction H as [|x r Px _ IH]; cbn [xsum forallb]; intros m Hm; [reflexivity|].
    apply xbin_num in Hm as [a [b [Ha [Hb _]]]]. rewrite (Px _ Ha), (IH _ Hb). reflexivity.
  - rewrite expo_mul in Hm. revert m Hm. induction H as [|x r Px _ IH]; cbn [xprod forallb]; intros m Hm; [reflexivity|].
    apply xbin_num in Hm as [a [b [Ha [Hb _]]]]. rewrite (Px _ Ha), (IH _ Hb). reflexivity.
Qed.

Lemma num_exp_value x : num_exp x = true -> exists m, expo_value x = XNum m.
Proof. unfold num_exp. destruct (expo_value x) as [m| |]; try discriminate. exists m; reflexivity. Qed.

(* equivalent units: same dimension part (radian is not a dimension) and same scale *)
Definition eqv (a b : uvec) : Prop := ueq (dims a) (dims b) /\ ueq (scale a) (scale b).
Lemma eqv_sym a b : eqv a b -> eqv b a.
Proof. intros [H1 H2]. split; apply ueq_sym; assumption. Qed.
Lemma eqv_trans a b c : eqv a b -> eqv b c -> eqv a c.
Proof. intros [H1 H2] [H3 H4]. split; eapply ueq_trans; eassumption. Qed.

(* ---- consistency (CellML rules), units of operands as inferred -------------------------------------- *)
Section Consistent.
  Variable G : env.

  Definition units_equiv (a b : expr) : Prop :=
    exists u v, unit_of G a = Some u /\ unit_of G b = Some v /\ eqv (expand G u) (expand G v).
  (* function argument: no dimensions and SI scale 1 *)
  Definition unit_is_one (x : expr) : Prop := exists u, unit_of G x = Some u /\ dim_dimless G u = true.

  Fixpoint consistent (e : expr) : Prop :=
    match e with
    | ENum _ _ | EConst _ | EQty _ _ _ | EVar _ | ETrue | EFalse | EDeriv _ _ _ => True
    | EAdd l => (fix all (l : list expr) := match l with [] => True | x :: r => consistent x /\ all r end) l
                /\ (forall x y, In x l -> In y l -> units_equiv x y)
    | EMul l => (fix all (l : list expr) := match l with [] => True | x :: r => consistent x /\ all r end) l
    | EPow b x => consistent b /\ consistent x /\ unit_is_one x
    | EFn f l => (fix all (l : list expr) := match l with [] => True | x :: r => consistent x /\ all r end) l
                 /\ (f = fn_abs \/ f = fn_floor \/ f = fn_ceiling \/ forall x, In x l -> unit_is_one x)
    | ERel _ a b => consistent a /\ consistent b /\ units_equiv a b
    | EBool _ l => (fix all (l : list expr) := match l with [] => True | x :: r => consistent x /\ all r end) l
    | EPw l => (fix all (l : list (expr * expr)) :=
                  match l with [] => True | xc :: r => (consistent (fst xc) /\ consistent (snd xc)) /\ all r end) l
               /\ (forall x y, In x (map fst l) -> In y (map fst l) -> units_equiv x y)
    end.

  Fixpoint call (l : list expr) : Prop := match l with [] => True | x :: r => consistent x /\ call r end.
  Fixpoint callw (l : list (expr * expr)) : Prop :=
    match l with [] => True | xc :: r => (consistent (fst xc) /\ consistent (snd xc)) /\ callw r end.
End Consistent.

Lemma infers_Forall2 G l rs : infers G l = UOk rs -> Forall2 (fun x r => infer G x = UOk r) l rs.
Proof.
  revert rs. induction l as [|x l IH]; cbn [infers]; intros rs H.
  - injection H as <-. constructor.
  - apply bindr_ok in H as [a [Ha H]]. apply bindr_ok in H as [b [Hb H]]. injection H as <-.
    constructor; [exact Ha | apply IH; exact Hb].
Qed.

Lemma inferpw_Forall2 G l rs : inferpw G l = UOk rs -> Forall2 (fun xc r => infer G (fst xc) = UOk r) l rs.
Proof.
  revert rs. induction l as [|x l IH]; cbn [inferpw]; intros rs H.
  - injection H as <-. constructor.
  - apply bindr_ok in H as [a [Ha H]]. apply bindr_ok in H as [b [Hb H]]. injection H as <-.
    constructor; [exact Ha | apply IH; exact Hb].
Qed.

Lemma infer_same_ok G rs r : infer_same G rs = UOk r ->
  exists rest, rs = r :: rest /\ Forall (fun r' => sem_equiv G (fst r) (fst r') = true) rs.
Proof.
  unfold infer_same. destruct rs as [|r0 rest]; [discriminate|].
  destruct (forallb _ _) eqn:Hf; [|discriminate]. intros [= <-].
  exists rest. split; [reflexivity|]. apply Forall_forall. apply forallb_forall. exact Hf.
Qed.

Lemma unit_of_ok G e r : infer G e = UOk r -> unit_of G e = Some (fst r).
Proof. unfold unit_of. intros ->. reflexivity. Qed.

Lemma unit_of_inv G e n : unit_of G e = Some n -> exists r, infer G e = UOk r /\ fst r = n.
Proof.
  unfold unit_of. destruct (infer G e) as [r| | |]; try discriminate. intros [= <-]. exists r. split; reflexivity.
Qed.

Lemma sem_equiv_ueq G a b : sem_equiv G a b = true -> eqv (expand G a) (expand G b).
Proof. unfold sem_equiv. intros H. apply equivb_spec. exact H. Qed.

(* every pair of operands is equivalent when all are equivalent to the first *)
Lemma all_equiv_pairs G {X} (f : X -> expr) (l : list X) (rs : list qu) (r0 : qu) :
  Forall2 (fun x r => infer G (f x) = UOk r) l rs ->
  Forall (fun r' => sem_equiv G (fst r0) (fst r') = true) rs ->
  forall x y, In x (map f l) -> In y (map f l) -> units_equiv G x y.
Proof.
  intros H2 Hall.
  assert (K : forall x, In x (map f l) -> exists r, infer G x = UOk r /\ eqv (expand G (fst r0)) (expand G (fst r))).
  { clear -H2 Hall. induction H2 as [|x r l rs Hx _ IH]; cbn [map In]; [contradiction|].
    inversion Hall as [|? ? Hr Hall']; subst. intros x' [<-|Hin].
    - exists r. split; [exact Hx | apply sem_equiv_ueq; exact Hr].
    - apply IH; assumption. }
  intros x y Hx Hy. destruct (K x Hx) as [rx [Ix Ex]]. destruct (K y Hy) as [ry [Iy Ey]].
  exists (fst rx), (fst ry). split; [apply unit_of_ok; assumption|]. split; [apply unit_of_ok; assumption|].
  eapply eqv_trans; [apply eqv_sym; exact Ex | exact Ey].
Qed.

Section ConsistentP.
  Variable G : env.

  (* functions other than Abs / floor / ceiling: the (only) argument is dimensionless with scale 1 *)
  Lemma infer_fn_other f (r0 r : qu) :
    (f =? fn_abs)%Z = false -> (f =? fn_floor)%Z || (f =? fn_ceiling)%Z = false ->
    infer_fn G f [r0] = UOk r -> dim_dimless G (fst r0) = true /\ fst r = [].
  Proof.
    intros Hf Hfc. unfold infer_fn. rewrite Hf, Hfc.
    destruct ((f =? fn_log)%Z || (f =? fn_factorial)%Z || is_trig f).
    { destruct (dim_dimless G (fst r0)); [|discriminate]. intros [= <-]. split; reflexivity. }
    destruct (f =? fn_exp)%Z.
    { destruct (dim_dimless G (fst r0)); [|discriminate].
      destruct (snd r0) as [q [|]| | |]; try (intros [= <-]; split; reflexivity).
      destruct (Qle_bool 710 q); [discriminate|]. intros [= <-]; split; reflexivity. }
    destruct (dim_dimless G (fst r0)); [|discriminate]. intros [= <-]. split; reflexivity.
  Qed.

  Definition Pc (e : expr) : Prop :=
    (forall r, infer G e = UOk r -> guard G false e = true -> consistent G e) /\
    (guard G true e = true -> consistent G e).

  Lemma call_of l rs :
    Forall Pc l -> Forall2 (fun x r => infer G x = UOk r) l rs -> forallb (guard G false) l = true -> call G l.
  Proof.
    intros HP H2. revert HP. induction H2 as [|x r l rs Hx _ IH]; intros HP Hg; cbn [call]; [exact I|].
    inversion HP as [|? ? Px HP']; subst. cbn [forallb] in Hg. apply andb_prop in Hg as [Hgx Hg].
    split; [apply (proj1 Px r Hx Hgx) | apply IH; assumption].
  Qed.

  Lemma consistent_all : forall e, Pc e.
  Proof.
    induction e using expr_ind'; unfold Pc; (split; [intros rr Hi Hg | intros Hg]); cbn [guard] in Hg;
      try exact I; try discriminate; cbn [negb andb] in Hg.
    - (* Add *)
      rewrite infer_add in Hi. apply bindr_ok in Hi as [rs [Hrs Hs]].
      apply infers_Forall2 in Hrs. apply infer_same_ok in Hs as [rest [-> Hall]].
      cbn [consistent]. split.
      + change (call G l). eapply call_of; eassumption.
      + intros x y Hx Hy. rewrite <- (map_id l) in Hx, Hy.
        eapply (all_equiv_pairs G (fun x => x)); eassumption.
    - (* Mul *)
      rewrite infer_mul in Hi. apply bindr_ok in Hi as [rs [Hrs Hs]].
      apply infers_Forall2 in Hrs. change (call G l). eapply call_of; eassumption.
    - (* Pow *)
      cbn [infer] in Hi. apply bindr_ok in Hi as [rb [Hb Hi]]. apply bindr_ok in Hi as [rx [Hx Hi]].
      apply andb_prop in Hg as [Hgb Hl]. destruct (num_exp_value _ Hl) as [m Hm]. cbn [consistent]. repeat split.
      + apply (proj1 IHe1 rb Hb Hgb).
      + apply (proj1 IHe2 rx Hx (num_guard G _ _ Hm)).
      + exists (fst rx). split; [apply unit_of_ok; exact Hx|].
        unfold infer_pow in Hi. destruct rb as [ub mb].
        destruct (dim_dimless G (fst rx)) eqn:Hd; [reflexivity | discriminate].
    - (* Fn *)
      rewrite infer_fn_eq in Hi. apply bindr_ok in Hi as [rs [Hrs Hs]]. apply infers_Forall2 in Hrs.
      apply andb_prop in Hg as [Hg Hargs]. cbn [consistent]. split.
      + change (call G l). eapply call_of; eassumption.
      + destruct (Z.eqb_spec f fn_abs) as [->|Hna]; [left; reflexivity|].
        destruct (Z.eqb_spec f fn_floor) as [->|Hnf]; [right; left; reflexivity|].
        destruct (Z.eqb_spec f fn_ceiling) as [->|Hnc]; [right; right; left; reflexivity|].
        right; right; right. cbn [orb] in Hargs. destruct l as [|x0 [|y l']]; try discriminate.
        inversion Hrs as [|? r0 ? rs' Hx0 Hrs']; subst. inversion Hrs'; subst.
        intros x [<-|[]]. exists (fst r0). split; [apply unit_of_ok; exact Hx0|].
        apply (infer_fn_other f r0 rr); [apply Z.eqb_neq; exact Hna | | exact Hs].
        apply orb_false_intro; apply Z.eqb_neq; assumption.
    - (* Rel, condition mode *)
      apply andb_prop in Hg as [Hg Heq]. apply andb_prop in Hg as [Hga Hgb].
      destruct (unit_of G e1) as [u|] eqn:Hu; [|discriminate].
      destruct (unit_of G e2) as [v|] eqn:Hv; [|discriminate].
      destruct (unit_of_inv _ _ _ Hu) as [ra [Ia _]]. destruct (unit_of_inv _ _ _ Hv) as [rb [Ib _]].
      cbn [consistent]. repeat split.
      + apply (proj1 IHe1 ra Ia Hga).
      + apply (proj1 IHe2 rb Ib Hgb).
      + exists u, v. split; [exact Hu|]. split; [exact Hv|]. apply sem_equiv_ueq. exact Heq.
    - (* Bool, condition mode *)
      cbn [consistent]. change (call G l). clear -H Hg.
      induction H as [|x l Px _ IH]; cbn [call]; [exact I|].
      cbn [forallb] in Hg. apply andb_prop in Hg as [Hx Hg]. split; [apply (proj2 Px Hx) | apply IH; exact Hg].
    - (* Piecewise *)
      rewrite infer_pw in Hi. apply bindr_ok in Hi as [rs [Hrs Hs]].
      apply inferpw_Forall2 in Hrs. apply infer_same_ok in Hs as [rest [-> Hall]].
      cbn [consistent]. split.
      + change (callw G l). clear Hall. revert Hg. induction Hrs as [|xc r' l rs Hx _ IH]; intros Hg; cbn [callw]; [exact I|].
        inversion H as [|? ? [Px Pcn] HP']; subst. cbn [forallb] in Hg. apply andb_prop in Hg as [Hgx Hg].
        apply andb_prop in Hgx as [Hgp Hgc].
        split; [split; [apply (proj1 Px r' Hx Hgp) | apply (proj2 Pcn Hgc)] | apply IH; assumption].
      + eapply (all_equiv_pairs G fst); eassumption.
  Qed.
End ConsistentP.

(* ---- soundness: the SI reading is the numeric reading times the scale of the inferred unit ------------- *)
Section Sound.
  Variable G : env.
  Variable fsem : Z -> list R -> option R.
  Variable psem : R -> R -> option R.
  Variable csem : Z -> option R.
  Hypothesis psem_scale : forall s x q, 0 < s ->
    psem (s * x) q = option_map (Rmult (Rpower s q)) (psem x q).
  Hypothesis abs_scale : forall s x, 0 < s ->
    fsem fn_abs [s * x] = option_map (Rmult s) (fsem fn_abs [x]).

  Section Val.
  Variable nu : Z -> option R.
  Variable de : Z -> Z -> option R.
  Notation eN := (evalN fsem psem csem nu de).
  Notation eSI := (evalSI G fsem psem csem nu de).

  Lemma sSI_add l : eSI (EAdd l) = option_map VR (osum eSI l). Proof. apply ev_add. Qed.
  Lemma sN_add l : eN (EAdd l) = option_map VR (osum eN l). Proof. apply ev_add. Qed.
  Lemma sSI_mul l : eSI (EMul l) = option_map VR (oprod eSI l). Proof. apply ev_mul. Qed.
  Lemma sN_mul l : eN (EMul l) = option_map VR (oprod eN l). Proof. apply ev_mul. Qed.
  Lemma sSI_fn f l : eSI (EFn f l) = match oreals eSI l with Some rs => option_map VR (fsem f rs) | None => None end.
  Proof. apply ev_fn. Qed.
  Lemma sN_fn f l : eN (EFn f l) = match oreals eN l with Some rs => option_map VR (fsem f rs) | None => None end.
  Proof. apply ev_fn. Qed.
  Lemma sSI_bool op l : eSI (EBool op l) =
    match oevals eSI l with
    | Some vs => match bools vs with Some bs => option_map VB (bool_sem op bs) | None => None end
    | None => None end.
  Proof. apply ev_bool. Qed.
  Lemma sN_bool op l : eN (EBool op l) =
    match oevals eN l with
    | Some vs => match bools vs with Some bs => option_map VB (bool_sem op bs) | None => None end
    | None => None end.
  Proof. apply ev_bool. Qed.
  Lemma sSI_pw l : eSI (EPw l) = opw eSI l. Proof. apply ev_pw. Qed.
  Lemma sN_pw l : eN (EPw l) = opw eN l. Proof. apply ev_pw. Qed.

  Definition rel_at (e : expr) (n : nunit) : Prop := eSI e = option_map (scale_val (sc G n)) (eN e).

  Definition Ps (e : expr) : Prop :=
    (forall r, infer G e = UOk r -> guard G false e = true -> rel_at e (fst r)) /\
    (guard G true e = true -> eSI e = eN e).

  Lemma rel_at_one e n : sc G n = 1 -> rel_at e n -> eSI e = eN e.
  Proof. unfold rel_at. intros -> ->. apply omap_scale_val_1. Qed.

  Lemma one_rel_at e n : sc G n = 1 -> eSI e = eN e -> rel_at e n.
  Proof. unfold rel_at. intros -> ->. symmetry. apply omap_scale_val_1. Qed.

  (* operands of a sum / pieces: all related with the scale of the first *)
  Lemma sum_args l rs (r0 : qu) :
    Forall Ps l -> Forall2 (fun x r => infer G x = UOk r) l rs -> forallb (guard G false) l = true ->
    Forall (fun r' => sem_equiv G (fst r0) (fst r') = true) rs ->
    Forall2 (fun x x' => eSI x = option_map (scale_val (sc G (fst r0))) (eN x')) l l.
  Proof.
    intros HP H2. revert HP. induction H2 as [|x r l rs Hx _ IH]; intros HP Hg Hall; [constructor|].
    inversion HP as [|? ? Px HP']; subst. inversion Hall as [|? ? Hr Hall']; subst.
    cbn [forallb] in Hg. apply andb_prop in Hg as [Hgx Hg]. constructor.
    - rewrite (sc_sem_equiv G _ _ Hr). apply (proj1 Px r Hx Hgx).
    - apply IH; assumption.
  Qed.

  Lemma pw_args l rs (r0 : qu) :
    Forall (fun ec => Ps (fst ec) /\ Ps (snd ec)) l ->
    Forall2 (fun xc r => infer G (fst xc) = UOk r) l rs ->
    forallb (fun ec => guard G false (fst ec) && guard G true (snd ec)) l = true ->
    Forall (fun r' => sem_equiv G (fst r0) (fst r') = true) rs ->
    Forall2 (fun xc xc' => eSI (snd xc) = eN (snd xc') /\
                           eSI (fst xc) = option_map (scale_val (sc G (fst r0))) (eN (fst xc'))) l l.
  Proof.
    intros HP H2. revert HP. induction H2 as [|xc r l rs Hx _ IH]; intros HP Hg Hall; [constructor|].
    inversion HP as [|? ? [Px Pcn] HP']; subst. inversion Hall as [|? ? Hr Hall']; subst.
    cbn [forallb] in Hg. apply andb_prop in Hg as [Hgx Hg]. apply andb_prop in Hgx as [Hgp Hgc].
    constructor; [split | apply IH; assumption].
    - apply (proj2 Pcn Hgc).
    - rewrite (sc_sem_equiv G _ _ Hr). apply (proj1 Px r Hx Hgp).
  Qed.

  Lemma prod_args l rs :
    Forall Ps l -> Forall2 (fun x r => infer G x = UOk r) l rs -> forallb (guard G false) l = true ->
    Forall3s eSI eN l l (map (fun r => sc G (fst r)) rs).
  Proof.
    intros HP H2. revert HP. induction H2 as [|x r l rs Hx _ IH]; intros HP Hg; cbn [map]; [constructor|].
    inversion HP as [|? ? Px HP']; subst. cbn [forallb] in Hg. apply andb_prop in Hg as [Hgx Hg].
    constructor; [apply (proj1 Px r Hx Hgx) | apply IH; assumption].
  Qed.

  Lemma fold_left_qmul_sc rest (acc : qu) :
    sc G (fst (fold_left qmul rest acc)) = sc G (fst acc) * fold_right Rmult 1 (map (fun r => sc G (fst r)) rest).
  Proof.
    revert acc. induction rest as [|r rest IH]; intros acc; cbn [fold_left map fold_right]; [lra|].
    rewrite IH. unfold qmul. cbn [fst]. rewrite sc_umul. lra.
  Qed.

  (* arguments with a unit of scale 1 read the same *)
  Lemma same_args (ok : expr -> bool) l rs :
    (forall x, ok x = true -> exists n, unit_of G x = Some n /\ sc G n = 1) ->
    Forall Ps l -> Forall2 (fun x r => infer G x = UOk r) l rs -> forallb (guard G false) l = true ->
    forallb ok l = true ->
    Forall2 (fun x x' => eSI x = eN x') l l.
  Proof.
    intros Hok HP H2. revert HP. induction H2 as [|x r l rs Hx _ IH]; intros HP Hg Ha; [constructor|].
    inversion HP as [|? ? Px HP']; subst. cbn [forallb] in Hg, Ha.
    apply andb_prop in Hg as [Hgx Hg]. apply andb_prop in Ha as [Hax Ha]. constructor.
    - destruct (Hok x Hax) as [n [Hu Hn]]. rewrite (unit_of_ok _ _ _ Hx) in Hu. injection Hu as Hu.
      apply (rel_at_one x (fst r)); [rewrite Hu; exact Hn | apply (proj1 Px r Hx Hgx)].
    - apply IH; assumption.
  Qed.

  Lemma arg_ok_sc x : arg_ok G x = true -> exists n, unit_of G x = Some n /\ sc G n = 1.
  Proof.
    unfold arg_ok. destruct (unit_of G x) as [n|]; [|discriminate]. intros H. exists n. split; [reflexivity|].
    apply sc_scale_one; exact H.
  Qed.

  Lemma dim_dimless_sc n : dim_dimless G n = true -> sc G n = 1.
  Proof. unfold dim_dimless. intros H. apply andb_prop in H as [_ H]. apply sc_scale_one. exact H. Qed.

  Lemma expo_sound : forall x m, expo_value x = XNum m -> eN x = Some (VR (Q2R m)).
  Proof.
    induction x using expr_ind'; intros m Hm; try (cbn [expo_value] in Hm; discriminate).
    - cbn [expo_value] in Hm. injection Hm as <-. reflexivity.
    - cbn [expo_value] in Hm. destruct (id <? -1)%Z eqn:E; [discriminate|]. injection Hm as <-.
      unfold evalN. cbn [eval]. unfold qN, qval. rewrite E. reflexivity.
    - rewrite expo_add in Hm. rewrite sN_add.
      assert (K : osum eN l = Some (Q2R m)).
      { revert m Hm. induction H as [|x r Px _ IH]; cbn [xsum osum]; intros m Hm.
        - injection Hm as <-. f_equal. unfold Q2R; cbn; lra.
        - apply xbin_num in Hm as [a [b [Ha [Hb ->]]]]. rewrite (Px _ Ha), (IH _ Hb), Q2R_plus. reflexivity. }
      rewrite K. reflexivity.
    - rewrite expo_mul in Hm. rewrite sN_mul.
      assert (K : oprod eN l = Some (Q2R m)).
      { revert m Hm. induction H as [|x r Px _ IH]; cbn [xprod oprod]; intros m Hm.
        - injection Hm as <-. f_equal. unfold Q2R; cbn; lra.
        - apply xbin_num in Hm as [a [b [Ha [Hb ->]]]]. rewrite (Px _ Ha), (IH _ Hb), Q2R_mult. reflexivity. }
      rewrite K. reflexivity.
  Qed.

  Lemma sound_all : forall e, Ps e.
  Proof.
    induction e using expr_ind'; unfold Ps; (split; [intros rr Hi Hg | intros Hg]);
      cbn [guard negb andb] in Hg; try discriminate.
    - (* Num *)
      cbn [infer] in Hi. injection Hi as <-. apply one_rel_at; [apply sc_nil | reflexivity].
    - (* Const *)
      cbn [infer] in Hi. destruct ((c =? 0)%Z || (c =? 1)%Z); [|discriminate]. injection Hi as <-.
      apply one_rel_at; [apply sc_nil | reflexivity].
    - (* Qty *)
      cbn [infer] in Hi. destruct (lookup_unit G u) as [n|] eqn:Hu; [|discriminate]. injection Hi as <-.
      unfold rel_at, evalN, evalSI. cbn [eval]. unfold qSI, qN. rewrite Hu. reflexivity.
    - (* Var *)
      cbn [infer] in Hi. unfold infer_var in Hi.
      destruct (nthZ (vtab G) v) as [[u iv]|] eqn:Hn; [|discriminate].
      destruct (lookup_unit G u) as [n|] eqn:Hu; [|discriminate]. injection Hi as <-.
      unfold rel_at, evalN, evalSI. cbn [eval]. unfold vSI, var_unit. rewrite Hn. cbn [fst]. rewrite Hu.
      destruct (nu v); reflexivity.
    - (* Add *)
      rewrite infer_add in Hi. apply bindr_ok in Hi as [rs [Hrs Hs]].
      apply infers_Forall2 in Hrs. apply infer_same_ok in Hs as [rest [-> Hall]].
      unfold rel_at. rewrite sSI_add, sN_add.
      rewrite (osum_scaled _ _ (sc G (fst rr)) l l) by (apply (sum_args l (rr :: rest) rr); assumption).
      match goal with |- context [osum ?f l] => destruct (osum f l) end; reflexivity.
    - (* Mul *)
      rewrite infer_mul in Hi. apply bindr_ok in Hi as [rs [Hrs Hs]]. apply infers_Forall2 in Hrs.
      destruct rs as [|r0 rest]; [discriminate|]. cbn [infer_prod] in Hs. injection Hs as <-.
      unfold rel_at. rewrite sSI_mul, sN_mul.
      rewrite (oprod_scaled _ _ l l _ (prod_args l (r0 :: rest) H Hrs Hg)).
      rewrite fold_left_qmul_sc. cbn [map fold_right].
      match goal with |- context [oprod ?f l] => destruct (oprod f l) end; reflexivity.
    - (* Pow *)
      cbn [infer] in Hi. apply bindr_ok in Hi as [rb [Hb Hi]]. apply bindr_ok in Hi as [rx [Hx Hi]].
      apply andb_prop in Hg as [Hgb Hl]. destruct (num_exp_value _ Hl) as [m Hm].
      destruct rb as [ub mb]. unfold infer_pow in Hi. rewrite (expo_infer_of_value G _ _ Hm) in Hi.
      destruct (dim_dimless G (fst rx)) eqn:Hdx; [|discriminate]. cbn [negb] in Hi.
      apply bindr_ok in Hi as [mr [_ Hi]]. injection Hi as <-. cbn [fst].
      pose proof (expo_sound e2 m Hm) as HxN.
      assert (HxSI : eSI e2 = Some (VR (Q2R m))).
      { rewrite <- HxN. apply (rel_at_one e2 (fst rx)); [apply dim_dimless_sc; exact Hdx|].
        apply (proj1 IHe2 rx Hx (num_guard G _ _ Hm)). }
      pose proof (proj1 IHe1 (ub, mb) Hb Hgb) as Hrel. cbn [fst] in Hrel.
      unfold rel_at, evalN, evalSI in *. cbn [eval]. rewrite Hrel, HxN, HxSI.
      match goal with |- context [eval ?a ?b ?c ?d ?f ?g e1] => destruct (eval a b c d f g e1) as [[x|bx]|] end;
        cbn [option_map scale_val]; try reflexivity.
      rewrite psem_scale by apply sc_pos.
      assert (E : Rpower (sc G ub) (Q2R m) = sc G (if syn_dimless ub then [] else upow ub m)).
      { destruct (syn_dimless ub) eqn:Hd.
        - rewrite (sc_syn_dimless _ _ Hd), sc_nil. unfold Rpower. rewrite ln_1, Rmult_0_r. apply exp_0.
        - rewrite sc_upow. reflexivity. }
      rewrite E. destruct (psem x (Q2R m)); reflexivity.
    - (* Fn *)
      rewrite infer_fn_eq in Hi. apply bindr_ok in Hi as [rs [Hrs Hs]]. apply infers_Forall2 in Hrs.
      apply andb_prop in Hg as [Hgl Hargs].
      destruct (f =? fn_abs)%Z eqn:Hf.
      + apply Z.eqb_eq in Hf. subst f. destruct l as [|x [|y l']]; try discriminate.
        inversion Hrs as [|? rx ? rs' Hx Hrs']; subst. inversion Hrs'; subst.
        unfold infer_fn in Hs. rewrite Z.eqb_refl in Hs. injection Hs as <-. cbn [fst].
        inversion H as [|? ? Px _]; subst. cbn [forallb] in Hgl. apply andb_prop in Hgl as [Hgx _].
        pose proof (proj1 Px rx Hx Hgx) as Hrel.
        unfold rel_at in *. rewrite sSI_fn, sN_fn. cbn [oreals]. rewrite Hrel.
        destruct (eN x) as [[a0|bx]|];
          cbn [option_map scale_val]; try reflexivity.
        rewrite abs_scale by apply sc_pos. destruct (fsem fn_abs [a0]); reflexivity.
      + destruct ((f =? fn_floor)%Z || (f =? fn_ceiling)%Z) eqn:Hfc.
        * pose proof (same_args (arg_ok G) l rs arg_ok_sc H Hrs Hgl Hargs) as Hsame.
          assert (E1 : sc G (fst rr) = 1).
          { unfold infer_fn in Hs. rewrite Hf, Hfc in Hs. destruct rs as [|r0 rest]; [discriminate|].
            assert (Hfst : fst rr = fst r0) by (destruct (snd r0); try discriminate; injection Hs as <-; reflexivity).
            rewrite Hfst. inversion Hrs as [|x0 ? l0 ? Hx0 _]; subst. cbn [forallb] in Hargs.
            apply andb_prop in Hargs as [Ha0 _]. destruct (arg_ok_sc x0 Ha0) as [n [Hu Hn]].
            rewrite (unit_of_ok _ _ _ Hx0) in Hu. injection Hu as ->. exact Hn. }
          apply one_rel_at; [exact E1|]. rewrite sSI_fn, sN_fn.
          rewrite (oreals_same _ _ l l Hsame). reflexivity.
        * destruct l as [|x0 [|y l']]; try discriminate.
          inversion Hrs as [|? r0 ? rs' Hx0 Hrs']; subst. inversion Hrs'; subst.
          destruct (infer_fn_other G f r0 rr Hf Hfc Hs) as [Hd Er].
          inversion H as [|? ? Px _]; subst. cbn [forallb] in Hgl. apply andb_prop in Hgl as [Hgx _].
          pose proof (rel_at_one x0 (fst r0) (dim_dimless_sc _ Hd) (proj1 Px r0 Hx0 Hgx)) as Hx.
          apply one_rel_at; [rewrite Er; apply sc_nil|]. rewrite sSI_fn, sN_fn. cbn [oreals]. rewrite Hx. reflexivity.
    - (* Deriv *)
      cbn [infer] in Hi. apply bindr_ok in Hi as [ry [Hy Hi]]. apply bindr_ok in Hi as [rt [Ht Hi]].
      unfold infer_div in Hi. apply bindr_ok in Hi as [md [_ Hi]]. injection Hi as <-. cbn [fst].
      unfold rel_at, evalN, evalSI.
      destruct e1; try reflexivity. destruct e2; try reflexivity.
      destruct n as [|p|p]; try reflexivity. destruct p; try reflexivity.
      cbn [eval]. unfold dSI. rewrite <- !unit_of_var.
      rewrite (unit_of_ok _ _ _ Hy), (unit_of_ok _ _ _ Ht). destruct (de v v0); reflexivity.
    - (* Rel, condition mode *)
      apply andb_prop in Hg as [Hg Heq]. apply andb_prop in Hg as [Hga Hgb].
      destruct (unit_of G e1) as [u|] eqn:Hu; [|discriminate].
      destruct (unit_of G e2) as [w|] eqn:Hw; [|discriminate].
      destruct (unit_of_inv _ _ _ Hu) as [ra [Ia Ea]]. destruct (unit_of_inv _ _ _ Hw) as [rb [Ib Eb]].
      pose proof (proj1 IHe1 ra Ia Hga) as Ha. pose proof (proj1 IHe2 rb Ib Hgb) as Hb.
      unfold rel_at in Ha, Hb. rewrite Ea in Ha. rewrite Eb in Hb. rewrite <- (sc_sem_equiv G _ _ Heq) in Hb.
      unfold evalN, evalSI in *. cbn [eval]. rewrite Ha, Hb.
      match goal with |- context [eval ?a ?b ?c ?d ?f ?g e1] => destruct (eval a b c d f g e1) as [[x|bx]|] end;
      match goal with |- context [eval ?a ?b ?c ?d ?f ?g e2] => destruct (eval a b c d f g e2) as [[y|bw]|] end;
        cbn [option_map scale_val]; try reflexivity.
      rewrite rel_sem_scale by apply sc_pos. reflexivity.
    - (* Bool, condition mode *)
      assert (HF : Forall2 (fun x x' => eSI x = eN x') l l).
      { clear -H Hg. induction H as [|x l Px _ IH]; [constructor|].
        cbn [forallb] in Hg. apply andb_prop in Hg as [Hx Hg]. constructor; [apply (proj2 Px Hx) | apply IH; exact Hg]. }
      rewrite sSI_bool, sN_bool. rewrite (oevals_same _ _ l l HF). reflexivity.
    - reflexivity.
    - reflexivity.
    - (* Piecewise *)
      rewrite infer_pw in Hi. apply bindr_ok in Hi as [rs [Hrs Hs]].
      apply inferpw_Forall2 in Hrs. apply infer_same_ok in Hs as [rest [-> Hall]].
      unfold rel_at. rewrite sSI_pw, sN_pw. apply opw_scaled.
      apply (pw_args l (rr :: rest) rr); assumption.
  Qed.
  End Val.
End Sound.

(* ---- the closed statements ------------------------------------------------------------------------------ *)
Definition psem_law (psem : R -> R -> option R) : Prop :=
  forall s x q, 0 < s -> psem (s * x) q = option_map (Rmult (Rpower s q)) (psem x q).
Definition abs_law (fsem : Z -> list R -> option R) : Prop :=
  forall s x, 0 < s -> fsem fn_abs [s * x] = option_map (Rmult s) (fsem fn_abs [x]).

Lemma infer_sound_partial : forall fsem psem csem, psem_law psem -> abs_law fsem ->
  forall G e n m, infer G e = UOk (n, m) -> guard G false e = true ->
    consistent G e /\
    forall nu de, evalSI G fsem psem csem nu de e =
                  option_map (scale_val (scaleR (expand G n))) (evalN fsem psem csem nu de e).
Proof.
  intros fsem psem csem Hp Ha G e n m Hi Hg. split.
  - apply (proj1 (consistent_all G e) (n, m) Hi Hg).
  - intros nu de. apply (proj1 (sound_all G fsem psem csem Hp Ha nu de e) (n, m) Hi Hg).
Qed.

(* conditions (relations, And/Or of relations) that pass the guard read the same in both readings *)
Lemma condition_sound : forall fsem psem csem, psem_law psem -> abs_law fsem ->
  forall G c, guard G true c = true ->
    consistent G c /\ forall nu de, evalSI G fsem psem csem nu de c = evalN fsem psem csem nu de c.
Proof.
  intros fsem psem csem Hp Ha G c Hg. split.
  - apply (proj2 (consistent_all G c) Hg).
  - intros nu de. apply (proj2 (sound_all G fsem psem csem Hp Ha nu de c) Hg).
Qed.

(* error kinds: the result is a unit, one of the six UnitError subclasses, another exception, or "declined";
   booleans never get a unit; a sum of operands with inequivalent units is InputArgumentsInvalidUnitsError *)
Lemma infer_error_kinds :
  (forall G e k, infer G e = UErr k ->
     In k [EUnexpectedMath; EInvalidUnits; EMustBeDimensionless; EMustBeNumber; EBoolean; EConversion]) /\
  (forall G r a b q, infer G (ERel r a b) <> UOk q) /\
  (forall G op l q, infer G (EBool op l) <> UOk q) /\
  (forall G q, infer G ETrue <> UOk q /\ infer G EFalse <> UOk q) /\
  (forall G l rs r0, infers G l = UOk rs -> hd_error rs = Some r0 ->
     forallb (fun r => sem_equiv G (fst r0) (fst r)) rs = false -> infer G (EAdd l) = UErr EInvalidUnits) /\
  (forall G b x rb rx, infer G b = UOk rb -> infer G x = UOk rx -> dim_dimless G (fst rx) = false ->
     infer G (EPow b x) = UErr EMustBeDimensionless).
Proof.
  repeat split.
  - intros G e k _. destruct k; cbn; tauto.
  - intros G r a b q H. cbn [infer] in H. apply bindr_ok in H as [x [_ H]]. apply bindr_ok in H as [y [_ H]]. discriminate.
  - intros G op l q H. cbn [infer] in H. apply bindr_ok in H as [x [_ H]]. discriminate.
  - discriminate.
  - discriminate.
  - intros G l rs r0 Hrs Hhd Hf. rewrite infer_add, Hrs. cbn [bindr]. unfold infer_same.
    destruct rs as [|r rest]; [discriminate|]. injection Hhd as ->. rewrite Hf. reflexivity.
  - intros G b x rb rx Hb Hx Hd. cbn [infer]. rewrite Hb, Hx. cbn [bindr]. unfold infer_pow.
    destruct rb. rewrite Hd. reflexivity.
Qed.

(* F6 (repaired): the exponent is read from the exponent expression, so the quantity _3 and the sum _1 + _2
   give the same unit mV^3, and both are inside the guard *)
Definition G_w : env :=
  mkEnv [[(2%Z, (-3 # 1)%Q); (5%Z, (-3 # 1)%Q); ((-2)%Z, 1%Q); ((-1)%Z, 2%Q); ((-3)%Z, (-3 # 1)%Q); ((-4)%Z, (-1 # 1)%Q)]]   (* atom 0 = mV *)
        [[]; [(0%Z, 1%Q)]]                                                                  (* dimensionless, mV *)
        [(1%Z, None)].                                                                      (* a : mV *)
Definition x_sum : expr := EAdd [EQty 0 1 0; EQty 1 2 0].
Definition x_lit : expr := EQty 2 3 0.

Lemma infer_compound_exponent_repaired :
  exists r r',
    infer G_w (EPow (EVar 0) x_sum) = UOk r /\ infer G_w (EPow (EVar 0) x_lit) = UOk r' /\
    guard G_w false (EPow (EVar 0) x_sum) = true /\ guard G_w false (EPow (EVar 0) x_lit) = true /\
    sem_equiv G_w (fst r) (upow [(0%Z, 1%Q)] 3) = true /\ sem_equiv G_w (fst r) (fst r') = true.
Proof. eexists. eexists. split; [vm_compute; reflexivity|]. split; [vm_compute; reflexivity|]. repeat split. Qed.

(* the hypotheses are satisfiable: Eval.pow_sem satisfies the power law, Rabs the Abs law *)
Lemma pow_sem_law : psem_law pow_sem.
Proof.
  intros s x q Hs. unfold pow_sem.
  destruct (Rlt_dec 0 x) as [Hx|Hx].
  - destruct (Rlt_dec 0 (s * x)) as [Hsx|Hsx]; [|exfalso; apply Hsx; apply Rmult_lt_0_compat; assumption].
    cbn. f_equal. symmetry. apply Rpower_mult_distr; assumption.
  - destruct (Rlt_dec 0 (s * x)) as [Hsx|Hsx].
    { exfalso. apply Hx. apply Rmult_lt_reg_l with s; [exact Hs|]. lra. }
    destruct (Req_EM_T (IZR (Int_part q)) q) as [Hq|Hq]; [|reflexivity].
    destruct (Req_EM_T x 0) as [->|Hx0].
    + rewrite Rmult_0_r. destruct (Req_EM_T 0 0) as [_|C]; [|contradiction].
      destruct (Rlt_dec 0 q); cbn; [f_equal; lra|].
      destruct (Req_EM_T q 0) as [->|]; cbn; [|reflexivity].
      f_equal. rewrite Rpower_O by exact Hs. lra.
    + destruct (Req_EM_T (s * x) 0) as [C|_].
      { exfalso. apply Hx0. apply Rmult_integral in C as [C|C]; lra. }
      cbn. f_equal. rewrite powerRZ_mult.
      rewrite (powerRZ_Rpower s) by exact Hs. rewrite Hq. reflexivity.
Qed.

Definition fsem_abs_only (f : Z) (l : list R) : option R :=
  match l with [x] => if (f =? fn_abs)%Z then Some (Rabs x) else None | _ => None end.

Lemma abs_law_sat : abs_law fsem_abs_only.
Proof.
  intros s x Hs. cbn. f_equal. rewrite Rabs_mult, (Rabs_pos_eq s) by lra. reflexivity.
Qed.
