(* Lemmas shared by C04P.v and C05P.v: SI scale of pint units, the two readings of a tree (numeric and
   SI), list helpers for Eval, unfolding of the nested fixes of Model/UnitCalc.v. *)
From Coq Require Import List ZArith QArith Qabs Bool Lia Reals Lra Qreals.
From Verif Require Import Sexp UnitAlg UnitAlgP Expr Eval EvalP UnitCalc.
Import ListNotations.
Open Scope R_scope.

(* ---- a weighted sum over a formal product depends only on [get] ------------------------------- *)
Fixpoint wsum (w : Z -> R) (n : uvec) : R :=
  match n with
  | [] => 0
  | je :: r => Q2R (snd je) * w (fst je) + wsum w r
  end.

Lemma sumK_zero K : sumK K (fun _ => 0) = 0.
Proof. induction K; cbn [sumK]; lra. Qed.

Lemma wsum_as_sum w a K : NoDup K -> (forall k, In k (keys a) -> In k K) ->
  wsum w a = sumK K (fun k => Q2R (get a k) * w k).
Proof.
  intros Hnd. induction a as [|[k0 e] a IH]; intros Hsub.
  - cbn [wsum]. rewrite (sumK_ext K _ (fun _ => 0)); [symmetry; apply sumK_zero|].
    intros k _. cbn [get]. unfold Q2R; cbn; lra.
  - cbn [wsum fst snd]. rewrite IH by (intros k Hk; apply Hsub; right; exact Hk).
    rewrite <- (sumK_single K k0 (Q2R e * w k0) Hnd) by (apply Hsub; left; reflexivity).
    rewrite <- sumK_plus. apply sumK_ext. intros k _. cbn [get].
    destruct (Z.eqb_spec k k0) as [->|Hne].
    + rewrite Q2R_plus. lra.
    + lra.
Qed.

Lemma wsum_ueq w a b : ueq a b -> wsum w a = wsum w b.
Proof.
  intros H.
  pose (K := nodup Z.eq_dec (keys a ++ keys b)).
  assert (Hnd : NoDup K) by apply NoDup_nodup.
  rewrite (wsum_as_sum w a K Hnd), (wsum_as_sum w b K Hnd).
  - apply sumK_ext. intros k _. rewrite (Qeq_eqR _ _ (H k)). reflexivity.
  - intros k Hk. apply nodup_In, in_or_app. right; exact Hk.
  - intros k Hk. apply nodup_In, in_or_app. left; exact Hk.
Qed.

Lemma wsum_app w a b : wsum w (a ++ b) = wsum w a + wsum w b.
Proof. induction a as [|je a IH]; cbn [wsum app]; [lra | rewrite IH; lra]. Qed.

Lemma wsum_upow w a q : wsum w (upow a q) = Q2R q * wsum w a.
Proof.
  induction a as [|[k e] a IH]; cbn [wsum upow map fst snd]; [lra|].
  fold (upow a q). rewrite IH, Q2R_mult. lra.
Qed.

(* ---- SI scale of a pint unit ------------------------------------------------------------------- *)
Section Scale.
  Variable G : env.
  Definition aw (j : Z) : R := lscale (atom_vec G j).
  Definition sc (n : nunit) : R := scaleR (expand G n).

  Lemma lscale_expand n : lscale (expand G n) = wsum aw n.
  Proof.
    induction n as [|[j e] n IH]; cbn [expand wsum fst snd]; [reflexivity|].
    rewrite lscale_app, lscale_upow, IH. reflexivity.
  Qed.

  Lemma sc_wsum n : sc n = exp (wsum aw n).
  Proof. unfold sc, scaleR. rewrite lscale_expand. reflexivity. Qed.

  Lemma sc_pos n : 0 < sc n.
  Proof. apply scaleR_pos. Qed.

  Lemma sc_ueq a b : ueq a b -> sc a = sc b.
  Proof. intros H. rewrite !sc_wsum, (wsum_ueq aw a b H). reflexivity. Qed.

  Lemma sc_nil : sc [] = 1.
  Proof. unfold sc; cbn [expand]. apply scaleR_uone. Qed.

  Lemma sc_umul a b : sc (umul a b) = sc a * sc b.
  Proof. rewrite !sc_wsum. unfold umul. rewrite wsum_app. apply exp_plus. Qed.

  Lemma sc_upow a q : sc (upow a q) = Rpower (sc a) (Q2R q).
  Proof. rewrite !sc_wsum, wsum_upow. unfold Rpower. rewrite ln_exp. reflexivity. Qed.

  Lemma sc_udiv a b : sc (udiv a b) = sc a / sc b.
  Proof.
    unfold udiv, uinv. rewrite sc_umul, sc_upow.
    replace (Q2R (-1 # 1)) with (Ropp 1) by (unfold Q2R; cbn; lra).
    rewrite Rpower_Ropp, Rpower_1 by apply sc_pos. reflexivity.
  Qed.

  Lemma sc_syn_dimless n : syn_dimless n = true -> sc n = 1.
  Proof.
    unfold syn_dimless. rewrite ueqb_spec. intros H. rewrite (sc_ueq _ _ H). apply sc_nil.
  Qed.

  Lemma sc_sem_equiv a b : sem_equiv G a b = true -> sc a = sc b.
  Proof.
    unfold sem_equiv. intros H. apply equivb_spec in H as [_ Hs]. unfold sc.
    rewrite <- (scaleR_scale (expand G a)), <- (scaleR_scale (expand G b)). apply scaleR_ueq. exact Hs.
  Qed.

  Lemma sc_equiv_one n : ueqb (expand G n) uone = true -> sc n = 1.
  Proof. rewrite ueqb_spec. intros H. unfold sc. rewrite (scaleR_ueq _ _ H). apply scaleR_uone. Qed.

  Lemma sc_scale_one n : is_one (scale (expand G n)) = true -> sc n = 1.
  Proof. intros H. unfold sc. rewrite <- scaleR_scale. apply is_one_scaleR. exact H. Qed.

  Lemma sc_conv a b c : conv (expand G a) (expand G b) = Some c -> scaleR c = sc a / sc b.
  Proof. apply conv_scaleR. Qed.
End Scale.

(* ---- values ---------------------------------------------------------------------------------------- *)
Definition scale_val (s : R) (v : value) : value :=
  match v with VR r => VR (s * r) | VB b => VB b end.

Lemma scale_val_1 v : scale_val 1 v = v.
Proof. destruct v; cbn; [f_equal; lra | reflexivity]. Qed.

Lemma omap_scale_val_1 (o : option value) : option_map (scale_val 1) o = o.
Proof. destruct o; cbn; [rewrite scale_val_1|]; reflexivity. Qed.

Lemma Reqb_scale s x y : 0 < s -> Reqb (s * x) (s * y) = Reqb x y.
Proof.
  intros Hs. unfold Reqb. destruct (Req_EM_T (s * x) (s * y)) as [E|E], (Req_EM_T x y) as [E'|E']; try reflexivity.
  - exfalso. apply E'. apply Rmult_eq_reg_l with s; lra.
  - exfalso. apply E. rewrite E'. reflexivity.
Qed.

Lemma Rltb_scale s x y : 0 < s -> Rltb (s * x) (s * y) = Rltb x y.
Proof.
  intros Hs. unfold Rltb. destruct (Rlt_dec (s * x) (s * y)) as [E|E], (Rlt_dec x y) as [E'|E']; try reflexivity.
  - exfalso. apply E'. apply Rmult_lt_reg_l with s; lra.
  - exfalso. apply E. apply Rmult_lt_compat_l; lra.
Qed.

Lemma Rleb_scale s x y : 0 < s -> Rleb (s * x) (s * y) = Rleb x y.
Proof.
  intros Hs. unfold Rleb. destruct (Rle_dec (s * x) (s * y)) as [E|E], (Rle_dec x y) as [E'|E']; try reflexivity.
  - exfalso. apply E'. apply Rmult_le_reg_l with s; lra.
  - exfalso. apply E. apply Rmult_le_compat_l; lra.
Qed.

Lemma rel_sem_scale r s x y : 0 < s -> rel_sem r (s * x) (s * y) = rel_sem r x y.
Proof.
  intros Hs. unfold rel_sem.
  rewrite !(Reqb_scale s) by exact Hs. rewrite !(Rltb_scale s) by exact Hs. rewrite !(Rleb_scale s) by exact Hs.
  reflexivity.
Qed.

(* ---- list helpers over an arbitrary evaluation function ------------------------------------------- *)
Section Lists.
  Variable ev : expr -> option value.

  Fixpoint oevals (l : list expr) : option (list value) :=
    match l with
    | [] => Some []
    | x :: r => match ev x, oevals r with Some v, Some vs => Some (v :: vs) | _, _ => None end
    end.

  Fixpoint oreals (l : list expr) : option (list R) :=
    match l with
    | [] => Some []
    | x :: r => match ev x, oreals r with Some (VR a), Some rs => Some (a :: rs) | _, _ => None end
    end.

  Fixpoint osum (l : list expr) : option R :=
    match l with
    | [] => Some 0
    | x :: r => match ev x, osum r with Some (VR a), Some p => Some (a + p) | _, _ => None end
    end.

  Fixpoint oprod (l : list expr) : option R :=
    match l with
    | [] => Some 1
    | x :: r => match ev x, oprod r with Some (VR a), Some p => Some (a * p) | _, _ => None end
    end.

  Fixpoint opw (l : list (expr * expr)) : option value :=
    match l with
    | [] => None
    | xc :: r => match ev (snd xc) with
                 | Some (VB true) => ev (fst xc)
                 | Some (VB false) => opw r
                 | _ => None
                 end
    end.

  Lemma oreals_oevals l : match oevals l with Some vs => reals vs | None => None end = oreals l.
  Proof.
    induction l as [|x r IH]; cbn [oevals oreals]; [reflexivity|].
    destruct (ev x) as [[a|b]|]; destruct (oevals r) as [vs|]; cbn [reals]; rewrite <- ?IH; try reflexivity;
      try (destruct (reals vs); reflexivity); try (destruct (oreals r); reflexivity).
  Qed.

  Lemma osum_oreals l : osum l = option_map (fold_right Rplus 0) (oreals l).
  Proof.
    induction l as [|x r IH]; cbn [osum oreals]; [reflexivity|].
    rewrite IH. destruct (ev x) as [[a|b]|]; try reflexivity. destruct (oreals r); reflexivity.
  Qed.

  Lemma oprod_oreals l : oprod l = option_map (fold_right Rmult 1) (oreals l).
  Proof.
    induction l as [|x r IH]; cbn [oprod oreals]; [reflexivity|].
    rewrite IH. destruct (ev x) as [[a|b]|]; try reflexivity. destruct (oreals r); reflexivity.
  Qed.
End Lists.

(* two evaluation functions related element-wise *)
Section Lists2.
  Variables evA evB : expr -> option value.

  Lemma oevals_same l l' : Forall2 (fun x x' => evA x = evB x') l l' -> oevals evA l = oevals evB l'.
  Proof. induction 1 as [|x x' r r' H _ IH]; cbn [oevals]; [reflexivity|]. rewrite H, IH. reflexivity. Qed.

  Lemma oreals_same l l' : Forall2 (fun x x' => evA x = evB x') l l' -> oreals evA l = oreals evB l'.
  Proof. induction 1 as [|x x' r r' H _ IH]; cbn [oreals]; [reflexivity|]. rewrite H, IH. reflexivity. Qed.

  Lemma osum_scaled s l l' :
    Forall2 (fun x x' => evA x = option_map (scale_val s) (evB x')) l l' ->
    osum evA l = option_map (Rmult s) (osum evB l').
  Proof.
    induction 1 as [|x x' r r' H _ IH]; cbn [osum]; [cbn; f_equal; lra|].
    rewrite H, IH. destruct (evB x') as [[a|b]|]; cbn; try reflexivity.
    destruct (osum evB r'); cbn; [f_equal; lra | reflexivity].
  Qed.

  Inductive Forall3s : list expr -> list expr -> list R -> Prop :=
  | F3nil : Forall3s [] [] []
  | F3cons x x' s r r' ss : evA x = option_map (scale_val s) (evB x') -> Forall3s r r' ss ->
                            Forall3s (x :: r) (x' :: r') (s :: ss).

  Lemma oprod_scaled l l' ss : Forall3s l l' ss ->
    oprod evA l = option_map (Rmult (fold_right Rmult 1 ss)) (oprod evB l').
  Proof.
    induction 1 as [|x x' s r r' ss H _ IH]; cbn [oprod fold_right]; [cbn; f_equal; lra|].
    rewrite H, IH. destruct (evB x') as [[a|b]|]; cbn; try reflexivity.
    destruct (oprod evB r'); cbn; [f_equal; lra | reflexivity].
  Qed.

  Lemma opw_scaled s l l' :
    Forall2 (fun xc xc' => evA (snd xc) = evB (snd xc') /\
                           evA (fst xc) = option_map (scale_val s) (evB (fst xc'))) l l' ->
    opw evA l = option_map (scale_val s) (opw evB l').
  Proof.
    induction 1 as [|xc xc' r r' [Hc Hx] _ IH]; cbn [opw]; [reflexivity|].
    rewrite Hc. destruct (evB (snd xc')) as [[a|[|]]|]; cbn; try reflexivity; assumption.
  Qed.
End Lists2.

Lemma Forall2_diag {X} (P : X -> X -> Prop) l : Forall (fun x => P x x) l -> Forall2 P l l.
Proof. induction 1; constructor; assumption. Qed.

(* ---- eval through the helpers ------------------------------------------------------------------------ *)
Section EvalH.
  Variable fsem : Z -> list R -> option R.
  Variable psem : R -> R -> option R.
  Variable csem : Z -> option R.
  Variable qsem : Z -> Q -> Z -> option R.
  Variable vsem : Z -> option R.
  Variable dsem : Z -> Z -> option R.
  Notation ev := (eval fsem psem csem qsem vsem dsem).

  Lemma evals_oevals l : evals fsem psem csem qsem vsem dsem l = oevals ev l.
  Proof. induction l as [|x r IH]; cbn [evals oevals]; [reflexivity|]. rewrite IH. reflexivity. Qed.

  Lemma evalpw_opw l : evalpw fsem psem csem qsem vsem dsem l = opw ev l.
  Proof.
    induction l as [|[x c] r IH]; cbn [evalpw opw fst snd]; [reflexivity|]. rewrite IH. reflexivity.
  Qed.

  Lemma ev_add l : ev (EAdd l) = option_map VR (osum ev l).
  Proof.
    rewrite eval_add, evals_oevals, osum_oreals, <- oreals_oevals.
    destruct (oevals ev l) as [vs|]; [|reflexivity]. destruct (reals vs); reflexivity.
  Qed.

  Lemma ev_mul l : ev (EMul l) = option_map VR (oprod ev l).
  Proof.
    rewrite eval_mul, evals_oevals, oprod_oreals, <- oreals_oevals.
    destruct (oevals ev l) as [vs|]; [|reflexivity]. destruct (reals vs); reflexivity.
  Qed.

  Lemma ev_fn f l : ev (EFn f l) =
    match oreals ev l with Some rs => option_map VR (fsem f rs) | None => None end.
  Proof.
    rewrite eval_fn, evals_oevals, <- oreals_oevals.
    destruct (oevals ev l) as [vs|]; reflexivity.
  Qed.

  Lemma ev_bool op l : ev (EBool op l) =
    match oevals ev l with
    | Some vs => match bools vs with Some bs => option_map VB (bool_sem op bs) | None => None end
    | None => None end.
  Proof. rewrite eval_bool, evals_oevals. reflexivity. Qed.

  Lemma ev_pw l : ev (EPw l) = opw ev l.
  Proof. rewrite eval_pw. apply evalpw_opw. Qed.

  Lemma ev_mul_real l b : ev (EMul l) <> Some (VB b).
  Proof. rewrite ev_mul. destruct (oprod ev l); cbn; congruence. Qed.
End EvalH.

(* ---- the two readings ----------------------------------------------------------------------------------- *)
(* value of a quantity node: a negative identity -d < -1 is a conversion quantity  q^(1/d) *)
Definition qval (id : Z) (q : Q) : R :=
  if (id <? -1)%Z then Rpower (Q2R q) (/ IZR (- id)) else Q2R q.

Section Readings.
  Variable G : env.
  Variable fsem : Z -> list R -> option R.
  Variable psem : R -> R -> option R.
  Variable csem : Z -> option R.
  Variable nu : Z -> option R.            (* value of every variable, in its own unit *)
  Variable delta : Z -> Z -> option R.    (* value of every derivative dy/dt, in unit(y)/unit(t) *)

  Definition qN (id : Z) (q : Q) (u : Z) : option R := Some (qval id q).
  Definition qSI (id : Z) (q : Q) (u : Z) : option R :=
    match lookup_unit G u with Some n => Some (sc G n * qval id q) | None => None end.
  Definition var_unit (v : Z) : option nunit :=
    match nthZ (vtab G) v with Some ui => lookup_unit G (fst ui) | None => None end.
  Definition vSI (v : Z) : option R :=
    match var_unit v with Some n => option_map (Rmult (sc G n)) (nu v) | None => None end.
  Definition dSI (y t : Z) : option R :=
    match var_unit y, var_unit t with
    | Some ny, Some nt => option_map (Rmult (sc G (udiv ny nt))) (delta y t)
    | _, _ => None
    end.

  Definition evalN : expr -> option value := eval fsem psem csem qN nu delta.
  Definition evalSI : expr -> option value := eval fsem psem csem qSI vSI dSI.
End Readings.

Lemma unit_of_var G v : unit_of G (EVar v) = var_unit G v.
Proof.
  unfold unit_of, var_unit. cbn [infer]. unfold infer_var.
  destruct (nthZ (vtab G) v) as [[u iv]|]; [|reflexivity]. cbn [fst].
  destruct (lookup_unit G u); reflexivity.
Qed.

(* ---- unfolding the nested fixes of infer / convert ---------------------------------------------------- *)
Section Unfold.
  Variable G : env.

  Lemma infer_add l : infer G (EAdd l) = bindr (infers G l) (infer_same G).
  Proof.
    cbn [infer].
    match goal with |- bindr (?f l) _ = _ => assert (H : f l = infers G l) end.
    { induction l as [|x r IH]; cbn [infers]; [reflexivity|]. rewrite IH. reflexivity. }
    rewrite H. reflexivity.
  Qed.

  Lemma infer_mul l : infer G (EMul l) = bindr (infers G l) infer_prod.
  Proof.
    cbn [infer].
    match goal with |- bindr (?f l) _ = _ => assert (H : f l = infers G l) end.
    { induction l as [|x r IH]; cbn [infers]; [reflexivity|]. rewrite IH. reflexivity. }
    rewrite H. reflexivity.
  Qed.

  Lemma infer_fn_eq f l : infer G (EFn f l) = bindr (infers G l) (infer_fn G f).
  Proof.
    cbn [infer].
    match goal with |- bindr (?g l) _ = _ => assert (H : g l = infers G l) end.
    { induction l as [|x r IH]; cbn [infers]; [reflexivity|]. rewrite IH. reflexivity. }
    rewrite H. reflexivity.
  Qed.

  Lemma infer_pw l : infer G (EPw l) = bindr (inferpw G l) (infer_same G).
  Proof.
    cbn [infer].
    match goal with |- bindr (?f l) _ = _ => assert (H : f l = inferpw G l) end.
    { induction l as [|x r IH]; cbn [inferpw]; [reflexivity|]. rewrite IH. reflexivity. }
    rewrite H. reflexivity.
  Qed.
End Unfold.

(* inversion of bindr *)
Lemma bindr_ok {X Y} (r : ures X) (f : X -> ures Y) y :
  bindr r f = UOk y -> exists x, r = UOk x /\ f x = UOk y.
Proof. destruct r; cbn; intros H; try discriminate. eexists; split; [reflexivity | exact H]. Qed.
