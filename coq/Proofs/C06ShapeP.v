(* C06: what convert_variable (Model/ConvertVar.v) does to the equation list, case by case ("shape" lemmas),
   and the bookkeeping facts (no-op, errors, initial values, ids). *)
From Coq Require Import List ZArith QArith Qpower Bool Lia.
From Verif Require Import Sexp UnitAlg UnitAlgP Expr ModelSM ConvertVar.
Import ListNotations.

(* the conversion factor is a positive rational *)
Lemma vec_to_Q_pos v q : (forall ke, In ke v -> (0 < fst ke)%Z) -> vec_to_Q v = Some q -> (0 < q)%Q.
Proof.
  revert q. induction v as [|[p e] r IH]; intros q Hpos H; cbn [vec_to_Q] in H.
  - injection H as <-. reflexivity.
  - destruct (vec_to_Q r) as [x|] eqn:Hr; [|discriminate].
    destruct (Z.eqb (Zpos (Qden (Qred e))) 1); [|discriminate]. injection H as <-.
    assert (Hx : (0 < x)%Q) by (apply IH; [intros ke Hin; apply Hpos; right; exact Hin|reflexivity]).
    assert (Hp : (0 < inject_Z p)%Q).
    { specialize (Hpos (p, e) (or_introl eq_refl)). cbn in Hpos. unfold Qlt, inject_Z. cbn. lia. }
    pose proof (Qpower_0_lt (inject_Z p) (Qnum (Qred e)) Hp) as Hpw.
    apply Qmult_lt_0_compat; assumption.
Qed.

Lemma scale_keys_pos a ke : In ke (scale a) -> (0 < fst ke)%Z.
Proof. unfold scale. intros H. apply filter_In in H as [_ H]. unfold is_scale in H. apply Z.ltb_lt in H. exact H. Qed.

Lemma conv_factor_pos a b c q : conv a b = Some c -> vec_to_Q c = Some q -> (0 < q)%Q.
Proof.
  intros Hc Hq. apply conv_some in Hc as [_ ->]. apply (vec_to_Q_pos (scale (udiv a b)) q); [|exact Hq].
  intros ke Hin. apply (scale_keys_pos (udiv a b) ke Hin).
Qed.

(* no replacement: the equation list is untouched *)
Lemma mentions_nil e : mentions_deriv [] e = false.
Proof.
  induction e as [k q|c|id q u|v|l IH|l IH|b e IHb IHe|f l IH|y t k IHy IHt|r a b IHa IHb|op l IH| | |l IH] using expr_ind';
    try reflexivity.
  - cbn [mentions_deriv]. induction IH as [|x r Hx _ IHr]; [reflexivity|]. rewrite Hx. exact IHr.
  - cbn [mentions_deriv]. induction IH as [|x r Hx _ IHr]; [reflexivity|]. rewrite Hx. exact IHr.
  - cbn [mentions_deriv]. rewrite IHb, IHe. reflexivity.
  - cbn [mentions_deriv]. induction IH as [|x r Hx _ IHr]; [reflexivity|]. rewrite Hx. exact IHr.
  - destruct y as [| | |vy| | | | | | | | | |]; try reflexivity. destruct t as [| | |vt| | | | | | | | | |]; reflexivity.
  - cbn [mentions_deriv]. rewrite IHa, IHb. reflexivity.
  - cbn [mentions_deriv]. induction IH as [|x r Hx _ IHr]; [reflexivity|]. rewrite Hx. exact IHr.
  - cbn [mentions_deriv]. induction IH as [|[x c] r [Hx Hc] _ IHr]; [reflexivity|]. cbn [fst snd] in Hx, Hc. rewrite Hx, Hc. exact IHr.
Qed.

Lemma replace_derivs_nil l : replace_derivs [] l = l.
Proof.
  unfold replace_derivs.
  assert (H : forall l0 acc, fold_left (fun acc q => if mentions_deriv [] (q_rhs q)
             then remove_eq acc (q_lhs q) ++ [{| q_lhs := q_lhs q; q_rhs := subst_deriv [] (q_rhs q) |}] else acc) l0 acc = acc).
  { induction l0 as [|q l0 IH]; intros acc; cbn [fold_left]; [reflexivity|]. rewrite mentions_nil. apply IH. }
  apply H.
Qed.

(* ---- bookkeeping --------------------------------------------------------------------------------------------- *)
Theorem convert_noop s v target d mv orig c :
  nth_error (cvars s) v = Some orig -> conv (c_unit orig) target = Some c -> is_one c = true ->
  convert_variable s v target d mv = COk (s, v).
Proof. intros Ho Hc H1. unfold convert_variable. rewrite Ho, Hc, H1. reflexivity. Qed.

Theorem convert_dimension_error s v target d mv orig :
  nth_error (cvars s) v = Some orig -> conv (c_unit orig) target = None ->
  convert_variable s v target d mv = CErr CDimension.
Proof. intros Ho Hc. unfold convert_variable. rewrite Ho, Hc. reflexivity. Qed.

Lemma nth_set_var_new (l : list cvar) x v f : (v < length l)%nat -> nth_error (set_var (l ++ [x]) v f) (length l) = Some x.
Proof.
  intros Hlt. unfold set_var. rewrite nth_error_app1 by exact Hlt.
  destruct (nth_error l v) as [c|] eqn:Hc; [|apply nth_error_Some in Hlt; congruence].
  generalize (f c). intros y. clear Hc. revert v Hlt. induction l as [|z l IH]; intros [|v] Hlt; cbn [length] in Hlt; try lia;
    cbn [app ModelSM.set_nth length nth_error].
  - clear. induction l as [|w l IH]; [reflexivity|exact IH].
  - apply IH. lia.
Qed.

(* OUTPUT *)
Theorem convert_output_shape s v target mv s' n :
  convert_variable s v target DOutput mv = COk (s', n) ->
  (s' = s /\ n = v) \/
  exists orig cfv cfq,
    nth_error (cvars s) v = Some orig /\ conv (c_unit orig) target = Some cfv /\ is_one cfv = false /\
    vec_to_Q cfv = Some cfq /\ (0 < cfq)%Q /\ n = length (cvars s) /\
    ceqs s' = ceqs s ++ [{| q_lhs := CLV n; q_rhs := emul (var v) (EQty (cqnext s) cfq (Z.of_nat (length (cunits s)))) |}] /\
    (* the new variable: target unit, no initial value, the id iff it moved *)
    exists newv, nth_error (cvars s') n = Some newv /\ c_unit newv = target /\ c_init newv = None /\
      c_cmeta newv = (if (match c_cmeta orig with Some _ => mv | None => false end) then c_cmeta orig else None).
Proof.
  unfold convert_variable. destruct (nth_error (cvars s) v) as [orig|] eqn:Ho; [|discriminate].
  destruct (conv (c_unit orig) target) as [cfv|] eqn:Hc; [|discriminate].
  destruct (is_one cfv) eqn:H1; [intros [= <- <-]; left; split; reflexivity|].
  destruct (vec_to_Q cfv) as [cfq|] eqn:Hq; [|discriminate].
  intros [= <- <-]. right. exists orig, cfv, cfq. cbn [cvars ceqs cunits cqnext].
  do 7 (split; [first [reflexivity | assumption | apply (conv_factor_pos _ _ _ _ Hc Hq)] |]).
  match goal with |- exists newv, nth_error (if ?b then set_var (?l ++ [?x]) v ?f else ?l ++ [?x]) _ = _ /\ _ => exists x; destruct b end.
  - split; [apply nth_set_var_new; apply nth_error_Some; congruence|]. repeat split.
  - split; [rewrite nth_error_app2 by lia; rewrite Nat.sub_diag; reflexivity|]. repeat split.
Qed.

(* INPUT of a variable that is neither a state nor the free variable *)
Theorem convert_input_plain_shape s v target mv s' n :
  convert_variable s v target DInput mv = COk (s', n) ->
  is_state s v = false -> (forall t, free_var s = Some t -> t <> v) ->
  (s' = s /\ n = v) \/
  exists orig cfv cfq,
    nth_error (cvars s) v = Some orig /\ conv (c_unit orig) target = Some cfv /\ is_one cfv = false /\
    vec_to_Q cfv = Some cfq /\ (0 < cfq)%Q /\ n = length (cvars s) /\
    let cf := EQty (cqnext s) cfq (Z.of_nat (length (cunits s))) in
    ceqs s' = match find (fun q => clhs_eqb (q_lhs q) (CLV v)) (ceqs s) with
              | Some q => (remove_eq (ceqs s) (CLV v) ++ [{| q_lhs := CLV n; q_rhs := emul (q_rhs q) cf |}])
                          ++ [{| q_lhs := CLV v; q_rhs := ediv (var n) cf |}]
              | None => ceqs s ++ [{| q_lhs := CLV v; q_rhs := ediv (var n) cf |}]
              end.
Proof.
  intros H Hst Hfree. unfold convert_variable in H. destruct (nth_error (cvars s) v) as [orig|] eqn:Ho; [|discriminate].
  destruct (conv (c_unit orig) target) as [cfv|] eqn:Hc; [|discriminate].
  destruct (is_one cfv) eqn:H1; [injection H as <- <-; left; split; reflexivity|].
  destruct (vec_to_Q cfv) as [cfq|] eqn:Hq; [|discriminate].
  right. exists orig, cfv, cfq.
  rewrite Hst in H.
  assert (Hfv : match free_var s with Some t => Nat.eqb t v | None => false end = false).
  { destruct (free_var s) as [t|] eqn:Hf; [|reflexivity]. apply Nat.eqb_neq. apply Hfree. reflexivity. }
  destruct (free_var s) as [t|] eqn:Hf; [rewrite Hfv in H|];
    injection H as <- <-; cbn [cvars ceqs cunits cqnext]; rewrite replace_derivs_nil;
    (repeat split; try reflexivity; try assumption; [apply (conv_factor_pos _ _ _ _ Hc Hq)|]);
    unfold var_def; cbn [ceqs]; destruct (find (fun q => clhs_eqb (q_lhs q) (CLV v)) (ceqs s)); reflexivity.
Qed.

(* INPUT of a state variable that is not the free variable and has no assignment of its own *)
Lemma find_app_some {X} (f : X -> bool) l r x : find f l = Some x -> find f (l ++ r) = Some x.
Proof. induction l as [|y l IH]; cbn [find app]; [discriminate|]. destruct (f y); [auto|exact IH]. Qed.

Lemma set_var_length l i f : length (set_var l i f) = length l.
Proof.
  unfold set_var. destruct (nth_error l i) as [c|]; [|reflexivity].
  generalize (f c). intros y. revert i. induction l as [|z l IH]; intros [|i]; cbn; try reflexivity. f_equal. apply IH.
Qed.

Lemma ode_def_exact s v ode t : ode_def s v = Some ode -> q_lhs ode = CLD v t ->
  find (fun q => clhs_eqb (q_lhs q) (CLD v t)) (ceqs s) = Some ode.
Proof.
  unfold ode_def. induction (ceqs s) as [|x l IH]; cbn [find]; [discriminate|].
  destruct (q_lhs x) as [y|y t'] eqn:El.
  - cbn [clhs_eqb]. exact IH.
  - destruct (Nat.eqb_spec y v) as [->|Hne].
    + intros [= ->] Hl. rewrite El in Hl. injection Hl as ->. cbn [clhs_eqb]. rewrite !Nat.eqb_refl. reflexivity.
    + intros H Hl. cbn [clhs_eqb]. destruct (Nat.eqb_spec y v); [contradiction|]. cbn [andb]. apply IH; assumption.
Qed.

Theorem convert_input_state_shape s v target mv s' n ode t :
  convert_variable s v target DInput mv = COk (s', n) -> n <> v ->
  ode_def s v = Some ode -> q_lhs ode = CLD v t ->
  var_def s v = None -> (forall t0, free_var s = Some t0 -> t0 <> v) ->
  exists orig cfv cfq,
    nth_error (cvars s) v = Some orig /\ conv (c_unit orig) target = Some cfv /\
    vec_to_Q cfv = Some cfq /\ (0 < cfq)%Q /\ n = length (cvars s) /\
    ceqs s' = replace_derivs [((v, t), S n)]
                ((remove_eq (ceqs s ++ [{| q_lhs := CLV v; q_rhs := ediv (var n) (EQty (cqnext s) cfq (Z.of_nat (length (cunits s)))) |}]) (CLD v t)
                  ++ [{| q_lhs := CLV (S n); q_rhs := q_rhs ode |}])
                 ++ [{| q_lhs := CLD n t; q_rhs := emul (var (S n)) (EQty (cqnext s) cfq (Z.of_nat (length (cunits s)))) |}]).
Proof.
  intros H Hnv Hode Hl Hvd Hfree. unfold convert_variable in H.
  destruct (nth_error (cvars s) v) as [orig|] eqn:Ho; [|discriminate].
  destruct (conv (c_unit orig) target) as [cfv|] eqn:Hc; [|discriminate].
  destruct (is_one cfv) eqn:H1; [injection H as _ E; congruence|].
  destruct (vec_to_Q cfv) as [cfq|] eqn:Hq; [|discriminate].
  exists orig, cfv, cfq.
  assert (Hst : is_state s v = true) by (unfold is_state; rewrite Hode; reflexivity).
  rewrite Hst in H.
  (* the assignment of v: none *)
  unfold var_def in Hvd, H. cbn [ceqs] in H. rewrite Hvd in H.
  (* the ODE is found again after the new assignment was appended *)
  match type of H with context [ode_def ?S v] => assert (Ho1 : ode_def S v = Some ode) end.
  { unfold ode_def in *. cbn [ceqs]. apply find_app_some. exact Hode. }
  rewrite Ho1, Hl in H. cbn [move_ode_rhs cvars ceqs cunits cqnext] in H.
  assert (Hfv : match free_var s with Some t0 => Nat.eqb t0 v | None => false end = false).
  { destruct (free_var s) as [t0|] eqn:Hf; [|reflexivity]. apply Nat.eqb_neq. apply Hfree. reflexivity. }
  unfold move_ode_rhs in H. cbn [cvars ceqs cunits cqnext] in H.
  destruct (match c_cmeta orig with Some _ => mv | None => false end);
  (destruct (free_var s) as [t0|] eqn:Hf; [rewrite Hfv in H|]; injection H as <- <-; cbn [ceqs];
    rewrite ?set_var_length, ?app_length; cbn [length]; rewrite ?set_var_length, ?app_length; cbn [length];
    rewrite !Nat.add_1_r, Hl;
    (repeat split; try reflexivity; try assumption; apply (conv_factor_pos _ _ _ _ Hc Hq))).
Qed.
