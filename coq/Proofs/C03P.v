(* C03: units definitions mean what the CellML specification says, in any order.
   Lemmas about Model/UnitsLoader.v, Gen/Prefixes_gen.v, Gen/Builtins_gen.v. *)
From Coq Require Import String.
From Coq Require Import List ZArith QArith Bool Lia ZifyBool Reals Lra Qreals Permutation.
From Verif Require Import Sexp UnitAlg UnitAlgP UStore Builtins_gen Builtins Prefixes_gen UnitsLoader.
Import ListNotations.
Open Scope Z_scope.

(* ------------------------------------------------------------------------------------------ *)
(* names *)
Lemma name_eqb_eq a b : name_eqb a b = true <-> a = b.
Proof.
  revert b. induction a as [|x a IH]; intros [|y b]; cbn [name_eqb]; split; intros H;
    try reflexivity; try discriminate.
  - apply andb_true_iff in H as [H1 H2]. apply Z.eqb_eq in H1. apply IH in H2. congruence.
  - injection H as -> ->. rewrite Z.eqb_refl. cbn. apply IH. reflexivity.
Qed.

Lemma name_eqb_refl a : name_eqb a a = true.
Proof. apply name_eqb_eq. reflexivity. Qed.

Lemma name_eqb_neq a b : name_eqb a b = false <-> a <> b.
Proof.
  split.
  - intros H E. apply name_eqb_eq in E. congruence.
  - intros H. destruct (name_eqb a b) eqn:E; [|reflexivity]. apply name_eqb_eq in E. contradiction.
Qed.

Lemma name_eqb_sym a b : name_eqb a b = name_eqb b a.
Proof.
  destruct (name_eqb a b) eqn:E1, (name_eqb b a) eqn:E2; try reflexivity.
  - apply name_eqb_eq in E1. subst. rewrite name_eqb_refl in E2. discriminate.
  - apply name_eqb_eq in E2. subst. rewrite name_eqb_refl in E1. discriminate.
Qed.

Lemma name_in_In n l : name_in n l = true <-> In n l.
Proof.
  unfold name_in. rewrite existsb_exists. split.
  - intros [x [Hin H]]. apply name_eqb_eq in H. subst. exact Hin.
  - intros H. exists n. split; [exact H|apply name_eqb_refl].
Qed.

Lemma name_in_false n l : name_in n l = false <-> ~ In n l.
Proof.
  split.
  - intros H Hin. apply name_in_In in Hin. congruence.
  - intros H. destruct (name_in n l) eqn:E; [|reflexivity]. apply name_in_In in E. contradiction.
Qed.

Lemma name_in_cons n m l : name_in n (m :: l) = name_eqb n m || name_in n l.
Proof. reflexivity. Qed.

Lemma nlookup_In {X} (l : list (name * X)) n x : nlookup l n = Some x -> In (n, x) l.
Proof.
  induction l as [|[n' x'] l IH]; cbn [nlookup]; [discriminate|].
  destruct (name_eqb n n') eqn:E.
  - intros [= ->]. apply name_eqb_eq in E. subst. left; reflexivity.
  - intros H. right. apply IH. exact H.
Qed.

Lemma nlookup_None {X} (l : list (name * X)) n : nlookup l n = None <-> ~ In n (map fst l).
Proof.
  induction l as [|[n' x'] l IH]; cbn [nlookup map fst In].
  - split; [intros _ []|reflexivity].
  - destruct (name_eqb n n') eqn:E.
    + apply name_eqb_eq in E. subst. split; [discriminate|]. intros H. exfalso. apply H. left; reflexivity.
    + apply name_eqb_neq in E. rewrite IH. split.
      * intros H [H1|H1]; [congruence|contradiction].
      * intros H H1. apply H. right; exact H1.
Qed.

(* ------------------------------------------------------------------------------------------ *)
(* (a) the prefix table *)
Open Scope string_scope.
(* SI prefixes: CellML 1.1 section 5.2.2 table 3 (the 20 names of the schema) and the spelling "deca"
   the code also accepts. *)
Definition si_prefix_exponents : list (name * Z) :=
  [(N "yotta", 24); (N "zetta", 21); (N "exa", 18); (N "peta", 15); (N "tera", 12); (N "giga", 9);
   (N "mega", 6); (N "kilo", 3); (N "hecto", 2); (N "deka", 1); (N "deca", 1);
   (N "deci", -1); (N "centi", -2); (N "milli", -3); (N "micro", -6); (N "nano", -9); (N "pico", -12);
   (N "femto", -15); (N "atto", -18); (N "zepto", -21); (N "yocto", -24)]%Z.

Definition schema_prefix_names : list name :=
  [N "yotta"; N "zetta"; N "exa"; N "peta"; N "tera"; N "giga"; N "mega"; N "kilo"; N "hecto"; N "deka";
   N "deci"; N "centi"; N "milli"; N "micro"; N "nano"; N "pico"; N "femto"; N "atto"; N "zepto"; N "yocto"].
Definition name_deca : name := N "deca".
Definition name_deka : name := N "deka".
Close Scope string_scope.

(* "table P is the SI table": on EVERY name the two tables agree *)
Definition prefix_table_is_si (P : list (name * Q)) : Prop :=
  forall n, match nlookup si_prefix_exponents n with
            | Some k => exists q, nlookup P n = Some q /\ (q == pow10 k)%Q
            | None => nlookup P n = None
            end.

Definition prefix_table_check (P : list (name * Q)) : bool :=
  forallb (fun nk => match nlookup P (fst nk) with
                     | Some q => Qeq_bool q (pow10 (snd nk))
                     | None => false
                     end) si_prefix_exponents
  && forallb (fun nq => name_in (fst nq) (map fst si_prefix_exponents)) P.

Lemma prefix_table_check_sound P : prefix_table_check P = true -> prefix_table_is_si P.
Proof.
  unfold prefix_table_check. rewrite andb_true_iff, !forallb_forall. intros [H1 H2] n.
  destruct (nlookup si_prefix_exponents n) as [k|] eqn:E.
  - apply nlookup_In in E. specialize (H1 _ E). cbn [fst snd] in H1.
    destruct (nlookup P n) as [q|]; [|discriminate]. exists q. split; [reflexivity|].
    apply Qeq_bool_iff. exact H1.
  - rewrite nlookup_None in E. apply nlookup_None. intros Hin. apply E.
    apply in_map_iff in Hin as [[n' q] [Hn Hin]]. cbn in Hn. subst n'.
    specialize (H2 _ Hin). cbn [fst] in H2. apply name_in_In. exact H2.
Qed.

Lemma prefix_table_ok : prefix_table_is_si unit_prefixes.
Proof. apply prefix_table_check_sound. vm_compute. reflexivity. Qed.

Lemma schema_prefixes_covered :
  forall n, In n schema_prefix_names ->
  exists k q, nlookup si_prefix_exponents n = Some k /\ nlookup unit_prefixes n = Some q /\ (q == pow10 k)%Q.
Proof.
  intros n Hin. pose proof (prefix_table_ok n) as H.
  assert (Hc : forallb (fun m => match nlookup si_prefix_exponents m with Some _ => true | None => false end)
                       schema_prefix_names = true) by (vm_compute; reflexivity).
  rewrite forallb_forall in Hc. specialize (Hc _ Hin).
  destruct (nlookup si_prefix_exponents n) as [k|]; [|discriminate].
  destruct H as [q [H1 H2]]. exists k, q. auto.
Qed.

Lemma prefix_table_statement :
  prefix_table_is_si unit_prefixes /\
  (forall n, In n schema_prefix_names ->
     exists k q, nlookup si_prefix_exponents n = Some k /\ nlookup unit_prefixes n = Some q /\ (q == pow10 k)%Q) /\
  nlookup unit_prefixes name_deca = nlookup unit_prefixes name_deka.
Proof.
  split; [exact prefix_table_ok|]. split; [exact schema_prefixes_covered|]. vm_compute. reflexivity.
Qed.

(* ------------------------------------------------------------------------------------------ *)
(* (b) the built-in table: CellML 1.1 section 5.2.1 table 2.
   entry = (power of ten of the SI scale, exponents of metre kilogram second ampere kelvin mole candela) *)
Open Scope string_scope.
Definition si_units : list (name * (Z * list Z)) :=
  [(N "ampere",        (0,  [0; 0; 0; 1; 0; 0; 0]));
   (N "becquerel",     (0,  [0; 0; -1; 0; 0; 0; 0]));
   (N "candela",       (0,  [0; 0; 0; 0; 0; 0; 1]));
   (N "coulomb",       (0,  [0; 0; 1; 1; 0; 0; 0]));
   (N "dimensionless", (0,  [0; 0; 0; 0; 0; 0; 0]));
   (N "farad",         (0,  [-2; -1; 4; 2; 0; 0; 0]));
   (N "gram",          (-3, [0; 1; 0; 0; 0; 0; 0]));
   (N "gray",          (0,  [2; 0; -2; 0; 0; 0; 0]));
   (N "henry",         (0,  [2; 1; -2; -2; 0; 0; 0]));
   (N "hertz",         (0,  [0; 0; -1; 0; 0; 0; 0]));
   (N "joule",         (0,  [2; 1; -2; 0; 0; 0; 0]));
   (N "katal",         (0,  [0; 0; -1; 0; 0; 1; 0]));
   (N "kelvin",        (0,  [0; 0; 0; 0; 1; 0; 0]));
   (N "kilogram",      (0,  [0; 1; 0; 0; 0; 0; 0]));
   (N "liter",         (-3, [3; 0; 0; 0; 0; 0; 0]));
   (N "litre",         (-3, [3; 0; 0; 0; 0; 0; 0]));
   (N "lumen",         (0,  [0; 0; 0; 0; 0; 0; 1]));
   (N "lux",           (0,  [-2; 0; 0; 0; 0; 0; 1]));
   (N "meter",         (0,  [1; 0; 0; 0; 0; 0; 0]));
   (N "metre",         (0,  [1; 0; 0; 0; 0; 0; 0]));
   (N "mole",          (0,  [0; 0; 0; 0; 0; 1; 0]));
   (N "newton",        (0,  [1; 1; -2; 0; 0; 0; 0]));
   (N "ohm",           (0,  [2; 1; -3; -2; 0; 0; 0]));
   (N "pascal",        (0,  [-1; 1; -2; 0; 0; 0; 0]));
   (N "radian",        (0,  [0; 0; 0; 0; 0; 0; 0]));
   (N "second",        (0,  [0; 0; 1; 0; 0; 0; 0]));
   (N "siemens",       (0,  [-2; -1; 3; 2; 0; 0; 0]));
   (N "sievert",       (0,  [2; 0; -2; 0; 0; 0; 0]));
   (N "steradian",     (0,  [0; 0; 0; 0; 0; 0; 0]));
   (N "tesla",         (0,  [0; 1; -2; -1; 0; 0; 0]));
   (N "volt",          (0,  [2; 1; -3; -1; 0; 0; 0]));
   (N "watt",          (0,  [2; 1; -3; 0; 0; 0; 0]));
   (N "weber",         (0,  [2; 1; -2; -1; 0; 0; 0]))]%Z.
Close Scope string_scope.

Fixpoint dim_vec (g : Z) (es : list Z) : uvec :=
  match es with
  | [] => []
  | e :: r => (g, inject_Z e) :: dim_vec (g - 1) r
  end.

(* 10^p x m^e1 kg^e2 s^e3 A^e4 K^e5 mol^e6 cd^e7 *)
Definition si_vec (sp : Z * list Z) : uvec :=
  [(2, inject_Z (fst sp)); (5, inject_Z (fst sp))] ++ dim_vec (-1) (snd sp).

Definition builtin_entry_ok (B : list (name * uvec)) (n : name) : Prop :=
  exists sp v, nlookup si_units n = Some sp /\ nlookup B n = Some v /\
               ueq (dims v) (dims (si_vec sp)) /\ ueq (scale v) (scale (si_vec sp)).

Definition builtin_entry_check (B : list (name * uvec)) (n : name) : bool :=
  match nlookup si_units n, nlookup B n with
  | Some sp, Some v => ueqb (dims v) (dims (si_vec sp)) && ueqb (scale v) (scale (si_vec sp))
  | _, _ => false
  end.

Lemma builtin_entry_check_sound B n : builtin_entry_check B n = true -> builtin_entry_ok B n.
Proof.
  unfold builtin_entry_check, builtin_entry_ok.
  destruct (nlookup si_units n) as [sp|]; [|discriminate].
  destruct (nlookup B n) as [v|]; [|discriminate].
  rewrite andb_true_iff, !ueqb_spec. intros [H1 H2]. exists sp, v. auto.
Qed.

Lemma builtin_table_ok :
  (forall n, name_in n cellml_units = true -> builtin_entry_ok builtin_table n) /\
  (forall n, In n (map fst si_units) -> name_in n cellml_units = true).
Proof.
  split.
  - intros n Hn. apply builtin_entry_check_sound. apply name_in_In in Hn.
    assert (H : forallb (builtin_entry_check builtin_table) cellml_units = true) by (vm_compute; reflexivity).
    rewrite forallb_forall in H. apply H. exact Hn.
  - intros n Hn.
    assert (H : forallb (fun m => name_in m cellml_units) (map fst si_units) = true) by (vm_compute; reflexivity).
    rewrite forallb_forall in H. apply H. exact Hn.
Qed.

(* the SI scale of a built-in unit, read in the reals, is the power of ten of the table *)
Lemma builtin_scaleR n sp v :
  nlookup si_units n = Some sp -> nlookup builtin_table n = Some v -> name_in n cellml_units = true ->
  scaleR v = scaleR (si_vec sp).
Proof.
  intros Hs Hv Hn. destruct (proj1 builtin_table_ok n Hn) as [sp' [v' [H1 [H2 [_ H4]]]]].
  rewrite Hs in H1. injection H1 as <-. rewrite Hv in H2. injection H2 as <-.
  rewrite <- (scaleR_scale v), <- (scaleR_scale (si_vec sp)). apply scaleR_ueq. exact H4.
Qed.

(* ------------------------------------------------------------------------------------------ *)
(* positive rationals as prime-exponent vectors: factorQ q denotes q *)
Section FactorQ.
Open Scope R_scope.

Lemma Q2R_inject_Z k : Q2R (inject_Z k) = IZR k.
Proof. unfold Q2R, inject_Z; cbn. rewrite Rinv_1. lra. Qed.

Lemma exp_ln_pow x n : 0 < x -> exp (INR n * ln x) = x ^ n.
Proof.
  intros Hx. induction n as [|n IH].
  - cbn. rewrite Rmult_0_l. apply exp_0.
  - rewrite S_INR, Rmult_plus_distr_r, exp_plus, IH, Rmult_1_l, exp_ln by exact Hx. cbn. lra.
Qed.

Lemma exp_ln_Zpow p k : (0 < p)%Z -> (0 <= k)%Z -> exp (IZR k * ln (IZR p)) = IZR (p ^ k).
Proof.
  intros Hp Hk. rewrite <- (Z2Nat.id k Hk) at 1 2. rewrite <- INR_IZR_INZ.
  rewrite exp_ln_pow by (apply IZR_lt; exact Hp). rewrite pow_IZR. reflexivity.
Qed.

Lemma divcount_spec fuel : forall n p, (1 < p)%Z -> (0 < n)%Z ->
  (n = p ^ fst (divcount fuel n p) * snd (divcount fuel n p) /\
   0 <= fst (divcount fuel n p) /\ 0 < snd (divcount fuel n p))%Z.
Proof.
  induction fuel as [|f IH]; intros n p Hp Hn; cbn [divcount].
  - cbn [fst snd]. rewrite Z.pow_0_r. lia.
  - destruct ((1 <? n)%Z && (n mod p =? 0)%Z) eqn:E.
    + apply andb_true_iff in E as [E1 E2]. apply Z.eqb_eq in E2.
      assert (Hd : (n = p * (n / p))%Z) by (apply Z_div_exact_2; lia).
      assert (Hq : (0 < n / p)%Z) by nia.
      destruct (IH (n / p)%Z p Hp Hq) as [H1 [H2 H3]].
      cbn [fst snd]. split; [|split; [lia|exact H3]].
      rewrite Z.pow_add_r by lia. rewrite Z.pow_1_r.
      rewrite Hd at 1. rewrite H1 at 1. ring.
    + cbn [fst snd]. rewrite Z.pow_0_r. lia.
Qed.

Definition zvec (l : list (Z * Z)) : uvec := map (fun pc => (fst pc, inject_Z (snd pc))) l.
Definition zvec_neg (l : list (Z * Z)) : uvec := map (fun pc => (fst pc, inject_Z (- snd pc))) l.

Lemma factorZ_spec ps : forall n, Forall (fun p => (1 < p)%Z) ps -> (0 < n)%Z ->
  IZR n = scaleR (zvec (fst (factorZ ps n))) * IZR (snd (factorZ ps n)) /\ (0 < snd (factorZ ps n))%Z /\
  Forall (fun pc => In (fst pc) ps /\ (0 <= snd pc)%Z) (fst (factorZ ps n)).
Proof.
  induction ps as [|p ps IH]; intros n Hps Hn; cbn [factorZ].
  - cbn [fst snd zvec map]. pose proof scaleR_uone as U. unfold uone in U. rewrite U. split; [lra|]. split; [exact Hn|constructor].
  - inversion Hps as [|? ? Hp Hps']; subst.
    set (cr := divcount (S (Z.to_nat (Z.log2 n))) n p).
    destruct (divcount_spec (S (Z.to_nat (Z.log2 n))) n p Hp Hn) as [H1 [H2 H3]]. fold cr in H1, H2, H3.
    destruct (IH (snd cr) Hps' H3) as [G1 [G2 G3]].
    assert (G3' : Forall (fun pc => In (fst pc) (p :: ps) /\ (0 <= snd pc)%Z) (fst (factorZ ps (snd cr)))).
    { eapply Forall_impl; [|exact G3]. cbn. intros a [Ha Hb]. split; [right; exact Ha|exact Hb]. }
    cbn [fst snd]. split; [|split; [exact G2|]].
    + rewrite H1 at 1. rewrite mult_IZR, G1.
      destruct (Z.eqb_spec (fst cr) 0) as [E|E].
      * rewrite E, Z.pow_0_r. lra.
      * cbn [zvec map fst snd]. fold (zvec (fst (factorZ ps (snd cr)))).
        unfold scaleR at 2. cbn [lscale]. rewrite exp_plus. fold (scaleR (zvec (fst (factorZ ps (snd cr))))).
        unfold lterm; cbn [fst snd].
        assert (Hs : is_scale p = true) by (unfold is_scale; lia). rewrite Hs.
        rewrite Q2R_inject_Z, exp_ln_Zpow by lia. lra.
    + destruct (Z.eqb_spec (fst cr) 0) as [E|E]; [exact G3'|].
      constructor; [|exact G3']. cbn [fst snd]. split; [left; reflexivity|exact H2].
Qed.

Lemma scaleR_zvec_neg l : scaleR (zvec_neg l) = / scaleR (zvec l).
Proof.
  unfold scaleR. rewrite <- exp_Ropp. f_equal.
  induction l as [|[p k] l IH]; cbn [zvec zvec_neg map lscale fst snd]; [lra|].
  fold (zvec l) (zvec_neg l). rewrite IH. unfold lterm; cbn [fst snd].
  destruct (is_scale p); [|lra]. rewrite !Q2R_inject_Z, opp_IZR. lra.
Qed.

Lemma small_primes_gt1 : Forall (fun p => (1 < p)%Z) small_primes.
Proof. unfold small_primes. repeat constructor. Qed.

Lemma factorQ_scaleR q v : factorQ q = Some v -> scaleR v = Q2R q.
Proof.
  unfold factorQ. destruct (Z.leb_spec (Qnum q) 0) as [|Hn]; [discriminate|].
  pose proof (factorZ_spec small_primes (Qnum q) small_primes_gt1 Hn) as A.
  pose proof (factorZ_spec small_primes (Zpos (Qden q)) small_primes_gt1 (Pos2Z.is_pos _)) as B.
  revert A B. generalize (factorZ small_primes (Qnum q)) (factorZ small_primes (Zpos (Qden q))).
  intros fa fb [A1 _] [B1 _].
  destruct ((snd fa =? 1)%Z && (snd fb =? 1)%Z) eqn:E; [|discriminate].
  apply andb_true_iff in E as [E1 E2]. apply Z.eqb_eq in E1, E2. rewrite E1 in A1. rewrite E2 in B1.
  intros [= <-]. fold (zvec (fst fa)). fold (zvec_neg (fst fb)).
  pose proof (scaleR_umul (zvec (fst fa)) (zvec_neg (fst fb))) as U. unfold umul in U. rewrite U.
  rewrite scaleR_zvec_neg. unfold Q2R. rewrite Rmult_1_r in A1, B1. rewrite A1, B1. reflexivity.
Qed.

Lemma factorQ_keys_pos q v : factorQ q = Some v -> Forall (fun ke => (0 < fst ke)%Z) v.
Proof.
  unfold factorQ. destruct (Z.leb_spec (Qnum q) 0) as [|Hn]; [discriminate|].
  pose proof (factorZ_spec small_primes (Qnum q) small_primes_gt1 Hn) as A.
  pose proof (factorZ_spec small_primes (Zpos (Qden q)) small_primes_gt1 (Pos2Z.is_pos _)) as B.
  revert A B. generalize (factorZ small_primes (Qnum q)) (factorZ small_primes (Zpos (Qden q))).
  intros fa fb [_ [_ A3]] [_ [_ B3]].
  destruct (_ && _); [|discriminate]. intros [= <-].
  pose proof small_primes_gt1 as Hsp. rewrite Forall_forall in Hsp, A3, B3.
  apply Forall_app. split; apply Forall_forall; intros ke Hin; apply in_map_iff in Hin as [pc [<- Hin]]; cbn [fst].
  - specialize (A3 _ Hin) as [A3 _]. specialize (Hsp _ A3). lia.
  - specialize (B3 _ Hin) as [B3 _]. specialize (Hsp _ B3). lia.
Qed.

Lemma get_keys_pos v k : Forall (fun ke => (0 < fst ke)%Z) v -> (k <= 0)%Z -> get v k = 0%Q.
Proof.
  intros H Hk. apply get_notin. intros Hin. apply in_map_iff in Hin as [ke [<- Hin]].
  rewrite Forall_forall in H. specialize (H _ Hin). lia.
Qed.

End FactorQ.

(* ------------------------------------------------------------------------------------------ *)
(* (c) the work-list never runs out of fuel *)
Section Fuel.
Variable T : tables.
Variable P : list (name * Q).

Lemma tri_gt n : (n < tri n)%nat.
Proof. induction n as [|n IH]; cbn [tri]; lia. Qed.

Lemma loop_fuel : forall fuel st q it,
  (it <= length q)%nat -> (tri (length q) - it < fuel)%nat -> loop T P fuel st q it <> LOutOfFuel.
Proof.
  induction fuel as [|f IH]; intros st q it Hit Hf; [lia|].
  cbn [loop]. destruct q as [|d q']; [discriminate|].
  destruct (refs_found (lfound st) d).
  - destruct (make_definition P (d_children d)) as [e|x]; [|discriminate].
    destruct (is_defined (lw st) (d_name d)); [discriminate|].
    destruct (add_unit T (lw st) 0 (d_name d) e) as [w'|x]; [|discriminate].
    destruct (has_ref e); [|discriminate].
    apply IH; [lia|]. cbn [length tri] in Hf. cbn [length] in Hit. lia.
  - destruct (Nat.ltb_spec (length (q' ++ [d])) (S it)) as [Hlt|Hge]; [discriminate|].
    rewrite app_length in Hge. cbn [length] in Hge, Hit, Hf.
    apply IH.
    + rewrite app_length. cbn [length]. lia.
    + rewrite app_length. cbn [length]. replace (length q' + 1)%nat with (S (length q')) by lia.
      pose proof (tri_gt (S (length q'))). lia.
Qed.

Lemma first_pass_not_oof : forall ds st q, fst (first_pass T st ds q) <> LOutOfFuel.
Proof.
  induction ds as [|d ds IH]; intros st q; cbn [first_pass].
  - cbn. discriminate.
  - destruct (is_base d).
    + destruct (add_base_named T (lw st) 0 (d_name d)); [apply IH|cbn; discriminate].
    + apply IH.
Qed.

Lemma add_units_fuel ds : add_units T P ds <> LOutOfFuel.
Proof.
  unfold add_units. pose proof (first_pass_not_oof ds (st0 T) []) as H.
  destruct (first_pass T (st0 T) ds []) as [[st| |] q]; cbn [fst] in H.
  - apply loop_fuel; [lia|]. unfold fuel_for. lia.
  - discriminate.
  - contradiction.
Qed.

End Fuel.

(* ------------------------------------------------------------------------------------------ *)
(* (d) the order-free specification and the work-list *)
Section Spec.
Variable T : tables.
Variable P : list (name * Q).

(* one <unit> element applied to the vector v of the unit it references:
   multiplier x (v x prefix)^exponent *)
Definition child_vec (c : child) (v : uvec) : option uvec :=
  match (match c_prefix c with
         | None => Some v
         | Some p => match prefix_value P p with
                     | Some q => match factorQ q with Some pv => Some (umul v pv) | None => None end
                     | None => None
                     end
         end) with
  | None => None
  | Some e1 =>
      let e2 := match c_exp c with None => e1 | Some x => upow e1 x end in
      match c_mult c with
      | None => Some e2
      | Some m => match factorQ m with Some mv => Some (umul mv e2) | None => None end
      end
  end.

Definition prod_vec (vs : list uvec) : uvec :=
  match vs with [] => uone | v :: r => fold_left umul r v end.

Section Rules.
Variable isb : udef -> bool.              (* which <units> elements are new base units *)
Variable offok : option offc -> bool.     (* which offset attributes are acceptable *)
Variable ds : list udef.                  (* the <units> elements of the model, as a SET (only In is used) *)

Inductive UnitSpec : name -> uvec -> Prop :=
| US_builtin n v :
    name_in n (t_cellml T) = true -> nlookup (t_builtin T) n = Some v -> UnitSpec n v
| US_base d :
    In d ds -> isb d = true -> UnitSpec (d_name d) [(base_gen (d_name d), 1%Q)]
| US_def d vs :
    In d ds -> isb d = false -> d_children d <> [] ->
    ChildrenSpec (d_children d) vs -> UnitSpec (d_name d) (prod_vec vs)
with ChildrenSpec : list child -> list uvec -> Prop :=
| CS_nil : ChildrenSpec [] []
| CS_cons c r v cv vs :
    UnitSpec (c_units c) v -> child_vec c v = Some cv -> offok (c_off c) = true ->
    ChildrenSpec r vs -> ChildrenSpec (c :: r) (cv :: vs).

Scheme UnitSpec_mind := Minimality for UnitSpec Sort Prop
  with ChildrenSpec_mind := Minimality for ChildrenSpec Sort Prop.
Combined Scheme UnitSpec_mutind from UnitSpec_mind, ChildrenSpec_mind.

(* well-formed name sets *)
Definition names_ok : Prop :=
  NoDup (map d_name ds) /\ (forall d, In d ds -> name_in (d_name d) (t_cellml T) = false).

Lemma same_name_same_def : NoDup (map d_name ds) ->
  forall d d', In d ds -> In d' ds -> d_name d = d_name d' -> d = d'.
Proof.
  induction ds as [|x l IH]; cbn [map In]; intros Hnd d d' Hd Hd' E; [contradiction|].
  inversion Hnd as [|? ? Hx Hl]; subst.
  destruct Hd as [<-|Hd], Hd' as [<-|Hd'].
  - reflexivity.
  - exfalso. apply Hx. rewrite E. apply in_map. exact Hd'.
  - exfalso. apply Hx. rewrite <- E. apply in_map. exact Hd.
  - apply IH; assumption.
Qed.

Lemma UnitSpec_fun : names_ok ->
  (forall n u, UnitSpec n u -> forall u', UnitSpec n u' -> u = u') /\
  (forall cs vs, ChildrenSpec cs vs -> forall vs', ChildrenSpec cs vs' -> vs = vs').
Proof.
  intros [Hnd Hnc]. apply UnitSpec_mutind.
  - intros n v Hn Hv u' H'. inversion H' as [n' v' Hn' Hv'|d' Hd' Hb'|d' vs' Hd' Hb' Hne' Hc']; subst.
    + congruence.
    + rewrite (Hnc _ Hd') in Hn. discriminate.
    + rewrite (Hnc _ Hd') in Hn. discriminate.
  - intros d Hd Hb u' H'.
    remember (d_name d) as n eqn:En.
    inversion H' as [n' v' Hn' Hv'|d' Hd' Hb' En'|d' vs' Hd' Hb' Hne' Hc' En']; subst.
    + rewrite (Hnc _ Hd) in Hn'. discriminate.
    + rewrite En'. reflexivity.
    + assert (d' = d) by (apply same_name_same_def; assumption). subst. congruence.
  - intros d vs Hd Hb Hne Hc IH u' H'.
    remember (d_name d) as n eqn:En.
    inversion H' as [n' v' Hn' Hv'|d' Hd' Hb' En'|d' vs' Hd' Hb' Hne' Hc' En']; subst.
    + rewrite (Hnc _ Hd) in Hn'. discriminate.
    + assert (d' = d) by (apply same_name_same_def; assumption). subst. congruence.
    + assert (d' = d) by (apply same_name_same_def; assumption). subst.
      rewrite (IH _ Hc'). reflexivity.
  - intros vs' H'. inversion H'. reflexivity.
  - intros c r v cv vs Hu IHu Hcv Hoff Hc IHc vs' H'.
    inversion H' as [|c' r' v' cv' vs'' Hu' Hcv' Hoff' Hc']; subst.
    rewrite (IHu _ Hu') in Hcv. rewrite Hcv in Hcv'. injection Hcv' as <-.
    rewrite (IHc _ Hc'). reflexivity.
Qed.

Lemma UnitSpec_name n u : UnitSpec n u ->
  name_in n (t_cellml T) = true \/ exists d, In d ds /\ d_name d = n.
Proof.
  intros H. inversion H; subst; [left; assumption|right; eexists; split; [eassumption|reflexivity]..].
Qed.

End Rules.

Lemma UnitSpec_perm isb offok ds ds' : (forall d, In d ds -> In d ds') ->
  (forall n u, UnitSpec isb offok ds n u -> UnitSpec isb offok ds' n u) /\
  (forall cs vs, ChildrenSpec isb offok ds cs vs -> ChildrenSpec isb offok ds' cs vs).
Proof.
  intros Hin. apply UnitSpec_mutind; intros.
  - apply US_builtin; assumption.
  - apply US_base; auto.
  - apply US_def; auto.
  - apply CS_nil.
  - eapply CS_cons; eauto.
Qed.

Lemma UnitSpec_ext isb isb' offok offok' ds :
  (forall d, In d ds -> isb d = isb' d) ->
  (forall d c, In d ds -> In c (d_children d) -> offok (c_off c) = offok' (c_off c)) ->
  (forall n u, UnitSpec isb offok ds n u -> UnitSpec isb' offok' ds n u) /\
  (forall cs vs, ChildrenSpec isb offok ds cs vs ->
     (forall c, In c cs -> offok (c_off c) = offok' (c_off c)) -> ChildrenSpec isb' offok' ds cs vs).
Proof.
  intros Hb Ho. apply UnitSpec_mutind; intros.
  - apply US_builtin; assumption.
  - apply US_base; [assumption|]. rewrite <- Hb; assumption.
  - apply US_def; try assumption. { rewrite <- Hb; assumption. }
    apply H3. intros c Hc. apply (Ho d); assumption.
  - apply CS_nil.
  - eapply CS_cons; eauto.
    + rewrite <- H5; [assumption|left; reflexivity].
    + apply H4. intros c' Hc'. apply H5. right; exact Hc'.
Qed.

(* ---- evaluation of the definition string in a registry --------------------------------------- *)
Definition look (r : registry) (s : store) (n : name) : option uvec :=
  rlookup (entries r) (prefix_name T s n).

Lemma wordlike_not_digits n : wordlike n = true -> all_digits n = false.
Proof.
  destruct n as [|c n]; cbn [wordlike all_digits forallb]; [discriminate|].
  intros H. apply negb_true_iff in H. rewrite H. reflexivity.
Qed.

Definition child_rel (r : registry) (s : store) (c : child) (cv : uvec) : Prop :=
  exists v, look r s (c_units c) = Some v /\ child_vec c v = Some cv /\ offset_refused (c_off c) = false.

Lemma child_sound r s c e u :
  wordlike (c_units c) = true -> child_expr P c = Ok e -> ueval T r s e = Ok u -> child_rel r s c u.
Proof.
  intros Hw. unfold child_expr, ref_expr, child_rel, child_vec, look. rewrite (wordlike_not_digits _ Hw).
  destruct (c_prefix c) as [p|]; [destruct (prefix_value P p) as [q|]|];
    destruct (c_exp c) as [x|]; destruct (c_mult c) as [m|]; destruct (offset_refused (c_off c));
    try discriminate; intros [= <-]; cbn [ueval];
    destruct (rlookup (entries r) (prefix_name T s (c_units c))) as [v|]; try discriminate;
    repeat match goal with |- context [factorQ ?q] => destruct (factorQ q) end; try discriminate;
    intros [= <-]; exists v; repeat split; reflexivity.
Qed.

Lemma child_complete r s c u :
  wordlike (c_units c) = true -> child_rel r s c u ->
  exists e, child_expr P c = Ok e /\ ueval T r s e = Ok u /\ has_ref e = true.
Proof.
  intros Hw [v [Hl [Hv Ho]]]. revert Hl Hv.
  unfold child_expr, ref_expr, child_vec, look. rewrite (wordlike_not_digits _ Hw), Ho.
  intros Hl.
  destruct (c_prefix c) as [p|]; [destruct (prefix_value P p) as [q|]|];
    destruct (c_exp c) as [x|]; destruct (c_mult c) as [m|]; try discriminate;
    repeat match goal with |- context [factorQ ?q] => destruct (factorQ q) eqn:? end; try discriminate;
    intros [= <-]; eexists; (split; [reflexivity|]); cbn [ueval has_ref]; rewrite Hl;
    repeat match goal with H : factorQ _ = _ |- _ => rewrite H end; split; reflexivity.
Qed.

Lemma join_sound r s : forall cs acc e u,
  Forall (fun c => wordlike (c_units c) = true) cs ->
  join_exprs P acc cs = Ok e -> ueval T r s e = Ok u ->
  exists a vs, ueval T r s acc = Ok a /\ Forall2 (child_rel r s) cs vs /\ u = fold_left umul vs a.
Proof.
  induction cs as [|c cs IH]; intros acc e u Hw; cbn [join_exprs].
  - intros [= <-] Hu. exists u, []. split; [exact Hu|]. split; [constructor|reflexivity].
  - inversion Hw as [|? ? Hc Hcs]; subst.
    destruct (child_expr P c) as [e1|] eqn:E1; [|discriminate]. intros Hj Hu.
    destruct (IH _ _ _ Hcs Hj Hu) as [a' [vs [Ha' [Hvs ->]]]].
    cbn [ueval] in Ha'.
    destruct (ueval T r s acc) as [a|] eqn:Ea; [|destruct (ueval T r s e1); discriminate].
    destruct (ueval T r s e1) as [u1|] eqn:Eu1; [|discriminate]. injection Ha' as <-.
    exists a, (u1 :: vs). split; [reflexivity|]. split; [|reflexivity].
    constructor; [|exact Hvs]. eapply child_sound; eassumption.
Qed.

Lemma join_complete r s : forall cs vs acc a,
  Forall (fun c => wordlike (c_units c) = true) cs -> Forall2 (child_rel r s) cs vs ->
  ueval T r s acc = Ok a -> has_ref acc = true ->
  exists e, join_exprs P acc cs = Ok e /\ ueval T r s e = Ok (fold_left umul vs a) /\ has_ref e = true.
Proof.
  induction cs as [|c cs IH]; intros vs acc a Hw Hvs Ha Hr; inversion Hvs as [|? cv ? vs' Hc Hcs]; subst; cbn [join_exprs].
  - exists acc. auto.
  - inversion Hw as [|? ? Hwc Hwcs]; subst.
    destruct (child_complete r s c cv Hwc Hc) as [e1 [E1 [Eu1 Er1]]]. rewrite E1.
    cbn [fold_left]. apply (IH vs' (UMul acc e1) (umul a cv) Hwcs Hcs).
    + cbn [ueval]. rewrite Ha, Eu1. reflexivity.
    + cbn [has_ref]. rewrite Hr. reflexivity.
Qed.

Lemma make_definition_sound r s cs e u :
  Forall (fun c => wordlike (c_units c) = true) cs -> cs <> [] ->
  make_definition P cs = Ok e -> ueval T r s e = Ok u ->
  exists vs, Forall2 (child_rel r s) cs vs /\ u = prod_vec vs.
Proof.
  intros Hw Hne. destruct cs as [|c cs]; [contradiction|]. cbn [make_definition].
  inversion Hw as [|? ? Hc Hcs]; subst.
  destruct (child_expr P c) as [e1|] eqn:E1; [|discriminate]. intros Hj Hu.
  destruct (join_sound r s _ _ _ _ Hcs Hj Hu) as [a [vs [Ha [Hvs ->]]]].
  exists (a :: vs). split; [|reflexivity]. constructor; [|exact Hvs]. eapply child_sound; eassumption.
Qed.

Lemma make_definition_complete r s cs vs :
  Forall (fun c => wordlike (c_units c) = true) cs -> cs <> [] -> Forall2 (child_rel r s) cs vs ->
  exists e, make_definition P cs = Ok e /\ ueval T r s e = Ok (prod_vec vs) /\ has_ref e = true.
Proof.
  intros Hw Hne Hvs. destruct cs as [|c cs]; [contradiction|]. cbn [make_definition].
  inversion Hw as [|? ? Hc Hcs]; subst. inversion Hvs as [|? cv ? vs' Hcv Hvs']; subst.
  destruct (child_complete r s c cv Hc Hcv) as [e1 [E1 [Eu1 Er1]]]. rewrite E1.
  cbn [prod_vec]. apply join_complete; assumption.
Qed.

Lemma has_ref_wordlike : forall cs e,
  Forall (fun c => wordlike (c_units c) = true) cs -> cs <> [] -> make_definition P cs = Ok e -> has_ref e = true.
Proof.
  intros cs e Hw Hne. destruct cs as [|c cs]; [contradiction|]. cbn [make_definition].
  inversion Hw as [|? ? Hc Hcs]; subst.
  assert (H1 : forall e1, child_expr P c = Ok e1 -> has_ref e1 = true).
  { unfold child_expr, ref_expr. rewrite (wordlike_not_digits _ Hc).
    destruct (c_prefix c) as [p|]; [destruct (prefix_value P p) as [q|]|];
    destruct (c_exp c) as [x|]; destruct (c_mult c) as [m|]; destruct (offset_refused (c_off c));
    try discriminate; intros e1 [= <-]; reflexivity. }
  destruct (child_expr P c) as [e1|]; [|discriminate]. specialize (H1 _ eq_refl).
  clear Hc Hw Hne. revert e1 H1 e. induction cs as [|c' cs IH]; intros e1 H1 e; cbn [join_exprs].
  - intros [= <-]. exact H1.
  - inversion Hcs; subst. destruct (child_expr P c'); [|discriminate].
    apply IH; [assumption|]. cbn [has_ref]. rewrite H1. reflexivity.
Qed.

(* ---- the single-store world -------------------------------------------------------------------- *)
Definition mkw (r : registry) (s : store) : world := {| regs := [r]; stores := [s]; next_id := 1 |}.

Lemma add_unit_mkw r s n e : rid s = 0%nat ->
  add_unit T (mkw r s) 0 n e =
  if name_in n (t_cellml T) then Err EValue
  else if name_in n (known s) then Err EValue
  else if name_in n (t_unsupported T) then Err EValue
  else match ueval T r s e with
       | Err x => Err x
       | Ok v => Ok (mkw {| entries := (prefix_name T s n, v) :: entries r; nbase := nbase r |}
                         {| sid := sid s; rid := rid s; known := n :: known s |})
       end.
Proof.
  intros H. destruct s as [i j k]. cbn in H. subst j.
  unfold add_unit, with_store, mkw. cbn [stores regs nth_error rid sid known].
  destruct (name_in n (t_cellml T)); [reflexivity|]. destruct (name_in n k); [reflexivity|].
  destruct (name_in n (t_unsupported T)); [reflexivity|].
  destruct (ueval T r _ e); reflexivity.
Qed.

Lemma add_base_mkw r s n : rid s = 0%nat ->
  add_base_named T (mkw r s) 0 n =
  if name_in n (t_cellml T) then Err EValue
  else if name_in n (known s) then Err EValue
  else Ok (mkw {| entries := (prefix_name T s n, [(base_gen n, 1%Q)]) :: entries r; nbase := nbase r + 1 |}
               {| sid := sid s; rid := rid s; known := n :: known s |}).
Proof.
  intros H. destruct s as [i j k]. cbn in H. subst j.
  unfold add_base_named, with_store, mkw. cbn [stores regs nth_error rid sid known].
  destruct (name_in n (t_cellml T)); [reflexivity|]. destruct (name_in n k); reflexivity.
Qed.

Lemma rlookup_builtin n : rlookup (builtin_entries T) (-1, n) = nlookup (t_builtin T) n.
Proof.
  unfold builtin_entries. induction (t_builtin T) as [|[n' v] l IH]; cbn [map rlookup nlookup fst snd]; [reflexivity|].
  unfold qname_eqb; cbn [fst snd]. rewrite Z.eqb_refl. cbn [andb]. rewrite IH. reflexivity.
Qed.
(* ---- the invariant of the two loops ------------------------------------------------------------- *)
Definition offokM (o : option offc) : bool := negb (offset_refused o).
(* the specification instantiated with the two decisions as the CODE takes them (F1, F3 included) *)
Definition USm (ds : list udef) := UnitSpec is_base offokM ds.
Definition CSm (ds : list udef) := ChildrenSpec is_base offokM ds.

Definition nonbase (d : udef) : Prop := is_base d = false.
Definition words_ok (ds : list udef) : Prop :=
  forall d, In d ds -> Forall (fun c => wordlike (c_units c) = true) (d_children d).

Definition InvRS (ds : list udef) (st : lstate) (done : list udef) (r : registry) (s : store) : Prop :=
  lw st = mkw r s /\ sid s = 0 /\ rid s = 0%nat /\ known s = lfound st /\
  lfound st = map d_name done ++ t_cellml T /\
  NoDup (map d_name done) /\
  (forall d, In d done -> name_in (d_name d) (t_cellml T) = false) /\
  (forall d, In d done -> is_base d = false -> name_in (d_name d) (t_unsupported T) = false) /\
  incl done ds /\
  (forall n, rlookup (entries r) (-1, n) = nlookup (t_builtin T) n) /\
  (forall d, In d done -> exists v, rlookup (entries r) (0, d_name d) = Some v /\ USm ds (d_name d) v).

Definition Inv ds st done : Prop := exists r s, InvRS ds st done r s.

Lemma Inv_st0 ds : Inv ds (st0 T) [].
Proof.
  exists (new_registry T), {| sid := 0; rid := 0; known := t_cellml T |}.
  repeat split; try reflexivity; cbn [In map]; try contradiction.
  - constructor.
  - intros x [].
  - intros n. apply rlookup_builtin.
Qed.

Lemma Inv_look ds st done r s n : InvRS ds st done r s -> name_in n (lfound st) = true ->
  (name_in n (t_cellml T) = true /\ look r s n = nlookup (t_builtin T) n) \/
  (name_in n (t_cellml T) = false /\
   exists d, In d done /\ d_name d = n /\ exists v, look r s n = Some v /\ USm ds n v).
Proof.
  intros (Hw & Hsid & Hrid & Hk & Hf & Hnd & Hnc & Hus & Hincl & Hb & Hd) Hn.
  unfold look, prefix_name. destruct (name_in n (t_cellml T)) eqn:E.
  - left. split; [reflexivity|]. apply Hb.
  - right. split; [reflexivity|]. rewrite Hf in Hn. apply name_in_In in Hn. apply in_app_or in Hn as [Hn|Hn].
    + apply in_map_iff in Hn as [d [<- Hin]]. exists d. split; [exact Hin|]. split; [reflexivity|].
      rewrite Hsid. apply Hd. exact Hin.
    + apply name_in_In in Hn. congruence.
Qed.

Lemma found_sound ds st done r s n v : InvRS ds st done r s -> name_in n (lfound st) = true ->
  look r s n = Some v -> USm ds n v.
Proof.
  intros HI Hn Hl. destruct (Inv_look _ _ _ _ _ n HI Hn) as [[Hc Hb]|[Hc [d [Hd [<- [v' [Hl' Hs]]]]]]].
  - apply US_builtin; [exact Hc|]. rewrite <- Hb. exact Hl.
  - rewrite Hl in Hl'. injection Hl' as <-. exact Hs.
Qed.

Lemma children_spec_of_rel ds st done r s : InvRS ds st done r s -> forall cs vs,
  Forall2 (child_rel r s) cs vs -> (forall c, In c cs -> name_in (c_units c) (lfound st) = true) ->
  CSm ds cs vs.
Proof.
  intros HI. induction 1 as [|c cv cs vs [v [Hl [Hv Ho]]] Hrest IH]; intros Hf.
  - apply CS_nil.
  - eapply CS_cons.
    + eapply found_sound; [exact HI| |exact Hl]. apply Hf. left; reflexivity.
    + exact Hv.
    + unfold offokM. rewrite Ho. reflexivity.
    + apply IH. intros c' Hc'. apply Hf. right; exact Hc'.
Qed.

Lemma qname_eqb_refl q : qname_eqb q q = true.
Proof. unfold qname_eqb. rewrite Z.eqb_refl, name_eqb_refl. reflexivity. Qed.

Lemma step_add ds st done d e w' :
  Inv ds st done -> In d ds -> is_base d = false -> d_children d <> [] ->
  Forall (fun c => wordlike (c_units c) = true) (d_children d) ->
  refs_found (lfound st) d = true ->
  make_definition P (d_children d) = Ok e -> add_unit T (lw st) 0 (d_name d) e = Ok w' ->
  Inv ds {| lw := w'; lfound := d_name d :: lfound st |} (d :: done).
Proof.
  intros [r [s HI]] Hin Hnb Hne Hw Hrf Hmk Hadd.
  pose proof HI as (Hlw & Hsid & Hrid & Hk & Hf & Hnd & Hnc & Hus & Hincl & Hb & Hd).
  rewrite Hlw, (add_unit_mkw r s _ _ Hrid) in Hadd.
  destruct (name_in (d_name d) (t_cellml T)) eqn:Ec; [discriminate|].
  destruct (name_in (d_name d) (known s)) eqn:Ek; [discriminate|].
  destruct (name_in (d_name d) (t_unsupported T)) eqn:Eu; [discriminate|].
  destruct (ueval T r s e) as [u|] eqn:Eue; [|discriminate]. injection Hadd as <-.
  assert (Hpn : prefix_name T s (d_name d) = (0, d_name d)).
  { unfold prefix_name. rewrite Ec, Hsid. reflexivity. }
  rewrite Hpn.
  assert (Hnotin : ~ In (d_name d) (map d_name done)).
  { intros Hi. rewrite Hk, Hf in Ek. apply name_in_false in Ek. apply Ek. apply in_or_app. left; exact Hi. }
  exists {| entries := ((0, d_name d), u) :: entries r; nbase := nbase r |},
         {| sid := sid s; rid := rid s; known := d_name d :: known s |}.
  unfold InvRS. cbn [lw lfound sid rid known entries].
  split; [reflexivity|]. split; [exact Hsid|]. split; [exact Hrid|]. split; [rewrite Hk; reflexivity|].
  split; [rewrite Hf; reflexivity|]. split; [cbn [map]; constructor; assumption|].
  split; [intros d' [<-|Hd']; [exact Ec|apply Hnc; exact Hd']|].
  split; [intros d' [<-|Hd'] Hb'; [exact Eu|apply Hus; assumption]|].
  split; [intros d' [<-|Hd']; [exact Hin|apply Hincl; exact Hd']|].
  split.
  - intros n. cbn [rlookup]. unfold qname_eqb at 1. cbn [fst snd andb Z.eqb]. apply Hb.
  - intros d' [<-|Hd'].
    + exists u. cbn [rlookup]. rewrite qname_eqb_refl. split; [reflexivity|].
      destruct (make_definition_sound r s _ _ _ Hw Hne Hmk Eue) as [vs [Hvs ->]].
      apply US_def; try assumption.
      eapply children_spec_of_rel; [exact HI|exact Hvs|].
      unfold refs_found in Hrf. rewrite forallb_forall in Hrf. exact Hrf.
    + destruct (Hd _ Hd') as [v [Hl Hs]]. exists v. split; [|exact Hs].
      cbn [rlookup]. unfold qname_eqb at 1. cbn [fst snd].
      assert (Hne' : name_eqb (d_name d') (d_name d) = false).
      { apply name_eqb_neq. intros E. apply Hnotin. rewrite <- E. apply in_map. exact Hd'. }
      rewrite Hne', andb_false_r. exact Hl.
Qed.

Lemma step_base ds st done d w' :
  Inv ds st done -> In d ds -> is_base d = true ->
  add_base_named T (lw st) 0 (d_name d) = Ok w' ->
  Inv ds {| lw := w'; lfound := d_name d :: lfound st |} (d :: done).
Proof.
  intros [r [s HI]] Hin Hbase Hadd.
  pose proof HI as (Hlw & Hsid & Hrid & Hk & Hf & Hnd & Hnc & Hus & Hincl & Hb & Hd).
  rewrite Hlw, (add_base_mkw r s _ Hrid) in Hadd.
  destruct (name_in (d_name d) (t_cellml T)) eqn:Ec; [discriminate|].
  destruct (name_in (d_name d) (known s)) eqn:Ek; [discriminate|]. injection Hadd as <-.
  assert (Hpn : prefix_name T s (d_name d) = (0, d_name d)).
  { unfold prefix_name. rewrite Ec, Hsid. reflexivity. }
  rewrite Hpn.
  assert (Hnotin : ~ In (d_name d) (map d_name done)).
  { intros Hi. rewrite Hk, Hf in Ek. apply name_in_false in Ek. apply Ek. apply in_or_app. left; exact Hi. }
  exists {| entries := ((0, d_name d), [(base_gen (d_name d), 1%Q)]) :: entries r; nbase := nbase r + 1 |},
         {| sid := sid s; rid := rid s; known := d_name d :: known s |}.
  unfold InvRS. cbn [lw lfound sid rid known entries].
  split; [reflexivity|]. split; [exact Hsid|]. split; [exact Hrid|]. split; [rewrite Hk; reflexivity|].
  split; [rewrite Hf; reflexivity|]. split; [cbn [map]; constructor; assumption|].
  split; [intros d' [<-|Hd']; [exact Ec|apply Hnc; exact Hd']|].
  split; [intros d' [<-|Hd'] Hb'; [congruence|apply Hus; assumption]|].
  split; [intros d' [<-|Hd']; [exact Hin|apply Hincl; exact Hd']|].
  split.
  - intros n. cbn [rlookup]. unfold qname_eqb at 1. cbn [fst snd andb Z.eqb]. apply Hb.
  - intros d' [<-|Hd'].
    + eexists. cbn [rlookup]. rewrite qname_eqb_refl. split; [reflexivity|].
      apply US_base; assumption.
    + destruct (Hd _ Hd') as [v [Hl Hs]]. exists v. split; [|exact Hs].
      cbn [rlookup]. unfold qname_eqb at 1. cbn [fst snd].
      assert (Hne' : name_eqb (d_name d') (d_name d) = false).
      { apply name_eqb_neq. intros E. apply Hnotin. rewrite <- E. apply in_map. exact Hd'. }
      rewrite Hne', andb_false_r. exact Hl.
Qed.

Lemma first_pass_inv ds : forall rest st q done st' q',
  Inv ds st done -> incl rest ds -> Forall nonbase q ->
  first_pass T st rest q = (LOk st', q') ->
  exists done', Inv ds st' done' /\ Forall nonbase q' /\ Permutation (done' ++ q') (done ++ q ++ rest).
Proof.
  induction rest as [|d rest IH]; intros st q done st' q' HI Hincl Hq; cbn [first_pass].
  - intros [= <- <-]. exists done. rewrite app_nil_r. auto.
  - assert (Hd : In d ds) by (apply Hincl; left; reflexivity).
    assert (Hincl' : incl rest ds) by (intros x Hx; apply Hincl; right; exact Hx).
    destruct (is_base d) eqn:Eb.
    + destruct (add_base_named T (lw st) 0 (d_name d)) as [w'|] eqn:Ea; [|discriminate].
      intros H. destruct (IH _ _ _ _ _ (step_base _ _ _ _ _ HI Hd Eb Ea) Hincl' Hq H) as [done' [H1 [H2 H3]]].
      exists done'. split; [exact H1|]. split; [exact H2|].
      etransitivity; [exact H3|]. cbn [app].
      rewrite (app_assoc done q (d :: rest)), (app_assoc done q rest). apply Permutation_middle.
    + intros H.
      destruct (IH _ (d :: q) _ _ _ HI Hincl' (Forall_cons _ Eb Hq) H) as [done' [H1 [H2 H3]]].
      exists done'. split; [exact H1|]. split; [exact H2|].
      etransitivity; [exact H3|]. apply Permutation_app_head. cbn [app]. apply Permutation_middle.
Qed.

Lemma make_definition_nil_noref e : make_definition P [] = Ok e -> has_ref e = false.
Proof. cbn. intros [= <-]. reflexivity. Qed.

Lemma loop_inv ds : words_ok ds -> forall fuel st q it done st',
  Inv ds st done -> Permutation ds (done ++ q) -> Forall nonbase q ->
  loop T P fuel st q it = LOk st' ->
  exists done', Inv ds st' done' /\ Permutation ds done'.
Proof.
  intros HW. induction fuel as [|f IH]; intros st q it done st' HI Hperm Hq; cbn [loop]; [discriminate|].
  destruct q as [|d q'].
  - intros [= <-]. exists done. rewrite app_nil_r in Hperm. auto.
  - assert (Hd : In d ds).
    { eapply Permutation_in; [symmetry; exact Hperm|]. apply in_or_app. right. left. reflexivity. }
    inversion Hq as [|? ? Hdb Hq']; subst.
    destruct (refs_found (lfound st) d) eqn:Erf.
    + destruct (make_definition P (d_children d)) as [e|] eqn:Em; [|discriminate].
      destruct (is_defined (lw st) (d_name d)); [discriminate|].
      destruct (add_unit T (lw st) 0 (d_name d) e) as [w'|] eqn:Ea; [|discriminate].
      destruct (has_ref e) eqn:Eh; [|discriminate].
      assert (Hne : d_children d <> []).
      { intros E. rewrite E in Em. apply make_definition_nil_noref in Em. congruence. }
      apply (IH _ _ _ (d :: done)).
      * eapply step_add; eauto.
      * etransitivity; [exact Hperm|]. symmetry. cbn [app]. apply Permutation_middle.
      * exact Hq'.
    + destruct (length (q' ++ [d]) <? S it)%nat; [discriminate|].
      apply (IH _ _ _ done); [exact HI| |].
      * etransitivity; [exact Hperm|]. apply Permutation_app_head.
        change (d :: q') with ([d] ++ q'). apply Permutation_app_comm.
      * apply Forall_app. split; [exact Hq'|]. constructor; [exact Hdb|constructor].
Qed.

Lemma add_units_inv ds st : words_ok ds -> add_units T P ds = LOk st ->
  exists done, Inv ds st done /\ Permutation ds done.
Proof.
  intros HW. unfold add_units.
  destruct (first_pass T (st0 T) ds []) as [[st1| |] q] eqn:Efp; try discriminate.
  destruct (first_pass_inv ds ds (st0 T) [] [] st1 q (Inv_st0 ds) (incl_refl ds) (Forall_nil _) Efp)
    as [done1 [H1 [H2 H3]]].
  cbn [app] in H3. intros Hl.
  eapply (loop_inv ds HW); [exact H1| |exact H2|exact Hl]. symmetry. exact H3.
Qed.
(* ---- what a successful run means ----------------------------------------------------------------- *)
Lemma get_unit_mkw r s n : rid s = 0%nat ->
  get_unit T (mkw r s) 0 n =
  if name_in n (t_unsupported T) then Err EKey
  else if negb (name_in n (known s)) then Err EKey
  else match look r s n with Some v => Ok v | None => Err EUndefined end.
Proof.
  intros H. destruct s as [i j k]. cbn in H. subst j. reflexivity.
Qed.

Lemma Inv_names_ok ds st done : Inv ds st done -> Permutation ds done -> names_ok ds.
Proof.
  intros [r [s (Hlw & Hsid & Hrid & Hk & Hf & Hnd & Hnc & Hus & Hincl & Hb & Hd)]] Hp. split.
  - eapply Permutation_NoDup; [|exact Hnd]. apply Permutation_map. symmetry. exact Hp.
  - intros d Hin. apply Hnc. eapply Permutation_in; eassumption.
Qed.

Lemma look_complete ds st done r s n u :
  InvRS ds st done r s -> names_ok ds -> USm ds n u -> name_in n (lfound st) = true ->
  look r s n = Some u.
Proof.
  intros HI Hok Hu Hn. destruct (Inv_look _ _ _ _ _ n HI Hn) as [[Hc Hb]|[Hc [d [Hd [<- [v' [Hl' Hs]]]]]]].
  - rewrite Hb. inversion Hu as [n' v' Hn' Hv'|d' Hd' Hb'|d' vs' Hd' Hb' Hne' Hc']; subst.
    + exact Hv'.
    + rewrite (proj2 Hok _ Hd') in Hc. discriminate.
    + rewrite (proj2 Hok _ Hd') in Hc. discriminate.
  - rewrite Hl'. f_equal. symmetry.
    exact (proj1 (UnitSpec_fun is_base offokM ds Hok) _ _ Hu _ Hs).
Qed.

Theorem resolve_spec_model ds st : words_ok ds -> add_units T P ds = LOk st ->
  (forall n u, unit_of T st n = Ok u -> USm ds n u) /\
  (forall n u, USm ds n u -> name_in n (t_unsupported T) = false -> unit_of T st n = Ok u) /\
  names_ok ds.
Proof.
  intros HW Hadd. destruct (add_units_inv ds st HW Hadd) as [done [HI Hp]].
  pose proof (Inv_names_ok _ _ _ HI Hp) as Hok.
  destruct HI as [r [s HI]].
  pose proof HI as (Hlw & Hsid & Hrid & Hk & Hf & Hnd & Hnc & Hus & Hincl & Hb & Hd).
  unfold unit_of. rewrite Hlw. split; [|split; [|exact Hok]].
  - intros n u. rewrite (get_unit_mkw r s n Hrid).
    destruct (name_in n (t_unsupported T)); [discriminate|].
    destruct (name_in n (known s)) eqn:Ek; [|discriminate]. cbn [negb].
    destruct (look r s n) as [v|] eqn:El; [|discriminate]. intros [= <-].
    eapply found_sound; [exact HI| |exact El]. rewrite <- Hk. exact Ek.
  - intros n u Hu Hns. rewrite (get_unit_mkw r s n Hrid), Hns.
    assert (Hn : name_in n (lfound st) = true).
    { rewrite Hf. apply name_in_In. apply in_or_app.
      destruct (UnitSpec_name _ _ _ _ _ Hu) as [Hc|[d [Hin <-]]].
      - right. apply name_in_In. exact Hc.
      - left. apply in_map. eapply Permutation_in; eassumption. }
    rewrite Hk, Hn. cbn [negb]. rewrite (look_complete _ _ _ _ _ _ _ HI Hok Hu Hn). reflexivity.
Qed.

(* ---- which definition lists succeed -------------------------------------------------------------- *)
Definition Resolvable (ds : list udef) : Prop :=
  names_ok ds /\
  (forall d, In d ds -> is_base d = false -> name_in (d_name d) (t_unsupported T) = false) /\
  (forall d, In d ds -> exists u, USm ds (d_name d) u).

Lemma success_resolvable ds st : words_ok ds -> add_units T P ds = LOk st -> Resolvable ds.
Proof.
  intros HW Hadd. destruct (add_units_inv ds st HW Hadd) as [done [HI Hp]].
  split; [eapply Inv_names_ok; eassumption|].
  destruct HI as [r [s (Hlw & Hsid & Hrid & Hk & Hf & Hnd & Hnc & Hus & Hincl & Hb & Hd)]]. split.
  - intros d Hin. apply Hus. eapply Permutation_in; eassumption.
  - intros d Hin. destruct (Hd d) as [v [_ Hv]]; [eapply Permutation_in; eassumption|]. exists v. exact Hv.
Qed.

Lemma NoDup_app_disjoint {X} (l1 l2 : list X) x : NoDup (l1 ++ l2) -> In x l1 -> In x l2 -> False.
Proof.
  induction l1 as [|a l1 IH]; cbn [app In]; intros Hnd H1 H2; [contradiction|].
  inversion Hnd as [|? ? Ha Hnd']; subst. destruct H1 as [<-|H1].
  - apply Ha. apply in_or_app. right; exact H2.
  - apply IH; assumption.
Qed.

Lemma q_not_found ds st done r s q d :
  InvRS ds st done r s -> Permutation ds (done ++ q) -> names_ok ds -> In d q ->
  name_in (d_name d) (lfound st) = false.
Proof.
  intros (Hlw & Hsid & Hrid & Hk & Hf & Hnd & Hnc & Hus & Hincl & Hb & Hd) Hp [Hn1 Hn2] Hq.
  assert (Hds : In d ds).
  { eapply Permutation_in; [symmetry; exact Hp|]. apply in_or_app. right; exact Hq. }
  apply name_in_false. rewrite Hf. intros Hin. apply in_app_or in Hin as [Hin|Hin].
  - apply in_map_iff in Hin as [d' [E Hd']].
    assert (d' = d) by (apply (same_name_same_def ds Hn1); [apply Hincl; exact Hd'|exact Hds|exact E]). subst d'.
    assert (Hnd2 : NoDup (done ++ q)).
    { eapply Permutation_NoDup; [exact Hp|]. eapply NoDup_map_inv. exact Hn1. }
    exact (NoDup_app_disjoint _ _ _ Hnd2 Hd' Hq).
  - apply name_in_In in Hin. rewrite (Hn2 _ Hds) in Hin. discriminate.
Qed.

Lemma rel_of_children_spec ds st done r s : InvRS ds st done r s -> names_ok ds -> forall cs vs,
  CSm ds cs vs -> (forall c, In c cs -> name_in (c_units c) (lfound st) = true) ->
  Forall2 (child_rel r s) cs vs.
Proof.
  intros HI Hok. induction 1 as [|c cs v cv vs Hu Hcv Ho Hrest IH]; intros Hf; constructor.
  - exists v. split; [|split; [exact Hcv|]].
    + eapply look_complete; try eassumption. apply Hf. left; reflexivity.
    + unfold offokM in Ho. apply negb_true_iff in Ho. exact Ho.
  - apply IH. intros c' Hc'. apply Hf. right; exact Hc'.
Qed.

(* when every queued definition is blocked, no queued name is derivable *)
Lemma blocked_all_found ds st done r s q :
  InvRS ds st done r s -> Permutation ds (done ++ q) -> Forall nonbase q ->
  Forall (fun d => refs_found (lfound st) d = false) q ->
  (forall n u, USm ds n u -> name_in n (lfound st) = true) /\
  (forall cs vs, CSm ds cs vs -> forall c, In c cs -> name_in (c_units c) (lfound st) = true).
Proof.
  intros HI Hp Hnb Hbl.
  pose proof HI as (Hlw & Hsid & Hrid & Hk & Hf & Hnd & Hnc & Hus & Hincl & Hb & Hd).
  assert (Hdone : forall d, In d done -> name_in (d_name d) (lfound st) = true).
  { intros d Hin. rewrite Hf. apply name_in_In. apply in_or_app. left. apply in_map. exact Hin. }
  unfold USm, CSm. apply UnitSpec_mutind.
  - intros n v Hn _. rewrite Hf. apply name_in_In. apply in_or_app. right. apply name_in_In. exact Hn.
  - intros d Hin Hbase.
    apply (Permutation_in _ Hp) in Hin. apply in_app_or in Hin as [Hin|Hin]; [apply Hdone; exact Hin|].
    rewrite Forall_forall in Hnb. specialize (Hnb _ Hin). unfold nonbase in Hnb. congruence.
  - intros d vs Hin Hbase Hne _ IH.
    apply (Permutation_in _ Hp) in Hin. apply in_app_or in Hin as [Hin|Hin]; [apply Hdone; exact Hin|].
    rewrite Forall_forall in Hbl. specialize (Hbl _ Hin). unfold refs_found in Hbl.
    assert (Ht : forallb (fun c => name_in (c_units c) (lfound st)) (d_children d) = true).
    { apply forallb_forall. exact IH. }
    congruence.
  - intros c [].
  - intros c r0 v cv vs _ IHu _ _ _ IHc c' [<-|Hc']; [exact IHu|apply IHc; exact Hc'].
Qed.

Lemma loop_no_err ds : words_ok ds -> Resolvable ds -> forall fuel st q it done,
  Inv ds st done -> Permutation ds (done ++ q) -> Forall nonbase q ->
  (exists qa qb, q = qa ++ qb /\ length qb = it /\ Forall (fun d => refs_found (lfound st) d = false) qb) ->
  forall e, loop T P fuel st q it <> LErr e.
Proof.
  intros HW [Hok [Hunsup Hder]].
  induction fuel as [|f IH]; intros st q it done HI Hperm Hq Hbl e; cbn [loop]; [discriminate|].
  destruct q as [|d q']; [discriminate|].
  assert (Hd : In d ds).
  { eapply Permutation_in; [symmetry; exact Hperm|]. apply in_or_app. right. left. reflexivity. }
  inversion Hq as [|? ? Hdb Hq']; subst. unfold nonbase in Hdb.
  pose proof HI as [r [s HI']].
  pose proof HI' as (Hlw & Hsid & Hrid & Hk & Hf & Hnd & Hnc & Hus & Hincl & Hb & Hdn).
  assert (Hnf : name_in (d_name d) (lfound st) = false).
  { eapply q_not_found; [exact HI'|exact Hperm|exact Hok|left; reflexivity]. }
  destruct (refs_found (lfound st) d) eqn:Erf.
  - destruct (Hder d Hd) as [u Hu].
    assert (Hdef : d_children d <> [] /\ exists vs, CSm ds (d_children d) vs).
    { remember (d_name d) as n eqn:En.
      inversion Hu as [n' v' Hn' Hv'|d' Hd' Hb' En'|d' vs' Hd' Hb' Hne' Hc' En']; subst.
      - rewrite (proj2 Hok _ Hd) in Hn'. discriminate.
      - assert (d' = d) by (apply (same_name_same_def ds (proj1 Hok)); assumption). subst. congruence.
      - assert (d' = d) by (apply (same_name_same_def ds (proj1 Hok)); assumption). subst.
        split; [exact Hne'|]. exists vs'. exact Hc'. }
    destruct Hdef as [Hne [vs Hvs]].
    assert (Hrel : Forall2 (child_rel r s) (d_children d) vs).
    { eapply rel_of_children_spec; try eassumption.
      unfold refs_found in Erf. rewrite forallb_forall in Erf. exact Erf. }
    destruct (make_definition_complete r s _ _ (HW d Hd) Hne Hrel) as [e0 [Em [Eu Eh]]].
    rewrite Em.
    assert (Hisdef : is_defined (lw st) (d_name d) = false).
    { rewrite Hlw. cbn. rewrite Hk. exact Hnf. }
    rewrite Hisdef.
    assert (Hadd : exists w', add_unit T (lw st) 0 (d_name d) e0 = Ok w').
    { rewrite Hlw, (add_unit_mkw r s _ _ Hrid), (proj2 Hok _ Hd), Hk, Hnf, (Hunsup d Hd Hdb), Eu.
      eexists. reflexivity. }
    destruct Hadd as [w' Hadd]. rewrite Hadd, Eh.
    apply (IH _ _ _ (d :: done)).
    + eapply step_add; eauto.
    + etransitivity; [exact Hperm|]. symmetry. cbn [app]. apply Permutation_middle.
    + exact Hq'.
    + exists q', []. rewrite app_nil_r. split; [reflexivity|]. split; [reflexivity|constructor].
  - destruct Hbl as [qa [qb [Hqq [Hlen Hblk]]]].
    destruct (Nat.ltb_spec (length (q' ++ [d])) (S it)) as [Hlt|Hge].
    + (* the code raises: impossible, every queued definition would be blocked *)
      exfalso. rewrite app_length in Hlt. cbn [length] in Hlt.
      assert (Hall : Forall (fun d0 => refs_found (lfound st) d0 = false) (d :: q')).
      { destruct qa as [|a qa'].
        - cbn [app] in Hqq. rewrite Hqq. exact Hblk.
        - exfalso. assert (Hl : length (d :: q') = length ((a :: qa') ++ qb)) by (rewrite Hqq; reflexivity).
          rewrite app_length in Hl. cbn [length] in Hl. lia. }
      destruct (blocked_all_found _ _ _ _ _ _ HI' Hperm Hq Hall) as [Hfound _].
      destruct (Hder d Hd) as [u Hu]. specialize (Hfound _ _ Hu). congruence.
    + apply (IH _ _ _ done); [exact HI| | |].
      * etransitivity; [exact Hperm|]. apply Permutation_app_head.
        change (d :: q') with ([d] ++ q'). apply Permutation_app_comm.
      * apply Forall_app. split; [exact Hq'|]. constructor; [exact Hdb|constructor].
      * destruct qa as [|a qa'].
        -- exfalso. cbn [app] in Hqq. rewrite app_length in Hge. cbn [length] in Hge.
           rewrite <- Hqq in Hlen. cbn [length] in Hlen. lia.
        -- cbn [app] in Hqq. injection Hqq as <- ->.
           exists qa', (qb ++ [d]). split; [rewrite app_assoc; reflexivity|].
           split; [rewrite app_length; cbn [length]; lia|].
           apply Forall_app. split; [exact Hblk|]. constructor; [exact Erf|constructor].
Qed.

Lemma first_pass_ok ds : Resolvable ds -> forall rest pre st q done,
  ds = pre ++ rest -> Inv ds st done -> (forall d, In d done -> In d pre) ->
  exists st' q', first_pass T st rest q = (LOk st', q').
Proof.
  intros [[Hn1 Hn2] _]. induction rest as [|d rest IH]; intros pre st q done Hds HI Hpre; cbn [first_pass].
  - eexists _, _. reflexivity.
  - assert (Hd : In d ds) by (rewrite Hds; apply in_or_app; right; left; reflexivity).
    assert (Hds' : ds = (pre ++ [d]) ++ rest) by (rewrite <- app_assoc; exact Hds).
    destruct (is_base d) eqn:Eb.
    + pose proof HI as [r [s (Hlw & Hsid & Hrid & Hk & Hf & Hnd & Hnc & Hus & Hincl & Hb & Hdn)]].
      assert (Hadd : exists w', add_base_named T (lw st) 0 (d_name d) = Ok w').
      { rewrite Hlw, (add_base_mkw r s _ Hrid), (Hn2 _ Hd), Hk.
        assert (Hnf : name_in (d_name d) (lfound st) = false).
        { apply name_in_false. rewrite Hf. intros Hin. apply in_app_or in Hin as [Hin|Hin].
          - apply in_map_iff in Hin as [d' [E Hd']].
            assert (d' = d) by (apply (same_name_same_def ds Hn1); [apply Hincl; exact Hd'|exact Hd|exact E]).
            subst d'. apply Hpre in Hd'.
            assert (Hnd2 : NoDup (pre ++ d :: rest)) by (rewrite <- Hds; eapply NoDup_map_inv; exact Hn1).
            apply NoDup_remove_2 in Hnd2. apply Hnd2. apply in_or_app. left; exact Hd'.
          - apply name_in_In in Hin. rewrite (Hn2 _ Hd) in Hin. discriminate. }
        rewrite Hnf. eexists. reflexivity. }
      destruct Hadd as [w' Hadd]. rewrite Hadd.
      apply (IH (pre ++ [d]) _ _ (d :: done) Hds').
      * eapply step_base; eassumption.
      * intros d' [<-|Hd']; apply in_or_app; [right; left; reflexivity|left; apply Hpre; exact Hd'].
    + apply (IH (pre ++ [d]) _ _ done Hds' HI).
      intros d' Hd'. apply in_or_app. left. apply Hpre. exact Hd'.
Qed.

Theorem success_iff_resolvable ds : words_ok ds ->
  ((exists st, add_units T P ds = LOk st) <-> Resolvable ds).
Proof.
  intros HW. split.
  - intros [st H]. eapply success_resolvable; eassumption.
  - intros HR.
    destruct (first_pass_ok ds HR ds [] (st0 T) [] [] eq_refl (Inv_st0 ds) (fun d (H : In d []) => match H with end))
      as [st1 [q Efp]].
    destruct (first_pass_inv ds ds (st0 T) [] [] st1 q (Inv_st0 ds) (incl_refl ds) (Forall_nil _) Efp)
      as [done1 [H1 [H2 H3]]].
    cbn [app] in H3.
    pose proof (add_units_fuel T P ds) as Hfuel.
    unfold add_units in *. rewrite Efp in *.
    destruct (loop T P (fuel_for q) st1 q 0) as [st| e|] eqn:El.
    + exists st. reflexivity.
    + exfalso. revert El. apply (loop_no_err ds HW HR _ _ _ _ done1 H1); [symmetry; exact H3|exact H2|].
      exists q, []. rewrite app_nil_r. split; [reflexivity|]. split; [reflexivity|constructor].
    + contradiction.
Qed.
(* ---- order independence --------------------------------------------------------------------------- *)
Lemma words_ok_perm ds ds' : Permutation ds ds' -> words_ok ds -> words_ok ds'.
Proof. intros Hp H d Hd. apply H. eapply Permutation_in; [symmetry; exact Hp|exact Hd]. Qed.

Lemma USm_perm ds ds' n u : Permutation ds ds' -> USm ds n u -> USm ds' n u.
Proof.
  intros Hp. apply (proj1 (UnitSpec_perm is_base offokM ds ds' (fun d => Permutation_in d Hp))).
Qed.

Lemma Resolvable_perm ds ds' : Permutation ds ds' -> Resolvable ds -> Resolvable ds'.
Proof.
  intros Hp [[Hn1 Hn2] [Hu Hd]].
  assert (Hback : forall d, In d ds' -> In d ds) by (intros d; apply Permutation_in; symmetry; exact Hp).
  split; [split|split].
  - eapply Permutation_NoDup; [|exact Hn1]. apply Permutation_map. exact Hp.
  - intros d Hin. apply Hn2. apply Hback. exact Hin.
  - intros d Hin. apply Hu. apply Hback. exact Hin.
  - intros d Hin. destruct (Hd d (Hback d Hin)) as [u H]. exists u. eapply USm_perm; eassumption.
Qed.

Lemma unit_of_ok_supported st n u : unit_of T st n = Ok u -> name_in n (t_unsupported T) = false.
Proof.
  unfold unit_of, get_unit, with_store.
  destruct (nth_error (stores (lw st)) 0) as [s|]; [|discriminate].
  destruct (nth_error (regs (lw st)) (rid s)) as [r|]; [|discriminate].
  destruct (name_in n (t_unsupported T)); [discriminate|reflexivity].
Qed.

Theorem order_independent ds ds' : Permutation ds ds' -> words_ok ds ->
  ((exists st, add_units T P ds = LOk st) <-> (exists st', add_units T P ds' = LOk st')) /\
  (forall st st', add_units T P ds = LOk st -> add_units T P ds' = LOk st' ->
     forall n u, unit_of T st n = Ok u <-> unit_of T st' n = Ok u).
Proof.
  intros Hp HW. pose proof (words_ok_perm _ _ Hp HW) as HW'. split.
  - rewrite (success_iff_resolvable ds HW), (success_iff_resolvable ds' HW'). split.
    + apply Resolvable_perm. exact Hp.
    + apply Resolvable_perm. symmetry. exact Hp.
  - intros st st' H H' n u.
    destruct (resolve_spec_model ds st HW H) as [A1 [A2 _]].
    destruct (resolve_spec_model ds' st' HW' H') as [B1 [B2 _]]. split; intros Hu.
    + apply B2; [|eapply unit_of_ok_supported; exact Hu]. eapply USm_perm; [exact Hp|]. apply A1. exact Hu.
    + apply A2; [|eapply unit_of_ok_supported; exact Hu]. eapply USm_perm; [symmetry; exact Hp|]. apply B1. exact Hu.
Qed.

(* ---- the CellML reading of the two decisions; the code takes the same ones --------------------------- *)
(* 5.4.1.1/5.4.1.3: only base_units="yes" makes a base unit; 5.4.2.6-7: an offset is acceptable iff it is zero *)
Definition isbS (d : udef) : bool := match d_base d with Some true => true | _ => false end.
Definition offokS (o : option offc) : bool :=
  match o with None | Some OffZeroInt | Some OffZeroOther => true | _ => false end.
Definition USpec (ds : list udef) := UnitSpec isbS offokS ds.

Definition ResolvableS (ds : list udef) : Prop :=
  names_ok ds /\
  (forall d, In d ds -> isbS d = false -> name_in (d_name d) (t_unsupported T) = false) /\
  (forall d, In d ds -> exists u, USpec ds (d_name d) u).

(* the only region left where the code departs from the specification: F2 *)
Definition in_fragment (ds : list udef) : bool := refs_wordlike ds.

Lemma code_base d : is_base d = isbS d.
Proof. unfold is_base, attr_truthy, isbS. destruct (d_base d) as [[|]|]; reflexivity. Qed.

Lemma code_offset o : offokM o = offokS o.
Proof. unfold offokM, offset_refused, offokS. destruct o as [[| | |]|]; reflexivity. Qed.

Lemma code_takes_cellml_decisions : (forall d, is_base d = isbS d) /\ (forall o, offokM o = offokS o).
Proof. exact (conj code_base code_offset). Qed.

Lemma fragment_words ds : refs_wordlike ds = true -> words_ok ds.
Proof.
  unfold refs_wordlike, words_ok. rewrite forallb_forall. intros H d Hd. specialize (H d Hd).
  rewrite forallb_forall in H. apply Forall_forall. exact H.
Qed.

Lemma code_spec ds : forall n u, USm ds n u <-> USpec ds n u.
Proof.
  intros n u. split.
  - apply (proj1 (UnitSpec_ext is_base isbS offokM offokS ds (fun d _ => code_base d)
                    (fun d c _ _ => code_offset (c_off c)))).
  - apply (proj1 (UnitSpec_ext isbS is_base offokS offokM ds (fun d _ => eq_sym (code_base d))
                    (fun d c _ _ => eq_sym (code_offset (c_off c))))).
Qed.

Theorem resolve_spec_partial ds st : in_fragment ds = true -> add_units T P ds = LOk st ->
  (forall n u, unit_of T st n = Ok u -> USpec ds n u) /\
  (forall n u, USpec ds n u -> name_in n (t_unsupported T) = false -> unit_of T st n = Ok u) /\
  names_ok ds.
Proof.
  intros H3 Hadd.
  destruct (resolve_spec_model ds st (fragment_words ds H3) Hadd) as [A1 [A2 A3]]. split; [|split; [|exact A3]].
  - intros n u Hu. apply (code_spec ds). apply A1. exact Hu.
  - intros n u Hu. apply A2. apply (code_spec ds). exact Hu.
Qed.

Theorem rejects_partial ds : in_fragment ds = true ->
  ((exists st, add_units T P ds = LOk st) <-> ResolvableS ds).
Proof.
  intros H3.
  rewrite (success_iff_resolvable ds (fragment_words ds H3)). unfold Resolvable, ResolvableS.
  split; intros [Hn [Hu Hd]]; (split; [exact Hn|split]).
  - intros d Hin Hb. apply Hu; [exact Hin|]. rewrite (code_base d). exact Hb.
  - intros d Hin. destruct (Hd d Hin) as [u H]. exists u. apply (code_spec ds). exact H.
  - intros d Hin Hb. apply Hu; [exact Hin|]. rewrite <- (code_base d). exact Hb.
  - intros d Hin. destruct (Hd d Hin) as [u H]. exists u. apply (code_spec ds). exact H.
Qed.

Theorem order_independent_partial ds ds' : Permutation ds ds' -> in_fragment ds = true ->
  ((exists st, add_units T P ds = LOk st) <-> (exists st', add_units T P ds' = LOk st')) /\
  (forall st st', add_units T P ds = LOk st -> add_units T P ds' = LOk st' ->
     forall n u, unit_of T st n = Ok u <-> unit_of T st' n = Ok u) /\
  (forall n u, USpec ds n u <-> USpec ds' n u).
Proof.
  intros Hp H3.
  destruct (order_independent ds ds' Hp (fragment_words ds H3)) as [A B].
  split; [exact A|]. split; [exact B|].
  intros n u. split.
  - apply (proj1 (UnitSpec_perm isbS offokS ds ds' (fun d => Permutation_in d Hp))).
  - apply (proj1 (UnitSpec_perm isbS offokS ds' ds (fun d => Permutation_in d (Permutation_sym Hp)))).
Qed.

(* ---- (e) what a definition means, read in the reals -------------------------------------------------- *)
Open Scope R_scope.

Definition prefixR (c : child) : R :=
  match c_prefix c with
  | None => 1
  | Some p => match prefix_value P p with Some q => Q2R q | None => 1 end
  end.
Definition multR (c : child) : R := match c_mult c with None => 1 | Some m => Q2R m end.
Definition expQ (c : child) : Q := match c_exp c with None => 1%Q | Some x => x end.

(* multiplier x (prefix x scale of the referenced unit) ^ exponent *)
Definition child_scaleR (c : child) (s : R) : R := multR c * Rpower (s * prefixR c) (Q2R (expQ c)).

Definition prodR (l : list R) : R := fold_right Rmult 1 l.
Definition sumQ (l : list Q) : Q := fold_right Qplus 0%Q l.

Lemma Q2R_one : Q2R 1 = 1.
Proof. unfold Q2R; cbn. rewrite Rinv_1. lra. Qed.

Lemma child_vec_scaleR c v cv : child_vec c v = Some cv -> scaleR cv = child_scaleR c (scaleR v).
Proof.
  unfold child_vec, child_scaleR, prefixR, multR, expQ.
  assert (Hpos : forall x, 0 < x -> Rpower x (Q2R 1) = x).
  { intros x Hx. rewrite Q2R_one. apply Rpower_1. exact Hx. }
  pose proof (scaleR_pos v) as Hv.
  destruct (c_prefix c) as [p|]; [destruct (prefix_value P p) as [q|]; [destruct (factorQ q) as [pv|] eqn:Eq|]|];
    try discriminate;
    destruct (c_exp c) as [x|]; (destruct (c_mult c) as [m|]; [destruct (factorQ m) as [mv|] eqn:Em|]);
    try discriminate; intros [= <-];
    repeat rewrite ?scaleR_umul, ?scaleR_upow;
    try rewrite (factorQ_scaleR _ _ Eq); try rewrite (factorQ_scaleR _ _ Em);
    try (pose proof (scaleR_pos pv) as Hp; rewrite (factorQ_scaleR _ _ Eq) in Hp);
    rewrite ?Rmult_1_r; rewrite ?Hpos; try lra; try nra.
Qed.

Lemma child_vec_dims c v cv : child_vec c v = Some cv ->
  forall k, is_dim k = true -> (get cv k == get v k * expQ c)%Q.
Proof.
  unfold child_vec, expQ. intros H k Hk.
  assert (Hk0 : (k <= 0)%Z) by (unfold is_dim in Hk; lia).
  assert (Hz : forall q w, factorQ q = Some w -> get w k = 0%Q).
  { intros q w Hq. apply get_keys_pos; [eapply factorQ_keys_pos; exact Hq|exact Hk0]. }
  revert H.
  destruct (c_prefix c) as [p|]; [destruct (prefix_value P p) as [q|]; [destruct (factorQ q) as [pv|] eqn:Eq|]|];
    try discriminate;
    destruct (c_exp c) as [x|]; (destruct (c_mult c) as [m|]; [destruct (factorQ m) as [mv|] eqn:Em|]);
    try discriminate; intros [= <-]; unfold umul;
    repeat rewrite ?get_app, ?get_upow;
    try rewrite (Hz _ _ Eq); try rewrite (Hz _ _ Em); ring.
Qed.

Lemma scaleR_fold r : forall a, scaleR (fold_left umul r a) = scaleR a * prodR (map scaleR r).
Proof.
  induction r as [|v r IH]; intros a; cbn [fold_left map prodR fold_right].
  - lra.
  - rewrite IH, scaleR_umul. fold (prodR (map scaleR r)). lra.
Qed.

Lemma scaleR_prod_vec vs : scaleR (prod_vec vs) = prodR (map scaleR vs).
Proof.
  destruct vs as [|v r]; cbn [prod_vec map prodR fold_right].
  - apply scaleR_uone.
  - apply scaleR_fold.
Qed.

Lemma get_fold r k : forall a, (get (fold_left umul r a) k == get a k + sumQ (map (fun v => get v k) r))%Q.
Proof.
  induction r as [|v r IH]; intros a; cbn [fold_left map sumQ fold_right].
  - ring.
  - rewrite IH. unfold umul. rewrite get_app. fold (sumQ (map (fun v0 => get v0 k) r)). ring.
Qed.

Lemma get_prod_vec vs k : (get (prod_vec vs) k == sumQ (map (fun v => get v k) vs))%Q.
Proof.
  destruct vs as [|v r]; cbn [prod_vec map sumQ fold_right].
  - reflexivity.
  - apply get_fold.
Qed.

Definition def_scaleR (cs : list child) (vs : list uvec) : R :=
  prodR (map (fun cv => child_scaleR (fst cv) (scaleR (snd cv))) (combine cs vs)).
Definition def_dim (cs : list child) (vs : list uvec) (k : Z) : Q :=
  sumQ (map (fun cv => get (snd cv) k * expQ (fst cv))%Q (combine cs vs)).

Lemma children_meaning ds cs cvs : CSm ds cs cvs ->
  exists vs, Forall2 (fun c v => USm ds (c_units c) v) cs vs /\
             prodR (map scaleR cvs) = def_scaleR cs vs /\
             forall k, is_dim k = true -> (sumQ (map (fun v => get v k) cvs) == def_dim cs vs k)%Q.
Proof.
  induction 1 as [|c cs v cv cvs Hu Hcv Ho Hrest [vs [IH1 [IH2 IH3]]]].
  - exists []. split; [constructor|]. split; [reflexivity|]. intros k _. reflexivity.
  - exists (v :: vs). split; [constructor; assumption|]. split.
    + unfold def_scaleR. cbn [map combine prodR fold_right fst snd].
      fold (prodR (map scaleR cvs)). rewrite IH2, (child_vec_scaleR _ _ _ Hcv). reflexivity.
    + intros k Hk. unfold def_dim. cbn [map combine sumQ fold_right fst snd].
      fold (sumQ (map (fun v0 => get v0 k) cvs)). rewrite (IH3 k Hk), (child_vec_dims _ _ _ Hcv k Hk).
      reflexivity.
Qed.

Lemma Forall2_weaken {X Y} (R R' : X -> Y -> Prop) l l' :
  (forall a b, R a b -> R' a b) -> Forall2 R l l' -> Forall2 R' l l'.
Proof. intros H. induction 1; constructor; auto. Qed.

Theorem definition_meaning ds st d : words_ok ds -> add_units T P ds = LOk st ->
  In d ds -> is_base d = false ->
  exists u vs,
    unit_of T st (d_name d) = Ok u /\ d_children d <> [] /\
    Forall2 (fun c v => USm ds (c_units c) v /\
                        (name_in (c_units c) (t_unsupported T) = false -> unit_of T st (c_units c) = Ok v))
            (d_children d) vs /\
    scaleR u = def_scaleR (d_children d) vs /\
    (forall k, is_dim k = true -> (get u k == def_dim (d_children d) vs k)%Q).
Proof.
  intros HW Hadd Hd Hb.
  destruct (resolve_spec_model ds st HW Hadd) as [A1 [A2 Hok]].
  destruct (success_resolvable ds st HW Hadd) as [_ [Hunsup Hder]].
  destruct (Hder d Hd) as [u Hu]. exists u.
  assert (Hdef : d_children d <> [] /\ exists cvs, CSm ds (d_children d) cvs /\ u = prod_vec cvs).
  { remember (d_name d) as n eqn:En.
    inversion Hu as [n' v' Hn' Hv'|d' Hd' Hb' En'|d' vs' Hd' Hb' Hne' Hc' En']; subst.
    - rewrite (proj2 Hok _ Hd) in Hn'. discriminate.
    - assert (d' = d) by (apply (same_name_same_def ds (proj1 Hok)); assumption). subst. congruence.
    - assert (d' = d) by (apply (same_name_same_def ds (proj1 Hok)); assumption). subst.
      split; [exact Hne'|]. exists vs'. split; [exact Hc'|reflexivity]. }
  destruct Hdef as [Hne [cvs [Hcs ->]]].
  destruct (children_meaning ds _ _ Hcs) as [vs [F1 [F2 F3]]]. exists vs.
  split; [apply A2; [exact Hu|apply Hunsup; assumption]|]. split; [exact Hne|]. split; [|split].
  - eapply Forall2_weaken; [|exact F1]. intros c v Hv. split; [exact Hv|]. intros Hs. apply A2; assumption.
  - rewrite scaleR_prod_vec. exact F2.
  - intros k Hk. rewrite get_prod_vec. apply F3. exact Hk.
Qed.

Close Scope R_scope.
End Spec.

(* ------------------------------------------------------------------------------------------ *)
(* new base units: distinct names are distinct generators, and never an SI dimension or a prime *)
Definition name_chars_ok (n : name) : Prop := Forall (fun c => 0 <= c < gen_radix) n.

Lemma name_code_pos n : 1 <= name_code n.
Proof.
  induction n as [|c n IH]; cbn [name_code]; [lia|].
  assert (0 <= c mod gen_radix) by (apply Z.mod_pos_bound; unfold gen_radix; lia).
  unfold gen_radix in *. lia.
Qed.

Lemma name_code_inj : forall a b, name_chars_ok a -> name_chars_ok b -> name_code a = name_code b -> a = b.
Proof.
  induction a as [|x a IH]; intros [|y b] Ha Hb; cbn [name_code]; intros E.
  - reflexivity.
  - exfalso. pose proof (name_code_pos b). assert (0 <= y mod gen_radix) by (apply Z.mod_pos_bound; unfold gen_radix; lia).
    unfold gen_radix in *. lia.
  - exfalso. pose proof (name_code_pos a). assert (0 <= x mod gen_radix) by (apply Z.mod_pos_bound; unfold gen_radix; lia).
    unfold gen_radix in *. lia.
  - inversion Ha as [|? ? Hx Ha']; inversion Hb as [|? ? Hy Hb']; subst.
    rewrite (Z.mod_small x), (Z.mod_small y) in E by assumption.
    assert (x = y /\ name_code a = name_code b) as [-> E'] by (unfold gen_radix in *; lia).
    f_equal. apply IH; assumption.
Qed.

Lemma base_gen_inj a b : name_chars_ok a -> name_chars_ok b -> base_gen a = base_gen b -> a = b.
Proof. unfold base_gen. intros Ha Hb E. apply name_code_inj; try assumption. lia. Qed.

Lemma base_gen_is_dim n : base_gen n < -100 /\ is_dim (base_gen n) = true /\ is_scale (base_gen n) = false.
Proof.
  pose proof (name_code_pos n). unfold base_gen, is_dim, is_scale, angle_gen. repeat split; lia.
Qed.

(* every table prefix is a power of ten *)
Lemma named_prefix_power_of_ten n q : nlookup unit_prefixes n = Some q ->
  exists k, nlookup si_prefix_exponents n = Some k /\ (q == pow10 k)%Q.
Proof.
  intros H. pose proof (prefix_table_ok n) as Hn.
  destruct (nlookup si_prefix_exponents n) as [k|].
  - destruct Hn as [q' [H1 H2]]. rewrite H in H1. injection H1 as <-. exists k. auto.
  - congruence.
Qed.

(* ------------------------------------------------------------------------------------------ *)
(* the real tables: the witness for finding F2, regression examples for the repaired F1 / F3, non-vacuity *)
Open Scope string_scope.
Definition plain (u : string) : child := mkChild (N u) None None None None.

(* F2: a unit whose name is a number *)
Definition ds_F2 : list udef :=
  [mkDef (N "10") None [mkChild (N "second") (Some (PInt 3)) None None None];
   mkDef (N "w") None [plain "10"; plain "metre"]].
Definition ds_good : list udef :=
  [mkDef (N "x") None [mkChild (N "mV") None (Some (2 # 1)) (Some (5 # 2)) None;
                       mkChild (N "b") (Some (PInt (-3))) (Some (-1 # 2)) None (Some OffZeroOther)];
   mkDef (N "b") (Some true) [];
   mkDef (N "mV") (Some false) [mkChild (N "volt") (Some (PName (N "milli"))) None None None]].
Close Scope string_scope.

Lemma names_refuted :
  exists ds st u u', refs_wordlike ds = false /\
    add_units the_tables unit_prefixes ds = LOk st /\
    unit_of the_tables st (d_name (nth 1 ds (mkDef [] None []))) = Ok u /\
    USpec the_tables unit_prefixes ds (d_name (nth 1 ds (mkDef [] None []))) u' /\ ueqb u u' = false.
Proof.
  exists ds_F2. eexists. eexists. eexists.
  split; [reflexivity|].
  split; [vm_compute; reflexivity|]. split; [vm_compute; reflexivity|]. split.
  - eapply (US_def the_tables unit_prefixes isbS offokS ds_F2 (nth 1 ds_F2 (mkDef [] None [])) [_; _]);
      [right; left; reflexivity|reflexivity|discriminate|].
    eapply CS_cons; [|vm_compute; reflexivity|reflexivity|].
    + eapply (US_def the_tables unit_prefixes isbS offokS ds_F2 (nth 0 ds_F2 (mkDef [] None [])) [_]);
        [left; reflexivity|reflexivity|discriminate|].
      eapply CS_cons; [eapply US_builtin; vm_compute; reflexivity|vm_compute; reflexivity|reflexivity|apply CS_nil].
    + eapply CS_cons; [eapply US_builtin; vm_compute; reflexivity|vm_compute; reflexivity|reflexivity|apply CS_nil].
  - vm_compute. reflexivity.
Qed.

(* the hypotheses of the _partial theorems are satisfiable: a family given in reverse dependency order *)
Example fragment_inhabited :
  exists st, in_fragment ds_good = true /\ add_units the_tables unit_prefixes ds_good = LOk st.
Proof. eexists. split; [reflexivity|vm_compute; reflexivity]. Qed.

Example cycle_rejected :
  add_units the_tables unit_prefixes
    [mkDef [97] None [mkChild [98] None None None None]; mkDef [98] None [mkChild [97] None None None None]]
  = LErr LValue.
Proof. vm_compute. reflexivity. Qed.

(* ------------------------------------------------------------------------------------------ *)
(* the statements of Props/C03.v with boolean guards *)
Lemma definition_meaning_guarded T P ds st d :
  refs_wordlike ds = true -> add_units T P ds = LOk st -> In d ds -> isbS d = false ->
  exists u vs,
    unit_of T st (d_name d) = Ok u /\ d_children d <> [] /\
    Forall2 (fun c v => USpec T P ds (c_units c) v /\
                        (name_in (c_units c) (t_unsupported T) = false -> unit_of T st (c_units c) = Ok v))
            (d_children d) vs /\
    scaleR u = def_scaleR P (d_children d) vs /\
    (forall k, is_dim k = true -> (get u k == def_dim (d_children d) vs k)%Q).
Proof.
  intros H Hadd Hd Hb. rewrite <- code_base in Hb.
  destruct (definition_meaning T P ds st d (fragment_words ds H) Hadd Hd Hb) as [u [vs [A [B [C [D E]]]]]].
  exists u, vs. split; [exact A|]. split; [exact B|]. split; [|split; [exact D|exact E]].
  eapply Forall2_weaken; [|exact C]. intros c v [H1 H2]. split; [apply code_spec; exact H1|exact H2].
Qed.

Lemma child_meaning P c v cv :
  child_vec P c v = Some cv ->
  scaleR cv = (multR c * Rpower (scaleR v * prefixR P c) (Q2R (expQ c)))%R /\
  (forall k, is_dim k = true -> (get cv k == get v k * expQ c)%Q).
Proof. intros H. split; [exact (child_vec_scaleR P c v cv H)|exact (child_vec_dims P c v cv H)]. Qed.

(* regression examples for the repaired decisions (F1, F3): base_units="no" is an ordinary definition, a zero
   offset in any spelling is accepted, a non-zero offset is refused *)
Example base_units_no_is_ordinary :
  match add_units the_tables unit_prefixes [mkDef [97] (Some false) [mkChild (N "second") None None None None]] with
  | LOk st => match unit_of the_tables st [97], nlookup builtin_table (N "second") with
              | Ok u, Some v => ueqb u v
              | _, _ => false
              end
  | _ => false
  end = true.
Proof. vm_compute. reflexivity. Qed.

Example offset_zero_accepted_nonzero_refused :
  (match add_units the_tables unit_prefixes
           [mkDef [97] None [mkChild (N "kelvin") None None None (Some OffZeroOther)]] with LOk _ => true | _ => false end)
  && (match add_units the_tables unit_prefixes
           [mkDef [97] None [mkChild (N "kelvin") None None None (Some OffNonzeroOther)]] with LErr LValue => true | _ => false end)
  = true.
Proof. vm_compute. reflexivity. Qed.
