(* C06: well-formedness (Model/ConvertVar.v wf_state) as an INVARIANT of convert_variable:
     wf_step_ok      : a well-formed state satisfies step_ok for every variable in range and both directions;
     wf_preserved    : every successful conversion of a well-formed state yields a well-formed state;
     sequence_from_wf: hence ANY sequence of successful conversions starting in a well-formed state preserves the
                       solutions (sequence_equiv of C06SeqP.v without a premise per step). *)
From Coq Require Import List ZArith QArith Bool Lia Reals Qreals Permutation.
From Verif Require Import Sexp UnitAlg UnitAlgP Expr Eval ModelSM ConvertVar C06EvalP C06P C06ShapeP C06ReplaceP C06StateP C06MainP C06FreeP C06FoldP C06FreeMainP C06SeqP.
Import ListNotations.

(* ---- ebound ------------------------------------------------------------------------------------------------------- *)
Lemma ebound_list N l : (fix all (l : list expr) : bool := match l with [] => true | x :: r => ebound N x && all r end) l
                        = forallb (ebound N) l.
Proof. induction l as [|x r IH]; cbn [forallb]; [reflexivity|]. rewrite IH. reflexivity. Qed.
Lemma ebound_plist N l : (fix allp (l : list (expr * expr)) : bool :=
                            match l with [] => true | (x, c) :: r => ebound N x && ebound N c && allp r end) l
                         = forallb (fun xc => ebound N (fst xc) && ebound N (snd xc)) l.
Proof. induction l as [|[x c] r IH]; cbn [forallb fst snd]; [reflexivity|]. rewrite IH. reflexivity. Qed.

Lemma idx_ok_lt N z : idx_ok N z = true -> (Z.to_nat z < N)%nat.
Proof. unfold idx_ok. intros H. apply andb_true_iff in H as [_ H]. apply Nat.ltb_lt in H. exact H. Qed.

Lemma idx_ok_mono N M z : (N <= M)%nat -> idx_ok N z = true -> idx_ok M z = true.
Proof.
  unfold idx_ok. intros Hle H. apply andb_true_iff in H as [H0 H]. apply Nat.ltb_lt in H. rewrite H0. cbn [andb].
  apply Nat.ltb_lt. lia.
Qed.

Lemma idx_ok_nat N i : (i < N)%nat -> idx_ok N (Z.of_nat i) = true.
Proof.
  intros H. unfold idx_ok. rewrite Nat2Z.id. apply andb_true_iff. split; [apply Z.leb_le; lia|apply Nat.ltb_lt; exact H].
Qed.

Ltac list_case IH H :=
  rewrite forallb_forall in H; rewrite forallb_forall; rewrite Forall_forall in IH;
  let x := fresh "x" in let Hx := fresh "Hx" in intros x Hx; apply IH; [exact Hx|apply H; exact Hx].

Lemma ebound_mono N M e : (N <= M)%nat -> ebound N e = true -> ebound M e = true.
Proof.
  intros Hle.
  induction e as [k q|c|id q u|v|l IH|l IH|b e IHb IHe|f l IH|a b k IHy IHt|r a b IHa IHb|op l IH| | |l IH] using expr_ind';
    intros H; try reflexivity.
  - cbn [ebound] in H |- *. apply (idx_ok_mono N M); assumption.
  - cbn [ebound] in H |- *. rewrite ebound_list in H. rewrite ebound_list. list_case IH H.
  - cbn [ebound] in H |- *. rewrite ebound_list in H. rewrite ebound_list. list_case IH H.
  - cbn [ebound] in H |- *. apply andb_true_iff in H as [H1 H2]. rewrite (IHb H1), (IHe H2). reflexivity.
  - cbn [ebound] in H |- *. rewrite ebound_list in H. rewrite ebound_list. list_case IH H.
  - destruct a as [| | |va| | | | | | | | | |]; try reflexivity. destruct b as [| | |vb| | | | | | | | | |]; try reflexivity.
    destruct k as [|[p|p|]|p]; try reflexivity.
    cbn [ebound] in H |- *. apply andb_true_iff in H as [H1 H2].
    rewrite (idx_ok_mono N M _ Hle H1), (idx_ok_mono N M _ Hle H2). reflexivity.
  - cbn [ebound] in H |- *. apply andb_true_iff in H as [H1 H2]. rewrite (IHa H1), (IHb H2). reflexivity.
  - cbn [ebound] in H |- *. rewrite ebound_list in H. rewrite ebound_list. list_case IH H.
  - cbn [ebound] in H |- *. rewrite ebound_plist in H. rewrite ebound_plist.
    rewrite forallb_forall in H. rewrite forallb_forall. rewrite Forall_forall in IH. intros xc Hx.
    destruct (IH xc Hx) as [A B]. specialize (H xc Hx). apply andb_true_iff in H as [H1 H2]. rewrite (A H1), (B H2). reflexivity.
Qed.

(* a variable index at or above the bound does not occur *)
Lemma ebound_vfree N w e : ebound N e = true -> (N <= w)%nat -> vfree w e = true.
Proof.
  intros H Hle. revert H.
  induction e as [k q|c|id q u|v|l IH|l IH|b e IHb IHe|f l IH|a b k IHy IHt|r a b IHa IHb|op l IH| | |l IH] using expr_ind';
    intros H; try reflexivity.
  - cbn [ebound] in H. cbn [vfree]. apply idx_ok_lt in H. apply negb_true_iff. apply Nat.eqb_neq. lia.
  - cbn [ebound] in H. cbn [vfree]. rewrite ebound_list in H. rewrite vfree_list. list_case IH H.
  - cbn [ebound] in H. cbn [vfree]. rewrite ebound_list in H. rewrite vfree_list. list_case IH H.
  - cbn [ebound] in H. cbn [vfree]. apply andb_true_iff in H as [H1 H2]. rewrite (IHb H1), (IHe H2). reflexivity.
  - cbn [ebound] in H. cbn [vfree]. rewrite ebound_list in H. rewrite vfree_list. list_case IH H.
  - cbn [ebound] in H. cbn [vfree]. apply andb_true_iff in H as [H1 H2]. rewrite (IHa H1), (IHb H2). reflexivity.
  - cbn [ebound] in H. cbn [vfree]. rewrite ebound_list in H. rewrite vfree_list. list_case IH H.
  - cbn [ebound] in H. cbn [vfree]. rewrite ebound_plist in H. rewrite vfree_plist.
    rewrite forallb_forall in H. rewrite forallb_forall. rewrite Forall_forall in IH. intros xc Hx.
    destruct (IH xc Hx) as [A B]. specialize (H xc Hx). apply andb_true_iff in H as [H1 H2]. rewrite (A H1), (B H2). reflexivity.
Qed.

(* a derivative atom one of whose indices is at or above the bound does not occur *)
Lemma ebound_dfree N y t e : ebound N e = true -> (N <= y \/ N <= t)%nat -> dfree y t e = true.
Proof.
  intros H Hle. revert H.
  induction e as [k q|c|id q u|v|l IH|l IH|b e IHb IHe|f l IH|a b k IHy IHt|r a b IHa IHb|op l IH| | |l IH] using expr_ind';
    intros H; try reflexivity.
  - cbn [ebound] in H. cbn [dfree]. rewrite ebound_list in H. rewrite dfree_list. list_case IH H.
  - cbn [ebound] in H. cbn [dfree]. rewrite ebound_list in H. rewrite dfree_list. list_case IH H.
  - cbn [ebound] in H. cbn [dfree]. apply andb_true_iff in H as [H1 H2]. rewrite (IHb H1), (IHe H2). reflexivity.
  - cbn [ebound] in H. cbn [dfree]. rewrite ebound_list in H. rewrite dfree_list. list_case IH H.
  - destruct a as [| | |va| | | | | | | | | |]; try reflexivity. destruct b as [| | |vb| | | | | | | | | |]; try reflexivity.
    destruct k as [|[p|p|]|p]; try reflexivity.
    cbn [ebound] in H. cbn [dfree]. apply andb_true_iff in H as [H1 H2]. apply idx_ok_lt in H1. apply idx_ok_lt in H2.
    apply negb_true_iff. apply andb_false_iff. destruct Hle as [Hle|Hle]; [left|right]; apply Nat.eqb_neq; lia.
  - cbn [ebound] in H. cbn [dfree]. apply andb_true_iff in H as [H1 H2]. rewrite (IHa H1), (IHb H2). reflexivity.
  - cbn [ebound] in H. cbn [dfree]. rewrite ebound_list in H. rewrite dfree_list. list_case IH H.
  - cbn [ebound] in H. cbn [dfree]. rewrite ebound_plist in H. rewrite dfree_plist.
    rewrite forallb_forall in H. rewrite forallb_forall. rewrite Forall_forall in IH. intros xc Hx.
    destruct (IH xc Hx) as [A B]. specialize (H xc Hx). apply andb_true_iff in H as [H1 H2]. rewrite (A H1), (B H2). reflexivity.
Qed.

(* substitution of derivative atoms by variables below the bound keeps the bound *)
Lemma ebound_subst N m e : (forall yw, In yw m -> (snd yw < N)%nat) -> ebound N e = true -> ebound N (subst_deriv m e) = true.
Proof.
  intros Hm.
  induction e as [k q|c|id q u|v|l IH|l IH|b e IHb IHe|f l IH|a b k IHy IHt|r a b IHa IHb|op l IH| | |l IH] using expr_ind';
    intros H; try exact H.
  - cbn [subst_deriv]. rewrite subst_list. cbn [ebound] in H |- *. rewrite ebound_list in H. rewrite ebound_list.
    rewrite forallb_forall in H. rewrite forallb_forall. rewrite Forall_forall in IH. intros x Hx.
    apply in_map_iff in Hx as [x0 [<- Hx0]]. apply IH; [exact Hx0|apply H; exact Hx0].
  - cbn [subst_deriv]. rewrite subst_list. cbn [ebound] in H |- *. rewrite ebound_list in H. rewrite ebound_list.
    rewrite forallb_forall in H. rewrite forallb_forall. rewrite Forall_forall in IH. intros x Hx.
    apply in_map_iff in Hx as [x0 [<- Hx0]]. apply IH; [exact Hx0|apply H; exact Hx0].
  - cbn [subst_deriv]. cbn [ebound] in H |- *. apply andb_true_iff in H as [H1 H2]. rewrite (IHb H1), (IHe H2). reflexivity.
  - cbn [subst_deriv]. rewrite subst_list. cbn [ebound] in H |- *. rewrite ebound_list in H. rewrite ebound_list.
    rewrite forallb_forall in H. rewrite forallb_forall. rewrite Forall_forall in IH. intros x Hx.
    apply in_map_iff in Hx as [x0 [<- Hx0]]. apply IH; [exact Hx0|apply H; exact Hx0].
  - destruct a as [| | |va| | | | | | | | | |]; try exact H. destruct b as [| | |vb| | | | | | | | | |]; try exact H.
    destruct k as [|[p|p|]|p]; try exact H.
    cbn [subst_deriv]. destruct (find _ m) as [yw|] eqn:Hf; [|exact H].
    apply find_some in Hf as [Hin _]. unfold var. cbn [ebound]. apply idx_ok_nat. apply Hm. exact Hin.
  - cbn [subst_deriv]. cbn [ebound] in H |- *. apply andb_true_iff in H as [H1 H2]. rewrite (IHa H1), (IHb H2). reflexivity.
  - cbn [subst_deriv]. rewrite subst_list. cbn [ebound] in H |- *. rewrite ebound_list in H. rewrite ebound_list.
    rewrite forallb_forall in H. rewrite forallb_forall. rewrite Forall_forall in IH. intros x Hx.
    apply in_map_iff in Hx as [x0 [<- Hx0]]. apply IH; [exact Hx0|apply H; exact Hx0].
  - cbn [subst_deriv]. rewrite subst_plist. cbn [ebound] in H |- *. rewrite ebound_plist in H. rewrite ebound_plist.
    rewrite forallb_forall in H. rewrite forallb_forall. rewrite Forall_forall in IH. intros xc Hx.
    apply in_map_iff in Hx as [[x0 c0] [<- Hx0]]. cbn [fst snd].
    destruct (IH _ Hx0) as [A B]. specialize (H _ Hx0). cbn [fst snd] in A, B, H. apply andb_true_iff in H as [H1 H2].
    rewrite (A H1), (B H2). reflexivity.
Qed.

Lemma ebound_var N i : (i < N)%nat -> ebound N (var i) = true.
Proof. intros H. unfold var. cbn [ebound]. apply idx_ok_nat. exact H. Qed.
Lemma ebound_emul N a id c u : ebound N a = true -> ebound N (emul a (EQty id c u)) = true.
Proof. intros H. unfold emul. cbn [ebound]. rewrite H. reflexivity. Qed.
Lemma ebound_ediv N a id c u : ebound N a = true -> ebound N (ediv a (EQty id c u)) = true.
Proof. intros H. unfold ediv. cbn [ebound]. rewrite H. reflexivity. Qed.

(* ---- the propositional form of wf_state: invariant under permutations of the equation list ------------------------- *)
Definition lhs_ok (N : nat) (x : clhs) : Prop :=
  match x with CLV v => (v < N)%nat | CLD y t => (y < N)%nat /\ (t < N)%nat end.
(* all ODEs are with respect to one variable, which no equation defines *)
Definition one_free (ls : list clhs) : Prop :=
  forall y1 t1, In (CLD y1 t1) ls -> forall x, In x ls -> lhs_var x <> t1 /\ (forall y t, x = CLD y t -> t = t1).
Definition WfL (N : nat) (ls : list clhs) : Prop :=
  NoDup (map lhs_var ls) /\ (forall x, In x ls -> lhs_ok N x) /\ one_free ls.
Definition Wf (N : nat) (l : list ceq) : Prop :=
  WfL N (map q_lhs l) /\ (forall q, In q l -> ebound N (q_rhs q) = true).

Lemma nat_nodupb_iff l : nat_nodupb l = true <-> NoDup l.
Proof.
  induction l as [|x r IH]; cbn [nat_nodupb]; [split; [constructor|reflexivity]|].
  rewrite andb_true_iff, negb_true_iff, IH. split.
  - intros [H1 H2]. constructor; [|exact H2]. intros Hin.
    assert (E : existsb (Nat.eqb x) r = true) by (apply existsb_exists; exists x; split; [exact Hin|apply Nat.eqb_refl]). congruence.
  - intros H. inversion H as [|? ? Hn Hr]; subst. split; [|exact Hr].
    destruct (existsb (Nat.eqb x) r) eqn:E; [|reflexivity]. exfalso. apply existsb_exists in E as [y [Hy E]].
    apply Nat.eqb_eq in E. subst y. contradiction.
Qed.

Lemma lhs_nodupb_complete l : NoDup l -> lhs_nodupb l = true.
Proof.
  induction 1 as [|x r Hn _ IH]; cbn [lhs_nodupb]; [reflexivity|]. rewrite IH, andb_true_r. apply negb_true_iff.
  destruct (existsb (clhs_eqb x) r) eqn:E; [|reflexivity]. exfalso. apply existsb_exists in E as [y [Hy E]].
  destruct (clhs_eqb_spec x y); [subst y; contradiction|discriminate].
Qed.

(* free_var: either there is no ODE at all, or it is the differentiation variable of some ODE *)
Lemma free_var_spec s :
  (free_var s = None /\ forall q y t, In q (ceqs s) -> q_lhs q <> CLD y t) \/
  (exists q y t, In q (ceqs s) /\ q_lhs q = CLD y t /\ free_var s = Some t).
Proof.
  unfold free_var, odes. induction (ceqs s) as [|x l IH]; cbn [filter]; [left; split; [reflexivity|intros q y t []]|].
  destruct (q_lhs x) as [w|y t] eqn:E.
  - destruct IH as [[A B]|[q [y [t [A [B C]]]]]].
    + left. split; [exact A|]. intros q y t [<-|Hq]; [congruence|apply B; exact Hq].
    + right. exists q, y, t. split; [right; exact A|split; assumption].
  - right. exists x, y, t. split; [left; reflexivity|]. split; [exact E|]. rewrite E. reflexivity.
Qed.

Lemma wf_state_iff s : wf_state s = true <-> Wf (length (cvars s)) (ceqs s).
Proof.
  unfold wf_state, Wf, WfL. rewrite andb_true_iff, nat_nodupb_iff, forallb_forall, map_map. split.
  - intros [Hnd Hall]. split; [split; [exact Hnd|split]|].
    + intros x Hx. apply in_map_iff in Hx as [q [<- Hq]]. specialize (Hall q Hq). unfold wf_eq in Hall.
      apply andb_true_iff in Hall as [_ Hl]. destruct (q_lhs q) as [w|y t]; cbn [lhs_ok].
      * apply andb_true_iff in Hl as [Hl _]. apply Nat.ltb_lt. exact Hl.
      * apply andb_true_iff in Hl as [Hl _]. apply andb_true_iff in Hl as [A B]. split; apply Nat.ltb_lt; assumption.
    + intros y1 t1 H1 x Hx. apply in_map_iff in H1 as [q1 [E1 Hq1]]. apply in_map_iff in Hx as [q [<- Hq]].
      pose proof (Hall q1 Hq1) as W1. unfold wf_eq in W1. apply andb_true_iff in W1 as [_ W1]. rewrite E1 in W1.
      apply andb_true_iff in W1 as [_ W1]. destruct (free_var s) as [t0|]; [|discriminate].
      apply andb_true_iff in W1 as [W1 _]. apply Nat.eqb_eq in W1. subst t0.
      pose proof (Hall q Hq) as W. unfold wf_eq in W. apply andb_true_iff in W as [_ W].
      destruct (q_lhs q) as [w|y t]; cbn [lhs_var].
      * apply andb_true_iff in W as [_ W]. apply negb_true_iff in W. apply Nat.eqb_neq in W. split; [exact W|]. intros ? ? [=].
      * apply andb_true_iff in W as [_ W]. apply andb_true_iff in W as [A B]. apply Nat.eqb_eq in A. apply negb_true_iff in B.
        apply Nat.eqb_neq in B. split; [exact B|]. intros ? ? [= <- <-]. exact A.
    + intros q Hq. specialize (Hall q Hq). unfold wf_eq in Hall. apply andb_true_iff in Hall as [Hb _]. exact Hb.
  - intros [[Hnd [Hok Hone]] Hb]. split; [exact Hnd|]. intros q Hq. unfold wf_eq. rewrite (Hb q Hq). cbn [andb].
    assert (Hin : In (q_lhs q) (map q_lhs (ceqs s))) by (apply in_map; exact Hq).
    pose proof (Hok _ Hin) as Hlo.
    destruct (free_var_spec s) as [[Hf Hno]|[q0 [y0 [t0 [Hq0 [E0 Hf]]]]]]; rewrite Hf.
    + destruct (q_lhs q) as [w|y t] eqn:E; [|exfalso; apply (Hno q y t Hq E)]. cbn [lhs_ok] in Hlo.
      rewrite andb_true_r. apply Nat.ltb_lt. exact Hlo.
    + assert (Hin0 : In (CLD y0 t0) (map q_lhs (ceqs s))) by (rewrite <- E0; apply in_map; exact Hq0).
      destruct (Hone y0 t0 Hin0 _ Hin) as [Hne Ht]. destruct (q_lhs q) as [w|y t]; cbn [lhs_ok lhs_var] in *.
      * apply andb_true_iff. split; [apply Nat.ltb_lt; exact Hlo|apply negb_true_iff; apply Nat.eqb_neq; exact Hne].
      * destruct Hlo as [A B]. rewrite (Ht y t eq_refl). apply andb_true_iff. split.
        -- apply andb_true_iff. split; apply Nat.ltb_lt; [exact A|]. rewrite <- (Ht y t eq_refl). exact B.
        -- apply andb_true_iff. split; [apply Nat.eqb_refl|apply negb_true_iff; apply Nat.eqb_neq; exact Hne].
Qed.

Lemma WfL_perm N ls ls' : Permutation ls ls' -> WfL N ls -> WfL N ls'.
Proof.
  intros Hp [Hnd [Hok Hone]]. pose proof (Permutation_sym Hp) as Hp'. split; [|split].
  - apply (Permutation_NoDup (l := map lhs_var ls)); [apply Permutation_map; exact Hp|exact Hnd].
  - intros x Hx. apply Hok. apply (Permutation_in x Hp'). exact Hx.
  - intros y1 t1 H1 x Hx. apply (Hone y1 t1); [apply (Permutation_in _ Hp'); exact H1|apply (Permutation_in _ Hp'); exact Hx].
Qed.

Lemma Wf_perm N l l' : Permutation l l' -> Wf N l -> Wf N l'.
Proof.
  intros Hp [HL Hb]. split; [apply (WfL_perm N (map q_lhs l)); [apply Permutation_map; exact Hp|exact HL]|].
  intros q Hq. apply Hb. apply (Permutation_in q (Permutation_sym Hp)). exact Hq.
Qed.

(* wf_state does not depend on the order of the equations *)
Theorem wf_perm s s' : length (cvars s) = length (cvars s') -> Permutation (ceqs s) (ceqs s') ->
  wf_state s = true -> wf_state s' = true.
Proof. intros Hl Hp H. apply wf_state_iff. rewrite <- Hl. apply (Wf_perm _ _ _ Hp). apply wf_state_iff. exact H. Qed.

Lemma lhs_ok_mono N M x : (N <= M)%nat -> lhs_ok N x -> lhs_ok M x.
Proof. intros Hle. destruct x as [w|y t]; cbn [lhs_ok]; lia. Qed.

Lemma Wf_mono N M l : (N <= M)%nat -> Wf N l -> Wf M l.
Proof.
  intros Hle [[Hnd [Hok Hone]] Hb]. split; [split; [exact Hnd|split; [|exact Hone]]|].
  - intros x Hx. apply (lhs_ok_mono N M x Hle). apply Hok. exact Hx.
  - intros q Hq. apply (ebound_mono N M _ Hle). apply Hb. exact Hq.
Qed.

Lemma NoDup_map_inj_on {X Y} (f : X -> Y) l a b : NoDup (map f l) -> In a l -> In b l -> f a = f b -> a = b.
Proof.
  induction l as [|x l IH]; cbn [map]; intros Hnd Ha Hb E; [contradiction|].
  inversion Hnd as [|? ? Hn Hr]; subst. destruct Ha as [->|Ha], Hb as [->|Hb].
  - reflexivity.
  - exfalso. apply Hn. rewrite E. apply in_map. exact Hb.
  - exfalso. apply Hn. rewrite <- E. apply in_map. exact Ha.
  - apply IH; assumption.
Qed.

Lemma Wf_lhs_nodup N l : Wf N l -> NoDup (map q_lhs l).
Proof. intros [[Hnd _] _]. apply (NoDup_map_inv lhs_var). exact Hnd. Qed.

(* the free variable of a well-formed state is the differentiation variable of EVERY ODE *)
Lemma Wf_free_var s q y t : Wf (length (cvars s)) (ceqs s) -> In q (ceqs s) -> q_lhs q = CLD y t -> free_var s = Some t.
Proof.
  intros [[_ [_ Hone]] _] Hq E. destruct (free_var_spec s) as [[_ Hno]|[q0 [y0 [t0 [Hq0 [E0 Hf]]]]]]; [exfalso; apply (Hno q y t Hq E)|].
  rewrite Hf. f_equal.
  assert (Hin0 : In (CLD y0 t0) (map q_lhs (ceqs s))) by (rewrite <- E0; apply in_map; exact Hq0).
  assert (Hin : In (CLD y t) (map q_lhs (ceqs s))) by (rewrite <- E; apply in_map; exact Hq).
  destruct (Hone y0 t0 Hin0 _ Hin) as [_ Ht]. symmetry. apply (Ht y t eq_refl).
Qed.

(* no equation defines the free variable *)
Lemma Wf_free_undefined s t0 q : Wf (length (cvars s)) (ceqs s) -> free_var s = Some t0 -> In q (ceqs s) -> lhs_var (q_lhs q) <> t0.
Proof.
  intros [[_ [_ Hone]] _] Hf Hq. destruct (free_var_spec s) as [[Hf' _]|[q0 [y0 [t1 [Hq0 [E0 Hf']]]]]]; [congruence|].
  assert (t1 = t0) by congruence. subst t1.
  assert (Hin0 : In (CLD y0 t0) (map q_lhs (ceqs s))) by (rewrite <- E0; apply in_map; exact Hq0).
  apply (Hone y0 t0 Hin0). apply in_map. exact Hq.
Qed.

Lemma var_def_some s v q : var_def s v = Some q -> In q (ceqs s) /\ q_lhs q = CLV v.
Proof.
  unfold var_def. intros H. apply find_some in H as [Hin E]. split; [exact Hin|].
  destruct (clhs_eqb_spec (q_lhs q) (CLV v)); [assumption|discriminate].
Qed.

(* a variable with an ODE has no assignment *)
Lemma Wf_state_no_assignment s v ode : Wf (length (cvars s)) (ceqs s) -> ode_def s v = Some ode -> var_def s v = None.
Proof.
  intros [[Hnd _] _] Ho. destruct (var_def s v) as [q|] eqn:Hv; [exfalso|reflexivity].
  destruct (ode_def_some s v ode Ho) as [Hin [t' El]]. destruct (var_def_some s v q Hv) as [Hin' El'].
  rewrite map_map in Hnd.
  assert (E : ode = q) by (apply (NoDup_map_inj_on (fun q => lhs_var (q_lhs q)) (ceqs s)); [assumption..|rewrite El, El'; reflexivity]).
  subst q. congruence.
Qed.

(* ---- (i) a well-formed state meets the premises of every step ------------------------------------------------------ *)
Lemma Wf_fresh_var1 N l q w : Wf N l -> In q l -> (N <= w)%nat -> fresh_var1 w q = true.
Proof.
  intros [[_ [Hok _]] Hb] Hq Hle. unfold fresh_var1. rewrite (ebound_vfree N w _ (Hb q Hq) Hle), andb_true_r.
  pose proof (Hok _ (in_map q_lhs _ _ Hq)) as Hlo. destruct (q_lhs q) as [x|y t]; [|reflexivity]. cbn [lhs_ok] in Hlo.
  apply negb_true_iff. apply Nat.eqb_neq. lia.
Qed.

Lemma Wf_fresh_atom1 N l q y t : Wf N l -> In q l -> (N <= y \/ N <= t)%nat -> fresh_atom1 y t q = true.
Proof.
  intros [[_ [Hok _]] Hb] Hq Hle. unfold fresh_atom1. rewrite (ebound_dfree N y t _ (Hb q Hq) Hle), andb_true_r.
  pose proof (Hok _ (in_map q_lhs _ _ Hq)) as Hlo. destruct (q_lhs q) as [x|a b]; [reflexivity|]. cbn [lhs_ok] in Hlo.
  apply negb_true_iff. apply andb_false_iff. destruct Hle as [Hle|Hle]; [left|right]; apply Nat.eqb_neq; lia.
Qed.

Lemma Wf_premises_hold s : Wf (length (cvars s)) (ceqs s) -> premises_hold s = true.
Proof.
  intros HW. unfold premises_hold, fresh_var, fresh_atom. rewrite !andb_true_iff. repeat split.
  - rewrite forallb_forall. intros q Hq. apply (Wf_fresh_var1 _ _ q _ HW Hq). lia.
  - rewrite forallb_forall. intros q Hq. apply (Wf_fresh_var1 _ _ q _ HW Hq). lia.
  - apply lhs_nodupb_complete. apply (Wf_lhs_nodup _ _ HW).
  - rewrite forallb_forall. intros t _. rewrite forallb_forall. intros q Hq. apply (Wf_fresh_atom1 _ _ q _ _ HW Hq). left. lia.
Qed.

Lemma Wf_free_ok s v : Wf (length (cvars s)) (ceqs s) -> free_var s = Some v -> (v < length (cvars s))%nat -> free_ok s v = true.
Proof.
  intros HW Hf Hv. unfold free_ok. rewrite !andb_true_iff. repeat split.
  - apply lhs_nodupb_complete. apply (Wf_lhs_nodup _ _ HW).
  - rewrite forallb_forall. intros q Hq. pose proof HW as [[_ [Hok _]] _].
    pose proof (Hok _ (in_map q_lhs _ _ Hq)) as Hlo. destruct (q_lhs q) as [x|y t] eqn:E; cbn [lhs_ok] in Hlo.
    + apply Nat.ltb_lt. exact Hlo.
    + pose proof (Wf_free_var s q y t HW Hq E) as Hf'. assert (t = v) by congruence. subst t.
      apply andb_true_iff. split; [apply Nat.eqb_refl|apply Nat.ltb_lt; lia].
  - apply Nat.ltb_lt. exact Hv.
  - rewrite forallb_forall. intros q Hq. rewrite !andb_true_iff. repeat split.
    + apply (Wf_fresh_var1 _ _ q _ HW Hq). lia.
    + rewrite forallb_forall. intros w Hw. apply in_seq in Hw. apply (Wf_fresh_var1 _ _ q _ HW Hq). lia.
    + rewrite forallb_forall. intros y _. apply (Wf_fresh_atom1 _ _ q _ _ HW Hq). right. lia.
Qed.

Lemma Wf_step_ok s v d : Wf (length (cvars s)) (ceqs s) -> (v < length (cvars s))%nat -> step_ok s v d = true.
Proof.
  intros HW Hv. unfold step_ok. rewrite (Wf_premises_hold s HW). cbn [andb].
  assert (E : Nat.ltb v (length (cvars s)) = true) by (apply Nat.ltb_lt; exact Hv). rewrite E. cbn [andb].
  destruct d; [|reflexivity].
  destruct (match free_var s with Some t => Nat.eqb t v | None => false end) eqn:Hfree.
  - assert (Hf : free_var s = Some v).
    { destruct (free_var s) as [t|]; [|discriminate]. apply Nat.eqb_eq in Hfree. congruence. }
    rewrite (Wf_free_ok s v HW Hf Hv), andb_true_r. apply andb_true_iff. split.
    + apply negb_true_iff. unfold is_state. destruct (ode_def s v) as [ode|] eqn:Ho; [exfalso|reflexivity].
      destruct (ode_def_some s v ode Ho) as [Hin [t' El]].
      apply (Wf_free_undefined s v ode HW Hf Hin). rewrite El. reflexivity.
    + destruct (var_def s v) as [q|] eqn:Hvd; [exfalso|reflexivity].
      destruct (var_def_some s v q Hvd) as [Hin El].
      apply (Wf_free_undefined s v q HW Hf Hin). rewrite El. reflexivity.
  - destruct (ode_def s v) as [ode|] eqn:Ho; [|reflexivity].
    destruct (ode_def_some s v ode Ho) as [Hin [t' El]]. rewrite El.
    rewrite (Wf_state_no_assignment s v ode HW Ho), andb_true_r.
    destruct HW as [[_ [Hok _]] _]. pose proof (Hok _ (in_map q_lhs _ _ Hin)) as Hlo. rewrite El in Hlo. cbn [lhs_ok] in Hlo.
    apply Nat.leb_le. lia.
Qed.

Theorem wf_step_ok s v d : wf_state s = true -> (v < length (cvars s))%nat -> step_ok s v d = true.
Proof. intros H. apply Wf_step_ok. apply wf_state_iff. exact H. Qed.

(* ---- scoping of the left-hand sides through convert_variable (all phases of the code) ------------------------------- *)
Definition Sc (K : nat) (st : cstate) : Prop :=
  (K <= length (cvars st))%nat /\ forall q, In q (ceqs st) -> lhs_ok (length (cvars st)) (q_lhs q).

Lemma replace_derivs_lhs_sub m l q : In q (replace_derivs m l) -> In (q_lhs q) (map q_lhs l).
Proof.
  unfold replace_derivs.
  assert (G : forall todo acc, (forall q, In q todo -> In (q_lhs q) (map q_lhs l)) ->
      (forall q, In q acc -> In (q_lhs q) (map q_lhs l)) ->
      forall q, In q (fold_left (fun acc q => if mentions_deriv m (q_rhs q)
                   then remove_eq acc (q_lhs q) ++ [{| q_lhs := q_lhs q; q_rhs := subst_deriv m (q_rhs q) |}] else acc) todo acc) ->
                In (q_lhs q) (map q_lhs l)).
  { induction todo as [|x todo IH]; intros acc Ht Ha q0; cbn [fold_left]; [apply Ha|].
    apply IH; [intros q1 H1; apply Ht; right; exact H1|].
    destruct (mentions_deriv m (q_rhs x)); [|exact Ha].
    intros q1 H1. apply in_app_or in H1 as [H1|[<-|[]]]; [apply Ha; apply (remove_eq_sub _ _ _ H1)|cbn [q_lhs]; apply Ht; left; reflexivity]. }
  apply G; intros q0 H0; apply in_map; exact H0.
Qed.

Lemma free_step_Sc K v n cf acc y : (n < K)%nat -> Sc K (fst acc) -> Sc K (fst (free_step v n cf acc y)).
Proof.
  intros Hn [HK Hs]. destruct acc as [st rp]. cbn [fst] in *. unfold free_step.
  destruct (ode_def st y) as [ode|] eqn:Ho; [|split; assumption].
  destruct (ode_def_some st y ode Ho) as [Hin [t' El]]. rewrite El.
  destruct (Nat.eqb t' v); [|split; assumption].
  cbn [move_ode_rhs fst cvars ceqs]. unfold Sc. cbn [cvars ceqs]. rewrite app_length. cbn [length]. split; [lia|].
  intros q Hq. apply in_app_or in Hq as [Hq|[<-|[]]]; [apply in_app_or in Hq as [Hq|[<-|[]]]|].
  - apply (lhs_ok_mono (length (cvars st))); [lia|]. apply Hs. apply (remove_eq_sub _ _ _ Hq).
  - cbn [q_lhs lhs_ok]. lia.
  - cbn [q_lhs lhs_ok]. pose proof (Hs ode Hin) as Hlo. rewrite El in Hlo. cbn [lhs_ok] in Hlo. lia.
Qed.

Lemma fold_free_Sc K v n cf ks acc : (n < K)%nat -> Sc K (fst acc) -> Sc K (fst (fold_left (free_step v n cf) ks acc)).
Proof.
  intros Hn. revert acc. induction ks as [|k ks IH]; intros acc H; cbn [fold_left]; [exact H|].
  apply IH. apply free_step_Sc; assumption.
Qed.

(* after a conversion that did something, the variable list has grown and every left-hand side is in scope *)
Lemma convert_scoped s v target d mv s' n :
  convert_variable s v target d mv = COk (s', n) -> n = length (cvars s) ->
  (forall q, In q (ceqs s) -> lhs_ok (length (cvars s)) (q_lhs q)) -> (v < length (cvars s))%nat ->
  Sc (S (length (cvars s))) s'.
Proof.
  intros H Hn Hs Hv. revert H. unfold convert_variable.
  destruct (nth_error (cvars s) v) as [orig|]; [|discriminate].
  destruct (conv (c_unit orig) target) as [cfv|]; [|discriminate].
  destruct (is_one cfv); [intros [= <- <-]; lia|].
  destruct (vec_to_Q cfv) as [cfq|]; [|discriminate].
  cbv zeta.
  destruct d.
  2:{ intros [= <- <-]. unfold Sc. cbn [cvars ceqs].
      match goal with |- (_ <= length ?V)%nat /\ _ => assert (L : length V = S (length (cvars s))) end.
      { destruct (match c_cmeta orig with Some _ => mv | None => false end); rewrite ?set_var_length, app_length; cbn [length]; lia. }
      rewrite L. split; [lia|]. intros q Hq. apply in_app_or in Hq as [Hq|[<-|[]]].
      - apply (lhs_ok_mono (length (cvars s))); [lia|]. apply Hs. exact Hq.
      - cbn [q_lhs lhs_ok]. lia. }
  match goal with |- context [let '(s2, repl1) := ?X in _] => set (phase1 := X) end.
  assert (P1 : Sc (S (length (cvars s))) (fst phase1)).
  { unfold phase1.
    match goal with |- context [ode_def ?S v] => set (s1 := S) end.
    assert (Lv : length (cvars s1) = S (length (cvars s))).
    { unfold s1. cbn [cvars]. rewrite set_var_length. destruct (match c_cmeta orig with Some _ => mv | None => false end);
        rewrite ?set_var_length, app_length; cbn [length]; lia. }
    assert (S1 : Sc (S (length (cvars s))) s1).
    { unfold Sc. rewrite Lv. split; [lia|]. unfold s1. cbn [ceqs]. intros q Hq.
      apply in_app_or in Hq as [Hq|[<-|[]]]; [|cbn [q_lhs lhs_ok]; lia].
      destruct (var_def _ v) as [q0|].
      - apply in_app_or in Hq as [Hq|[<-|[]]]; [|cbn [q_lhs lhs_ok cvars]; lia].
        apply (lhs_ok_mono (length (cvars s))); [lia|]. apply Hs. apply (remove_eq_sub _ _ _ Hq).
      - apply (lhs_ok_mono (length (cvars s))); [lia|]. apply Hs. exact Hq. }
    destruct (is_state s v); [|cbn [fst]; exact S1].
    destruct (ode_def s1 v) as [ode|] eqn:Ho; [|cbn [fst]; exact S1].
    destruct (ode_def_some s1 v ode Ho) as [Hin [t' El]]. rewrite El.
    destruct S1 as [K1 H1].
    cbn [move_ode_rhs fst]. unfold Sc. cbn [cvars ceqs]. rewrite app_length. cbn [length]. fold s1. split; [lia|].
    intros q Hq. apply in_app_or in Hq as [Hq|[<-|[]]]; [apply in_app_or in Hq as [Hq|[<-|[]]]|].
    - apply (lhs_ok_mono (length (cvars s1))); [lia|]. apply H1. apply (remove_eq_sub _ _ _ Hq).
    - cbn [q_lhs lhs_ok]. lia.
    - cbn [q_lhs lhs_ok]. pose proof (H1 ode Hin) as Hlo. rewrite El in Hlo. cbn [lhs_ok] in Hlo. lia. }
  destruct phase1 as [s2 repl1]. cbn [fst] in P1.
  match goal with |- context [let '(s3, repl2) := ?X in _] => set (phase2 := X) end.
  assert (P2 : Sc (S (length (cvars s))) (fst phase2)).
  { unfold phase2. destruct (free_var s) as [t|]; [|exact P1]. destruct (Nat.eqb t v); [|exact P1].
    apply fold_free_Sc; [cbn [cvars]; lia|exact P1]. }
  destruct phase2 as [s3 repl2]. cbn [fst] in P2. intros [= <- <-]. destruct P2 as [K2 H2]. split; cbn [cvars ceqs]; [exact K2|].
  intros q Hq. apply replace_derivs_lhs_sub in Hq. apply in_map_iff in Hq as [q0 [E Hq0]]. rewrite <- E. apply H2. exact Hq0.
Qed.

(* ---- building well-formed equation lists ----------------------------------------------------------------------------- *)
Definition lv (q : ceq) : nat := lhs_var (q_lhs q).

Lemma Wf_lv_nodup N l : Wf N l -> NoDup (map lv l).
Proof. intros [[Hnd _] _]. rewrite map_map in Hnd. exact Hnd. Qed.

Lemma NoDup_app_disj {X} (a b : list X) x : NoDup (a ++ b) -> In x a -> ~ In x b.
Proof.
  induction a as [|y a IH]; cbn [app]; intros Hnd Ha Hb; [contradiction|].
  inversion Hnd as [|? ? Hn Hr]; subst. destruct Ha as [->|Ha]; [apply Hn; apply in_or_app; right; exact Hb|].
  apply (IH Hr Ha Hb).
Qed.

Lemma Wf_in_lt N l q : Wf N l -> In q l -> (lv q < N)%nat.
Proof.
  intros [[_ [Hok _]] _] Hq. pose proof (Hok _ (in_map q_lhs _ _ Hq)) as Hlo. unfold lv.
  destruct (q_lhs q) as [x|y t]; cbn [lhs_ok lhs_var] in *; lia.
Qed.

(* a new index is not defined by the equations *)
Lemma Wf_disj_fresh N l x : Wf N l -> (N <= x)%nat -> ~ In x (map lv l).
Proof. intros HW Hle Hin. apply in_map_iff in Hin as [q [E Hq]]. pose proof (Wf_in_lt N l q HW Hq). lia. Qed.

(* a variable defined by a removed equation is not defined by the rest *)
Lemma Wf_disj_removed N l removed rest x : Wf N l -> Permutation l (removed ++ rest) -> In x (map lv removed) -> ~ In x (map lv rest).
Proof.
  intros HW Hp Hin. apply (NoDup_app_disj (map lv removed) (map lv rest)); [|exact Hin].
  rewrite <- map_app. apply (Permutation_NoDup (l := map lv l)); [apply Permutation_map; exact Hp|apply (Wf_lv_nodup N); exact HW].
Qed.

(* the differentiation variable of an ODE is below the bound, and no equation defines it *)
Lemma Wf_F_fresh N l q0 y0 t0 x : Wf N l -> In q0 l -> q_lhs q0 = CLD y0 t0 -> (N <= x)%nat -> x <> t0.
Proof.
  intros [[_ [Hok _]] _] Hq0 E Hle. pose proof (Hok _ (in_map q_lhs _ _ Hq0)) as Hlo. rewrite E in Hlo. cbn [lhs_ok] in Hlo. lia.
Qed.

Lemma Wf_F_defined N l q0 y0 t0 x : Wf N l -> In q0 l -> q_lhs q0 = CLD y0 t0 -> In x (map lv l) -> x <> t0.
Proof.
  intros [[_ [_ Hone]] _] Hq0 E Hin. apply in_map_iff in Hin as [q [<- Hq]].
  assert (H0 : In (CLD y0 t0) (map q_lhs l)) by (rewrite <- E; apply in_map; exact Hq0).
  apply (Hone y0 t0 H0 (q_lhs q)). apply in_map. exact Hq.
Qed.

Lemma Wf_extend N M l removed rest new :
  Wf N l -> (N <= M)%nat -> Permutation l (removed ++ rest) ->
  NoDup (map lv new) ->
  (forall q, In q new -> lhs_ok M (q_lhs q) /\ ebound M (q_rhs q) = true) ->
  (forall q, In q new -> ~ In (lv q) (map lv rest)) ->
  (forall q, In q new -> forall q0 y0 t0, In q0 l -> q_lhs q0 = CLD y0 t0 -> lv q <> t0) ->
  (forall q, In q new -> forall y t, q_lhs q = CLD y t -> exists q0 y0, In q0 l /\ q_lhs q0 = CLD y0 t) ->
  Wf M (rest ++ new).
Proof.
  intros HW Hle Hp Hndn HB HD HF HO.
  assert (Hrest : forall q, In q rest -> In q l).
  { intros q Hq. apply (Permutation_in q (Permutation_sym Hp)). apply in_or_app. right. exact Hq. }
  pose proof HW as [[Hnd [Hok Hone]] Hb].
  split; [split; [|split]|].
  - rewrite map_map, map_app. apply NoDup_app_join_lhs; [|exact Hndn|].
    + assert (H : NoDup (map lv removed ++ map lv rest)).
      { rewrite <- map_app. apply (Permutation_NoDup (l := map lv l)); [apply Permutation_map; exact Hp|apply (Wf_lv_nodup N); exact HW]. }
      apply (NoDup_app_parts _ _ H).
    + intros x Hx Hx'. apply in_map_iff in Hx' as [q [<- Hq]]. apply (HD q Hq Hx).
  - intros x Hx. apply in_map_iff in Hx as [q [<- Hq]]. apply in_app_or in Hq as [Hq|Hq].
    + apply (lhs_ok_mono N M _ Hle). apply Hok. apply in_map. apply Hrest. exact Hq.
    + apply (HB q Hq).
  - intros y1 t1 H1 x Hx.
    assert (Hex : exists q0 y0, In q0 l /\ q_lhs q0 = CLD y0 t1).
    { apply in_map_iff in H1 as [q1 [E1 Hq1]]. apply in_app_or in Hq1 as [Hq1|Hq1].
      - exists q1, y1. split; [apply Hrest; exact Hq1|exact E1].
      - apply (HO q1 Hq1 y1 t1 E1). }
    destruct Hex as [q0 [y0 [Hq0 E0]]].
    assert (H0 : In (CLD y0 t1) (map q_lhs l)) by (rewrite <- E0; apply in_map; exact Hq0).
    apply in_map_iff in Hx as [q [<- Hq]]. apply in_app_or in Hq as [Hq|Hq].
    + apply (Hone y0 t1 H0). apply in_map. apply Hrest. exact Hq.
    + split; [apply (HF q Hq q0 y0 t1 Hq0 E0)|]. intros y t E.
      destruct (HO q Hq y t E) as [q2 [y2 [Hq2 E2]]].
      assert (H2 : In (CLD y2 t) (map q_lhs l)) by (rewrite <- E2; apply in_map; exact Hq2).
      apply (proj2 (Hone y0 t1 H0 _ H2) y2 t eq_refl).
  - intros q Hq. apply in_app_or in Hq as [Hq|Hq]; [apply (ebound_mono N M _ Hle); apply Hb; apply Hrest; exact Hq|apply (HB q Hq)].
Qed.

(* substitution of derivative atoms in every equation / _replace_references_to_derivatives *)
Lemma Wf_map_sub M m l : Wf M l -> (forall yw, In yw m -> (snd yw < M)%nat) -> Wf M (map (sub m) l).
Proof.
  intros [HL Hb] Hm. split; [rewrite map_lhs_sub; exact HL|].
  intros q Hq. apply in_map_iff in Hq as [q0 [<- Hq0]]. cbn [sub q_rhs]. apply (ebound_subst M m _ Hm). apply Hb. exact Hq0.
Qed.

Lemma Wf_replace M m l : Wf M l -> (forall yw, In yw m -> (snd yw < M)%nat) -> Wf M (replace_derivs m l).
Proof.
  intros HW Hm. apply (Wf_perm M (map (sub m) l)); [|apply Wf_map_sub; assumption].
  apply Permutation_sym. etransitivity; [apply (replace_derivs_perm m l (Wf_lhs_nodup M l HW))|apply replaced_perm_map].
Qed.

Lemma replace_derivs_lhs_perm M m l : Wf M l -> Permutation (map q_lhs (replace_derivs m l)) (map q_lhs l).
Proof.
  intros HW. rewrite <- (map_lhs_sub m l). apply Permutation_map.
  etransitivity; [apply (replace_derivs_perm m l (Wf_lhs_nodup M l HW))|apply replaced_perm_map].
Qed.

Lemma Wf_disj_fresh_rest N l removed rest x : Wf N l -> Permutation l (removed ++ rest) -> (N <= x)%nat -> ~ In x (map lv rest).
Proof.
  intros HW Hp Hle Hin. apply (Wf_disj_fresh N l x HW Hle). apply in_map_iff in Hin as [q [E Hq]]. apply in_map_iff. exists q.
  split; [exact E|]. apply (Permutation_in q (Permutation_sym Hp)). apply in_or_app. right. exact Hq.
Qed.

Lemma find_lhs_some l lhs q : find (fun q => clhs_eqb (q_lhs q) lhs) l = Some q -> In q l /\ q_lhs q = lhs.
Proof.
  intros H. apply find_some in H as [Hin E]. split; [exact Hin|]. destruct (clhs_eqb_spec (q_lhs q) lhs); [assumption|discriminate].
Qed.

(* ---- the four kinds of conversion --------------------------------------------------------------------------------- *)
Lemma Wf_case_output N M l v id c u :
  Wf N l -> (S N <= M)%nat -> (v < N)%nat ->
  Wf M (l ++ [{| q_lhs := CLV N; q_rhs := emul (var v) (EQty id c u) |}]).
Proof.
  intros HW HM Hv. apply (Wf_extend N M l [] l); [exact HW|lia|reflexivity| | | | |].
  - unfold lv. cbn [map q_lhs lhs_var]. constructor; [intros []|constructor].
  - intros q [<-|[]]. cbn [q_lhs q_rhs lhs_ok]. split; [lia|apply ebound_emul; apply ebound_var; lia].
  - intros q [<-|[]]. apply (Wf_disj_fresh N l _ HW). unfold lv. cbn [q_lhs lhs_var]. lia.
  - intros q [<-|[]] q0 y0 t0 Hq0 E. apply (Wf_F_fresh N l q0 y0 t0 _ HW Hq0 E). unfold lv. cbn [q_lhs lhs_var]. lia.
  - intros q [<-|[]] y t E. discriminate.
Qed.

Lemma Wf_case_input_const N M l v id c u :
  Wf N l -> (S N <= M)%nat -> (v < N)%nat -> ~ In v (map lv l) ->
  (forall q0 y0 t0, In q0 l -> q_lhs q0 = CLD y0 t0 -> v <> t0) ->
  Wf M (l ++ [{| q_lhs := CLV v; q_rhs := ediv (var N) (EQty id c u) |}]).
Proof.
  intros HW HM Hv Hundef Hnf. apply (Wf_extend N M l [] l); [exact HW|lia|reflexivity| | | | |].
  - unfold lv. cbn [map q_lhs lhs_var]. constructor; [intros []|constructor].
  - intros q [<-|[]]. cbn [q_lhs q_rhs lhs_ok]. split; [lia|apply ebound_ediv; apply ebound_var; lia].
  - intros q [<-|[]]. exact Hundef.
  - intros q [<-|[]] q0 y0 t0 Hq0 E. apply (Hnf q0 y0 t0 Hq0 E).
  - intros q [<-|[]] y t E. discriminate.
Qed.

Lemma Wf_case_input_computed N M l v q id c u :
  Wf N l -> (S N <= M)%nat -> (v < N)%nat ->
  find (fun q => clhs_eqb (q_lhs q) (CLV v)) l = Some q ->
  Wf M ((remove_eq l (CLV v) ++ [{| q_lhs := CLV N; q_rhs := emul (q_rhs q) (EQty id c u) |}])
        ++ [{| q_lhs := CLV v; q_rhs := ediv (var N) (EQty id c u) |}]).
Proof.
  intros HW HM Hv Hf. destruct (find_lhs_some l (CLV v) q Hf) as [Hin El].
  assert (Hp : Permutation l ([q] ++ remove_eq l (CLV v))).
  { rewrite <- El. apply (remove_eq_perm l q (Wf_lhs_nodup N l HW) Hin). }
  assert (Hvin : In v (map lv l)) by (apply in_map_iff; exists q; split; [unfold lv; rewrite El; reflexivity|exact Hin]).
  rewrite <- app_assoc. cbn [app]. apply (Wf_extend N M l [q] (remove_eq l (CLV v))); [exact HW|lia|exact Hp| | | | |].
  - unfold lv. cbn [map q_lhs lhs_var]. constructor; [intros [E|[]]; lia|constructor; [intros []|constructor]].
  - intros q1 [<-|[<-|[]]]; cbn [q_lhs q_rhs lhs_ok]; (split; [lia|]).
    + apply ebound_emul. apply (ebound_mono N M); [lia|]. destruct HW as [_ Hb]. apply Hb. exact Hin.
    + apply ebound_ediv. apply ebound_var. lia.
  - intros q1 [<-|[<-|[]]]; unfold lv at 1; cbn [q_lhs lhs_var].
    + apply (Wf_disj_fresh_rest N l [q] _ N HW Hp). lia.
    + apply (Wf_disj_removed N l [q] _ v HW Hp). unfold lv. cbn [map]. rewrite El. left. reflexivity.
  - intros q1 [<-|[<-|[]]] q0 y0 t0 Hq0 E; unfold lv; cbn [q_lhs lhs_var].
    + apply (Wf_F_fresh N l q0 y0 t0 _ HW Hq0 E). lia.
    + apply (Wf_F_defined N l q0 y0 t0 _ HW Hq0 E Hvin).
  - intros q1 [<-|[<-|[]]] y t E; discriminate.
Qed.

Lemma Wf_case_input_state N M l v t ode id c u :
  Wf N l -> (S (S N) <= M)%nat -> (v < N)%nat ->
  find (fun q => clhs_eqb (q_lhs q) (CLD v t)) l = Some ode ->
  Wf M ((remove_eq (l ++ [{| q_lhs := CLV v; q_rhs := ediv (var N) (EQty id c u) |}]) (CLD v t)
          ++ [{| q_lhs := CLV (S N); q_rhs := q_rhs ode |}])
         ++ [{| q_lhs := CLD N t; q_rhs := emul (var (S N)) (EQty id c u) |}]).
Proof.
  intros HW HM Hv Hf. destruct (find_lhs_some l (CLD v t) ode Hf) as [Hin El].
  assert (Hp : Permutation l ([ode] ++ remove_eq l (CLD v t))).
  { rewrite <- El. apply (remove_eq_perm l ode (Wf_lhs_nodup N l HW) Hin). }
  assert (Hvin : In v (map lv l)) by (apply in_map_iff; exists ode; split; [unfold lv; rewrite El; reflexivity|exact Hin]).
  assert (Ht : (t < N)%nat).
  { destruct HW as [[_ [Hok _]] _]. pose proof (Hok _ (in_map q_lhs _ _ Hin)) as Hlo. rewrite El in Hlo. cbn [lhs_ok] in Hlo. lia. }
  rewrite (remove_eq_app_found l _ (CLD v t) ode Hf). rewrite <- !app_assoc. cbn [app].
  apply (Wf_extend N M l [ode] (remove_eq l (CLD v t))); [exact HW|lia|exact Hp| | | | |].
  - unfold lv. cbn [map q_lhs lhs_var]. constructor; [intros [E|[E|[]]]; lia|].
    constructor; [intros [E|[]]; lia|constructor; [intros []|constructor]].
  - intros q1 [<-|[<-|[<-|[]]]]; cbn [q_lhs q_rhs lhs_ok]; (split; [lia|]).
    + apply ebound_ediv. apply ebound_var. lia.
    + apply (ebound_mono N M); [lia|]. destruct HW as [_ Hb]. apply Hb. exact Hin.
    + apply ebound_emul. apply ebound_var. lia.
  - intros q1 [<-|[<-|[<-|[]]]]; unfold lv at 1; cbn [q_lhs lhs_var].
    + apply (Wf_disj_removed N l [ode] _ v HW Hp). unfold lv. cbn [map]. rewrite El. left. reflexivity.
    + apply (Wf_disj_fresh_rest N l [ode] _ _ HW Hp). lia.
    + apply (Wf_disj_fresh_rest N l [ode] _ _ HW Hp). lia.
  - intros q1 [<-|[<-|[<-|[]]]] q0 y0 t0 Hq0 E; unfold lv; cbn [q_lhs lhs_var].
    + apply (Wf_F_defined N l q0 y0 t0 _ HW Hq0 E Hvin).
    + apply (Wf_F_fresh N l q0 y0 t0 _ HW Hq0 E). lia.
    + apply (Wf_F_fresh N l q0 y0 t0 _ HW Hq0 E). lia.
  - intros q1 [<-|[<-|[<-|[]]]] y t' E; try discriminate. cbn [q_lhs] in E. injection E as _ <-.
    exists ode, v. split; assumption.
Qed.

Lemma one_free_intro ls t0 : (forall x, In x ls -> lhs_var x <> t0 /\ forall y t, x = CLD y t -> t = t0) -> one_free ls.
Proof.
  intros H y1 t1 H1 x Hx. assert (t1 = t0) by (apply (proj2 (H _ H1) y1 t1 eq_refl)). subst t1. apply H. exact Hx.
Qed.

Lemma Wf_case_input_free N M l l' plain os v id c u :
  Wf N l -> (S N <= M)%nat -> (v < N)%nat ->
  (forall q, In q plain -> is_ode q = false) ->
  Permutation l (orig_system plain os v) ->
  Permutation l' (free_system plain os v N (EQty id c u)) ->
  ws_of os = seq (S N) (length os) -> (forall w, In w (ws_of os) -> (w < M)%nat) ->
  (forall q, In q l -> lv q <> v) ->
  Wf M l'.
Proof.
  intros HW HM Hv Hplain Hl Hl' Hws HwM Hundef.
  set (cf := EQty id c u) in *. set (m := subst_map os v).
  set (veq := {| q_lhs := CLV v; q_rhs := ediv (var N) cf |}).
  set (Wq := fun o : orec => {| q_lhs := CLV (snd o); q_rhs := snd (fst o) |}).
  set (Dq := fun o : orec => {| q_lhs := CLD (fst (fst o)) N; q_rhs := ediv (var (snd o)) cf |}).
  set (Oq := fun o : orec => {| q_lhs := CLD (fst (fst o)) v; q_rhs := snd (fst o) |}).
  set (base := plain ++ [veq] ++ map Wq os ++ map Dq os).
  assert (Efs : free_system plain os v N cf = map (sub m) base).
  { unfold free_system, base. rewrite !map_app, !map_map. reflexivity. }
  apply (Wf_perm M _ _ (Permutation_sym Hl')). rewrite Efs. apply Wf_map_sub.
  2:{ intros yw Hin. unfold m, subst_map in Hin. apply in_map_iff in Hin as [o [<- Ho]]. cbn [snd]. apply HwM.
      unfold ws_of. apply in_map_iff. exists o. split; [reflexivity|exact Ho]. }
  (* the original system, split *)
  pose proof (Wf_perm N _ _ Hl HW) as HA. unfold orig_system in HA. fold Oq in HA.
  assert (Hundef' : forall q, In q (plain ++ map Oq os) -> lv q <> v).
  { intros q Hq. apply Hundef. apply (Permutation_in q (Permutation_sym Hl)). exact Hq. }
  assert (Fp : forall q, In q plain -> (lv q < N)%nat /\ lv q <> v /\ ebound N (q_rhs q) = true /\ exists x, q_lhs q = CLV x).
  { intros q Hq. assert (Hq' : In q (plain ++ map Oq os)) by (apply in_or_app; left; exact Hq).
    split; [apply (Wf_in_lt N _ q HA Hq')|]. split; [apply Hundef'; exact Hq'|]. split; [destruct HA as [_ Hb]; apply Hb; exact Hq'|].
    pose proof (Hplain q Hq) as Hno. unfold is_ode in Hno. destruct (q_lhs q) as [x|y t]; [exists x; reflexivity|discriminate]. }
  assert (Fo : forall o, In o os -> (fst (fst o) < N)%nat /\ fst (fst o) <> v /\ ebound N (snd (fst o)) = true).
  { intros o Ho. assert (Hq' : In (Oq o) (plain ++ map Oq os)) by (apply in_or_app; right; apply in_map; exact Ho).
    split; [apply (Wf_in_lt N _ _ HA Hq')|]. split; [apply (Hundef' _ Hq')|]. destruct HA as [_ Hb]. apply (Hb _ Hq'). }
  assert (Fw : forall o, In o os -> (S N <= snd o)%nat /\ (snd o < M)%nat).
  { intros o Ho. assert (Hin : In (snd o) (ws_of os)) by (unfold ws_of; apply in_map_iff; exists o; split; [reflexivity|exact Ho]).
    split; [rewrite Hws in Hin; apply in_seq in Hin; lia|apply HwM; exact Hin]. }
  assert (Hndo : NoDup (map lv plain ++ ys_of os)).
  { pose proof (Wf_lv_nodup N _ HA) as H. rewrite map_app, map_map in H. exact H. }
  (* every equation of base *)
  assert (Fb : forall q, In q base -> lhs_ok M (q_lhs q) /\ lv q <> N /\ (forall y t, q_lhs q = CLD y t -> t = N) /\ ebound M (q_rhs q) = true).
  { intros q Hq. unfold base in Hq. apply in_app_or in Hq as [Hq|[<-|Hq]]; [| |cbn [app] in Hq; apply in_app_or in Hq as [Hq|Hq]].
    - destruct (Fp q Hq) as [A [_ [B [x E]]]]. unfold lv in *. rewrite E in *. cbn [lhs_ok lhs_var] in *.
      split; [lia|]. split; [lia|]. split; [intros ? ? [=]|apply (ebound_mono N M); [lia|exact B]].
    - unfold lv. cbn [veq q_lhs q_rhs lhs_ok lhs_var]. split; [lia|]. split; [lia|]. split; [intros ? ? [=]|].
      apply ebound_ediv. apply ebound_var. lia.
    - apply in_map_iff in Hq as [o [<- Ho]]. destruct (Fw o Ho) as [A B]. destruct (Fo o Ho) as [_ [_ C]].
      unfold lv. cbn [Wq q_lhs q_rhs lhs_ok lhs_var]. split; [lia|]. split; [lia|]. split; [intros ? ? [=]|].
      apply (ebound_mono N M); [lia|exact C].
    - apply in_map_iff in Hq as [o [<- Ho]]. destruct (Fw o Ho) as [A B]. destruct (Fo o Ho) as [C _].
      unfold lv. cbn [Dq q_lhs q_rhs lhs_ok lhs_var]. split; [lia|]. split; [lia|]. split; [intros ? ? [= _ <-]; reflexivity|].
      apply ebound_ediv. apply ebound_var. lia. }
  split; [split; [|split]|].
  - rewrite map_map. change (NoDup (map lv base)). unfold base. rewrite !map_app, !map_map.
    change (NoDup (map lv plain ++ [v] ++ ws_of os ++ ys_of os)).
    destruct (NoDup_app_parts _ _ Hndo) as [Hnp Hny].
    apply NoDup_app_join_lhs; [exact Hnp| |].
    + cbn [app]. constructor.
      * intros Hin. apply in_app_or in Hin as [Hin|Hin].
        -- rewrite Hws in Hin. apply in_seq in Hin. lia.
        -- unfold ys_of in Hin. apply in_map_iff in Hin as [o [E Ho]]. destruct (Fo o Ho) as [_ [A _]]. congruence.
      * apply NoDup_app_join_lhs; [rewrite Hws; apply seq_NoDup|exact Hny|].
        intros x Hx Hx'. rewrite Hws in Hx. apply in_seq in Hx. unfold ys_of in Hx'. apply in_map_iff in Hx' as [o [E Ho]].
        destruct (Fo o Ho) as [A _]. lia.
    + intros x Hx Hx'. pose proof Hx as Hx0. apply in_map_iff in Hx0 as [q [E Hq]]. destruct (Fp q Hq) as [A [B _]].
      cbn [app] in Hx'. destruct Hx' as [<-|Hx']; [congruence|]. apply in_app_or in Hx' as [Hx'|Hx'].
      * rewrite Hws in Hx'. apply in_seq in Hx'. lia.
      * apply (NoDup_app_disj _ _ x Hndo Hx Hx').
  - intros x Hx. apply in_map_iff in Hx as [q [<- Hq]]. apply (Fb q Hq).
  - apply (one_free_intro _ N). intros x Hx. apply in_map_iff in Hx as [q [<- Hq]]. destruct (Fb q Hq) as [_ [A [B _]]].
    split; [exact A|exact B].
  - intros q Hq. apply (Fb q Hq).
Qed.

(* ---- (ii) every successful conversion preserves well-formedness ---------------------------------------------------- *)
Theorem Wf_preserved s v target d mv s' n :
  Wf (length (cvars s)) (ceqs s) -> convert_variable s v target d mv = COk (s', n) ->
  Wf (length (cvars s')) (ceqs s').
Proof.
  intros HW H.
  pose proof (convert_in_range _ _ _ _ _ _ _ H) as Hv.
  destruct (convert_index_length s v target d mv s' n H) as [[[-> ->]|Hn] _]; [exact HW|].
  assert (Hnv : n <> v) by lia.
  assert (HSc : Sc (S (length (cvars s))) s').
  { apply (convert_scoped s v target d mv s' n H Hn); [|exact Hv]. intros q Hq. destruct HW as [[_ [Hok _]] _]. apply Hok.
    apply in_map. exact Hq. }
  destruct HSc as [HM Hlhs].
  pose proof (step_ok_meaning s v DInput (Wf_step_ok s v DInput HW Hv)) as [_ [_ Hmean]]. specialize (Hmean eq_refl).
  destruct Hmean as [Hmf Hms].
  destruct d.
  - (* INPUT *)
    destruct (match free_var s with Some t => Nat.eqb t v | None => false end) eqn:Hfree.
    + (* of the free variable *)
      assert (Hf : free_var s = Some v).
      { destruct (free_var s) as [t|]; [|discriminate]. apply Nat.eqb_eq in Hfree. congruence. }
      destruct (Hmf Hf) as [Hst [Hvd Hfo]].
      destruct (convert_input_free_refines s v target mv s' n H Hnv Hf Hst Hvd Hfo) as [cfq [os [_ [_ Hrest]]]].
      cbn zeta in Hrest. destruct Hrest as [Hl [Hl' [Hws _]]]. subst n.
      apply (Wf_case_input_free (length (cvars s)) (length (cvars s')) (ceqs s) (ceqs s')
               (filter (fun q => negb (is_ode q)) (ceqs s)) os v (cqnext s) cfq (Z.of_nat (length (cunits s))));
        [exact HW|exact HM|exact Hv| |exact Hl|exact Hl'|exact Hws| |].
      * intros q Hq. apply filter_In in Hq as [_ Hq]. apply negb_true_iff in Hq. exact Hq.
      * intros w Hw. unfold ws_of in Hw. apply in_map_iff in Hw as [o [<- Ho]].
        set (m := subst_map os v).
        assert (Hin : In {| q_lhs := CLV (snd o); q_rhs := subst_deriv m (snd (fst o)) |} (ceqs s')).
        { apply (Permutation_in _ (Permutation_sym Hl')). unfold free_system. apply in_or_app. right. cbn [app]. right.
          apply in_or_app. left. apply in_map_iff. exists o. split; [reflexivity|exact Ho]. }
        apply (Hlhs _ Hin).
      * intros q Hq. apply (Wf_free_undefined s v q HW Hf Hq).
    + assert (Hfree' : forall t, free_var s = Some t -> t <> v).
      { intros t Ht. rewrite Ht in Hfree. apply Nat.eqb_neq. exact Hfree. }
      destruct (ode_def s v) as [ode|] eqn:Ho.
      * (* of a state variable *)
        destruct (ode_def_some s v ode Ho) as [Hin [t El]].
        pose proof (Wf_state_no_assignment s v ode HW Ho) as Hvd.
        destruct (convert_input_state_shape s v target mv s' n ode t H Hnv Ho El Hvd Hfree')
          as [orig [cfv [cfq [_ [_ [_ [_ [_ Hs']]]]]]]].
        subst n. pose proof (ode_def_exact s v ode t Ho El) as Hfind.
        pose proof (Wf_case_input_state (length (cvars s)) (S (S (length (cvars s)))) (ceqs s) v t ode (cqnext s) cfq
                      (Z.of_nat (length (cunits s))) HW (le_n _) Hv Hfind) as W3.
        match type of Hs' with _ = replace_derivs _ ?L => set (L3 := L) in * end.
        assert (HSN : (S (length (cvars s)) < length (cvars s'))%nat).
        { assert (Hi : In (CLV (S (length (cvars s)))) (map q_lhs (ceqs s'))).
          { rewrite Hs'. apply (Permutation_in _ (Permutation_sym (replace_derivs_lhs_perm _ _ L3 W3))).
            unfold L3. rewrite !map_app. apply in_or_app. left. apply in_or_app. right. left. reflexivity. }
          apply in_map_iff in Hi as [q [E Hq]]. pose proof (Hlhs q Hq) as Hlo. rewrite E in Hlo. exact Hlo. }
        rewrite Hs'. apply Wf_replace; [apply (Wf_mono (S (S (length (cvars s))))); [lia|exact W3]|].
        intros yw [<-|[]]. cbn [snd]. exact HSN.
      * (* of a constant or a computed variable *)
        assert (Hst : is_state s v = false) by (unfold is_state; rewrite Ho; reflexivity).
        destruct (convert_input_plain_shape s v target mv s' n H Hst Hfree')
          as [[_ E]|[orig [cfv [cfq [_ [_ [_ [_ [_ [_ Hs']]]]]]]]]]; [congruence|].
        cbn zeta in Hs'. subst n. rewrite Hs'.
        destruct (find (fun q => clhs_eqb (q_lhs q) (CLV v)) (ceqs s)) as [q|] eqn:Hfd.
        -- apply Wf_case_input_computed; assumption.
        -- apply Wf_case_input_const; [exact HW|exact HM|exact Hv| |].
           ++ intros Hin. apply in_map_iff in Hin as [q [E Hq]]. unfold lv in E. destruct (q_lhs q) as [x|y t] eqn:El; cbn [lhs_var] in E; subst.
              ** pose proof (find_none _ _ Hfd q Hq) as Hk. cbn beta in Hk. rewrite El in Hk. cbn [clhs_eqb] in Hk.
                 rewrite Nat.eqb_refl in Hk. discriminate.
              ** apply (ode_def_none s v q t Ho Hq El).
           ++ intros q0 y0 t0 Hq0 E Hvt. subst t0. apply (Hfree' v); [|reflexivity]. apply (Wf_free_var s q0 y0 v HW Hq0 E).
  - (* OUTPUT *)
    destruct (convert_output_shape s v target mv s' n H) as [[_ E]|[orig [cfv [cfq [_ [_ [_ [_ [_ [_ [Hs' _]]]]]]]]]]]; [congruence|].
    subst n. rewrite Hs'. apply Wf_case_output; assumption.
Qed.

Theorem wf_preserved s v target d mv s' n :
  wf_state s = true -> convert_variable s v target d mv = COk (s', n) -> wf_state s' = true.
Proof. intros HW H. apply wf_state_iff. apply (Wf_preserved s v target d mv s' n); [apply wf_state_iff; exact HW|exact H]. Qed.

(* ---- (iii) sequences: no premise per step ------------------------------------------------------------------------- *)
(* histories of successful conversions, WITHOUT any side condition *)
Inductive Convs : cstate -> cstate -> Prop :=
| Convs_nil s : Convs s s
| Convs_cons s v target d mv s' n s'' :
    convert_variable s v target d mv = COk (s', n) -> Convs s' s'' -> Convs s s''.

Lemma Convs_Steps s s'' : wf_state s = true -> Convs s s'' -> Steps s s''.
Proof.
  intros HW HC. induction HC as [s|s v target d mv s' n s'' Hc _ IH]; [constructor|].
  apply (Steps_cons s v target d mv s' n s'' Hc).
  - left. apply (wf_step_ok s v d HW). apply (convert_in_range s v target d mv s' n Hc).
  - apply IH. apply (wf_preserved s v target d mv s' n HW Hc).
Qed.

Lemma Convs_wf s s'' : wf_state s = true -> Convs s s'' -> wf_state s'' = true.
Proof.
  intros HW HC. induction HC as [s|s v target d mv s' n s'' Hc _ IH]; [exact HW|].
  apply IH. apply (wf_preserved s v target d mv s' n HW Hc).
Qed.

Section Sem.
Variable fsem : Z -> list R -> option R.
Variable psem : R -> R -> option R.
Variable csem : Z -> option R.
Hypothesis psem_inv : forall x, (x <> 0)%R -> psem x (Q2R (-1 # 1)) = Some (/ x)%R.

Theorem sequence_from_wf s s'' : wf_state s = true -> Convs s s'' ->
  Equiv fsem psem csem (length (cvars s)) (ceqs s) (ceqs s'').
Proof. intros HW HC. apply (sequence_equiv fsem psem csem psem_inv). apply Convs_Steps; assumption. Qed.
End Sem.

(* ---- non-vacuity: time 0, state 1 with d x1/d x0 = -(x2 * x1), computed variable x2 = x3 * x0, constant x3 = 2 ------- *)
Definition wf_example_state : cstate :=
  let cv := fun n => {| c_name := [n]; c_unit := []; c_init := None; c_cmeta := None |} in
  {| cvars := [cv 116%Z; cv 120%Z; cv 107%Z; cv 99%Z];
     ceqs := [ {| q_lhs := CLD 1 0; q_rhs := EMul [ENum 0 (-1 # 1); EVar 2; EVar 1] |};
               {| q_lhs := CLV 2; q_rhs := EMul [EVar 3; EVar 0] |};
               {| q_lhs := CLV 3; q_rhs := ENum 0 (2 # 1) |} ];
     cunits := []; cqnext := 0%Z |}.

Example wf_example :
  wf_state wf_example_state = true /\
  is_state wf_example_state 1 = true /\ free_var wf_example_state = Some 0%nat /\
  (exists q, var_def wf_example_state 2 = Some q) /\ (exists q, var_def wf_example_state 3 = Some q).
Proof. vm_compute. repeat split; eexists; reflexivity. Qed.
