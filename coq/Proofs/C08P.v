(* C08: coherence of the Model state machine (Model/ModelSM.v) under every history of API calls. *)
From Coq Require Import List ZArith QArith Bool Lia Arith.
From Verif Require Import Sexp ModelSM.
Import ListNotations.

(* ---- dictionaries with nat keys --------------------------------------------------------------- *)
Section DictN.
  Context {V : Type}.
  Notation dgetn := (@dget nat V Nat.eqb).
  Notation dsetn := (@dset nat V Nat.eqb).
  Notation ddeln := (@ddel nat V Nat.eqb).
  Notation dhasn := (@dhas nat V Nat.eqb).

  Lemma dhas_false_notin (d : list (nat * V)) k : dhasn d k = false <-> ~ In k (map fst d).
  Proof.
    unfold dhas. induction d as [|[k' v] d IH]; cbn [dget map fst In].
    - split; [intros _ []|reflexivity].
    - destruct (Nat.eqb_spec k k') as [->|Hne].
      + split; [discriminate|]. intros H. exfalso. apply H. left. reflexivity.
      + rewrite IH. split.
        * intros H [E|Hin]; [congruence|contradiction].
        * intros H Hin. apply H. right. exact Hin.
  Qed.

  Lemma dset_fresh (d : list (nat * V)) k v : dhasn d k = false -> dsetn d k v = d ++ [(k, v)].
  Proof.
    unfold dhas. induction d as [|[k' v'] d IH]; cbn [dget dset app]; [reflexivity|].
    destruct (Nat.eqb k k'); [discriminate|]. intros H. rewrite IH by exact H. reflexivity.
  Qed.

  Lemma dget_in (d : list (nat * V)) k v : dgetn d k = Some v -> In (k, v) d.
  Proof.
    induction d as [|[k' v'] d IH]; cbn [dget In]; [discriminate|].
    destruct (Nat.eqb_spec k k') as [->|Hne].
    - intros [= ->]. left. reflexivity.
    - intros H. right. apply IH. exact H.
  Qed.

  Lemma in_dget (d : list (nat * V)) k v : NoDup (map fst d) -> In (k, v) d -> dgetn d k = Some v.
  Proof.
    induction d as [|[k' v'] d IH]; cbn [dget In map fst]; [intros _ []|].
    intros Hnd [E|Hin].
    - injection E as -> ->. rewrite Nat.eqb_refl. reflexivity.
    - inversion Hnd as [|? ? Hnotin Hnd']; subst.
      destruct (Nat.eqb_spec k k') as [->|Hne].
      + exfalso. apply Hnotin. change k' with (fst (k', v)). apply in_map. exact Hin.
      + apply IH; assumption.
  Qed.
End DictN.

(* ---- the definition maps are the index of the equation list -------------------------------- *)
Section WithPool.
Variable pool : list eqrec.

Definition vkey (e : eid) : list (vid * eid) :=
  match eq_lhs pool e with LVar v => [(v, e)] | _ => [] end.
Definition okey (e : eid) : list (vid * eid) :=
  match eq_lhs pool e with LDeriv v _ _ _ => [(v, e)] | _ => [] end.
Definition var_index (l : list eid) : list (vid * eid) := flat_map vkey l.
Definition ode_index (l : list eid) : list (vid * eid) := flat_map okey l.
Definition lhs_keys (l : list eid) : list vid := map fst (var_index l) ++ map fst (ode_index l).

Lemma var_index_app a b : var_index (a ++ b) = var_index a ++ var_index b.
Proof. apply flat_map_app. Qed.
Lemma ode_index_app a b : ode_index (a ++ b) = ode_index a ++ ode_index b.
Proof. apply flat_map_app. Qed.

(* the cached graphs are what building from the current equations gives *)
Lemma build_graph_eqs s s' : eqs s = eqs s' -> build_graph pool s = build_graph pool s'.
Proof. unfold build_graph. intros ->. reflexivity. Qed.

Record Coherent (s : mstate) : Prop := {
  co_vdef : vdef s = var_index (eqs s);
  co_odef : odef s = ode_index (eqs s);
  co_keys : NoDup (lhs_keys (eqs s));
  co_lhs : forall e, In e (eqs s) -> eq_lhs pool e <> LOther;
  co_graph : forall g, gcache s = Some g -> build_graph pool s = MOk g;
  co_ngraph : forall g, ncache s = Some g ->
                        exists g0, build_graph pool s = MOk g0 /\ g = number_graph pool g0
}.

Lemma coherent_init mc : Coherent (init_state mc).
Proof.
  constructor; cbn; try reflexivity; try discriminate.
  - constructor.
  - intros e [].
Qed.

Lemma defined_twice_false s v :
  vdef s = var_index (eqs s) -> odef s = ode_index (eqs s) ->
  defined_twice s v = false -> ~ In v (lhs_keys (eqs s)).
Proof.
  unfold defined_twice, lhs_keys. intros Hv Ho H.
  apply orb_false_iff in H as [H1 H2].
  apply dhas_false_notin in H1. apply dhas_false_notin in H2.
  rewrite Ho in H1. rewrite Hv in H2.
  intros Hin. apply in_app_or in Hin as [Hin|Hin]; contradiction.
Qed.

Lemma NoDup_app_swap_tail (a b : list vid) x : NoDup (a ++ b) -> ~ In x (a ++ b) -> NoDup ((a ++ [x]) ++ b).
Proof.
  intros Hnd Hnin. rewrite <- app_assoc. cbn [app].
  apply NoDup_Add with (a := x) (l := a ++ b).
  - apply Add_app.
  - split; assumption.
Qed.

Lemma NoDup_app_tail (a b : list vid) x : NoDup (a ++ b) -> ~ In x (a ++ b) -> NoDup (a ++ b ++ [x]).
Proof.
  intros Hnd Hnin. rewrite app_assoc.
  apply NoDup_Add with (a := x) (l := a ++ b).
  - replace ((a ++ b) ++ [x]) with ((a ++ b) ++ x :: []) by reflexivity.
    rewrite <- (app_nil_r (a ++ b)) at 1. apply Add_app.
  - split; assumption.
Qed.

(* add_equation with duplicate checking preserves coherence *)
Lemma add_equation_coherent s e s' :
  Coherent s -> add_equation pool s e true = MOk s' -> Coherent s'.
Proof.
  intros [Hv Ho Hk Hl Hg Hn]. unfold add_equation.
  destruct (eq_lhs pool e) as [v|v t order nvars|] eqn:El; [| |discriminate].
  - (* LVar *)
    cbn [andb]. destruct (defined_twice s v) eqn:Hd; [discriminate|].
    intros [= <-].
    pose proof (defined_twice_false s v Hv Ho Hd) as Hnin.
    assert (Hvk : vkey e = [(v, e)]) by (unfold vkey; rewrite El; reflexivity).
    assert (Hok : okey e = []) by (unfold okey; rewrite El; reflexivity).
    constructor; cbn [vdef odef eqs gcache ncache].
    + rewrite var_index_app. cbn [var_index flat_map]. rewrite Hvk, app_nil_r.
      rewrite <- Hv. apply dset_fresh.
      apply orb_false_iff in Hd as [_ H2]. exact H2.
    + rewrite ode_index_app. cbn [ode_index flat_map]. rewrite Hok, !app_nil_r. exact Ho.
    + unfold lhs_keys. rewrite var_index_app, ode_index_app. cbn [var_index ode_index flat_map].
      rewrite Hvk, Hok, !app_nil_r, map_app. cbn [map fst].
      apply NoDup_app_swap_tail; assumption.
    + intros e' Hin. apply in_app_or in Hin as [Hin|[<-|[]]]; [apply Hl; exact Hin|congruence].
    + discriminate.
    + discriminate.
  - (* LDeriv *)
    destruct ((1 <? nvars)%Z || (1 <? order)%Z); [discriminate|].
    cbn [andb]. destruct (defined_twice s v) eqn:Hd; [discriminate|].
    intros [= <-].
    pose proof (defined_twice_false s v Hv Ho Hd) as Hnin.
    assert (Hvk : vkey e = []) by (unfold vkey; rewrite El; reflexivity).
    assert (Hok : okey e = [(v, e)]) by (unfold okey; rewrite El; reflexivity).
    constructor; cbn [vdef odef eqs gcache ncache].
    + rewrite var_index_app. cbn [var_index flat_map]. rewrite Hvk, !app_nil_r. exact Hv.
    + rewrite ode_index_app. cbn [ode_index flat_map]. rewrite Hok, app_nil_r.
      rewrite <- Ho. apply dset_fresh.
      apply orb_false_iff in Hd as [H1 _]. exact H1.
    + unfold lhs_keys. rewrite var_index_app, ode_index_app. cbn [var_index ode_index flat_map].
      rewrite Hvk, Hok, !app_nil_r, map_app. cbn [map fst].
      apply NoDup_app_tail; assumption.
    + intros e' Hin. apply in_app_or in Hin as [Hin|[<-|[]]]; [apply Hl; exact Hin|congruence].
    + discriminate.
    + discriminate.
Qed.

Lemma NoDup_app_split (a b : list vid) : NoDup (a ++ b) ->
  NoDup a /\ NoDup b /\ (forall x, In x a -> ~ In x b).
Proof.
  induction a as [|x a IH]; cbn [app]; intros H.
  - split; [constructor|]. split; [exact H|]. intros x [].
  - inversion H as [|? ? Hnotin Hnd]; subst. destruct (IH Hnd) as [Ha [Hb Hab]].
    split; [constructor; [intro Hin; apply Hnotin; apply in_or_app; left; exact Hin|exact Ha]|].
    split; [exact Hb|].
    intros y [<-|Hy]; [intro Hin; apply Hnotin; apply in_or_app; right; exact Hin|apply Hab; exact Hy].
Qed.

Lemma NoDup_app_join (a b : list vid) :
  NoDup a -> NoDup b -> (forall x, In x a -> ~ In x b) -> NoDup (a ++ b).
Proof.
  induction a as [|x a IH]; cbn [app]; intros Ha Hb Hab; [exact Hb|].
  inversion Ha as [|? ? Hnotin Ha']; subst. constructor.
  - intro Hin. apply in_app_or in Hin as [Hin|Hin]; [contradiction|].
    apply (Hab x); [left; reflexivity|exact Hin].
  - apply IH; [exact Ha'|exact Hb|]. intros y Hy. apply Hab. right. exact Hy.
Qed.

(* removing the first occurrence of an equation removes its key from the index *)
Lemma remove_first_in l e l' : remove_first l e = Some l' -> In e l.
Proof.
  revert l'. induction l as [|x r IH]; cbn [remove_first]; intros l'; [discriminate|].
  destruct (Nat.eqb_spec x e) as [->|Hne]; [intros _; left; reflexivity|].
  destruct (remove_first r e) as [r'|] eqn:Hr; [|discriminate].
  intros _. right. apply (IH r'). reflexivity.
Qed.

Lemma remove_first_subset l e l' x : remove_first l e = Some l' -> In x l' -> In x l.
Proof.
  revert l'. induction l as [|y r IH]; cbn [remove_first]; intros l'; [discriminate|].
  destruct (Nat.eqb_spec y e) as [->|Hne].
  - intros [= <-] Hin. right. exact Hin.
  - destruct (remove_first r e) as [r'|] eqn:Hr; [|discriminate].
    intros [= <-] [<-|Hin]; [left; reflexivity|right; apply (IH r'); [reflexivity|exact Hin]].
Qed.

Lemma in_ode_index l e v : In e l -> okey e = [(v, e)] -> In v (map fst (ode_index l)).
Proof.
  intros Hin Hk. unfold ode_index. change v with (fst (v, e)). apply in_map.
  apply in_flat_map. exists e. split; [exact Hin|]. rewrite Hk. left. reflexivity.
Qed.
Lemma in_var_index l e v : In e l -> vkey e = [(v, e)] -> In v (map fst (var_index l)).
Proof.
  intros Hin Hk. unfold var_index. change v with (fst (v, e)). apply in_map.
  apply in_flat_map. exists e. split; [exact Hin|]. rewrite Hk. left. reflexivity.
Qed.

Lemma okey_cases e : okey e = [] \/ exists v, okey e = [(v, e)].
Proof. unfold okey. destruct (eq_lhs pool e); [left|right; eexists|left]; reflexivity. Qed.
Lemma vkey_cases e : vkey e = [] \/ exists v, vkey e = [(v, e)].
Proof. unfold vkey. destruct (eq_lhs pool e); [right; eexists|left|left]; reflexivity. Qed.

Lemma ode_index_remove l e l' v :
  remove_first l e = Some l' -> okey e = [(v, e)] -> NoDup (map fst (ode_index l)) ->
  ddel Nat.eqb (ode_index l) v = ode_index l'.
Proof.
  revert l'. induction l as [|x r IH]; cbn [remove_first]; intros l' Hr Hk Hnd; [discriminate|].
  destruct (Nat.eqb_spec x e) as [->|Hne].
  - injection Hr as <-. cbn [ode_index flat_map]. rewrite Hk. cbn [app ddel]. rewrite Nat.eqb_refl. reflexivity.
  - destruct (remove_first r e) as [r'|] eqn:Hr'; [|discriminate]. injection Hr as <-.
    cbn [ode_index flat_map] in *. destruct (okey_cases x) as [Hx|[w Hx]]; rewrite Hx in *; cbn [app] in *.
    + apply (IH r'); [reflexivity|exact Hk|exact Hnd].
    + cbn [map fst] in Hnd. inversion Hnd as [|? ? Hnotin Hnd']; subst.
      cbn [ddel]. destruct (Nat.eqb_spec v w) as [->|Hvw].
      * exfalso. apply Hnotin. apply (in_ode_index r e w); [|exact Hk].
        apply (remove_first_in r e r'). exact Hr'.
      * f_equal. apply (IH r'); [reflexivity|exact Hk|exact Hnd'].
Qed.

Lemma var_index_remove l e l' v :
  remove_first l e = Some l' -> vkey e = [(v, e)] -> NoDup (map fst (var_index l)) ->
  ddel Nat.eqb (var_index l) v = var_index l'.
Proof.
  revert l'. induction l as [|x r IH]; cbn [remove_first]; intros l' Hr Hk Hnd; [discriminate|].
  destruct (Nat.eqb_spec x e) as [->|Hne].
  - injection Hr as <-. cbn [var_index flat_map]. rewrite Hk. cbn [app ddel]. rewrite Nat.eqb_refl. reflexivity.
  - destruct (remove_first r e) as [r'|] eqn:Hr'; [|discriminate]. injection Hr as <-.
    cbn [var_index flat_map] in *. destruct (vkey_cases x) as [Hx|[w Hx]]; rewrite Hx in *; cbn [app] in *.
    + apply (IH r'); [reflexivity|exact Hk|exact Hnd].
    + cbn [map fst] in Hnd. inversion Hnd as [|? ? Hnotin Hnd']; subst.
      cbn [ddel]. destruct (Nat.eqb_spec v w) as [->|Hvw].
      * exfalso. apply Hnotin. apply (in_var_index r e w); [|exact Hk].
        apply (remove_first_in r e r'). exact Hr'.
      * f_equal. apply (IH r'); [reflexivity|exact Hk|exact Hnd'].
Qed.

Lemma index_remove_other (key : eid -> list (vid * eid)) l e l' :
  remove_first l e = Some l' -> key e = [] -> flat_map key l' = flat_map key l.
Proof.
  revert l'. induction l as [|x r IH]; cbn [remove_first]; intros l' Hr Hk; [discriminate|].
  destruct (Nat.eqb_spec x e) as [->|Hne].
  - injection Hr as <-. cbn [flat_map]. rewrite Hk. reflexivity.
  - destruct (remove_first r e) as [r'|] eqn:Hr'; [|discriminate]. injection Hr as <-.
    cbn [flat_map]. f_equal. apply (IH r'); [reflexivity|exact Hk].
Qed.

(* sublist facts for NoDup of the keys after a removal *)
Lemma flat_map_remove_incl (key : eid -> list (vid * eid)) l e l' :
  remove_first l e = Some l' -> forall x, In x (flat_map key l') -> In x (flat_map key l).
Proof.
  intros Hr x Hin. apply in_flat_map in Hin as [y [Hy Hx]]. apply in_flat_map.
  exists y. split; [apply (remove_first_subset l e l'); assumption|exact Hx].
Qed.

Lemma NoDup_map_fst_remove (key : eid -> list (vid * eid)) l e l' :
  remove_first l e = Some l' -> NoDup (map fst (flat_map key l)) -> NoDup (map fst (flat_map key l')).
Proof.
  revert l'. induction l as [|x r IH]; cbn [remove_first]; intros l' Hr Hnd; [discriminate|].
  destruct (Nat.eqb_spec x e) as [->|Hne].
  - injection Hr as <-. cbn [flat_map] in Hnd. rewrite map_app in Hnd. apply NoDup_app_split in Hnd as [_ [Hnd _]]. exact Hnd.
  - destruct (remove_first r e) as [r'|] eqn:Hr'; [|discriminate]. injection Hr as <-.
    cbn [flat_map] in *. rewrite map_app in *.
    assert (Hr0 : NoDup (map fst (flat_map key r'))).
    { apply (IH r'); [reflexivity|]. apply NoDup_app_split in Hnd as [_ [Hnd _]]. exact Hnd. }
    (* key x elements are not in the tail *)
    induction (key x) as [|[k v] kx IHk]; cbn [map fst app] in *; [exact Hr0|].
    inversion Hnd as [|? ? Hnotin Hnd']; subst. constructor.
    + intros Hin. apply Hnotin. apply in_app_or in Hin as [Hin|Hin]; apply in_or_app; [left; exact Hin|right].
      apply in_map_iff in Hin as [[k' v'] [E Hin]]. cbn in E. subst k'.
      apply in_map_iff. exists (k, v'). split; [reflexivity|].
      apply (flat_map_remove_incl key r e r'); [exact Hr'|exact Hin].
    + apply IHk. exact Hnd'.
Qed.

Lemma lhs_keys_remove l e l' :
  remove_first l e = Some l' -> NoDup (lhs_keys l) -> NoDup (lhs_keys l').
Proof.
  unfold lhs_keys, var_index, ode_index. intros Hr Hnd.
  apply NoDup_app_split in Hnd as [Ha [Hb Hab]].
  apply NoDup_app_join.
  - apply (NoDup_map_fst_remove vkey l e l'); assumption.
  - apply (NoDup_map_fst_remove okey l e l'); assumption.
  - intros x Hx Hx'. apply (Hab x).
    + apply in_map_iff in Hx as [[k v] [E Hin]]. cbn in E; subst k.
      apply in_map_iff. exists (x, v). split; [reflexivity|].
      apply (flat_map_remove_incl vkey l e l'); assumption.
    + apply in_map_iff in Hx' as [[k v] [E Hin]]. cbn in E; subst k.
      apply in_map_iff. exists (x, v). split; [reflexivity|].
      apply (flat_map_remove_incl okey l e l'); assumption.
Qed.

Lemma remove_equation_coherent s e s' :
  Coherent s -> remove_equation pool s e = MOk s' -> Coherent s'.
Proof.
  intros [Hv Ho Hk Hl Hg Hn]. unfold remove_equation.
  destruct (remove_first (eqs s) e) as [eqs'|] eqn:Hr; [|discriminate].
  pose proof Hk as Hk0. apply NoDup_app_split in Hk0 as [Hkv [Hko _]].
  destruct (eq_lhs pool e) as [v|v t order nvars|] eqn:El; [| |discriminate].
  - destruct (dhas Nat.eqb (vdef s) v); [|discriminate]. intros [= <-].
    assert (Hvk : vkey e = [(v, e)]) by (unfold vkey; rewrite El; reflexivity).
    assert (Hok : okey e = []) by (unfold okey; rewrite El; reflexivity).
    constructor; cbn [vdef odef eqs gcache ncache]; try discriminate.
    + rewrite Hv. apply (var_index_remove (eqs s) e eqs' v); assumption.
    + rewrite Ho. symmetry. apply (index_remove_other okey (eqs s) e eqs'); assumption.
    + apply (lhs_keys_remove (eqs s) e eqs'); assumption.
    + intros e' Hin. apply Hl. apply (remove_first_subset (eqs s) e eqs'); assumption.
  - destruct (dhas Nat.eqb (odef s) v); [|discriminate]. intros [= <-].
    assert (Hvk : vkey e = []) by (unfold vkey; rewrite El; reflexivity).
    assert (Hok : okey e = [(v, e)]) by (unfold okey; rewrite El; reflexivity).
    constructor; cbn [vdef odef eqs gcache ncache]; try discriminate.
    + rewrite Hv. symmetry. apply (index_remove_other vkey (eqs s) e eqs'); assumption.
    + rewrite Ho. apply (ode_index_remove (eqs s) e eqs' v); assumption.
    + apply (lhs_keys_remove (eqs s) e eqs'); assumption.
    + intros e' Hin. apply Hl. apply (remove_first_subset (eqs s) e eqs'); assumption.
Qed.

(* operations that leave the equations alone *)
Lemma coherent_same_eqs s s' :
  Coherent s -> eqs s' = eqs s -> vdef s' = vdef s -> odef s' = odef s ->
  (gcache s' = None \/ gcache s' = gcache s) -> (ncache s' = None \/ ncache s' = ncache s) ->
  Coherent s'.
Proof.
  intros [Hv Ho Hk Hl Hg Hn] He Hv' Ho' Hg' Hn'.
  constructor; rewrite ?He, ?Hv', ?Ho'; try assumption.
  - intros g Hc. rewrite (build_graph_eqs s' s He). destruct Hg' as [E|E]; rewrite E in Hc; [discriminate|].
    apply Hg. exact Hc.
  - intros g Hc. rewrite (build_graph_eqs s' s He). destruct Hn' as [E|E]; rewrite E in Hc; [discriminate|].
    apply Hn. exact Hc.
Qed.

Lemma add_variable_coherent s n c i s' v :
  Coherent s -> add_variable s n c i = MOk (s', v) -> Coherent s'.
Proof.
  intros Hc. unfold add_variable.
  destruct (dhas str_eqb (names s) n); [discriminate|].
  destruct (match c with Some c' => has_cmeta_id s c' | None => false end); [discriminate|].
  intros [= <- _]. apply (coherent_same_eqs s); try reflexivity; try exact Hc; left; reflexivity.
Qed.

Lemma remove_variable_coherent s v s' :
  Coherent s -> remove_variable pool s v = MOk s' -> Coherent s'.
Proof.
  intros Hc. unfold remove_variable.
  destruct (nth_error (vars s) v) as [r|]; [|discriminate].
  destruct (match get_definition s v with Some e => remove_equation pool s e | None => MOk s end) as [s1|] eqn:H1;
    [|discriminate].
  assert (Hc1 : Coherent s1).
  { destruct (get_definition s v) as [e|].
    - apply (remove_equation_coherent s e s1); assumption.
    - injection H1 as <-. exact Hc. }
  destruct (negb (dhas str_eqb (names s1) (v_name r))); [discriminate|].
  destruct (v_cmeta r) as [c|].
  - destruct (negb (dhas str_eqb (cmetas s1) c)); [discriminate|].
    intros [= <-]. apply (coherent_same_eqs s1); try reflexivity; try exact Hc1; left; reflexivity.
  - intros [= <-]. apply (coherent_same_eqs s1); try reflexivity; try exact Hc1; left; reflexivity.
Qed.

Lemma add_cmeta_id_coherent s v s' : Coherent s -> add_cmeta_id s v = MOk s' -> Coherent s'.
Proof.
  intros Hc. unfold add_cmeta_id.
  destruct (nth_error (vars s) v) as [r|]; [|discriminate].
  destruct (v_cmeta r); intros [= <-]; [exact Hc|].
  apply (coherent_same_eqs s); try reflexivity; try exact Hc; right; reflexivity.
Qed.

Lemma transfer_cmeta_id_coherent s a b s' : Coherent s -> transfer_cmeta_id s a b = MOk s' -> Coherent s'.
Proof.
  intros Hc. unfold transfer_cmeta_id.
  destruct (nth_error (vars s) a) as [ra|]; [|discriminate].
  destruct (nth_error (vars s) b) as [rb|]; [|discriminate].
  destruct (v_cmeta ra); [|discriminate]. destruct (v_cmeta rb); [discriminate|].
  intros [= <-]. apply (coherent_same_eqs s); try reflexivity; try exact Hc; right; reflexivity.
Qed.

Lemma add_triple_coherent s subj p o : Coherent s -> Coherent (add_triple s subj p o).
Proof. intros Hc. apply (coherent_same_eqs s); try reflexivity; try exact Hc; right; reflexivity. Qed.

(* the queries fill the caches with what the equations give *)
Lemma get_graph_coherent s s' g : Coherent s -> get_graph pool s = MOk (s', g) ->
  Coherent s' /\ build_graph pool s = MOk g /\ eqs s' = eqs s /\ vars s' = vars s.
Proof.
  intros Hc. unfold get_graph. destruct (gcache s) as [g0|] eqn:Hg.
  - intros [= <- <-]. split; [exact Hc|]. split; [apply (co_graph s Hc); exact Hg|]. split; reflexivity.
  - destruct (build_graph pool s) as [g1|] eqn:Hb; [|discriminate].
    intros [= <- <-]. split; [|split; [reflexivity|split; reflexivity]].
    destruct Hc as [Hv Ho Hk Hl Hgc Hn].
    constructor; cbn [vdef odef eqs gcache ncache]; try assumption.
    intros g [= <-]. rewrite <- Hb. apply build_graph_eqs. reflexivity.
Qed.

Lemma get_number_graph_coherent s s' g : Coherent s -> get_number_graph pool s = MOk (s', g) ->
  Coherent s' /\ (exists g0, build_graph pool s = MOk g0 /\ g = number_graph pool g0) /\ eqs s' = eqs s.
Proof.
  intros Hc. unfold get_number_graph. destruct (ncache s) as [g0|] eqn:Hn.
  - intros [= <- <-]. split; [exact Hc|]. split; [apply (co_ngraph s Hc); exact Hn|reflexivity].
  - destruct (get_graph pool s) as [[s1 g1]|] eqn:Hg; [|discriminate].
    destruct (get_graph_coherent s s1 g1 Hc Hg) as [Hc1 [Hb [He Hvs]]].
    intros [= <- <-]. split; [|split; [exists g1; split; [exact Hb|reflexivity]|exact He]].
    destruct Hc1 as [Hv Ho Hk Hl Hgc Hnc].
    constructor; cbn [vdef odef eqs gcache ncache]; try assumption.
    intros g [= <-]. exists g1. split; [|reflexivity].
    rewrite <- Hb. apply build_graph_eqs. cbn. exact He.
Qed.

(* ---- every reachable state is coherent --------------------------------------------------------- *)
Inductive op :=
| OAddVar (n : str) (c : option str) (i : option Q)
| ORemoveVar (v : vid)
| OAddEq (e : eid)
| ORemoveEq (e : eid)
| OAddCmeta (v : vid)
| OTransfer (a b : vid)
| OTriple (subj : str) (p o : Z)
| OGraph | ONumberGraph.

(* one API call; a call that raises leaves the state as it was *)
Definition step (s : mstate) (o : op) : mstate * bool :=
  match o with
  | OAddVar n c i => match add_variable s n c i with MOk (s', _) => (s', true) | MErr _ => (s, false) end
  | ORemoveVar v => match remove_variable pool s v with MOk s' => (s', true) | MErr _ => (s, false) end
  | OAddEq e => match add_equation pool s e true with MOk s' => (s', true) | MErr _ => (s, false) end
  | ORemoveEq e => match remove_equation pool s e with MOk s' => (s', true) | MErr _ => (s, false) end
  | OAddCmeta v => match add_cmeta_id s v with MOk s' => (s', true) | MErr _ => (s, false) end
  | OTransfer a b => match transfer_cmeta_id s a b with MOk s' => (s', true) | MErr _ => (s, false) end
  | OTriple subj p o => (add_triple s subj p o, true)
  | OGraph => match get_graph pool s with MOk (s', _) => (s', true) | MErr _ => (s, false) end
  | ONumberGraph => match get_number_graph pool s with MOk (s', _) => (s', true) | MErr _ => (s, false) end
  end.

Lemma step_coherent s o : Coherent s -> Coherent (fst (step s o)).
Proof.
  intros Hc. destruct o; cbn [step].
  - destruct (add_variable s n c i) as [[s' v]|] eqn:H; cbn [fst]; [|exact Hc].
    apply (add_variable_coherent s n c i s' v); assumption.
  - destruct (remove_variable pool s v) as [s'|] eqn:H; cbn [fst]; [|exact Hc].
    apply (remove_variable_coherent s v s'); assumption.
  - destruct (add_equation pool s e true) as [s'|] eqn:H; cbn [fst]; [|exact Hc].
    apply (add_equation_coherent s e s'); assumption.
  - destruct (remove_equation pool s e) as [s'|] eqn:H; cbn [fst]; [|exact Hc].
    apply (remove_equation_coherent s e s'); assumption.
  - destruct (add_cmeta_id s v) as [s'|] eqn:H; cbn [fst]; [|exact Hc].
    apply (add_cmeta_id_coherent s v s'); assumption.
  - destruct (transfer_cmeta_id s a b) as [s'|] eqn:H; cbn [fst]; [|exact Hc].
    apply (transfer_cmeta_id_coherent s a b s'); assumption.
  - cbn [fst]. apply add_triple_coherent. exact Hc.
  - destruct (get_graph pool s) as [[s' g]|] eqn:H; cbn [fst]; [|exact Hc].
    apply (get_graph_coherent s s' g Hc H).
  - destruct (get_number_graph pool s) as [[s' g]|] eqn:H; cbn [fst]; [|exact Hc].
    apply (get_number_graph_coherent s s' g Hc H).
Qed.

Definition run (s : mstate) (ops : list op) : mstate := fold_left (fun st o => fst (step st o)) ops s.

Lemma run_coherent ops : forall s, Coherent s -> Coherent (run s ops).
Proof.
  induction ops as [|o ops IH]; intros s Hc; cbn [run fold_left]; [exact Hc|].
  apply IH. apply step_coherent. exact Hc.
Qed.

Theorem reachable_coherent mc ops : Coherent (run (init_state mc) ops).
Proof. apply run_coherent. apply coherent_init. Qed.

(* a rejected call changes nothing *)
Theorem failed_step_atomic s o : snd (step s o) = false -> fst (step s o) = s.
Proof.
  destruct o; cbn [step].
  - destruct (add_variable s n c i) as [[s' v]|]; cbn; [discriminate|reflexivity].
  - destruct (remove_variable pool s v); cbn; [discriminate|reflexivity].
  - destruct (add_equation pool s e true); cbn; [discriminate|reflexivity].
  - destruct (remove_equation pool s e); cbn; [discriminate|reflexivity].
  - destruct (add_cmeta_id s v); cbn; [discriminate|reflexivity].
  - destruct (transfer_cmeta_id s a b); cbn; [discriminate|reflexivity].
  - discriminate.
  - destruct (get_graph pool s) as [[s' g]|]; cbn; [discriminate|reflexivity].
  - destruct (get_number_graph pool s) as [[s' g]|]; cbn; [discriminate|reflexivity].
Qed.

(* ---- refinement to a freshly built model ---------------------------------------------------------- *)
(* the fresh model: same variable records and registries, no equations, no caches; then every equation
   of the current list is added again through the public add_equation *)
Definition cleared (s : mstate) : mstate :=
  {| vars := vars s; names := names s; cmetas := cmetas s; eqs := []; vdef := []; odef := [];
     gcache := None; ncache := None; mcmeta := mcmeta s; triples := triples s |}.

Definition readd (st : mstate) (e : eid) : mstate :=
  match add_equation pool st e true with MOk st' => st' | MErr _ => st end.

Definition fresh (s : mstate) : mstate := fold_left readd (eqs s) (cleared s).

Lemma NoDup_lhs_keys_prefix p l : NoDup (lhs_keys (p ++ l)) -> NoDup (lhs_keys p).
Proof.
  unfold lhs_keys. rewrite var_index_app, ode_index_app, !map_app. intros H.
  apply NoDup_app_split in H as [Ha [Hb Hab]].
  apply NoDup_app_split in Ha as [Ha1 _]. apply NoDup_app_split in Hb as [Hb1 _].
  apply NoDup_app_join; try assumption.
  intros x Hx Hx'. apply (Hab x); apply in_or_app; left; assumption.
Qed.

Lemma readd_ok st e :
  vdef st = var_index (eqs st) -> odef st = ode_index (eqs st) ->
  NoDup (lhs_keys (eqs st ++ [e])) -> eq_lhs pool e <> LOther ->
  (forall v t o n, eq_lhs pool e = LDeriv v t o n -> ((1 <? n)%Z || (1 <? o)%Z) = false) ->
  eqs (readd st e) = eqs st ++ [e] /\ vdef (readd st e) = var_index (eqs st ++ [e]) /\
  odef (readd st e) = ode_index (eqs st ++ [e]) /\ vars (readd st e) = vars st.
Proof.
  intros Hv Ho Hnd Hl Hord. unfold readd, add_equation.
  unfold lhs_keys in Hnd. rewrite var_index_app, ode_index_app, !map_app in Hnd.
  cbn [var_index ode_index flat_map] in Hnd. rewrite !app_nil_r in Hnd.
  destruct (eq_lhs pool e) as [v|v t order nvars|] eqn:El; [| |congruence].
  - assert (Hvk : vkey e = [(v, e)]) by (unfold vkey; rewrite El; reflexivity).
    assert (Hok : okey e = []) by (unfold okey; rewrite El; reflexivity).
    rewrite Hvk, Hok in Hnd. cbn [map fst] in Hnd. rewrite app_nil_r in Hnd.
    assert (Hd : defined_twice st v = false).
    { unfold defined_twice. apply orb_false_iff.
      apply NoDup_app_split in Hnd as [Ha [_ Hab]].
      apply NoDup_app_split in Ha as [_ [_ Hav]].
      split; apply dhas_false_notin.
      - rewrite Ho. intro Hin. apply (Hab v); [apply in_or_app; right; left; reflexivity|exact Hin].
      - rewrite Hv. intro Hin. apply (Hav v); [exact Hin|left; reflexivity]. }
    cbn [andb]. rewrite Hd. cbn [eqs vdef odef vars].
    split; [reflexivity|]. split; [|split; [|reflexivity]].
    + rewrite var_index_app. cbn [var_index flat_map]. rewrite Hvk, app_nil_r, <- Hv.
      apply dset_fresh. apply orb_false_iff in Hd as [_ H2]. exact H2.
    + rewrite ode_index_app. cbn [ode_index flat_map]. rewrite Hok, !app_nil_r. exact Ho.
  - assert (Hvk : vkey e = []) by (unfold vkey; rewrite El; reflexivity).
    assert (Hok : okey e = [(v, e)]) by (unfold okey; rewrite El; reflexivity).
    rewrite Hvk, Hok in Hnd. cbn [map fst] in Hnd. rewrite app_nil_r in Hnd.
    rewrite (Hord v t order nvars eq_refl).
    assert (Hd : defined_twice st v = false).
    { unfold defined_twice. apply orb_false_iff.
      apply NoDup_app_split in Hnd as [_ [Hb Hab]].
      apply NoDup_app_split in Hb as [_ [_ Hbv]].
      split; apply dhas_false_notin.
      - rewrite Ho. intro Hin. apply (Hbv v); [exact Hin|left; reflexivity].
      - rewrite Hv. intro Hin. apply (Hab v); [exact Hin|apply in_or_app; right; left; reflexivity]. }
    cbn [andb]. rewrite Hd. cbn [eqs vdef odef vars].
    split; [reflexivity|]. split; [|split; [|reflexivity]].
    + rewrite var_index_app. cbn [var_index flat_map]. rewrite Hvk, !app_nil_r. exact Hv.
    + rewrite ode_index_app. cbn [ode_index flat_map]. rewrite Hok, app_nil_r, <- Ho.
      apply dset_fresh. apply orb_false_iff in Hd as [H1 _]. exact H1.
Qed.

Definition first_order (l : list eid) : Prop :=
  forall e v t o n, In e l -> eq_lhs pool e = LDeriv v t o n -> ((1 <? n)%Z || (1 <? o)%Z) = false.

Lemma fresh_fold l : forall st,
  vdef st = var_index (eqs st) -> odef st = ode_index (eqs st) ->
  NoDup (lhs_keys (eqs st ++ l)) -> (forall e, In e l -> eq_lhs pool e <> LOther) -> first_order l ->
  let r := fold_left readd l st in
  eqs r = eqs st ++ l /\ vdef r = var_index (eqs st ++ l) /\ odef r = ode_index (eqs st ++ l) /\ vars r = vars st.
Proof.
  induction l as [|e l IH]; intros st Hv Ho Hnd Hl Hfo; cbn [fold_left].
  - rewrite !app_nil_r. repeat split; assumption.
  - assert (Hpre : NoDup (lhs_keys (eqs st ++ [e]))).
    { apply (NoDup_lhs_keys_prefix (eqs st ++ [e]) l). rewrite <- app_assoc. exact Hnd. }
    destruct (readd_ok st e Hv Ho Hpre) as [He [Hv' [Ho' Hvs]]].
    + apply Hl. left. reflexivity.
    + intros v t o n El. apply (Hfo e v t o n); [left; reflexivity|exact El].
    + assert (P1 : vdef (readd st e) = var_index (eqs (readd st e))) by (rewrite He; exact Hv').
      assert (P2 : odef (readd st e) = ode_index (eqs (readd st e))) by (rewrite He; exact Ho').
      assert (P3 : NoDup (lhs_keys (eqs (readd st e) ++ l))) by (rewrite He, <- app_assoc; exact Hnd).
      assert (P4 : forall e', In e' l -> eq_lhs pool e' <> LOther) by (intros e' Hin; apply Hl; right; exact Hin).
      assert (P5 : first_order l) by (intros e' v t o n Hin; apply Hfo; right; exact Hin).
      destruct (IH (readd st e) P1 P2 P3 P4 P5) as [A [B [C D]]].
      rewrite He, <- app_assoc in A, B, C. cbn [app] in A, B, C.
      repeat split; try assumption. rewrite D. exact Hvs.
Qed.

(* every ODE in a reachable state is first order (add_equation rejects the others) *)
Lemma step_first_order s o : first_order (eqs s) -> first_order (eqs (fst (step s o))).
Proof.
  intros Hfo. destruct o; cbn [step].
  - unfold add_variable. destruct (dhas str_eqb (names s) n); [exact Hfo|].
    destruct (match c with Some c' => has_cmeta_id s c' | None => false end); exact Hfo.
  - unfold remove_variable. destruct (nth_error (vars s) v) as [r|]; [|exact Hfo].
    destruct (get_definition s v) as [e|].
    + unfold remove_equation. destruct (remove_first (eqs s) e) as [eqs'|] eqn:Hr; [|exact Hfo].
      assert (Hsub : first_order eqs').
      { intros e' v' t o n Hin. apply Hfo. apply (remove_first_subset (eqs s) e eqs'); assumption. }
      destruct (eq_lhs pool e) as [w|w t order nvars|]; [| |exact Hfo].
      * destruct (dhas Nat.eqb (vdef s) w); [|exact Hfo]. cbn [names cmetas vars].
        destruct (negb (dhas str_eqb (names s) (v_name r))); [exact Hfo|].
        destruct (v_cmeta r) as [c|]; [destruct (negb (dhas str_eqb (cmetas s) c)); [exact Hfo|]|]; exact Hsub.
      * destruct (dhas Nat.eqb (odef s) w); [|exact Hfo]. cbn [names cmetas vars].
        destruct (negb (dhas str_eqb (names s) (v_name r))); [exact Hfo|].
        destruct (v_cmeta r) as [c|]; [destruct (negb (dhas str_eqb (cmetas s) c)); [exact Hfo|]|]; exact Hsub.
    + destruct (negb (dhas str_eqb (names s) (v_name r))); [exact Hfo|].
      destruct (v_cmeta r) as [c|]; [destruct (negb (dhas str_eqb (cmetas s) c)); [exact Hfo|]|]; exact Hfo.
  - unfold add_equation. destruct (eq_lhs pool e) as [v|v t order nvars|] eqn:El; [| |exact Hfo].
    + cbn [andb]. destruct (defined_twice s v); [exact Hfo|]. cbn [fst eqs].
      intros e' v' t o n Hin El'. apply in_app_or in Hin as [Hin|[<-|[]]]; [apply (Hfo e' v' t o n); assumption|congruence].
    + destruct ((1 <? nvars)%Z || (1 <? order)%Z) eqn:Hord; [exact Hfo|].
      cbn [andb]. destruct (defined_twice s v); [exact Hfo|]. cbn [fst eqs].
      intros e' v' t' o n Hin El'. apply in_app_or in Hin as [Hin|[<-|[]]]; [apply (Hfo e' v' t' o n); assumption|].
      rewrite El in El'. injection El' as <- <- <- <-. exact Hord.
  - unfold remove_equation. destruct (remove_first (eqs s) e) as [eqs'|] eqn:Hr; [|exact Hfo].
    assert (Hsub : first_order eqs').
    { intros e' v' t o n Hin. apply Hfo. apply (remove_first_subset (eqs s) e eqs'); assumption. }
    destruct (eq_lhs pool e) as [w|w t order nvars|]; [| |exact Hfo].
    * destruct (dhas Nat.eqb (vdef s) w); [exact Hsub|exact Hfo].
    * destruct (dhas Nat.eqb (odef s) w); [exact Hsub|exact Hfo].
  - unfold add_cmeta_id. destruct (nth_error (vars s) v) as [r|]; [|exact Hfo]. destruct (v_cmeta r); exact Hfo.
  - unfold transfer_cmeta_id. destruct (nth_error (vars s) a) as [ra|]; [|exact Hfo].
    destruct (nth_error (vars s) b) as [rb|]; [|exact Hfo].
    destruct (v_cmeta ra); [|exact Hfo]. destruct (v_cmeta rb); exact Hfo.
  - exact Hfo.
  - unfold get_graph. destruct (gcache s); [exact Hfo|]. destruct (build_graph pool s); exact Hfo.
  - unfold get_number_graph. destruct (ncache s); [exact Hfo|].
    unfold get_graph. destruct (gcache s); [exact Hfo|]. destruct (build_graph pool s); exact Hfo.
Qed.

Lemma run_first_order ops : forall s, first_order (eqs s) -> first_order (eqs (run s ops)).
Proof.
  induction ops as [|o ops IH]; intros s H; cbn [run fold_left]; [exact H|].
  apply IH. apply step_first_order. exact H.
Qed.

(* the observable content of a coherent state equals that of the freshly rebuilt model *)
Theorem refines_fresh s :
  Coherent s -> first_order (eqs s) ->
  eqs (fresh s) = eqs s /\ vdef (fresh s) = vdef s /\ odef (fresh s) = odef s /\ vars (fresh s) = vars s /\
  (forall v, get_definition (fresh s) v = get_definition s v) /\
  get_state_variables (fresh s) = get_state_variables s /\
  build_graph pool (fresh s) = build_graph pool s /\
  (forall g, gcache s = Some g -> build_graph pool (fresh s) = MOk g) /\
  (forall g, ncache s = Some g -> exists g0, build_graph pool (fresh s) = MOk g0 /\ g = number_graph pool g0).
Proof.
  intros Hc Hfo. unfold fresh.
  destruct (fresh_fold (eqs s) (cleared s)) as [He [Hv [Ho Hvs]]]; cbn [cleared eqs vdef odef app]; try reflexivity.
  - apply (co_keys s Hc).
  - apply (co_lhs s Hc).
  - exact Hfo.
  - cbn [cleared eqs app vars] in *.
    assert (Hv' : vdef (fold_left readd (eqs s) (cleared s)) = vdef s) by (rewrite Hv; symmetry; apply (co_vdef s Hc)).
    assert (Ho' : odef (fold_left readd (eqs s) (cleared s)) = odef s) by (rewrite Ho; symmetry; apply (co_odef s Hc)).
    assert (Hb : build_graph pool (fold_left readd (eqs s) (cleared s)) = build_graph pool s)
      by (apply build_graph_eqs; exact He).
    repeat split; try assumption.
    + intros v. unfold get_definition. rewrite Hv', Ho'. reflexivity.
    + unfold get_state_variables. rewrite Ho', Hvs. reflexivity.
    + intros g Hg. rewrite Hb. apply (co_graph s Hc). exact Hg.
    + intros g Hg. rewrite Hb. apply (co_ngraph s Hc). exact Hg.
Qed.

Theorem reachable_refines_fresh mc ops :
  let s := run (init_state mc) ops in
  eqs (fresh s) = eqs s /\ vdef (fresh s) = vdef s /\ odef (fresh s) = odef s /\ vars (fresh s) = vars s /\
  (forall v, get_definition (fresh s) v = get_definition s v) /\
  get_state_variables (fresh s) = get_state_variables s /\
  build_graph pool (fresh s) = build_graph pool s /\
  (forall g, gcache s = Some g -> build_graph pool (fresh s) = MOk g) /\
  (forall g, ncache s = Some g -> exists g0, build_graph pool (fresh s) = MOk g0 /\ g = number_graph pool g0).
Proof.
  intros s. apply refines_fresh.
  - apply reachable_coherent.
  - apply run_first_order. intros e v t o n [].
Qed.

End WithPool.
