(* C13: annotations always point at exactly one live variable -- invariant of Model/ModelSM.v *)
From Coq Require Import List ZArith QArith Bool Lia Arith.
From Verif Require Import Sexp ModelSM C08P.
Import ListNotations.

Lemma str_eqb_spec a b : reflect (a = b) (str_eqb a b).
Proof.
  revert b. induction a as [|x a IH]; intros [|y b]; cbn [str_eqb]; try (constructor; congruence).
  destruct (Z.eqb_spec x y) as [->|Hne]; cbn [andb].
  - destruct (IH b) as [->|Hne]; constructor; congruence.
  - constructor. congruence.
Qed.

Lemma str_eqb_refl a : str_eqb a a = true.
Proof. destruct (str_eqb_spec a a); congruence. Qed.

(* ---- dictionaries with string keys ------------------------------------------------------------ *)
Section DictS.
  Context {V : Type}.
  Notation dgets := (@dget str V str_eqb).
  Notation dsets := (@dset str V str_eqb).
  Notation ddels := (@ddel str V str_eqb).

  Lemma dget_dset_same (d : list (str * V)) k v : dgets (dsets d k v) k = Some v.
  Proof.
    induction d as [|[k' v'] d IH]; cbn [dset dget].
    - rewrite str_eqb_refl. reflexivity.
    - destruct (str_eqb_spec k k') as [->|Hne]; cbn [dget].
      + rewrite str_eqb_refl. reflexivity.
      + destruct (str_eqb_spec k k'); [contradiction|]. exact IH.
  Qed.

  Lemma dget_dset_other (d : list (str * V)) k k' v : k' <> k -> dgets (dsets d k v) k' = dgets d k'.
  Proof.
    intros Hne. induction d as [|[k0 v0] d IH]; cbn [dset dget].
    - destruct (str_eqb_spec k' k); [contradiction|reflexivity].
    - destruct (str_eqb_spec k k0) as [->|Hk]; cbn [dget].
      + destruct (str_eqb_spec k' k0); [contradiction|reflexivity].
      + destruct (str_eqb_spec k' k0); [reflexivity|exact IH].
  Qed.

  Lemma dget_ddel_other (d : list (str * V)) k k' : k' <> k -> dgets (ddels d k) k' = dgets d k'.
  Proof.
    intros Hne. induction d as [|[k0 v0] d IH]; cbn [ddel dget]; [reflexivity|].
    destruct (str_eqb_spec k k0) as [->|Hk]; cbn [dget].
    - destruct (str_eqb_spec k' k0); [contradiction|reflexivity].
    - destruct (str_eqb_spec k' k0); [reflexivity|exact IH].
  Qed.

  Lemma dget_app_fresh (d : list (str * V)) k v k' :
    dgets d k = None -> dgets (d ++ [(k, v)]) k' = if str_eqb k' k then Some v else dgets d k'.
  Proof.
    intros Hk. induction d as [|[k0 v0] d IH]; cbn [app dget] in *; [reflexivity|].
    destruct (str_eqb_spec k k0) as [->|Hne]; [discriminate|].
    destruct (str_eqb_spec k' k0) as [->|Hne'].
    - destruct (str_eqb_spec k0 k); [congruence|reflexivity].
    - apply IH. exact Hk.
  Qed.
End DictS.

(* keys of a registry are unique when every key is looked up to its own entry *)
Definition keys_unique {V} (d : list (str * V)) : Prop := NoDup (map fst d).

Lemma dget_ddel_same_unique {V} (d : list (str * V)) k : keys_unique d -> dget str_eqb (ddel str_eqb d k) k = None.
Proof.
  unfold keys_unique. induction d as [|[k0 v0] d IH]; cbn [ddel dget map fst]; intros Hnd; [reflexivity|].
  inversion Hnd as [|? ? Hnotin Hnd']; subst.
  destruct (str_eqb_spec k k0) as [->|Hne].
  - clear IH Hnd Hnd'. induction d as [|[k1 v1] d IH]; cbn [dget]; [reflexivity|].
    cbn [map fst In] in Hnotin.
    destruct (str_eqb_spec k0 k1) as [->|Hne1].
    + exfalso. apply Hnotin. left. reflexivity.
    + apply IH. intro H. apply Hnotin. right. exact H.
  - cbn [dget]. destruct (str_eqb_spec k k0); [contradiction|]. apply IH. exact Hnd'.
Qed.

Lemma keys_unique_ddel {V} (d : list (str * V)) k : keys_unique d -> keys_unique (ddel str_eqb d k).
Proof.
  unfold keys_unique. induction d as [|[k0 v0] d IH]; cbn [ddel map fst]; intros Hnd; [constructor|].
  inversion Hnd as [|? ? Hnotin Hnd']; subst.
  destruct (str_eqb k k0); [exact Hnd'|]. cbn [map fst]. constructor; [|apply IH; exact Hnd'].
  intro Hin. apply Hnotin. clear -Hin. induction d as [|[k1 v1] d IH]; cbn [ddel map fst] in *; [contradiction|].
  destruct (str_eqb k k1); [right; exact Hin|]. destruct Hin as [<-|Hin]; [left; reflexivity|right; apply IH; exact Hin].
Qed.

Lemma keys_unique_dset {V} (d : list (str * V)) k v : keys_unique d -> keys_unique (dset str_eqb d k v).
Proof.
  unfold keys_unique. induction d as [|[k0 v0] d IH]; cbn [dset map fst]; intros Hnd.
  - constructor; [intros []|constructor].
  - inversion Hnd as [|? ? Hnotin Hnd']; subst.
    destruct (str_eqb_spec k k0) as [->|Hne]; cbn [map fst]; [exact Hnd|].
    constructor; [|apply IH; exact Hnd'].
    intro Hin. apply Hnotin. clear -Hin Hne. induction d as [|[k1 v1] d IH]; cbn [dset map fst] in *.
    + destruct Hin as [E|[]]. congruence.
    + destruct (str_eqb k k1); cbn [map fst] in Hin; [exact Hin|].
      destruct Hin as [<-|Hin]; [left; reflexivity|right; apply IH; exact Hin].
Qed.

Lemma keys_unique_app {V} (d : list (str * V)) k v :
  keys_unique d -> dget str_eqb d k = None -> keys_unique (d ++ [(k, v)]).
Proof.
  unfold keys_unique. intros Hnd Hk. rewrite map_app. cbn [map fst].
  apply NoDup_Add with (a := k) (l := map fst d).
  - rewrite <- (app_nil_r (map fst d)) at 1. apply Add_app.
  - split; [exact Hnd|]. intro Hin. apply in_map_iff in Hin as [[k' v'] [E Hin]]. cbn in E; subst k'.
    clear Hnd. induction d as [|[k1 v1] d IH]; cbn [dget In] in *; [contradiction|].
    destruct (str_eqb_spec k k1) as [->|Hne]; [discriminate|].
    destruct Hin as [E|Hin]; [congruence|apply IH; assumption].
Qed.

(* ---- vars ------------------------------------------------------------------------------------------ *)
Lemma nth_error_set_nth_same {X} (l : list X) i x y : nth_error l i = Some y -> nth_error (set_nth l i x) i = Some x.
Proof.
  revert i. induction l as [|z l IH]; intros [|i]; cbn [nth_error set_nth]; try discriminate; [reflexivity|apply IH].
Qed.
Lemma nth_error_set_nth_other {X} (l : list X) i j x : i <> j -> nth_error (set_nth l i x) j = nth_error l j.
Proof.
  revert i j. induction l as [|z l IH]; intros [|i] [|j] Hne; cbn [nth_error set_nth]; try reflexivity; try congruence.
  apply IH. congruence.
Qed.

Lemma upd_var_same s v f r : nth_error (vars s) v = Some r -> nth_error (upd_var s v f) v = Some (f r).
Proof. intros H. unfold upd_var. rewrite H. apply (nth_error_set_nth_same _ _ _ r). exact H. Qed.
Lemma upd_var_other s v f w : v <> w -> nth_error (upd_var s v f) w = nth_error (vars s) w.
Proof.
  intros Hne. unfold upd_var. destruct (nth_error (vars s) v); [|reflexivity].
  apply nth_error_set_nth_other. exact Hne.
Qed.

(* ---- the invariant ------------------------------------------------------------------------------------ *)
Record CmetaOk (s : mstate) : Prop := {
  (* every registry entry points at a live variable that carries exactly that id *)
  ck_sound : forall c v, dget str_eqb (cmetas s) c = Some v ->
             exists r, nth_error (vars s) v = Some r /\ v_live r = true /\ v_cmeta r = Some c;
  (* every live variable with an id is the registry's entry for that id: ids are pairwise distinct *)
  ck_complete : forall v r c, nth_error (vars s) v = Some r -> v_live r = true -> v_cmeta r = Some c ->
                dget str_eqb (cmetas s) c = Some v;
  (* the model's own id is not a variable id *)
  ck_model : forall c, mcmeta s = Some c -> dget str_eqb (cmetas s) c = None;
  ck_keys : keys_unique (cmetas s);
  (* the name registry lists exactly the live variables *)
  nk_sound : forall n v, dget str_eqb (names s) n = Some v ->
             exists r, nth_error (vars s) v = Some r /\ v_live r = true /\ v_name r = n;
  nk_complete : forall v r, nth_error (vars s) v = Some r -> v_live r = true ->
                dget str_eqb (names s) (v_name r) = Some v;
  nk_keys : keys_unique (names s);
  (* annotations are about ids that some live variable (or nobody yet) may carry; none survive a removal:
     a triple's subject is never the id of a dead variable unless a live one carries it again *)
  ck_bound : forall v r, nth_error (vars s) v = Some r -> (v < length (vars s))%nat
}.

Lemma cmetaok_init mc : CmetaOk (init_state mc).
Proof.
  constructor; cbn.
  - intros c v H; discriminate.
  - intros v r c H; destruct v; discriminate.
  - intros c H; reflexivity.
  - constructor.
  - intros n v H; discriminate.
  - intros v r H; destruct v; discriminate.
  - constructor.
  - intros v r H; destruct v; discriminate.
Qed.

Lemma nth_error_app_new {X} (l : list X) x : nth_error (l ++ [x]) (length l) = Some x.
Proof. rewrite nth_error_app2 by lia. rewrite Nat.sub_diag. reflexivity. Qed.

Lemma nth_error_app_old {X} (l : list X) x i y : nth_error (l ++ [x]) i = Some y -> i <> length l -> nth_error l i = Some y.
Proof.
  intros H Hne. destruct (Nat.lt_ge_cases i (length l)) as [Hlt|Hge].
  - rewrite nth_error_app1 in H by exact Hlt. exact H.
  - assert (Hlen : (length (l ++ [x]) <= i)%nat) by (rewrite app_length; cbn; lia).
    apply nth_error_None in Hlen. congruence.
Qed.

Lemma has_cmeta_false s c : has_cmeta_id s c = false ->
  dget str_eqb (cmetas s) c = None /\ mcmeta s <> Some c.
Proof.
  unfold has_cmeta_id, dhas, opt_str_eqb. intros H. apply orb_false_iff in H as [H1 H2].
  split.
  - destruct (dget str_eqb (cmetas s) c); [discriminate|reflexivity].
  - destruct (mcmeta s) as [m|]; [|discriminate]. destruct (str_eqb_spec m c); [discriminate|congruence].
Qed.

Lemma add_variable_cmetaok s n c i s' v : CmetaOk s -> add_variable s n c i = MOk (s', v) -> CmetaOk s'.
Proof.
  intros [Cs Cc Cm Ck Ns Nc Nk Cb]. unfold add_variable.
  destruct (dhas str_eqb (names s) n) eqn:Hn; [discriminate|].
  destruct (match c with Some c' => has_cmeta_id s c' | None => false end) eqn:Hc; [discriminate|].
  intros [= <- <-].
  assert (Hn' : dget str_eqb (names s) n = None) by (unfold dhas in Hn; destruct (dget str_eqb (names s) n); [discriminate|reflexivity]).
  set (newr := {| v_name := n; v_cmeta := c; v_order := Z.of_nat (length (names s)); v_live := true; v_init := i |}).
  assert (Hold : forall w r, nth_error (vars s ++ [newr]) w = Some r -> w <> length (vars s) -> nth_error (vars s) w = Some r)
    by (intros w r H Hne; apply (nth_error_app_old _ newr); assumption).
  constructor; cbn [vars names cmetas mcmeta].
  - (* sound *)
    intros c0 v0 H. destruct c as [c1|].
    + destruct (has_cmeta_false s c1 Hc) as [Hfree _].
      destruct (str_eqb_spec c0 c1) as [->|Hne].
      * rewrite dget_dset_same in H. injection H as <-. exists newr.
        split; [apply nth_error_app_new|split; reflexivity].
      * rewrite dget_dset_other in H by exact Hne. destruct (Cs c0 v0 H) as [r [H1 [H2 H3]]].
        exists r. split; [|split; assumption]. rewrite nth_error_app1; [exact H1|]. apply (Cb v0 r H1).
    + destruct (Cs c0 v0 H) as [r [H1 [H2 H3]]].
      exists r. split; [|split; assumption]. rewrite nth_error_app1; [exact H1|]. apply (Cb v0 r H1).
  - (* complete *)
    intros w r c0 H Hl Hc0. destruct (Nat.eq_dec w (length (vars s))) as [->|Hne].
    + rewrite nth_error_app_new in H. injection H as <-. cbn in Hc0. subst c. apply dget_dset_same.
    + pose proof (Hold w r H Hne) as H0. pose proof (Cc w r c0 H0 Hl Hc0) as Hget.
      destruct c as [c1|]; [|exact Hget].
      destruct (has_cmeta_false s c1 Hc) as [Hfree _].
      destruct (str_eqb_spec c0 c1) as [->|Hne']; [congruence|].
      rewrite dget_dset_other by exact Hne'. exact Hget.
  - intros c0 Hm. destruct c as [c1|]; [|apply Cm; exact Hm].
    destruct (has_cmeta_false s c1 Hc) as [_ Hnm].
    destruct (str_eqb_spec c0 c1) as [->|Hne]; [congruence|].
    rewrite dget_dset_other by exact Hne. apply Cm. exact Hm.
  - destruct c; [apply keys_unique_dset|]; exact Ck.
  - intros n0 v0 H. rewrite (dget_app_fresh _ n _ n0 Hn') in H.
    destruct (str_eqb_spec n0 n) as [->|Hne].
    + injection H as <-. exists newr. split; [apply nth_error_app_new|split; reflexivity].
    + destruct (Ns n0 v0 H) as [r [H1 [H2 H3]]]. exists r. split; [|split; assumption].
      rewrite nth_error_app1; [exact H1|]. apply (Cb v0 r H1).
  - intros w r H Hl. rewrite (dget_app_fresh _ n _ _ Hn').
    destruct (Nat.eq_dec w (length (vars s))) as [->|Hne].
    + rewrite nth_error_app_new in H. injection H as <-. cbn. rewrite str_eqb_refl. reflexivity.
    + pose proof (Hold w r H Hne) as H0. pose proof (Nc w r H0 Hl) as Hget.
      destruct (str_eqb_spec (v_name r) n) as [E|_]; [congruence|exact Hget].
  - apply keys_unique_app; assumption.
  - intros w r H. rewrite app_length. cbn. destruct (Nat.eq_dec w (length (vars s))) as [->|Hne]; [lia|].
    pose proof (Cb w r (Hold w r H Hne)). lia.
Qed.

(* operations that do not touch variables or registries *)
Lemma cmetaok_same s s' : CmetaOk s -> vars s' = vars s -> names s' = names s -> cmetas s' = cmetas s ->
  mcmeta s' = mcmeta s -> CmetaOk s'.
Proof.
  intros [Cs Cc Cm Ck Ns Nc Nk Cb] Hv Hn Hc Hm.
  constructor; rewrite ?Hv, ?Hn, ?Hc, ?Hm; assumption.
Qed.

Lemma remove_equation_fields pool s e s' : remove_equation pool s e = MOk s' ->
  vars s' = vars s /\ names s' = names s /\ cmetas s' = cmetas s /\ mcmeta s' = mcmeta s /\ triples s' = triples s.
Proof.
  unfold remove_equation. destruct (remove_first (eqs s) e); [|discriminate].
  destruct (eq_lhs pool e) as [v|v t o n|]; [| |discriminate].
  - destruct (dhas Nat.eqb (vdef s) v); [|discriminate]. intros [= <-]. repeat split.
  - destruct (dhas Nat.eqb (odef s) v); [|discriminate]. intros [= <-]. repeat split.
Qed.

Lemma add_equation_fields pool s e b s' : add_equation pool s e b = MOk s' ->
  vars s' = vars s /\ names s' = names s /\ cmetas s' = cmetas s /\ mcmeta s' = mcmeta s /\ triples s' = triples s.
Proof.
  unfold add_equation. destruct (eq_lhs pool e) as [v|v t o n|]; [| |discriminate].
  - destruct (b && defined_twice s v); [discriminate|]. intros [= <-]. repeat split.
  - destruct ((1 <? n)%Z || (1 <? o)%Z); [discriminate|].
    destruct (b && defined_twice s v); [discriminate|]. intros [= <-]. repeat split.
Qed.

(* remove_variable of a LIVE variable *)
Lemma remove_variable_cmetaok pool s v s' :
  CmetaOk s -> (exists r, nth_error (vars s) v = Some r /\ v_live r = true) ->
  remove_variable pool s v = MOk s' ->
  CmetaOk s' /\
  (forall r, nth_error (vars s) v = Some r -> forall c, v_cmeta r = Some c ->
     dget str_eqb (cmetas s') c = None /\ forall t, In t (triples s') -> fst (fst t) <> c).
Proof.
  intros Hok [r [Hr Hlive]]. unfold remove_variable. rewrite Hr.
  destruct (match get_definition s v with Some e => remove_equation pool s e | None => MOk s end) as [s1|] eqn:H1;
    [|discriminate].
  assert (Hf : vars s1 = vars s /\ names s1 = names s /\ cmetas s1 = cmetas s /\ mcmeta s1 = mcmeta s /\ triples s1 = triples s).
  { destruct (get_definition s v) as [e|]; [apply (remove_equation_fields pool s e s1 H1)|].
    injection H1 as <-. repeat split. }
  destruct Hf as [Fv [Fn [Fc [Fm Ft]]]].
  assert (Hok1 : CmetaOk s1) by (apply (cmetaok_same s); assumption).
  destruct Hok1 as [Cs Cc Cm Ck Ns Nc Nk Cb].
  rewrite <- Fv in Hr.
  destruct (negb (dhas str_eqb (names s1) (v_name r))); [discriminate|].
  set (dead := fun r0 : varrec => {| v_name := v_name r0; v_cmeta := v_cmeta r0; v_order := v_order r0;
                                      v_live := false; v_init := v_init r0 |}).
  assert (Hnew : forall w r0, nth_error (upd_var s1 v dead) w = Some r0 ->
                 (w = v /\ r0 = dead r) \/ (w <> v /\ nth_error (vars s1) w = Some r0)).
  { intros w r0 H. destruct (Nat.eq_dec w v) as [->|Hne].
    - left. rewrite (upd_var_same s1 v dead r Hr) in H. injection H as <-. split; reflexivity.
    - right. rewrite upd_var_other in H by congruence. split; assumption. }
  assert (Hlen : length (upd_var s1 v dead) = length (vars s1)).
  { unfold upd_var. rewrite Hr. clear. generalize (dead r). generalize v. induction (vars s1) as [|z l IH]; intros [|i] x; cbn; try reflexivity.
    f_equal. apply IH. }
  assert (Hnames : forall n0 v0, dget str_eqb (ddel str_eqb (names s1) (v_name r)) n0 = Some v0 ->
                   exists r0, nth_error (upd_var s1 v dead) v0 = Some r0 /\ v_live r0 = true /\ v_name r0 = n0).
  { intros n0 v0 H. destruct (str_eqb_spec n0 (v_name r)) as [->|Hne].
    - rewrite dget_ddel_same_unique in H by exact Nk. discriminate.
    - rewrite dget_ddel_other in H by exact Hne. destruct (Ns n0 v0 H) as [r0 [A [B C]]].
      exists r0. split; [|split; assumption].
      rewrite upd_var_other; [exact A|]. intros ->. rewrite Hr in A. injection A as <-. congruence. }
  assert (Hnamec : forall w r0, nth_error (upd_var s1 v dead) w = Some r0 -> v_live r0 = true ->
                   dget str_eqb (ddel str_eqb (names s1) (v_name r)) (v_name r0) = Some w).
  { intros w r0 H Hl. destruct (Hnew w r0 H) as [[-> ->]|[Hne H0]]; [discriminate|].
    pose proof (Nc w r0 H0 Hl) as Hget.
    destruct (str_eqb_spec (v_name r0) (v_name r)) as [E|Hne'].
    - rewrite E in Hget. rewrite (Nc v r Hr Hlive) in Hget. congruence.
    - rewrite dget_ddel_other by exact Hne'. exact Hget. }
  destruct (v_cmeta r) as [c|] eqn:Hcm.
  - destruct (negb (dhas str_eqb (cmetas s1) c)); [discriminate|].
    intros [= <-]. split.
    + constructor; cbn [vars names cmetas mcmeta].
      * intros c0 v0 H. destruct (str_eqb_spec c0 c) as [->|Hne].
        -- rewrite dget_ddel_same_unique in H by exact Ck. discriminate.
        -- rewrite dget_ddel_other in H by exact Hne. destruct (Cs c0 v0 H) as [r0 [A [B C]]].
           exists r0. split; [|split; assumption].
           rewrite upd_var_other; [exact A|]. intros ->. rewrite Hr in A. injection A as <-. congruence.
      * intros w r0 c0 H Hl Hc0. destruct (Hnew w r0 H) as [[-> ->]|[Hne H0]]; [discriminate|].
        pose proof (Cc w r0 c0 H0 Hl Hc0) as Hget.
        destruct (str_eqb_spec c0 c) as [->|Hne'].
        -- rewrite (Cc v r c Hr Hlive Hcm) in Hget. congruence.
        -- rewrite dget_ddel_other by exact Hne'. exact Hget.
      * intros c0 Hm. destruct (str_eqb_spec c0 c) as [->|Hne].
        -- apply dget_ddel_same_unique. exact Ck.
        -- rewrite dget_ddel_other by exact Hne. apply Cm. exact Hm.
      * apply keys_unique_ddel. exact Ck.
      * exact Hnames.
      * exact Hnamec.
      * apply keys_unique_ddel. exact Nk.
      * intros w r0 H. rewrite Hlen. destruct (Hnew w r0 H) as [[-> ->]|[Hne H0]]; [apply (Cb v r Hr)|apply (Cb w r0 H0)].
    + intros r' Hr' c' Hc'. injection Hr' as <-. rewrite Hcm in Hc'. injection Hc' as <-.
      cbn [cmetas triples]. split; [apply dget_ddel_same_unique; exact Ck|].
      intros t Hin. apply filter_In in Hin as [_ Hf]. destruct (str_eqb_spec (fst (fst t)) c); [discriminate|assumption].
  - intros [= <-]. split.
    + constructor; cbn [vars names cmetas mcmeta].
      * intros c0 v0 H. destruct (Cs c0 v0 H) as [r0 [A [B C]]].
        exists r0. split; [|split; assumption].
        rewrite upd_var_other; [exact A|]. intros ->. rewrite Hr in A. injection A as <-. congruence.
      * intros w r0 c0 H Hl Hc0. destruct (Hnew w r0 H) as [[-> ->]|[Hne H0]]; [discriminate|].
        apply (Cc w r0 c0 H0 Hl Hc0).
      * exact Cm.
      * exact Ck.
      * exact Hnames.
      * exact Hnamec.
      * apply keys_unique_ddel. exact Nk.
      * intros w r0 H. rewrite Hlen. destruct (Hnew w r0 H) as [[-> ->]|[Hne H0]]; [apply (Cb v r Hr)|apply (Cb w r0 H0)].
    + intros r' Hr' c' Hc'. injection Hr' as <-. congruence.
Qed.

Lemma set_cmeta_same s v c r : nth_error (vars s) v = Some r ->
  nth_error (set_cmeta s v c) v = Some {| v_name := v_name r; v_cmeta := c; v_order := v_order r; v_live := v_live r; v_init := v_init r |}.
Proof.
  intros H. unfold set_cmeta.
  exact (upd_var_same s v (fun r0 => {| v_name := v_name r0; v_cmeta := c; v_order := v_order r0; v_live := v_live r0; v_init := v_init r0 |}) r H).
Qed.
Lemma set_cmeta_other s v c w : v <> w -> nth_error (set_cmeta s v c) w = nth_error (vars s) w.
Proof. intros H. unfold set_cmeta. apply upd_var_other. exact H. Qed.
Lemma set_cmeta_length s v c : length (set_cmeta s v c) = length (vars s).
Proof.
  unfold set_cmeta, upd_var. destruct (nth_error (vars s) v) as [r|]; [|reflexivity].
  generalize ({| v_name := v_name r; v_cmeta := c; v_order := v_order r; v_live := v_live r; v_init := v_init r |}).
  generalize v. induction (vars s) as [|z l IH]; intros [|i] x; cbn; try reflexivity. f_equal. apply IH.
Qed.

(* add_cmeta_id of a live variable; the generated id must be free (it is whenever the fuel suffices; the
   statement keeps that as an explicit premise checked by the model at run time) *)
Lemma add_cmeta_id_cmetaok s v s' :
  CmetaOk s -> (exists r, nth_error (vars s) v = Some r /\ v_live r = true) ->
  (forall r, nth_error (vars s) v = Some r -> v_cmeta r = None ->
     has_cmeta_id s (fresh_cmeta (S (length (cmetas s))) s (display_name (v_name r))) = false) ->
  add_cmeta_id s v = MOk s' -> CmetaOk s'.
Proof.
  intros Hok [r [Hr Hlive]] Hfree. unfold add_cmeta_id. rewrite Hr.
  destruct (v_cmeta r) as [c0|] eqn:Hcm; [intros [= <-]; exact Hok|].
  pose proof (Hfree r Hr Hcm) as Hfr.
  remember (fresh_cmeta (S (length (cmetas s))) s (display_name (v_name r))) as c eqn:Ec.
  intros [= <-].
  destruct (has_cmeta_false s c Hfr) as [Hc1 Hc2].
  destruct Hok as [Cs Cc Cm Ck Ns Nc Nk Cb].
  constructor; cbn [vars names cmetas mcmeta].
  - intros c1 v1 H. destruct (str_eqb_spec c1 c) as [->|Hne].
    + rewrite dget_dset_same in H. injection H as <-. eexists. split; [apply (set_cmeta_same s v (Some c) r Hr)|].
      split; [exact Hlive|reflexivity].
    + rewrite dget_dset_other in H by exact Hne. destruct (Cs c1 v1 H) as [r1 [A [B C]]].
      exists r1. split; [|split; assumption]. rewrite set_cmeta_other; [exact A|].
      intros ->. rewrite Hr in A. injection A as <-. congruence.
  - intros w r1 c1 H Hl Hc. destruct (Nat.eq_dec v w) as [<-|Hne].
    + rewrite (set_cmeta_same s v (Some c) r Hr) in H. injection H as <-. cbn in Hc. injection Hc as <-. apply dget_dset_same.
    + rewrite set_cmeta_other in H by exact Hne. pose proof (Cc w r1 c1 H Hl Hc) as Hget.
      destruct (str_eqb_spec c1 c) as [->|Hne']; [congruence|]. rewrite dget_dset_other by exact Hne'. exact Hget.
  - intros c1 Hm. destruct (str_eqb_spec c1 c) as [->|Hne]; [congruence|].
    rewrite dget_dset_other by exact Hne. apply Cm. exact Hm.
  - apply keys_unique_dset. exact Ck.
  - intros n v1 H. destruct (Ns n v1 H) as [r1 [A [B C]]]. destruct (Nat.eq_dec v v1) as [<-|Hne].
    + rewrite Hr in A. injection A as <-. eexists. split; [apply (set_cmeta_same s v (Some c) r Hr)|split; assumption].
    + exists r1. split; [|split; assumption]. rewrite set_cmeta_other; assumption.
  - intros w r1 H Hl. destruct (Nat.eq_dec v w) as [<-|Hne].
    + rewrite (set_cmeta_same s v (Some c) r Hr) in H. injection H as <-. cbn. apply (Nc v r Hr Hlive).
    + rewrite set_cmeta_other in H by exact Hne. apply (Nc w r1 H Hl).
  - exact Nk.
  - intros w r1 H. rewrite set_cmeta_length. destruct (Nat.eq_dec v w) as [<-|Hne]; [apply (Cb v r Hr)|].
    rewrite set_cmeta_other in H by exact Hne. apply (Cb w r1 H).
Qed.

(* transfer_cmeta_id between two LIVE variables *)
Lemma transfer_cmeta_id_cmetaok s a b s' :
  CmetaOk s -> (exists ra, nth_error (vars s) a = Some ra /\ v_live ra = true) ->
  (exists rb, nth_error (vars s) b = Some rb /\ v_live rb = true) ->
  transfer_cmeta_id s a b = MOk s' -> CmetaOk s'.
Proof.
  intros Hok [ra [Hra Hla]] [rb [Hrb Hlb]]. unfold transfer_cmeta_id. rewrite Hra, Hrb.
  destruct (v_cmeta ra) as [c|] eqn:Hca; [|discriminate].
  destruct (v_cmeta rb) as [cb|] eqn:Hcb; [discriminate|].
  intros [= <-].
  assert (Hab : a <> b) by (intros ->; rewrite Hra in Hrb; injection Hrb as <-; congruence).
  destruct Hok as [Cs Cc Cm Ck Ns Nc Nk Cb].
  set (s1 := {| vars := set_cmeta s b (Some c); names := names s; cmetas := cmetas s; eqs := eqs s; vdef := vdef s;
                odef := odef s; gcache := gcache s; ncache := ncache s; mcmeta := mcmeta s; triples := triples s |}).
  assert (H1a : nth_error (vars s1) a = Some ra) by (cbn; rewrite set_cmeta_other by congruence; exact Hra).
  set (rb' := {| v_name := v_name rb; v_cmeta := Some c; v_order := v_order rb; v_live := v_live rb; v_init := v_init rb |}).
  set (ra' := {| v_name := v_name ra; v_cmeta := None; v_order := v_order ra; v_live := v_live ra; v_init := v_init ra |}).
  assert (Ha' : nth_error (set_cmeta s1 a None) a = Some ra') by (apply (set_cmeta_same s1 a None ra H1a)).
  assert (Hb' : nth_error (set_cmeta s1 a None) b = Some rb').
  { rewrite set_cmeta_other by exact Hab. cbn. apply (set_cmeta_same s b (Some c) rb Hrb). }
  assert (Ho : forall w, w <> a -> w <> b -> nth_error (set_cmeta s1 a None) w = nth_error (vars s) w).
  { intros w H1 H2. rewrite set_cmeta_other by congruence. cbn. rewrite set_cmeta_other by congruence. reflexivity. }
  constructor; cbn [vars names cmetas mcmeta].
  - intros c1 v1 H. destruct (str_eqb_spec c1 c) as [->|Hne].
    + rewrite dget_dset_same in H. injection H as <-. exists rb'. split; [exact Hb'|split; [exact Hlb|reflexivity]].
    + rewrite dget_dset_other in H by exact Hne. destruct (Cs c1 v1 H) as [r1 [A [B C]]].
      destruct (Nat.eq_dec v1 a) as [->|Hna]; [rewrite Hra in A; injection A as <-; congruence|].
      destruct (Nat.eq_dec v1 b) as [->|Hnb]; [rewrite Hrb in A; injection A as <-; congruence|].
      exists r1. split; [rewrite Ho by assumption; exact A|split; assumption].
  - intros w r1 c1 H Hl Hc. destruct (Nat.eq_dec w a) as [->|Hna]; [rewrite Ha' in H; injection H as <-; discriminate|].
    destruct (Nat.eq_dec w b) as [->|Hnb].
    + rewrite Hb' in H. injection H as <-. cbn in Hc. injection Hc as <-. apply dget_dset_same.
    + rewrite Ho in H by assumption. pose proof (Cc w r1 c1 H Hl Hc) as Hget.
      destruct (str_eqb_spec c1 c) as [->|Hne'].
      * rewrite (Cc a ra c Hra Hla Hca) in Hget. congruence.
      * rewrite dget_dset_other by exact Hne'. exact Hget.
  - intros c1 Hm. destruct (str_eqb_spec c1 c) as [->|Hne].
    + pose proof (Cm c Hm) as Hnone. rewrite (Cc a ra c Hra Hla Hca) in Hnone. discriminate.
    + rewrite dget_dset_other by exact Hne. apply Cm. exact Hm.
  - apply keys_unique_dset. exact Ck.
  - intros n v1 H. destruct (Ns n v1 H) as [r1 [A [B C]]].
    destruct (Nat.eq_dec v1 a) as [->|Hna]; [rewrite Hra in A; injection A as <-; exists ra'; split; [exact Ha'|split; assumption]|].
    destruct (Nat.eq_dec v1 b) as [->|Hnb]; [rewrite Hrb in A; injection A as <-; exists rb'; split; [exact Hb'|split; assumption]|].
    exists r1. split; [rewrite Ho by assumption; exact A|split; assumption].
  - intros w r1 H Hl. destruct (Nat.eq_dec w a) as [->|Hna]; [rewrite Ha' in H; injection H as <-; apply (Nc a ra Hra Hla)|].
    destruct (Nat.eq_dec w b) as [->|Hnb]; [rewrite Hb' in H; injection H as <-; apply (Nc b rb Hrb Hlb)|].
    rewrite Ho in H by assumption. apply (Nc w r1 H Hl).
  - exact Nk.
  - intros w r1 H. rewrite set_cmeta_length. cbn. rewrite set_cmeta_length.
    destruct (Nat.eq_dec w a) as [->|Hna]; [apply (Cb a ra Hra)|].
    destruct (Nat.eq_dec w b) as [->|Hnb]; [apply (Cb b rb Hrb)|].
    rewrite Ho in H by assumption. apply (Cb w r1 H).
Qed.

(* ---- histories: calls are made with live variables of this model (the guard of finding F16) ----------- *)
Section WithPool.
Variable pool : list eqrec.

Definition is_live (s : mstate) (v : vid) : bool :=
  match nth_error (vars s) v with Some r => v_live r | None => false end.

Lemma is_live_spec s v : is_live s v = true -> exists r, nth_error (vars s) v = Some r /\ v_live r = true.
Proof. unfold is_live. destruct (nth_error (vars s) v) as [r|]; [|discriminate]. intros H. exists r. split; [reflexivity|exact H]. Qed.

Definition id_fresh (s : mstate) (v : vid) : bool :=
  match nth_error (vars s) v with
  | Some r => match v_cmeta r with
              | None => negb (has_cmeta_id s (fresh_cmeta (S (length (cmetas s))) s (display_name (v_name r))))
              | Some _ => true
              end
  | None => true
  end.

(* a call is well-formed when it hands the model live variables (and the id generator has not run out of fuel) *)
Definition op_ok (s : mstate) (o : op) : bool :=
  match o with
  | ORemoveVar v => is_live s v
  | OAddCmeta v => is_live s v && id_fresh s v
  | OTransfer a b => is_live s a && is_live s b
  | _ => true
  end.

Definition gstep (s : mstate) (o : op) : mstate := if op_ok s o then fst (step pool s o) else s.
Definition grun (s : mstate) (ops : list op) : mstate := fold_left gstep ops s.

Lemma gstep_cmetaok s o : CmetaOk s -> CmetaOk (gstep s o).
Proof.
  intros Hok. unfold gstep. destruct (op_ok s o) eqn:Hg; [|exact Hok].
  destruct o; cbn [step op_ok] in *.
  - destruct (add_variable s n c i) as [[s' v]|] eqn:H; cbn [fst]; [|exact Hok].
    apply (add_variable_cmetaok s n c i s' v); assumption.
  - destruct (remove_variable pool s v) as [s'|] eqn:H; cbn [fst]; [|exact Hok].
    apply (remove_variable_cmetaok pool s v s' Hok (is_live_spec s v Hg) H).
  - destruct (add_equation pool s e true) as [s'|] eqn:H; cbn [fst]; [|exact Hok].
    destruct (add_equation_fields pool s e true s' H) as [A [B [C [D _]]]]. apply (cmetaok_same s); assumption.
  - destruct (remove_equation pool s e) as [s'|] eqn:H; cbn [fst]; [|exact Hok].
    destruct (remove_equation_fields pool s e s' H) as [A [B [C [D _]]]]. apply (cmetaok_same s); assumption.
  - apply andb_true_iff in Hg as [Hl Hf].
    destruct (add_cmeta_id s v) as [s'|] eqn:H; cbn [fst]; [|exact Hok].
    apply (add_cmeta_id_cmetaok s v s' Hok (is_live_spec s v Hl)); [|exact H].
    intros r Hr Hc. unfold id_fresh in Hf. rewrite Hr, Hc in Hf. apply negb_true_iff in Hf. exact Hf.
  - apply andb_true_iff in Hg as [Hla Hlb].
    destruct (transfer_cmeta_id s a b) as [s'|] eqn:H; cbn [fst]; [|exact Hok].
    apply (transfer_cmeta_id_cmetaok s a b s' Hok (is_live_spec s a Hla) (is_live_spec s b Hlb) H).
  - cbn [fst]. apply (cmetaok_same s); try reflexivity. exact Hok.
  - unfold get_graph. destruct (gcache s); cbn [fst]; [exact Hok|].
    destruct (build_graph pool s); cbn [fst]; [|exact Hok]. apply (cmetaok_same s); try reflexivity. exact Hok.
  - unfold get_number_graph. destruct (ncache s); cbn [fst]; [exact Hok|].
    unfold get_graph. destruct (gcache s); cbn [fst].
    + apply (cmetaok_same s); try reflexivity. exact Hok.
    + destruct (build_graph pool s); cbn [fst]; [|exact Hok]. apply (cmetaok_same s); try reflexivity. exact Hok.
Qed.

Theorem reachable_cmetaok mc ops : CmetaOk (grun (init_state mc) ops).
Proof.
  unfold grun. generalize (cmetaok_init mc). generalize (init_state mc).
  induction ops as [|o ops IH]; intros s Hok; cbn [fold_left]; [exact Hok|].
  apply IH. apply gstep_cmetaok. exact Hok.
Qed.

(* look-ups return exactly the live carrier *)
Theorem lookup_returns_carrier s c v : CmetaOk s ->
  (get_variable_by_cmeta_id s c = MOk v <->
   exists r, nth_error (vars s) v = Some r /\ v_live r = true /\ v_cmeta r = Some c).
Proof.
  intros Hok. unfold get_variable_by_cmeta_id. split.
  - destruct (dget str_eqb (cmetas s) c) as [w|] eqn:H; [|discriminate]. intros [= <-]. apply (ck_sound s Hok c w H).
  - intros [r [A [B C]]]. rewrite (ck_complete s Hok v r c A B C). reflexivity.
Qed.

Theorem one_carrier_per_id s c v w rv rw : CmetaOk s ->
  nth_error (vars s) v = Some rv -> v_live rv = true -> v_cmeta rv = Some c ->
  nth_error (vars s) w = Some rw -> v_live rw = true -> v_cmeta rw = Some c -> v = w.
Proof.
  intros Hok A1 A2 A3 B1 B2 B3.
  pose proof (ck_complete s Hok v rv c A1 A2 A3) as H1. pose proof (ck_complete s Hok w rw c B1 B2 B3) as H2. congruence.
Qed.

Lemma in_insert_by_order vs v l x : In x (insert_by_order vs v l) <-> x = v \/ In x l.
Proof.
  induction l as [|w l IH]; cbn [insert_by_order In].
  - split; [intros [E|[]]; left; congruence|intros [E|[]]; left; congruence].
  - destruct (Z.ltb _ _); cbn [In].
    + split; [intros [E|H]; [left; congruence|right; exact H]|intros [E|H]; [left; congruence|right; exact H]].
    + rewrite IH. split.
      * intros [E|[E|H]]; [right; left; exact E|left; exact E|right; right; exact H].
      * intros [E|[E|H]]; [right; left; exact E|left; exact E|right; right; exact H].
Qed.

Lemma in_sort_by_order vs l x : In x (sort_by_order vs l) <-> In x l.
Proof.
  unfold sort_by_order.
  assert (H : forall acc, In x (fold_left (fun acc v => insert_by_order vs v acc) l acc) <-> In x l \/ In x acc).
  { induction l as [|v l IH]; intros acc; cbn [fold_left In].
    - split; [intros H; right; exact H|intros [[]|H]; exact H].
    - rewrite IH, in_insert_by_order. split.
      + intros [H|[E|H]]; [left; right; exact H|left; left; congruence|right; exact H].
      + intros [[E|H]|H]; [right; left; congruence|left; exact H|right; right; exact H]. }
  rewrite H. cbn [In]. split; [intros [H0|[]]; exact H0|intros H0; left; exact H0].
Qed.

Lemma lookup_all_in s subs vs : lookup_all s subs = MOk vs ->
  forall v, In v vs -> exists c, In c subs /\ get_variable_by_cmeta_id s c = MOk v.
Proof.
  revert vs. induction subs as [|c subs IH]; cbn [lookup_all]; intros vs H v Hin.
  - injection H as <-. contradiction.
  - destruct (get_variable_by_cmeta_id s c) as [w|] eqn:Hc; [|discriminate].
    destruct (lookup_all s subs) as [ws|] eqn:Hs; [|discriminate].
    injection H as <-. destruct Hin as [<-|Hin].
    + exists c. split; [left; reflexivity|exact Hc].
    + destruct (IH ws eq_refl v Hin) as [c' [A B]]. exists c'. split; [right; exact A|exact B].
Qed.

Theorem rdf_lookup_returns_carriers s p o vs : CmetaOk s -> get_variables_by_rdf s p o = MOk vs ->
  forall v, In v vs ->
  exists r c, nth_error (vars s) v = Some r /\ v_live r = true /\ v_cmeta r = Some c /\ In (c, p, o) (triples s).
Proof.
  intros Hok. unfold get_variables_by_rdf.
  destruct (lookup_all s _) as [ws|] eqn:Hl; [|discriminate]. intros [= <-] v Hin.
  apply in_sort_by_order in Hin. destruct (lookup_all_in s _ ws Hl v Hin) as [c [Hc Hget]].
  apply in_map_iff in Hc as [[[c' p'] o'] [E Hc]]. cbn in E. subst c'.
  apply filter_In in Hc as [Hc Hf]. cbn in Hf. apply andb_true_iff in Hf as [Hp Ho].
  apply Z.eqb_eq in Hp. apply Z.eqb_eq in Ho. subst p' o'.
  apply (lookup_returns_carrier s c v Hok) in Hget as [r [A [B C]]].
  exists r, c. repeat split; assumption.
Qed.

Theorem remove_removes_annotations s v s' r c : CmetaOk s ->
  nth_error (vars s) v = Some r -> v_live r = true -> v_cmeta r = Some c ->
  remove_variable pool s v = MOk s' ->
  get_variable_by_cmeta_id s' c = MErr EKey /\ (forall t, In t (triples s') -> fst (fst t) <> c).
Proof.
  intros Hok Hr Hl Hc H.
  destruct (remove_variable_cmetaok pool s v s' Hok (ex_intro _ r (conj Hr Hl)) H) as [_ Hrm].
  destruct (Hrm r Hr c Hc) as [Hnone Htr]. split; [|exact Htr].
  unfold get_variable_by_cmeta_id. rewrite Hnone. reflexivity.
Qed.

End WithPool.

(* F16: a stale variable handed to remove_variable deletes the registry entry of the live variable that now
   has its name *)
Lemma foreign_variable_refuted :
  exists s v, CmetaOk s /\ ~ CmetaOk (fst (step [] s (ORemoveVar v))).
Proof.
  pose (x := [120%Z]).
  pose (s0 := run [] (init_state None) [OAddVar x None None; ORemoveVar 0%nat; OAddVar x None None]).
  exists s0, 0%nat. split.
  - apply (reachable_cmetaok [] None [OAddVar x None None; ORemoveVar 0%nat; OAddVar x None None]).
  - intros H. pose proof (nk_complete _ H 1%nat) as Hc. cbn in Hc.
    specialize (Hc _ eq_refl eq_refl). discriminate.
Qed.
