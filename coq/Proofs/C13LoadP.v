(* C13, loading clause: cmeta ids when a document is loaded.  Over Model/Loader.v, which mirrors
   Model.add_variable (an id already in use is refused) and the connection-time
   transfer_cmeta_id(source=target, target=source) of Parser._add_connections (only when the conversion factor is 1;
   ValueError when the receiving end already carries an id).
   Note the code moves an id ONE hop, to the variable the target is directly connected to (the `source` of that
   connection), not to the end of the chain: the direct source was processed earlier and is never a target again. *)
From Coq Require Import List ZArith QArith Bool Lia Permutation.
From Verif Require Import Sexp UnitAlg UnitAlgP Expr Loader LoaderP C17P.
Import ListNotations.

Definition decl (vars : list fv) (v : nat) : option Z := nth v (map fcm vars) None.
Definition one_b (vars : list fv) (s t : nat) : bool :=
  match conv (uv_of vars s) (uv_of vars t) with Some cf => is_one cf | None => false end.
(* where the id declared on v lives after loading: on the variable v was connected to, if v is the target of a
   connection without unit change; on v otherwise *)
Definition carrier (vars : list fv) (m : list (nat * nat)) (v : nat) : nat :=
  match lookup m v with Some s => if one_b vars s v then s else v | None => v end.

(* ---- ids given to add_variable are pairwise distinct ---- *)
Definition ids_inj (vars : list fv) : Prop :=
  forall i j k, decl vars i = Some k -> decl vars j = Some k -> i = j.

Lemma optZ_eqb_true a b : optZ_eqb a b = true -> a = b.
Proof. destruct a, b; cbn; intros H; try discriminate; auto. apply Z.eqb_eq in H. congruence. Qed.

Lemma decl_app_l vars x i : (i < length vars)%nat -> decl (vars ++ [x]) i = decl vars i.
Proof. intros L. unfold decl. rewrite map_app. apply app_nth1. rewrite map_length. exact L. Qed.

Lemma decl_some_lt vars i k : decl vars i = Some k -> (i < length vars)%nat.
Proof.
  unfold decl. intros H. destruct (Nat.lt_ge_cases i (length vars)); auto.
  rewrite nth_overflow in H by (rewrite map_length; auto). discriminate.
Qed.

Lemma add_var_ids d c vars v vars' : add_var d c vars v = OK vars' -> ids_inj vars -> ids_inj vars'.
Proof.
  unfold add_var. destruct (unit_lookup (d_units d) (v_units v)) as [uv|]; [|discriminate].
  destruct (vidx vars c (v_name v)); [discriminate|].
  destruct (match v_cmeta v with Some id => cm_used (d_model_cmeta d) vars id | None => false end) eqn:U; [discriminate|].
  intros H I. inversion H. subst vars'. clear H. set (x := mkFv c (v_name v) (v_units v) uv (v_init v) (v_pub v) (v_priv v) (v_cmeta v)).
  assert (Last : forall k, decl (vars ++ [x]) (length vars) = Some k -> v_cmeta v = Some k).
  { intros k. unfold decl. rewrite map_app, app_nth2 by (rewrite map_length; auto). rewrite map_length, Nat.sub_diag. cbn. auto. }
  assert (Fresh : forall i k, (i < length vars)%nat -> decl vars i = Some k -> v_cmeta v = Some k -> False).
  { intros i k L Hi Hv. rewrite Hv in U. unfold cm_used in U. apply orb_false_iff in U. destruct U as (_ & U).
    assert (E : existsb (fun w => optZ_eqb (fcm w) (Some k)) vars = true).
    { apply existsb_exists. unfold decl in Hi. exists (nth i vars x). split; [apply nth_In; auto|].
      rewrite nth_indep with (d' := fcm x) in Hi by (rewrite map_length; auto). rewrite map_nth in Hi. rewrite Hi. cbn.
      apply Z.eqb_refl. }
    congruence. }
  intros i j k Hi Hj.
  pose proof (decl_some_lt _ _ _ Hi) as Li. pose proof (decl_some_lt _ _ _ Hj) as Lj.
  rewrite app_length in Li, Lj. cbn in Li, Lj.
  destruct (Nat.eq_dec i (length vars)) as [->|Ni], (Nat.eq_dec j (length vars)) as [->|Nj]; auto.
  - exfalso. rewrite decl_app_l in Hj by lia. eapply Fresh; eauto. lia.
  - exfalso. rewrite decl_app_l in Hi by lia. eapply Fresh; eauto. lia.
  - rewrite decl_app_l in Hi, Hj by lia. eauto.
Qed.

Lemma foldM_pres {S E} (P : S -> Prop) (step : S -> E -> result S) :
  (forall s x s', step s x = OK s' -> P s -> P s') -> forall l s s', foldM step l s = OK s' -> P s -> P s'.
Proof.
  intros Hs. induction l as [|x r IH]; intros s s' H Ps; cbn in H. { inversion H. subst. auto. }
  apply bind_ok in H. destruct H as (s1 & H1 & H). eauto.
Qed.

Lemma add_components_ids d names vars : add_components d = OK (names, vars) -> ids_inj vars.
Proof.
  unfold add_components. intros H.
  apply (foldM_pres (fun st => ids_inj (snd st)) (add_comp d)) in H; auto.
  - intros st c st' Hc P. unfold add_comp in Hc. destruct (memZ (c_name c) (fst st)); [discriminate|].
    apply bind_ok in Hc. destruct Hc as (vs & Hv & Hc). destruct (c_reaction c); [discriminate|]. inversion Hc. cbn.
    eapply (foldM_pres ids_inj (add_var d (c_name c))); eauto. intros; eapply add_var_ids; eauto.
  - intros i j k Hi. unfold decl in Hi. cbn in Hi. destruct i; discriminate.
Qed.

(* ---- the transfer invariant of the work-list ---- *)
Section Transfer.
  Variable vars : list fv.
  Let n := length vars.

  Definition tinv (st : cstate) : Prop :=
    (forall v, nth v (asg st) None = None -> nth v (cmt st) None = decl vars v) /\
    (forall v k, decl vars v = Some k -> nth (carrier vars (cmap st) v) (cmt st) None = Some k) /\
    (forall j k, nth j (cmt st) None = Some k -> exists v, decl vars v = Some k /\ carrier vars (cmap st) v = j).

  Lemma carrier_cons_other t s m v : v <> t -> carrier vars ((t, s) :: m) v = carrier vars m v.
  Proof.
    intros N. unfold carrier. rewrite lookup_cons. destruct (Nat.eqb t v) eqn:E; auto.
    apply Nat.eqb_eq in E. congruence.
  Qed.

  Lemma carrier_cons_self t s m : carrier vars ((t, s) :: m) t = if one_b vars s t then s else t.
  Proof. unfold carrier. rewrite lookup_cons, Nat.eqb_refl. reflexivity. Qed.

  Lemma tinv_step init st c st' : conn_inv init st -> length (cmt st) = n -> length init = n ->
    (fst c < n)%nat -> (snd c < n)%nat -> tinv st -> cstep vars st c = ODone st' -> tinv st'.
  Proof.
    intros (Hch & Hl & Hk & Ha & Hi) Lc Li Ls Lt (J1 & J2 & J3) E. destruct c as [s t]. cbn [fst snd] in *.
    apply cstep_done in E. destruct E as (Ht & a & cf & Hs & Hc & E).
    assert (Nst : s <> t) by (intros ->; congruence).
    assert (Knot : lookup (cmap st) t = None).
    { apply lookup_notin. intros K. apply (Hk _ K). exact Ht. }
    assert (Ct : carrier vars (cmap st) t = t) by (unfold carrier; rewrite Knot; reflexivity).
    (* no variable has been moved onto t: the sources in the mapping are assigned *)
    assert (Nc : forall v, v <> t -> carrier vars (cmap st) v <> t).
    { intros v Nv. unfold carrier. destruct (lookup (cmap st) v) as [s'|] eqn:El; auto.
      destruct (one_b vars s' v); auto. intros ->. apply lookup_in in El.
      destruct (chain_vals _ _ Hch _ _ El) as [K|K]; [apply (Hk _ K); exact Ht|apply (Hi _ K); exact Ht]. }
    assert (O : one_b vars s t = is_one cf) by (unfold one_b; rewrite Hc; reflexivity).
    destruct E as [(H1 & cm' & Hm & ->)|(H1 & _ & ->)]; unfold tinv; cbn [asg cmt cmap].
    - unfold cm_step in Hm. destruct (nth t (cmt st) None) as [k|] eqn:Et.
      + destruct (nth s (cmt st) None) eqn:Es; [discriminate|]. inversion Hm. subst cm'. clear Hm.
        assert (Dt : decl vars t = Some k) by (rewrite <- (J1 t Ht); exact Et).
        split; [|split].
        * intros v Hv. destruct (Nat.eq_dec t v) as [<-|N]. { rewrite nth_upd_eq in Hv by lia. discriminate. }
          rewrite nth_upd_neq in Hv by auto. rewrite nth_upd_neq by auto.
          rewrite nth_upd_neq by (intros <-; congruence). auto.
        * intros v k' Dv. destruct (Nat.eq_dec v t) as [->|N].
          -- rewrite carrier_cons_self, O, H1. rewrite nth_upd_neq by auto. rewrite nth_upd_eq by lia. congruence.
          -- rewrite carrier_cons_other by auto. pose proof (J2 v k' Dv) as C.
             rewrite nth_upd_neq by (intros E; symmetry in E; revert E; apply Nc; auto).
             rewrite nth_upd_neq by (intros E; rewrite <- E in C; congruence). exact C.
        * intros j k' Hj. destruct (Nat.eq_dec t j) as [<-|Ntj]. { rewrite nth_upd_eq in Hj by (rewrite length_upd; lia). discriminate. }
          rewrite nth_upd_neq in Hj by auto. destruct (Nat.eq_dec s j) as [<-|Nsj].
          -- rewrite nth_upd_eq in Hj by lia. inversion Hj. subst k'. exists t. split; auto.
             rewrite carrier_cons_self, O, H1. reflexivity.
          -- rewrite nth_upd_neq in Hj by auto. destruct (J3 j k' Hj) as (v & Dv & Cv). exists v. split; auto.
             rewrite carrier_cons_other; auto. intros ->. congruence.
      + inversion Hm. subst cm'. clear Hm.
        assert (Dt : decl vars t = None) by (rewrite <- (J1 t Ht); exact Et).
        split; [|split].
        * intros v Hv. destruct (Nat.eq_dec t v) as [<-|N]. { rewrite nth_upd_eq in Hv by lia. discriminate. }
          rewrite nth_upd_neq in Hv by auto. auto.
        * intros v k' Dv. destruct (Nat.eq_dec v t) as [->|N]; [congruence|]. rewrite carrier_cons_other by auto. auto.
        * intros j k' Hj. destruct (J3 j k' Hj) as (v & Dv & Cv). exists v. split; auto.
          rewrite carrier_cons_other; auto. intros ->. congruence.
    - split; [|split].
      + intros v Hv. destruct (Nat.eq_dec t v) as [<-|N]. { rewrite nth_upd_eq in Hv by lia. discriminate. }
        rewrite nth_upd_neq in Hv by auto. auto.
      + intros v k' Dv. destruct (Nat.eq_dec v t) as [->|N].
        * rewrite carrier_cons_self, O, H1. rewrite <- Ct at 1. auto.
        * rewrite carrier_cons_other by auto. auto.
      + intros j k' Hj. destruct (J3 j k' Hj) as (v & Dv & Cv). exists v. split; auto.
        destruct (Nat.eq_dec v t) as [->|N].
        * rewrite carrier_cons_self, O, H1. congruence.
        * rewrite carrier_cons_other; auto.
  Qed.

  Lemma tinv_init : tinv (init_cs vars).
  Proof.
    split; [|split]; cbn.
    - intros v _. reflexivity.
    - intros v k D. exact D.
    - intros j k H. exists j. split; auto.
  Qed.

  Lemma cm_length st c st' : cstep vars st c = ODone st' -> length (cmt st') = length (cmt st).
  Proof.
    destruct c as [s t]. intros H. apply cstep_done in H.
    destruct H as (_ & a & cf & _ & _ & [(_ & cm' & Hm & ->)|(_ & _ & ->)]); cbn; auto.
    unfold cm_step in Hm. destruct (nth t (cmt st) None); [|inversion Hm; auto].
    destruct (nth s (cmt st) None); [discriminate|]. inversion Hm. rewrite !length_upd. reflexivity.
  Qed.

  Lemma tinv_run init : forall p st st', run vars st p = Some st' -> conn_inv init st -> length (cmt st) = n ->
    length init = n -> (forall c, In c p -> (fst c < n)%nat /\ (snd c < n)%nat) -> tinv st -> tinv st'.
  Proof.
    induction p as [|c r IH]; intros st st' H CI Lc Li R T; cbn in H. { inversion H. subst. exact T. }
    destruct (cstep vars st c) as [| |s1] eqn:E; try discriminate.
    destruct (R c (or_introl eq_refl)) as (Rs & Rt).
    apply (IH s1 st' H).
    - eapply conn_inv_step; eauto. lia.
    - rewrite (cm_length _ _ _ E). exact Lc.
    - exact Li.
    - intros c' Hc'. apply R. now right.
    - eapply tinv_step; eauto.
  Qed.
End Transfer.

(* ---- the loaded model ---- *)
Definition ids_distinct (cm : list (option Z)) : Prop :=
  forall i j k, nth i cm None = Some k -> nth j cm None = Some k -> i = j.

Lemma stages_tinv d f : stages d f -> tinv (st_vars d) (st_cs d) /\ ids_inj (st_vars d).
Proof.
  intros S. split; [|eapply add_components_ids; apply (s_comps _ _ S)].
  destruct (stages_schedule _ _ S) as (p & Pp & Hr).
  apply (tinv_run (st_vars d) (init_asg 0 (st_vars d)) p (init_cs (st_vars d)) (st_cs d) Hr).
  - apply (conn_inv_init (init_cs (st_vars d))). reflexivity.
  - cbn. apply map_length.
  - apply init_asg_length.
  - intros c Hc. apply (stages_range _ _ S). eapply Permutation_in; eauto.
  - apply tinv_init.
Qed.

Theorem load_ids d f : load d = OK f ->
  let m := rev (f_map f) in
  ids_distinct (f_cmeta f) /\
  (forall v k, decl (f_vars f) v = Some k -> nth (carrier (f_vars f) m v) (f_cmeta f) None = Some k) /\
  (forall j k, nth j (f_cmeta f) None = Some k -> exists v, decl (f_vars f) v = Some k /\ carrier (f_vars f) m v = j).
Proof.
  intros H m. apply load_stages in H. pose proof (s_flat _ _ H) as Ef. subst f. subst m.
  cbn [f_map f_vars f_cmeta]. rewrite rev_involutive.
  destruct (stages_tinv _ _ H) as ((_ & J2 & J3) & Inj). split; [|split; auto].
  intros i j k Hi Hj. destruct (J3 i k Hi) as (v & Dv & Cv), (J3 j k Hj) as (w & Dw & Cw).
  rewrite (Inj v w k Dv Dw) in Cv. congruence.
Qed.

(* rejection: a connection without unit change whose target declares an id, while the variable it is connected to
   is a pure source (no `in` interface) that declares an id too *)
Theorem load_both_ids_rejected d :
  (exists s t, In (s, t) (st_work d) /\ one_b (st_vars d) s t = true /\ decl (st_vars d) t <> None /\
               decl (st_vars d) s <> None /\ nth s (asg (init_cs (st_vars d))) None <> None) ->
  exists e, load d = Error e.
Proof.
  intros (s & t & Hw & Ho & Dt & Ds & Is). apply reject. intros f H. apply load_stages in H.
  destruct (stages_schedule _ _ H) as (p & Pp & Hr).
  assert (Hin : In (s, t) p) by (eapply Permutation_in; [apply Permutation_sym; exact Pp|exact Hw]).
  apply in_split in Hin. destruct Hin as (p1 & p2 & ->). rewrite run_app in Hr.
  destruct (run (st_vars d) (init_cs (st_vars d)) p1) as [s1|] eqn:R1; [|discriminate].
  assert (Rg : forall c, In c (p1 ++ (s, t) :: p2) -> (fst c < length (st_vars d))%nat /\ (snd c < length (st_vars d))%nat).
  { intros c Hc. apply (stages_range _ _ H). eapply Permutation_in; eauto. }
  assert (CI : conn_inv (init_asg 0 (st_vars d)) s1).
  { eapply conn_inv_run; [|exact R1|].
    - apply (conn_inv_init (init_cs (st_vars d))). reflexivity.
    - intros c Hc. rewrite init_asg_length. apply Rg. apply in_or_app. now left. }
  assert (T : tinv (st_vars d) s1).
  { apply (tinv_run (st_vars d) (init_asg 0 (st_vars d)) p1 (init_cs (st_vars d)) s1 R1).
    - apply (conn_inv_init (init_cs (st_vars d))). reflexivity.
    - cbn. apply map_length.
    - apply init_asg_length.
    - intros c Hc. apply Rg. apply in_or_app. now left.
    - apply tinv_init. }
  destruct T as (J1 & J2 & _).
  cbn in Hr. destruct (cstep (st_vars d) s1 (s, t)) as [| |s2] eqn:E; try discriminate.
  apply cstep_done in E. destruct E as (Ht & a & cf & _ & Hc & E).
  assert (O : is_one cf = true) by (unfold one_b in Ho; rewrite Hc in Ho; exact Ho).
  destruct E as [(_ & cm' & Hm & _)|(H1 & _)]; [|congruence].
  (* s is never a key: it was assigned from the start *)
  assert (Ks : lookup (cmap s1) s = None).
  { apply lookup_notin. intros K. apply Is. apply (chain_keys_init _ _ (proj1 CI) _ K). }
  destruct (decl (st_vars d) s) as [ks|] eqn:Es; [|congruence].
  pose proof (J2 s ks Es) as Cs. unfold carrier in Cs. rewrite Ks in Cs.
  destruct (decl (st_vars d) t) as [kt|] eqn:Et; [|congruence].
  rewrite <- (J1 t Ht) in Et.
  unfold cm_step in Hm. rewrite Et, Cs in Hm. discriminate.
Qed.
