(* C17 -- broken or unsupported documents are refused, never half-loaded: lemmas.
   Stage-by-stage characterisation of a successful [load], fuel sufficiency, one rejection lemma per fault class. *)
From Coq Require Import List ZArith QArith Bool Lia Permutation.
From Verif Require Import Sexp UnitAlg UnitAlgP Expr Loader LoaderP.
Import ListNotations.

(* ================= components ================= *)
Definition mkfv (d : doc) (c : Z) (v : dvar) : fv :=
  mkFv c (v_name v) (v_units v)
       (match unit_lookup (d_units d) (v_units v) with Some uv => uv | None => [] end)
       (v_init v) (v_pub v) (v_priv v) (v_cmeta v).
Definition comp_vars (d : doc) (c : comp) : list fv := map (mkfv d (c_name c)) (c_vars c).
Definition expected_vars (d : doc) : list fv := flat_map (comp_vars d) (d_comps d).
Definition unit_known (d : doc) (v : dvar) : Prop := unit_lookup (d_units d) (v_units v) <> None.

Lemma add_var_ok d c vars v vars' : add_var d c vars v = OK vars' ->
  vars' = vars ++ [mkfv d c v] /\ unit_known d v /\ vidx vars c (v_name v) = None.
Proof.
  unfold add_var, mkfv, unit_known. destruct (unit_lookup (d_units d) (v_units v)); [|discriminate].
  destruct (vidx vars c (v_name v)); [discriminate|].
  destruct (match v_cmeta v with Some id => cm_used (d_model_cmeta d) vars id | None => false end); [discriminate|].
  intros H. inversion H. repeat split; auto. discriminate.
Qed.

Lemma add_vars_ok d c vs : forall vars vars', foldM (add_var d c) vs vars = OK vars' ->
  vars' = vars ++ map (mkfv d c) vs /\ Forall (unit_known d) vs.
Proof.
  induction vs as [|v r IH]; intros vars vars' H; cbn in H.
  - inversion H. rewrite app_nil_r. auto.
  - apply bind_ok in H. destruct H as (x & Hx & H). apply add_var_ok in Hx. destruct Hx as (-> & Hu & _).
    apply IH in H. destruct H as (-> & HF). rewrite <- app_assoc. cbn. auto.
Qed.

Lemma add_comp_ok d st c st' : add_comp d st c = OK st' ->
  fst st' = fst st ++ [c_name c] /\ snd st' = snd st ++ comp_vars d c /\
  memZ (c_name c) (fst st) = false /\ c_reaction c = false /\ Forall (unit_known d) (c_vars c).
Proof.
  unfold add_comp. destruct (memZ (c_name c) (fst st)); [discriminate|]. intros H.
  apply bind_ok in H. destruct H as (vars & Hv & H). apply add_vars_ok in Hv. destruct Hv as (-> & HF).
  destruct (c_reaction c); [discriminate|]. inversion H. cbn. auto.
Qed.

Lemma memZ_false x l : memZ x l = false -> ~ In x l.
Proof.
  unfold memZ. intros H Hin. assert (E : existsb (Z.eqb x) l = true).
  { apply existsb_exists. exists x. split; auto. apply Z.eqb_refl. } congruence.
Qed.

Lemma memZ_true x l : memZ x l = true -> In x l.
Proof. unfold memZ. intros H. apply existsb_exists in H. destruct H as (y & Hy & E). apply Z.eqb_eq in E. congruence. Qed.

Lemma NoDup_snoc {A} (l : list A) x : NoDup l -> ~ In x l -> NoDup (l ++ [x]).
Proof.
  induction l as [|a r IH]; cbn; intros N H. { constructor; auto; constructor. }
  inversion N as [|? ? Ha N']. subst. constructor.
  - intros Hin. apply in_app_or in Hin. destruct Hin as [Hin|[<-|[]]]; auto.
  - apply IH; auto.
Qed.

Lemma add_comps_ok d cs : forall st st', foldM (add_comp d) cs st = OK st' ->
  fst st' = fst st ++ map c_name cs /\ snd st' = snd st ++ flat_map (comp_vars d) cs /\
  (NoDup (fst st) -> NoDup (fst st')) /\
  (forall c, In c cs -> c_reaction c = false /\ Forall (unit_known d) (c_vars c)).
Proof.
  induction cs as [|c r IH]; intros st st' H; cbn in H.
  - inversion H. rewrite !app_nil_r. repeat split; auto; contradiction.
  - apply bind_ok in H. destruct H as (x & Hx & H). apply add_comp_ok in Hx.
    destruct Hx as (E1 & E2 & Hm & Hr & HF). apply IH in H. destruct H as (F1 & F2 & Hn & Ha).
    split; [rewrite F1, E1, <- app_assoc; reflexivity|].
    split; [rewrite F2, E2, <- app_assoc; reflexivity|].
    split.
    + intros N. apply Hn. rewrite E1. apply NoDup_snoc; auto. apply memZ_false in Hm. auto.
    + intros c' [<-|Hc]; auto.
Qed.

Lemma add_components_ok d names vars : add_components d = OK (names, vars) ->
  names = map c_name (d_comps d) /\ vars = expected_vars d /\ NoDup names /\
  (forall c, In c (d_comps d) -> c_reaction c = false /\ Forall (unit_known d) (c_vars c)).
Proof.
  intros H. apply add_comps_ok in H. cbn in H. destruct H as (-> & -> & Hn & Ha).
  split; [reflexivity|]. split; [reflexivity|]. split; [apply Hn; constructor|exact Ha].
Qed.

Lemma NoDup_map_inj {A B} (f : A -> B) l x y : NoDup (map f l) -> In x l -> In y l -> f x = f y -> x = y.
Proof.
  induction l as [|a r IH]; cbn; intros N Hx Hy E; [contradiction|]. inversion N as [|? ? Hn N']. subst.
  destruct Hx as [->|Hx], Hy as [->|Hy]; auto.
  - exfalso. apply Hn. rewrite E. now apply in_map.
  - exfalso. apply Hn. rewrite <- E. now apply in_map.
Qed.

(* a flat variable found under (c, n) comes from a variable n declared in a component named c *)
Lemma vidx_expected d c n i : vidx (expected_vars d) c n = Some i ->
  exists cc v, In cc (d_comps d) /\ c_name cc = c /\ In v (c_vars cc) /\ v_name v = n.
Proof.
  unfold vidx. intros H. apply find_index_nth in H. destruct H as (x & Hx & Fx).
  apply nth_error_In in Hx. unfold expected_vars in Hx. apply in_flat_map in Hx. destruct Hx as (cc & Hcc & Hx).
  unfold comp_vars in Hx. apply in_map_iff in Hx. destruct Hx as (v & <- & Hv).
  unfold is_var in Fx. cbn in Fx. apply andb_true_iff in Fx. destruct Fx as (A & B).
  apply Z.eqb_eq in A. apply Z.eqb_eq in B. eauto 8.
Qed.

Lemma vidx_declared d cc v : In cc (d_comps d) -> In v (c_vars cc) ->
  exists i, vidx (expected_vars d) (c_name cc) (v_name v) = Some i.
Proof.
  intros Hc Hv. unfold vidx. apply find_index_some_ex with (x := mkfv d (c_name cc) v).
  - unfold expected_vars. apply in_flat_map. exists cc. split; auto. unfold comp_vars. now apply in_map.
  - unfold is_var. cbn. rewrite !Z.eqb_refl. reflexivity.
Qed.

(* ================= connection directions ================= *)
Definition pair4 : Type := Z * Z * Z * Z.
Definition conn_pairs (k : conn) : list pair4 := map (fun m => (k_c1 k, fst m, k_c2 k, snd m)) (k_maps k).
Definition all_pairs (ks : list conn) : list pair4 := flat_map conn_pairs ks.
Definition dir_of vars names ps (p : pair4) : result (nat * nat) :=
  match p with (c1, v1, c2, v2) => direction vars names ps c1 v1 c2 v2 end.
Definition dir_val vars names ps (p : pair4) : nat * nat :=
  match dir_of vars names ps p with OK st => st | _ => (O, O) end.

Lemma maps_ok vars names ps c1 c2 ms : forall acc w,
  foldM (fun a m => bind (direction vars names ps c1 (fst m) c2 (snd m)) (fun st => OK (a ++ [st]))) ms acc = OK w ->
  w = acc ++ map (dir_val vars names ps) (map (fun m => (c1, fst m, c2, snd m)) ms) /\
  forall m, In m ms -> exists st, dir_of vars names ps (c1, fst m, c2, snd m) = OK st.
Proof.
  induction ms as [|m r IH]; intros acc w H; cbn in H.
  - inversion H. rewrite app_nil_r. split; auto. contradiction.
  - apply bind_ok in H. destruct H as (x & Hx & H). apply bind_ok in Hx. destruct Hx as (st & Hd & Hx).
    inversion Hx. subst x. apply IH in H. destruct H as (-> & Ha). split.
    + rewrite <- app_assoc. cbn. unfold dir_val at 2, dir_of. rewrite Hd. reflexivity.
    + intros m' [<-|Hm]; eauto.
Qed.

Lemma conns_ok vars names ps ks : forall acc w, foldM (conn_step vars names ps) ks acc = OK w ->
  w = acc ++ map (dir_val vars names ps) (all_pairs ks) /\
  (forall p, In p (all_pairs ks) -> exists st, dir_of vars names ps p = OK st) /\
  (forall k, In k ks -> cidx names (k_c1 k) <> None /\ cidx names (k_c2 k) <> None).
Proof.
  induction ks as [|k r IH]; intros acc w H; cbn in H.
  - inversion H. rewrite app_nil_r. repeat split; auto; contradiction.
  - apply bind_ok in H. destruct H as (x & Hx & H). unfold conn_step in Hx.
    destruct (cidx names (k_c1 k)) eqn:E1; [|discriminate]. destruct (cidx names (k_c2 k)) eqn:E2; [|discriminate].
    apply maps_ok in Hx. destruct Hx as (-> & Hm). apply IH in H. destruct H as (-> & Hp & Hk).
    repeat split.
    + cbn. rewrite map_app, <- app_assoc. reflexivity.
    + intros p Hin. cbn in Hin. apply in_app_or in Hin. destruct Hin as [Hin|Hin]; auto.
      unfold conn_pairs in Hin. apply in_map_iff in Hin. destruct Hin as (m & <- & Hin). auto.
    + destruct H as [<-|H]; [congruence|]. apply Hk; auto.
    + destruct H as [<-|H]; [congruence|]. apply Hk; auto.
Qed.

Lemma directions_ok vars names ps ks work : directions vars names ps ks = OK work ->
  work = map (dir_val vars names ps) (all_pairs ks) /\
  (forall p, In p (all_pairs ks) -> exists st, dir_of vars names ps p = OK st) /\
  (forall k, In k ks -> cidx names (k_c1 k) <> None /\ cidx names (k_c2 k) <> None).
Proof. intros H. apply conns_ok in H. exact H. Qed.

Lemma direction_ends vars names ps c1 v1 c2 v2 s t : direction vars names ps c1 v1 c2 v2 = OK (s, t) ->
  exists i1 i2, vidx vars c1 v1 = Some i1 /\ vidx vars c2 v2 = Some i2 /\
                ((s = i1 /\ t = i2) \/ (s = i2 /\ t = i1)).
Proof.
  unfold direction. destruct (vidx vars c1 v1) as [i1|]; [|discriminate].
  destruct (vidx vars c2 v2) as [i2|]; [|discriminate]. intros H. exists i1, i2. split; auto. split; auto.
  destruct (optZ_eqb (parent_of names ps c1) (parent_of names ps c2)).
  - destruct (is_out (pub_of vars i1) && is_in (pub_of vars i2)); [inversion H; auto|].
    destruct (is_out (pub_of vars i2) && is_in (pub_of vars i1)); inversion H; auto.
  - destruct (optZ_eqb (Some c1) (parent_of names ps c2)); cbn [fst snd] in H.
    + destruct (is_in (pub_of vars i2) && is_out (priv_of vars i1)); [inversion H; auto|].
      destruct (is_out (pub_of vars i2) && is_in (priv_of vars i1)); inversion H; auto.
    + destruct (optZ_eqb (Some c2) (parent_of names ps c1)); cbn [fst snd] in H; [|discriminate].
      destruct (is_in (pub_of vars i1) && is_out (priv_of vars i2)); [inversion H; auto|].
      destruct (is_out (pub_of vars i1) && is_in (priv_of vars i2)); inversion H; auto.
Qed.

(* the CellML rule (3.4.6): which interface each end shows to the other, and that they form an (in, out) pair *)
Definition valid_pair vars names ps (c1 c2 : Z) (i1 i2 : nat) : bool :=
  if optZ_eqb (parent_of names ps c1) (parent_of names ps c2)
  then (is_out (pub_of vars i1) && is_in (pub_of vars i2)) || (is_out (pub_of vars i2) && is_in (pub_of vars i1))
  else if optZ_eqb (Some c1) (parent_of names ps c2)
       then (is_in (pub_of vars i2) && is_out (priv_of vars i1)) || (is_out (pub_of vars i2) && is_in (priv_of vars i1))
       else if optZ_eqb (Some c2) (parent_of names ps c1)
            then (is_in (pub_of vars i1) && is_out (priv_of vars i2)) || (is_out (pub_of vars i1) && is_in (priv_of vars i2))
            else false.

Lemma direction_valid vars names ps c1 v1 c2 v2 i1 i2 st : vidx vars c1 v1 = Some i1 -> vidx vars c2 v2 = Some i2 ->
  direction vars names ps c1 v1 c2 v2 = OK st -> valid_pair vars names ps c1 c2 i1 i2 = true.
Proof.
  unfold direction, valid_pair. intros -> ->.
  destruct (optZ_eqb (parent_of names ps c1) (parent_of names ps c2)).
  - destruct (is_out (pub_of vars i1) && is_in (pub_of vars i2)); auto.
    destruct (is_out (pub_of vars i2) && is_in (pub_of vars i1)); auto. discriminate.
  - destruct (optZ_eqb (Some c1) (parent_of names ps c2)); cbn [fst snd].
    + destruct (is_in (pub_of vars i2) && is_out (priv_of vars i1)); auto.
      destruct (is_out (pub_of vars i2) && is_in (priv_of vars i1)); auto. discriminate.
    + destruct (optZ_eqb (Some c2) (parent_of names ps c1)); cbn [fst snd]; [|discriminate].
      destruct (is_in (pub_of vars i1) && is_out (priv_of vars i2)); auto.
      destruct (is_out (pub_of vars i1) && is_in (priv_of vars i2)); auto. discriminate.
Qed.

Lemma vidx_lt vars c n i : vidx vars c n = Some i -> (i < length vars)%nat.
Proof. apply find_index_lt. Qed.

Lemma work_in_range vars names ps ks work : directions vars names ps ks = OK work ->
  forall c, In c work -> (fst c < length vars)%nat /\ (snd c < length vars)%nat.
Proof.
  intros H c Hc. apply directions_ok in H. destruct H as (-> & Hp & _).
  apply in_map_iff in Hc. destruct Hc as (p & <- & Hin). destruct (Hp _ Hin) as (st & Hd).
  unfold dir_val. rewrite Hd. destruct p as [[[c1 v1] c2] v2]. destruct st as [s t]. cbn in Hd.
  apply direction_ends in Hd. destruct Hd as (i1 & i2 & H1 & H2 & Hor).
  apply vidx_lt in H1. apply vidx_lt in H2. cbn. destruct Hor as [(-> & ->)|(-> & ->)]; auto.
Qed.

(* ================= initial assigned_to ================= *)
Lemma init_asg_length vars : forall k, length (init_asg k vars) = length vars.
Proof. induction vars; intros k; cbn; auto. Qed.

Lemma init_asg_nth vars : forall k i v, nth_error vars i = Some v ->
  nth i (init_asg k vars) None = if has_in v then None else Some (k + i)%nat.
Proof.
  induction vars as [|x r IH]; intros k [|i] v H; cbn in *; try discriminate.
  - inversion H. subst. rewrite Nat.add_0_r. reflexivity.
  - rewrite (IH (S k) i v H). replace (S k + i)%nat with (k + S i)%nat by lia. reflexivity.
Qed.

(* ================= maths ================= *)
Definition comp_ceqs (c : comp) : list (Z * ceq) := map (pair (c_name c)) (concat (c_maths c)).
Definition all_ceqs (d : doc) : list (Z * ceq) := flat_map comp_ceqs (d_comps d).
Definition flat_all (d : doc) vars m : list feq := map (fun cq => flat_eq vars m (fst cq) (snd cq)) (all_ceqs d).
Definition leaf_ok (d : doc) vars m (c : Z) (x : leaf) : Prop := check_leaf d vars m c tt x = OK tt.

Lemma check_leaves_ok d vars m c l : forall u u', foldM (check_leaf d vars m c) l u = OK u' ->
  forall x, In x l -> leaf_ok d vars m c x.
Proof.
  induction l as [|y r IH]; intros u u' H x Hx; cbn in H; [contradiction|].
  apply bind_ok in H. destruct H as (z & Hz & H). destruct u, z.
  destruct Hx as [<-|Hx]; [exact Hz|]. eapply IH; eauto.
Qed.

Lemma math_step_ok d vars m c eqs ml eqs' : math_step d vars m c eqs ml = OK eqs' ->
  foldM add_eq (map (flat_eq vars m c) ml) eqs = OK eqs' /\
  forall q x, In q ml -> In x (eq_leaves q) -> leaf_ok d vars m c x.
Proof.
  unfold math_step. intros H. apply bind_ok in H. destruct H as (u & Hu & H). split; auto.
  intros q x Hq Hx. eapply check_leaves_ok; eauto. apply in_flat_map. eauto.
Qed.

Lemma comp_maths_ok d vars m c : forall ms eqs eqs', foldM (math_step d vars m c) ms eqs = OK eqs' ->
  foldM add_eq (map (flat_eq vars m c) (concat ms)) eqs = OK eqs' /\
  forall q x, In q (concat ms) -> In x (eq_leaves q) -> leaf_ok d vars m c x.
Proof.
  induction ms as [|ml r IH]; intros eqs eqs' H; cbn in H.
  - inversion H. cbn. split; auto. contradiction.
  - apply bind_ok in H. destruct H as (e1 & H1 & H). apply math_step_ok in H1. destruct H1 as (A & B).
    apply IH in H. destruct H as (C & D). cbn [concat]. rewrite map_app, foldM_app, A. cbn. split; auto.
    intros q x Hq Hx. apply in_app_or in Hq. destruct Hq; eauto.
Qed.

Lemma add_maths_gen d vars m : forall cs eqs eqs', foldM (comp_maths d vars m) cs eqs = OK eqs' ->
  foldM add_eq (map (fun cq => flat_eq vars m (fst cq) (snd cq)) (flat_map comp_ceqs cs)) eqs = OK eqs' /\
  forall cq x, In cq (flat_map comp_ceqs cs) -> In x (eq_leaves (snd cq)) -> leaf_ok d vars m (fst cq) x.
Proof.
  induction cs as [|c r IH]; intros eqs eqs' H; cbn in H.
  - inversion H. cbn. split; auto. contradiction.
  - apply bind_ok in H. destruct H as (e1 & H1 & H). unfold comp_maths in H1. apply comp_maths_ok in H1.
    destruct H1 as (A & B). apply IH in H. destruct H as (C & D). cbn [flat_map]. rewrite map_app, foldM_app.
    assert (M : map (fun cq => flat_eq vars m (fst cq) (snd cq)) (comp_ceqs c)
                = map (flat_eq vars m (c_name c)) (concat (c_maths c))).
    { unfold comp_ceqs. rewrite map_map. reflexivity. }
    rewrite M, A. cbn [bind]. split; auto.
    intros cq x Hq Hx. apply in_app_or in Hq. destruct Hq as [Hq|Hq]; eauto.
    unfold comp_ceqs in Hq. apply in_map_iff in Hq. destruct Hq as (q & <- & Hq). cbn in *. eauto.
Qed.

Lemma add_maths_ok d vars m eqs eqs' : add_maths d vars m eqs = OK eqs' ->
  foldM add_eq (flat_all d vars m) eqs = OK eqs' /\
  forall cq x, In cq (all_ceqs d) -> In x (eq_leaves (snd cq)) -> leaf_ok d vars m (fst cq) x.
Proof. apply add_maths_gen. Qed.

(* Model.add_equation, folded: newest first, every left-hand side fresh *)
Lemma add_eqs_ok l : forall e0 e, foldM add_eq l e0 = OK e ->
  e = rev l ++ e0 /\
  forall l1 q l2, l = l1 ++ q :: l2 -> exists v, feq_var q = Some v /\ defined (rev l1 ++ e0) v = false.
Proof.
  induction l as [|q r IH]; intros e0 e H; cbn in H.
  - inversion H. split; auto. intros [|? ?] ? ? E; discriminate.
  - apply bind_ok in H. destruct H as (e1 & H1 & H). apply IH in H. destruct H as (-> & Hs).
    assert (A : e1 = q :: e0 /\ exists v, feq_var q = Some v /\ defined e0 v = false).
    { unfold add_eq in H1. unfold feq_var. destruct (feq_kind q); try discriminate;
        (destruct (defined e0 _) eqn:Ed; [discriminate|]); inversion H1; eauto. }
    destruct A as (-> & v & Hv & Hd). split. { cbn. rewrite <- app_assoc. reflexivity. }
    intros [|q1 l1] q' l2 E; cbn in E; inversion E; subst.
    + exists v. auto.
    + destruct (Hs l1 q' l2 eq_refl) as (w & Hw & Hdw). exists w. split; auto.
      cbn. rewrite <- app_assoc. exact Hdw.
Qed.

Lemma defined_in eqs q v : In q eqs -> feq_var q = Some v -> defined eqs v = true.
Proof.
  intros Hq Hv. unfold defined. apply existsb_exists. exists q. split; auto. rewrite Hv. cbn. apply Z.eqb_refl.
Qed.

(* ================= transform_constants ================= *)
Lemma tc_incl states l : forall st st', foldM (tc_step states) l st = OK st' -> incl (fst st) (fst st').
Proof.
  induction l as [|i r IH]; intros st st' H; cbn in H. { inversion H. apply incl_refl. }
  apply bind_ok in H. destruct H as (s1 & H1 & H). apply IH in H. eapply incl_tran; [|exact H].
  unfold tc_step in H1. destruct (nth i (snd st) None).
  - destruct (nth i states false). { inversion H1. apply incl_refl. }
    apply bind_ok in H1. destruct H1 as (e & He & H1). inversion H1. cbn.
    unfold add_eq in He. cbn [feq_kind] in He. destruct (defined (fst st) (Z.of_nat i)); [discriminate|].
    inversion He. apply incl_tl, incl_refl.
  - destruct (nth i states false); [discriminate|]. inversion H1. apply incl_refl.
Qed.

(* ================= the stages of a successful load ================= *)
Definition st_nv (d : doc) : list Z * list fv := match add_components d with OK nv => nv | _ => ([], []) end.
Definition st_names (d : doc) : list Z := fst (st_nv d).
Definition st_vars (d : doc) : list fv := snd (st_nv d).
Definition st_ps (d : doc) : list (option Z) :=
  match add_relationships (st_names d) (d_groups d) with OK ps => ps | _ => [] end.
Definition st_work (d : doc) : list (nat * nat) :=
  match directions (st_vars d) (st_names d) (st_ps d) (d_conns d) with OK w => w | _ => [] end.
Definition st_cs (d : doc) : cstate :=
  match connect (st_vars d) (conn_fuel (st_work d)) (st_work d) 0 (init_cs (st_vars d)) with
  | OK cs => cs | _ => init_cs [] end.
Definition st_eqs (d : doc) : list feq :=
  match add_maths d (st_vars d) (cmap (st_cs d)) (ceqs (st_cs d)) with OK e => e | _ => [] end.
Definition st_ei (d : doc) : list feq * list (option Q) :=
  match transform_constants (st_vars d) (st_eqs d) with OK ei => ei | _ => ([], []) end.

Record stages (d : doc) (f : flat) : Prop := mkStages {
  s_noinner : existsb c_units_inside (d_comps d) = false;
  s_units : d_units_err d = None;
  s_comps : add_components d = OK (st_names d, st_vars d);
  s_rels : add_relationships (st_names d) (d_groups d) = OK (st_ps d);
  s_dirs : directions (st_vars d) (st_names d) (st_ps d) (d_conns d) = OK (st_work d);
  s_conn : connect (st_vars d) (conn_fuel (st_work d)) (st_work d) 0 (init_cs (st_vars d)) = OK (st_cs d);
  s_maths : add_maths d (st_vars d) (cmap (st_cs d)) (ceqs (st_cs d)) = OK (st_eqs d);
  s_tc : transform_constants (st_vars d) (st_eqs d) = OK (st_ei d);
  s_flat : f = mkFlat (st_vars d) (cmt (st_cs d)) (snd (st_ei d)) (asg (st_cs d)) (rev (cmap (st_cs d)))
                      (rev (fst (st_ei d))) }.

Lemma load_stages d f : load d = OK f -> stages d f.
Proof.
  unfold load. destruct (existsb c_units_inside (d_comps d)) eqn:E0; [discriminate|].
  destruct (d_units_err d) eqn:E1; [discriminate|]. intros H.
  apply bind_ok in H. destruct H as ([names vars] & H1 & H). cbn [fst snd] in H.
  assert (Env : st_nv d = (names, vars)) by (unfold st_nv; rewrite H1; reflexivity).
  assert (En : st_names d = names) by (unfold st_names; rewrite Env; reflexivity).
  assert (Ev : st_vars d = vars) by (unfold st_vars; rewrite Env; reflexivity).
  apply bind_ok in H. destruct H as (ps & H2 & H).
  assert (Ep : st_ps d = ps) by (unfold st_ps; rewrite En, H2; reflexivity).
  apply bind_ok in H. destruct H as (work & H3 & H).
  assert (Ew : st_work d = work) by (unfold st_work; rewrite En, Ev, Ep, H3; reflexivity).
  apply bind_ok in H. destruct H as (cs & H4 & H).
  assert (Ec : st_cs d = cs) by (unfold st_cs; rewrite Ev, Ew, H4; reflexivity).
  apply bind_ok in H. destruct H as (eqs & H5 & H).
  assert (Ee : st_eqs d = eqs) by (unfold st_eqs; rewrite Ev, Ec, H5; reflexivity).
  apply bind_ok in H. destruct H as (ei & H6 & H).
  assert (Ei : st_ei d = ei) by (unfold st_ei; rewrite Ev, Ee, H6; reflexivity).
  inversion H. constructor; rewrite ?En, ?Ev, ?Ep, ?Ew, ?Ec, ?Ee, ?Ei; auto.
Qed.

(* load either succeeds, or names an error, or runs out of fuel; a fault that contradicts success therefore
   yields an error once fuel exhaustion is excluded (load_total below) *)
Lemma not_ok_error d : load d <> OutOfFuel -> (forall f, load d <> OK f) -> exists e, load d = Error e.
Proof. intros Hf Hn. destruct (load d) eqn:E; [exfalso; eapply Hn; eauto | eauto | congruence]. Qed.

(* ================= schedule facts used below ================= *)
Lemma stages_schedule d f : stages d f ->
  exists p, Permutation p (st_work d) /\ run (st_vars d) (init_cs (st_vars d)) p = Some (st_cs d).
Proof. intros S. eapply connect_schedule. apply (s_conn d f S). Qed.

Lemma stages_range d f : stages d f -> forall c, In c (st_work d) ->
  (fst c < length (st_vars d))%nat /\ (snd c < length (st_vars d))%nat.
Proof. intros S. eapply work_in_range. apply (s_dirs d f S). Qed.

(* what the schedule leaves behind for every processed connection *)
Lemma run_incl vars st p st' : run vars st p = Some st' -> incl (cmap st) (cmap st') /\ incl (ceqs st) (ceqs st').
Proof.
  revert st. induction p as [|c r IH]; intros st H; cbn in H. { inversion H. split; apply incl_refl. }
  destruct (cstep vars st c) as [| |s1] eqn:E; try discriminate. apply IH in H. destruct H as (A & B).
  destruct c as [s t]. apply cstep_done in E. destruct E as (_ & a & cf & _ & _ & [(_ & cm' & _ & ->)|(_ & _ & ->)]); cbn in *.
  - split; [eapply incl_tran; [apply incl_tl, incl_refl|exact A] | exact B].
  - split; eapply incl_tran; try (apply incl_tl, incl_refl); eauto.
Qed.

Lemma run_processed vars st p st' : run vars st p = Some st' -> forall c, In c p ->
  In (snd c, fst c) (cmap st') /\
  exists cf, conv (uv_of vars (fst c)) (uv_of vars (snd c)) = Some cf /\
             (is_one cf = true \/ exists a, In (FConv (snd c) a cf) (ceqs st')).
Proof.
  revert st. induction p as [|d r IH]; intros st H c Hc; cbn in H; [contradiction|].
  destruct (cstep vars st d) as [| |s1] eqn:E; try discriminate. destruct Hc as [<-|Hc]; [|eapply IH; eauto].
  apply run_incl in H. destruct H as (A & B). destruct d as [s t]. cbn [fst snd].
  apply cstep_done in E. destruct E as (_ & a & cf & _ & Hcv & [(H1 & cm' & _ & ->)|(H1 & _ & ->)]); cbn in *.
  - split; [apply A; now left|]. exists cf. auto.
  - split; [apply A; now left|]. exists cf. split; auto. right. exists a. apply B. now left.
Qed.

(* ================= C17_total ================= *)
Lemma add_var_nofuel d c vars v : add_var d c vars v <> OutOfFuel.
Proof.
  unfold add_var. destruct (unit_lookup _ _); [|discriminate]. destruct (vidx _ _ _); [discriminate|].
  destruct (match v_cmeta v with Some id => _ | None => false end); discriminate.
Qed.

Lemma add_comp_nofuel d st c : add_comp d st c <> OutOfFuel.
Proof.
  unfold add_comp. destruct (memZ _ _); [discriminate|]. intros H. apply bind_fuel in H.
  destruct H as [H|(x & _ & H)].
  - revert H. apply foldM_nofuel. apply add_var_nofuel.
  - destruct (c_reaction c); discriminate.
Qed.

Lemma edge_step_nofuel names ps e : edge_step names ps e <> OutOfFuel.
Proof.
  unfold edge_step. destruct (fst e); [|discriminate]. destruct (cidx names z); [|discriminate].
  destruct (cidx names (snd e)); [|discriminate]. destruct (nth n0 ps None); discriminate.
Qed.

Lemma group_step_nofuel names ps g : group_step names ps g <> OutOfFuel.
Proof.
  unfold group_step. destruct (g_rels g) as [|r [|? ?]]; try discriminate.
  destruct (Z.eqb r 0); [|discriminate]. apply foldM_nofuel. apply edge_step_nofuel.
Qed.

Lemma direction_nofuel vars names ps c1 v1 c2 v2 : direction vars names ps c1 v1 c2 v2 <> OutOfFuel.
Proof.
  unfold direction. destruct (vidx vars c1 v1); [|discriminate]. destruct (vidx vars c2 v2); [|discriminate].
  destruct (optZ_eqb _ _). { destruct (_ && _); [discriminate|]. destruct (_ && _); discriminate. }
  destruct (optZ_eqb (Some c1) _); cbv zeta; cbn [fst snd].
  - destruct (_ && _); [discriminate|]. destruct (_ && _); discriminate.
  - destruct (optZ_eqb (Some c2) _); [|discriminate]. cbn [fst snd].
    destruct (_ && _); [discriminate|]. destruct (_ && _); discriminate.
Qed.

Lemma conn_step_nofuel vars names ps acc k : conn_step vars names ps acc k <> OutOfFuel.
Proof.
  unfold conn_step. destruct (cidx names (k_c1 k)); [|discriminate]. destruct (cidx names (k_c2 k)); [|discriminate].
  apply foldM_nofuel. intros a m H. apply bind_fuel in H. destruct H as [H|(x & _ & H)]; [|discriminate].
  revert H. apply direction_nofuel.
Qed.

Lemma add_eq_nofuel eqs q : add_eq eqs q <> OutOfFuel.
Proof. unfold add_eq. destruct (feq_kind q); try discriminate; destruct (defined eqs _); discriminate. Qed.

Lemma tc_step_nofuel states st i : tc_step states st i <> OutOfFuel.
Proof.
  unfold tc_step. destruct (nth i (snd st) None).
  - destruct (nth i states false); [discriminate|]. intros H. apply bind_fuel in H.
    destruct H as [H|(x & _ & H)]; [|discriminate]. revert H. apply add_eq_nofuel.
  - destruct (nth i states false); discriminate.
Qed.

Lemma check_leaf_nofuel d vars m c u x : (forall i, exists r, rep (length m) m i = Some r) ->
  check_leaf d vars m c u x <> OutOfFuel.
Proof.
  intros T. destruct x as [n|un|]; cbn.
  - destruct (vidx vars c n) as [i|]; [|discriminate]. destruct (T i) as (r & ->). discriminate.
  - destruct (unit_lookup (d_units d) un); discriminate.
  - discriminate.
Qed.

Lemma add_maths_nofuel d vars m eqs : (forall i, exists r, rep (length m) m i = Some r) ->
  add_maths d vars m eqs <> OutOfFuel.
Proof.
  intros T. unfold add_maths. apply foldM_nofuel. intros e1 c. unfold comp_maths. apply foldM_nofuel.
  intros e2 ml. unfold math_step. intros H. apply bind_fuel in H. destruct H as [H|(x & _ & H)].
  - revert H. apply foldM_nofuel. intros u y. now apply check_leaf_nofuel.
  - revert H. apply foldM_nofuel. apply add_eq_nofuel.
Qed.

(* the state the work-list ends in satisfies the chain invariant *)
Lemma connect_inv vars names ps ks work cs : directions vars names ps ks = OK work ->
  connect vars (conn_fuel work) work 0 (init_cs vars) = OK cs -> conn_inv (init_asg 0 vars) cs.
Proof.
  intros Hd Hc. apply connect_schedule in Hc. destruct Hc as (p & Hp & Hr).
  eapply conn_inv_run; [|exact Hr|].
  - apply (conn_inv_init (init_cs vars)). reflexivity.
  - intros c Hc. rewrite init_asg_length. eapply work_in_range; eauto. eapply Permutation_in; eauto.
Qed.

(* ---- the forest check ---- *)
Lemma cidx_some_in names c i : cidx names c = Some i -> In c names.
Proof.
  unfold cidx. intros E. apply find_index_nth in E. destruct E as (x & Hx & Ex). apply Z.eqb_eq in Ex. subst.
  eapply nth_error_In; eauto.
Qed.

Lemma walk_nofuel names ps fuel : forall seen p, NoDup seen -> incl seen names ->
  (length names <= length seen + fuel)%nat -> walk names ps fuel seen p <> OutOfFuel.
Proof.
  induction fuel as [|f IH]; intros seen p N I L; destruct p as [q|]; cbn; try discriminate;
    destruct (memZ q seen) eqn:M; try discriminate; destruct (cidx names q) as [i|] eqn:C; try discriminate.
  - exfalso. apply memZ_false in M. apply cidx_some_in in C.
    assert (N' : NoDup (q :: seen)) by (constructor; auto).
    assert (I' : incl (q :: seen) names) by (intros x [<-|Hx]; auto).
    pose proof (NoDup_incl_length N' I') as Le. cbn in Le. lia.
  - apply memZ_false in M. apply cidx_some_in in C. apply IH.
    + constructor; auto.
    + intros x [<-|Hx]; auto.
    + cbn. lia.
Qed.

Lemma check_forest_nofuel names ps : check_forest names ps <> OutOfFuel.
Proof.
  unfold check_forest. apply foldM_nofuel_in. intros u nm Hn. apply walk_nofuel.
  - constructor; [intros []|constructor].
  - intros x [<-|[]]. exact Hn.
  - cbn. lia.
Qed.

Lemma add_relationships_nofuel names gs : add_relationships names gs <> OutOfFuel.
Proof.
  unfold add_relationships. intros H. apply bind_fuel in H. destruct H as [H|(ps & _ & H)].
  - revert H. apply foldM_nofuel, group_step_nofuel.
  - apply bind_fuel in H. destruct H as [H|(u & _ & H)]; [|discriminate]. revert H. apply check_forest_nofuel.
Qed.

(* the parent chain: chain j p = the j-th ancestor reached from p *)
Fixpoint chain (names : list Z) (ps : list (option Z)) (j : nat) (p : option Z) : option Z :=
  match j, p with
  | O, _ => p
  | S k, Some q => chain names ps k (parent_of names ps q)
  | S _, None => None
  end.

Lemma walk_ok names ps fuel : forall seen p, walk names ps fuel seen p = OK tt ->
  forall j q, chain names ps j p = Some q -> ~ In q seen.
Proof.
  induction fuel as [|f IH]; intros seen p H j q Hc; destruct p as [q0|];
    try (destruct j; cbn in Hc; discriminate); cbn in H;
    destruct (memZ q0 seen) eqn:M; try discriminate; destruct (cidx names q0) as [i|] eqn:C; try discriminate.
  apply memZ_false in M. destruct j as [|j]; cbn in Hc.
  - inversion Hc. subst. exact M.
  - unfold parent_of in Hc. rewrite C in Hc. intros Hin. apply (IH _ _ H j q Hc). now right.
Qed.

Lemma check_forest_ok names ps : check_forest names ps = OK tt ->
  forall c j, In c names -> chain names ps j (parent_of names ps c) <> Some c.
Proof.
  unfold check_forest. intros H c j Hc E.
  assert (W : forall l u u', foldM (fun _ nm => walk names ps (length names) [nm] (parent_of names ps nm)) l u = OK u' ->
              forall nm, In nm l -> walk names ps (length names) [nm] (parent_of names ps nm) = OK tt).
  { induction l as [|x r IH]; intros u u' F nm Hn; [contradiction|]. cbn in F. apply bind_ok in F.
    destruct F as (z & Fz & F). destruct z. destruct Hn as [<-|Hn]; eauto. }
  apply (walk_ok _ _ _ _ _ (W _ _ _ H c Hc) j c E). now left.
Qed.

Lemma add_relationships_ok names gs ps : add_relationships names gs = OK ps ->
  read_groups names gs = OK ps /\ check_forest names ps = OK tt.
Proof.
  unfold add_relationships. intros H. apply bind_ok in H. destruct H as (ps' & R & H).
  apply bind_ok in H. destruct H as (u & F & H). inversion H. subst. destruct u. auto.
Qed.

Theorem load_total d : load d <> OutOfFuel.
Proof.
  unfold load. destruct (existsb c_units_inside (d_comps d)); [discriminate|].
  destruct (d_units_err d); [discriminate|]. intros H.
  apply bind_fuel in H. destruct H as [H|([names vars] & H1 & H)].
  { revert H. apply foldM_nofuel, add_comp_nofuel. }
  cbn [fst snd] in H. apply bind_fuel in H. destruct H as [H|(ps & H2 & H)].
  { revert H. apply add_relationships_nofuel. }
  apply bind_fuel in H. destruct H as [H|(work & H3 & H)].
  { revert H. apply foldM_nofuel, conn_step_nofuel. }
  apply bind_fuel in H. destruct H as [H|(cs & H4 & H)].
  { revert H. apply connect_total0. }
  apply bind_fuel in H. destruct H as [H|(eqs & H5 & H)].
  { revert H. apply add_maths_nofuel. apply (rep_terminates (init_asg 0 vars)).
    eapply connect_inv; eauto. }
  apply bind_fuel in H. destruct H as [H|(ei & H6 & H)]; [|discriminate].
  revert H. apply foldM_nofuel, tc_step_nofuel.
Qed.

Lemma reject d : (forall f, load d = OK f -> False) -> exists e, load d = Error e.
Proof. intros H. apply not_ok_error; [apply load_total|]. intros f E. exact (H f E). Qed.

(* ================= rejection lemmas ================= *)
Definition declared (d : doc) (c n : Z) : Prop :=
  exists cc v, In cc (d_comps d) /\ c_name cc = c /\ In v (c_vars cc) /\ v_name v = n.

Lemma reject_units_in_component d : (exists c, In c (d_comps d) /\ c_units_inside c = true) -> exists e, load d = Error e.
Proof.
  intros (c & Hc & Hu). apply reject. intros f H. apply load_stages in H. destruct H as [H _ _ _ _ _ _ _ _].
  assert (E : existsb c_units_inside (d_comps d) = true) by (apply existsb_exists; eauto). congruence.
Qed.

Lemma reject_failing_units d code : d_units_err d = Some code -> exists e, load d = Error e.
Proof. intros Hc. apply reject. intros f H. apply load_stages in H. destruct H as [_ H _ _ _ _ _ _ _]. congruence. Qed.

Lemma stages_comps d f : stages d f ->
  st_names d = map c_name (d_comps d) /\ st_vars d = expected_vars d /\ NoDup (st_names d) /\
  (forall c, In c (d_comps d) -> c_reaction c = false /\ Forall (unit_known d) (c_vars c)).
Proof. intros S. apply add_components_ok. apply (s_comps d f S). Qed.

Lemma reject_duplicate_component d : ~ NoDup (map c_name (d_comps d)) -> exists e, load d = Error e.
Proof.
  intros Hn. apply reject. intros f H. apply load_stages, stages_comps in H. destruct H as (E & _ & N & _).
  rewrite E in N. contradiction.
Qed.

Lemma reject_reaction d : (exists c, In c (d_comps d) /\ c_reaction c = true) -> exists e, load d = Error e.
Proof.
  intros (c & Hc & Hr). apply reject. intros f H. apply load_stages, stages_comps in H. destruct H as (_ & _ & _ & A).
  destruct (A c Hc). congruence.
Qed.

Lemma reject_undefined_variable_units d :
  (exists c v, In c (d_comps d) /\ In v (c_vars c) /\ unit_lookup (d_units d) (v_units v) = None) ->
  exists e, load d = Error e.
Proof.
  intros (c & v & Hc & Hv & Hu). apply reject. intros f H. apply load_stages, stages_comps in H.
  destruct H as (_ & _ & _ & A). destruct (A c Hc) as (_ & F). rewrite Forall_forall in F. exact (F v Hv Hu).
Qed.

Lemma cidx_some names c : cidx names c <> None -> In c names.
Proof.
  unfold cidx. destruct (find_index (Z.eqb c) names) eqn:E; [|congruence]. intros _.
  apply find_index_nth in E. destruct E as (x & Hx & Ex). apply Z.eqb_eq in Ex. subst. eapply nth_error_In; eauto.
Qed.

Lemma reject_missing_component d :
  (exists k, In k (d_conns d) /\ (~ In (k_c1 k) (map c_name (d_comps d)) \/ ~ In (k_c2 k) (map c_name (d_comps d)))) ->
  exists e, load d = Error e.
Proof.
  intros (k & Hk & Hor). apply reject. intros f H. apply load_stages in H.
  pose proof (stages_comps _ _ H) as (En & _). pose proof (s_dirs _ _ H) as D.
  apply directions_ok in D. destruct D as (_ & _ & D). destruct (D k Hk) as (A & B).
  apply cidx_some in A. apply cidx_some in B. rewrite En in A, B. tauto.
Qed.

Lemma pair_in_all ks k m : In k ks -> In m (k_maps k) -> In (k_c1 k, fst m, k_c2 k, snd m) (all_pairs ks).
Proof. intros Hk Hm. unfold all_pairs. apply in_flat_map. exists k. split; auto. unfold conn_pairs. apply in_map_iff. eauto. Qed.

Lemma stages_pair d f : stages d f -> forall p, In p (all_pairs (d_conns d)) ->
  exists s t, dir_of (st_vars d) (st_names d) (st_ps d) p = OK (s, t) /\ In (s, t) (st_work d).
Proof.
  intros S p Hp. pose proof (s_dirs _ _ S) as D. apply directions_ok in D. destruct D as (Ew & D & _).
  destruct (D p Hp) as ([s t] & Hd). exists s, t. split; auto. rewrite Ew. apply in_map_iff. exists p. split; auto.
  unfold dir_val. rewrite Hd. reflexivity.
Qed.

Lemma reject_missing_variable d :
  (exists c1 v1 c2 v2, In (c1, v1, c2, v2) (all_pairs (d_conns d)) /\ (~ declared d c1 v1 \/ ~ declared d c2 v2)) ->
  exists e, load d = Error e.
Proof.
  intros (c1 & v1 & c2 & v2 & Hp & Hor). apply reject. intros f H. apply load_stages in H.
  destruct (stages_pair _ _ H _ Hp) as (s & t & Hd & _). cbn in Hd. apply direction_ends in Hd.
  destruct Hd as (i1 & i2 & H1 & H2 & _). pose proof (stages_comps _ _ H) as (_ & Ev & _). rewrite Ev in H1, H2.
  apply vidx_expected in H1. apply vidx_expected in H2. unfold declared in Hor. tauto.
Qed.

(* semantic fault: under the document's encapsulation the interfaces of a connection name no direction *)
Lemma reject_no_direction d :
  (exists p, In p (all_pairs (d_conns d)) /\ dir_of (st_vars d) (st_names d) (st_ps d) p = Error ENoDirection) ->
  exists e, load d = Error e.
Proof.
  intros (p & Hp & Hd). apply reject. intros f H. apply load_stages in H.
  destruct (stages_pair _ _ H _ Hp) as (s & t & Hd' & _). congruence.
Qed.

(* full strength after the fix: commit 9e0bca6: a connection whose ends do not show each other an (in, out) pair of
   interfaces -- both sources, both receivers, an end without interface, components that are neither siblings nor
   parent and child -- is refused *)
Lemma reject_invalid_interfaces d :
  (exists c1 v1 c2 v2 i1 i2, In (c1, v1, c2, v2) (all_pairs (d_conns d)) /\
     vidx (st_vars d) c1 v1 = Some i1 /\ vidx (st_vars d) c2 v2 = Some i2 /\
     valid_pair (st_vars d) (st_names d) (st_ps d) c1 c2 i1 i2 = false) ->
  exists e, load d = Error e.
Proof.
  intros (c1 & v1 & c2 & v2 & i1 & i2 & Hp & H1 & H2 & Hv). apply reject. intros f H. apply load_stages in H.
  destruct (stages_pair _ _ H _ Hp) as (s & t & Hd & _). cbn in Hd.
  rewrite (direction_valid _ _ _ _ _ _ _ _ _ _ H1 H2 Hd) in Hv. discriminate.
Qed.

(* a component that is its own ancestor in the encapsulation hierarchy read from the groups *)
Lemma reject_cyclic_encapsulation d :
  (exists ps c j, read_groups (st_names d) (d_groups d) = OK ps /\ In c (st_names d) /\
                  chain (st_names d) ps j (parent_of (st_names d) ps c) = Some c) ->
  exists e, load d = Error e.
Proof.
  intros (ps & c & j & R & Hc & E). apply reject. intros f H. apply load_stages in H.
  pose proof (s_rels _ _ H) as A. apply add_relationships_ok in A. destruct A as (R' & F).
  rewrite R in R'. inversion R'. subst. exact (check_forest_ok _ _ F c j Hc E).
Qed.

(* both ends are variables without any `in` interface *)
Definition no_in (d : doc) (c n : Z) : Prop :=
  exists cc v, In cc (d_comps d) /\ c_name cc = c /\ In v (c_vars cc) /\ v_name v = n /\
               is_in (v_pub v) || is_in (v_priv v) = false.

Lemma expected_nth_declared d i x : nth_error (expected_vars d) i = Some x ->
  exists cc v, In cc (d_comps d) /\ In v (c_vars cc) /\ x = mkfv d (c_name cc) v.
Proof.
  intros H. apply nth_error_In in H. unfold expected_vars in H. apply in_flat_map in H. destruct H as (cc & Hc & H).
  unfold comp_vars in H. apply in_map_iff in H. destruct H as (v & <- & Hv). eauto.
Qed.

(* qualified names are unique: the variable found by vidx is the declared one *)
Lemma stages_unique_var d f : stages d f -> forall cc v cc' v', In cc (d_comps d) -> In v (c_vars cc) ->
  In cc' (d_comps d) -> In v' (c_vars cc') -> c_name cc = c_name cc' -> v_name v = v_name v' ->
  cc = cc'.
Proof.
  intros S cc v cc' v' Hc Hv Hc' Hv' En _. pose proof (stages_comps _ _ S) as (E & _ & N & _). rewrite E in N.
  eapply NoDup_map_inj; eauto.
Qed.

Lemma vidx_nth vars c n i : vidx vars c n = Some i -> exists x, nth_error vars i = Some x /\ fc x = c /\ fn x = n.
Proof.
  unfold vidx. intros H. apply find_index_nth in H. destruct H as (x & Hx & F). exists x. split; auto.
  unfold is_var in F. apply andb_true_iff in F. destruct F as (A & B). apply Z.eqb_eq in A. apply Z.eqb_eq in B. auto.
Qed.

Lemma stages_init_nth d i x : nth_error (st_vars d) i = Some x ->
  nth i (asg (init_cs (st_vars d))) None = if has_in x then None else Some i.
Proof. intros H. cbn. rewrite (init_asg_nth _ 0 i x H). reflexivity. Qed.

(* both ends of a connection are variables without an `in` interface *)
Definition both_sources (d : doc) : Prop :=
  exists c1 v1 c2 v2 i1 i2 x1 x2, In (c1, v1, c2, v2) (all_pairs (d_conns d)) /\
    vidx (st_vars d) c1 v1 = Some i1 /\ vidx (st_vars d) c2 v2 = Some i2 /\
    nth_error (st_vars d) i1 = Some x1 /\ nth_error (st_vars d) i2 = Some x2 /\ has_in x1 = false /\ has_in x2 = false.

Lemma reject_both_sources d : both_sources d -> exists e, load d = Error e.
Proof.
  intros (c1 & v1 & c2 & v2 & i1 & i2 & x1 & x2 & Hp & H1 & H2 & N1 & N2 & I1 & I2).
  apply reject. intros f H. apply load_stages in H.
  destruct (stages_pair _ _ H _ Hp) as (s & t & Hd & Hw). cbn in Hd. apply direction_ends in Hd.
  destruct Hd as (j1 & j2 & J1 & J2 & Hor). rewrite H1 in J1. rewrite H2 in J2. inversion J1. inversion J2. subst j1 j2.
  destruct (stages_schedule _ _ H) as (p & Pp & Hr).
  assert (Hin : In (s, t) p) by (eapply Permutation_in; [apply Permutation_sym; exact Pp|exact Hw]).
  pose proof (run_targets_free _ _ _ _ Hr _ Hin) as F. cbn [snd] in F.
  destruct Hor as [(-> & ->)|(-> & ->)].
  - rewrite (stages_init_nth _ _ _ N2), I2 in F. discriminate.
  - rewrite (stages_init_nth _ _ _ N1), I1 in F. discriminate.
Qed.

(* the source end of a connection has an `in` interface and no connection feeds it *)
Definition receiver_unfed (d : doc) : Prop :=
  exists s t, In (s, t) (st_work d) /\ nth s (asg (init_cs (st_vars d))) None = None /\
              forall c, In c (st_work d) -> snd c <> s.

Lemma reject_receiver_unfed d : receiver_unfed d -> exists e, load d = Error e.
Proof.
  intros (s & t & Hw & Hi & Hn). apply reject. intros f H. apply load_stages in H.
  destruct (stages_schedule _ _ H) as (p & Pp & Hr).
  assert (Hin : In (s, t) p) by (eapply Permutation_in; [apply Permutation_sym; exact Pp|exact Hw]).
  apply in_split in Hin. destruct Hin as (p1 & p2 & ->). rewrite run_app in Hr.
  destruct (run (st_vars d) (init_cs (st_vars d)) p1) as [s1|] eqn:R1; [|discriminate].
  cbn in Hr. destruct (cstep (st_vars d) s1 (s, t)) as [| |s2] eqn:E; try discriminate.
  apply cstep_asg in E. destruct E as (_ & E & _). cbn [fst] in E. apply E.
  rewrite (run_untouched _ _ _ _ s R1); auto.
  intros c Hc. apply Hn. eapply Permutation_in; [exact Pp|]. apply in_or_app. now left.
Qed.

Lemma reject_target_fed_twice d : ~ NoDup (map snd (st_work d)) -> exists e, load d = Error e.
Proof.
  intros Hn. apply reject. intros f H. apply load_stages in H.
  destruct (stages_schedule _ _ H) as (p & Pp & Hr). apply Hn.
  eapply Permutation_NoDup; [apply Permutation_map; exact Pp|].
  eapply run_nodup_targets; eauto. intros c Hc. cbn. rewrite init_asg_length.
  apply (stages_range _ _ H). eapply Permutation_in; eauto.
Qed.

Lemma reject_incompatible_units d :
  (exists s t, In (s, t) (st_work d) /\ conv (uv_of (st_vars d) s) (uv_of (st_vars d) t) = None) ->
  exists e, load d = Error e.
Proof.
  intros (s & t & Hw & Hc). apply reject. intros f H. apply load_stages in H.
  destruct (stages_schedule _ _ H) as (p & Pp & Hr).
  assert (Hin : In (s, t) p) by (eapply Permutation_in; [apply Permutation_sym; exact Pp|exact Hw]).
  destruct (run_processed _ _ _ _ Hr _ Hin) as (_ & cf & Hcf & _). cbn [fst snd] in Hcf. congruence.
Qed.

(* ---- maths ---- *)
Lemma stages_maths d f : stages d f ->
  st_eqs d = rev (flat_all d (st_vars d) (cmap (st_cs d))) ++ ceqs (st_cs d) /\
  (forall l1 q l2, flat_all d (st_vars d) (cmap (st_cs d)) = l1 ++ q :: l2 ->
     exists v, feq_var q = Some v /\ defined (rev l1 ++ ceqs (st_cs d)) v = false) /\
  (forall cq x, In cq (all_ceqs d) -> In x (eq_leaves (snd cq)) ->
     leaf_ok d (st_vars d) (cmap (st_cs d)) (fst cq) x).
Proof.
  intros S. pose proof (s_maths _ _ S) as M. apply add_maths_ok in M. destruct M as (A & B).
  apply add_eqs_ok in A. destruct A as (A1 & A2). auto.
Qed.

(* two equations of the document define the same flat variable (in one component, or in two components
   whose left-hand sides are joined by connections), or one of them has no admissible left-hand side *)
Lemma reject_two_definitions d :
  (exists l1 q1 l2 q2 l3, flat_all d (st_vars d) (cmap (st_cs d)) = l1 ++ q1 :: l2 ++ q2 :: l3 /\
                          feq_var q1 = feq_var q2) ->
  exists e, load d = Error e.
Proof.
  intros (l1 & q1 & l2 & q2 & l3 & E & Hv). apply reject. intros f H. apply load_stages, stages_maths in H.
  destruct H as (_ & A & _).
  assert (E2 : flat_all d (st_vars d) (cmap (st_cs d)) = (l1 ++ q1 :: l2) ++ q2 :: l3)
    by (rewrite E, <- app_assoc; reflexivity).
  destruct (A _ _ _ E2) as (v & Hv2 & Hd).
  rewrite (defined_in _ q1 v) in Hd; [discriminate| |congruence].
  apply in_or_app. left. apply in_rev. rewrite rev_involutive. apply in_or_app. right. now left.
Qed.

Lemma lhs_kind_ren f e : lhs_kind (ren f e) = KBad <-> lhs_kind e = KBad.
Proof.
  destruct e; cbn; try tauto; try (split; discriminate).
  destruct e1, e2; cbn; try tauto; try (split; discriminate). destruct (Z.eqb n 1); split; discriminate.
Qed.

Lemma reject_bad_lhs d : (exists cq, In cq (all_ceqs d) /\ lhs_kind (q_lhs (snd cq)) = KBad) -> exists e, load d = Error e.
Proof.
  intros (cq & Hin & Hk). apply reject. intros f H. apply load_stages, stages_maths in H. destruct H as (_ & A & _).
  assert (Hf : In (flat_eq (st_vars d) (cmap (st_cs d)) (fst cq) (snd cq)) (flat_all d (st_vars d) (cmap (st_cs d)))).
  { unfold flat_all. apply in_map_iff. eauto. }
  apply in_split in Hf. destruct Hf as (l1 & l2 & E). destruct (A _ _ _ E) as (v & Hv & _).
  unfold feq_var, flat_eq in Hv. cbn [feq_kind] in Hv.
  apply (proj2 (lhs_kind_ren (rename_of (st_vars d) (cmap (st_cs d)) (fst cq)) _)) in Hk. rewrite Hk in Hv. discriminate.
Qed.

Lemma reject_leaf d : (exists cq x, In cq (all_ceqs d) /\ In x (eq_leaves (snd cq)) /\
    forall vars m, ~ leaf_ok d vars m (fst cq) x \/ vars <> st_vars d) -> exists e, load d = Error e.
Proof.
  intros (cq & x & Hin & Hx & Hbad). apply reject. intros f H. apply load_stages, stages_maths in H.
  destruct H as (_ & _ & A). destruct (Hbad (st_vars d) (cmap (st_cs d))) as [B|B]; [|congruence].
  apply B. eapply A; eauto.
Qed.

Lemma reject_higher_order d : (exists cq, In cq (all_ceqs d) /\ In LDeg (eq_leaves (snd cq))) -> exists e, load d = Error e.
Proof.
  intros (cq & Hin & Hx). apply reject_leaf. exists cq, LDeg. repeat split; auto. intros vars m. left.
  unfold leaf_ok. cbn. discriminate.
Qed.

Lemma reject_undefined_number_units d :
  (exists cq u, In cq (all_ceqs d) /\ In (LUnit u) (eq_leaves (snd cq)) /\ unit_lookup (d_units d) u = None) ->
  exists e, load d = Error e.
Proof.
  intros (cq & u & Hin & Hx & Hu). apply reject_leaf. exists cq, (LUnit u). repeat split; auto. intros vars m. left.
  unfold leaf_ok. cbn. rewrite Hu. discriminate.
Qed.

(* an identifier used in the maths of a component that declares no such variable *)
Lemma reject_undefined_identifier d :
  (exists cc q n, In cc (d_comps d) /\ In q (concat (c_maths cc)) /\ In (LId n) (eq_leaves q) /\
                  forall v, In v (c_vars cc) -> v_name v <> n) ->
  exists e, load d = Error e.
Proof.
  intros (cc & q & n & Hc & Hq & Hn & Hnone). apply reject. intros f H. apply load_stages in H.
  pose proof (stages_maths _ _ H) as (_ & _ & A). pose proof (stages_comps _ _ H) as (En & Ev & N & _).
  assert (Hin : In (c_name cc, q) (all_ceqs d)).
  { unfold all_ceqs. apply in_flat_map. exists cc. split; auto. unfold comp_ceqs. now apply in_map. }
  specialize (A _ _ Hin Hn). unfold leaf_ok in A. cbn in A.
  destruct (vidx (st_vars d) (c_name cc) n) as [i|] eqn:E; [|discriminate].
  rewrite Ev in E. apply vidx_expected in E. destruct E as (cc' & v & Hc' & Hname & Hv & Hvn).
  assert (cc' = cc). { rewrite En in N. eapply NoDup_map_inj; eauto. } subst cc'. exact (Hnone v Hv Hvn).
Qed.

(* ================= C17_no_half_load ================= *)
Lemma no_half_load d f : load d = OK f ->
  f_vars f = expected_vars d /\
  (forall cq, In cq (all_ceqs d) -> In (flat_eq (f_vars f) (rev (f_map f)) (fst cq) (snd cq)) (f_eqs f)) /\
  (forall p, In p (all_pairs (d_conns d)) ->
     exists s t cf, dir_of (f_vars f) (st_names d) (st_ps d) p = OK (s, t) /\ In (t, s) (f_map f) /\
       nth t (f_asg f) None <> None /\ conv (uv_of (f_vars f) s) (uv_of (f_vars f) t) = Some cf /\
       (is_one cf = true \/ exists a, In (FConv t a cf) (f_eqs f))).
Proof.
  intros H. apply load_stages in H. pose proof (s_flat _ _ H) as ->. cbn [f_vars f_map f_eqs f_asg].
  rewrite rev_involutive. pose proof (stages_comps _ _ H) as (_ & Ev & _).
  pose proof (stages_maths _ _ H) as (Em & _ & _).
  assert (Itc : incl (st_eqs d) (fst (st_ei d))).
  { pose proof (s_tc _ _ H) as T. unfold transform_constants in T. apply tc_incl in T. exact T. }
  split; [exact Ev|]. split.
  - intros cq Hin. apply -> in_rev. apply Itc. rewrite Em. apply in_or_app. left. apply -> in_rev.
    unfold flat_all. apply in_map_iff. eauto.
  - intros p Hp. destruct (stages_pair _ _ H _ Hp) as (s & t & Hd & Hw).
    destruct (stages_schedule _ _ H) as (sch & Pp & Hr).
    assert (Hin : In (s, t) sch) by (eapply Permutation_in; [apply Permutation_sym; exact Pp|exact Hw]).
    destruct (run_processed _ _ _ _ Hr _ Hin) as (Hm & cf & Hcf & Hor). cbn [fst snd] in *.
    exists s, t, cf. split; auto. split; [apply -> in_rev; exact Hm|]. split.
    + apply (run_assigns _ _ _ _ Hr) with (c := (s, t)); auto. intros c Hc. cbn. rewrite init_asg_length.
      apply (stages_range _ _ H). eapply Permutation_in; eauto.
    + split; auto. destruct Hor as [A|(a & A)]; auto. right. exists a. apply -> in_rev. apply Itc.
      rewrite Em. apply in_or_app. now right.
Qed.

(* two equations of ONE component with the same left-hand side *)
Lemma reject_two_definitions_direct d :
  (exists cc m1 q1 m2 q2 m3, In cc (d_comps d) /\ concat (c_maths cc) = m1 ++ q1 :: m2 ++ q2 :: m3 /\
                             q_lhs q1 = q_lhs q2) ->
  exists e, load d = Error e.
Proof.
  intros (cc & m1 & q1 & m2 & q2 & m3 & Hc & Em & Hl). apply reject_two_definitions.
  apply in_split in Hc. destruct Hc as (A & B & Ed).
  set (F := fun cq : Z * ceq => flat_eq (st_vars d) (cmap (st_cs d)) (fst cq) (snd cq)).
  set (P := pair (c_name cc) : ceq -> Z * ceq).
  exists (map F (flat_map comp_ceqs A) ++ map F (map P m1)), (F (P q1)), (map F (map P m2)), (F (P q2)),
         (map F (map P m3) ++ map F (flat_map comp_ceqs B)).
  split.
  - unfold flat_all, all_ceqs. fold F. rewrite Ed, flat_map_app. cbn [flat_map]. unfold comp_ceqs at 2. fold P.
    rewrite Em. rewrite !map_app. cbn [map]. rewrite !map_app. cbn [map].
    repeat (rewrite <- app_assoc || rewrite <- app_comm_cons). reflexivity.
  - unfold F, P, feq_var, flat_eq. cbn [fst snd feq_kind]. rewrite Hl. reflexivity.
Qed.

(* units of the two ends of a connection differ in dimension *)
Lemma conv_none_sym a b : conv a b = None -> conv b a = None.
Proof.
  intros H. apply conv_none in H. apply conv_none. intros E. apply H. now apply ueq_sym.
Qed.

Lemma reject_incompatible_connection_units d :
  (exists c1 v1 c2 v2 i1 i2, In (c1, v1, c2, v2) (all_pairs (d_conns d)) /\
     vidx (st_vars d) c1 v1 = Some i1 /\ vidx (st_vars d) c2 v2 = Some i2 /\
     conv (uv_of (st_vars d) i1) (uv_of (st_vars d) i2) = None) ->
  exists e, load d = Error e.
Proof.
  intros (c1 & v1 & c2 & v2 & i1 & i2 & Hp & H1 & H2 & Hc).
  destruct (load d) as [f| |] eqn:L; [|eauto|exfalso; exact (load_total d L)].
  exfalso. pose proof (load_stages _ _ L) as S.
  destruct (stages_pair _ _ S _ Hp) as (s & t & Hd & Hw). cbn in Hd. apply direction_ends in Hd.
  destruct Hd as (j1 & j2 & J1 & J2 & Hor). rewrite H1 in J1. rewrite H2 in J2. inversion J1. inversion J2. subst j1 j2.
  assert (R : exists e, load d = Error e).
  { apply reject_incompatible_units. exists s, t. split; auto.
    destruct Hor as [(-> & ->)|(-> & ->)]; auto. now apply conv_none_sym. }
  destruct R as (e & R). congruence.
Qed.

(* ================= the hypotheses are satisfiable ================= *)
Definition ex_volt : uvec := [(-1, (2#1)%Q); (-2, (1#1)%Q); (-3, (-3#1)%Q); (-4, (-1#1)%Q)]%Z.
Definition ex_mv : uvec := (ex_volt ++ [(2, (-3#1)%Q); (5, (-3#1)%Q)])%Z.
Definition ex_second : uvec := [(-3, (1#1)%Q)]%Z.
(* A { x : volt, out, initial value 2 }   B { x : mV, in ; y : mV ; y = x }   connection B.x -- A.x *)
Definition ex_doc (u2 : Z) (target_pub : iface) : doc :=
  mkDoc None None [(1, ex_volt); (2, ex_mv); (3, ex_second)]
        [mkComp 10 [mkDVar 20 1 (Some (2#1)%Q) IOut INone None] [] false false;
         mkComp 11 [mkDVar 20 u2 None target_pub INone None; mkDVar 21 2 None INone INone None]
                   [[mkCeq (EVar 21) (EVar 20)]] false false]
        [] [mkConn 11 10 [(20, 20)]].

Example ex_loads : exists f, load (ex_doc 2 IIn) = OK f /\ f_map f = [(1, 0)]%nat /\ length (f_eqs f) = 3%nat.
Proof. eexists. vm_compute. repeat split. Qed.

Example ex_both_sources : both_sources (ex_doc 2 IOut).
Proof. exists 11, 20, 10, 20, 1%nat, 0%nat. do 2 eexists. vm_compute. repeat split; auto. Qed.

Example ex_incompatible : load (ex_doc 3 IIn) = Error EDim.
Proof. vm_compute. reflexivity. Qed.

(* ================= transform_constants: the two remaining ways to give a variable no unique meaning ================= *)
Lemma defined_incl e e' v : incl e e' -> defined e v = true -> defined e' v = true.
Proof.
  intros I H. unfold defined in *. apply existsb_exists in H. destruct H as (q & Hq & E).
  apply existsb_exists. exists q. split; auto.
Qed.

Lemma tc_ok_inv sts l : NoDup l -> forall st st', foldM (tc_step sts) l st = OK st' -> forall i, In i l ->
  (nth i (snd st) None = None -> nth i sts false = false) /\
  (forall q, nth i (snd st) None = Some q -> nth i sts false = false -> defined (fst st) (Z.of_nat i) = false).
Proof.
  induction 1 as [|j r Hj N IH]; intros st st' H i Hi; [contradiction|]. cbn in H.
  apply bind_ok in H. destruct H as (s1 & H1 & H).
  destruct Hi as [<-|Hi].
  - unfold tc_step in H1. destruct (nth j (snd st) None) as [q|] eqn:En.
    + split; [discriminate|]. intros q' Eq Hs. rewrite Hs in H1.
      apply bind_ok in H1. destruct H1 as (e & He & _). unfold add_eq in He. cbn [feq_kind] in He.
      destruct (defined (fst st) (Z.of_nat j)); [discriminate|reflexivity].
    + split; [|discriminate]. intros _. destruct (nth j sts false); [discriminate|reflexivity].
  - assert (Nij : j <> i) by (intros ->; contradiction).
    destruct (IH _ _ H i Hi) as (A & B).
    assert (Es : nth i (snd s1) None = nth i (snd st) None /\ incl (fst st) (fst s1)).
    { unfold tc_step in H1. destruct (nth j (snd st) None) as [q|].
      - destruct (nth j sts false). { inversion H1. split; auto. apply incl_refl. }
        apply bind_ok in H1. destruct H1 as (e & He & H1). inversion H1. cbn.
        split; [apply nth_upd_neq; auto|]. unfold add_eq in He. cbn [feq_kind] in He.
        destruct (defined (fst st) (Z.of_nat j)); [discriminate|]. inversion He. apply incl_tl, incl_refl.
      - destruct (nth j sts false); [discriminate|]. inversion H1. split; auto. apply incl_refl. }
    destruct Es as (Es & Ie). rewrite Es in A, B. split; auto.
    intros q Eq Hs. specialize (B q Eq Hs).
    destruct (defined (fst st) (Z.of_nat i)) eqn:D; auto. rewrite (defined_incl _ _ _ Ie D) in B. discriminate.
Qed.

Lemma nth_map_seq' {T} (g : nat -> T) n i dflt : (i < n)%nat -> nth i (map g (seq 0 n)) dflt = g i.
Proof.
  intros H. rewrite nth_indep with (d' := g 0%nat) by (rewrite map_length, seq_length; auto).
  rewrite map_nth with (d := 0%nat). rewrite seq_nth; auto.
Qed.

Lemma stages_tc d f : stages d f -> forall i x, nth_error (st_vars d) i = Some x ->
  (finit x = None -> is_state (st_eqs d) i = false) /\
  (forall q, finit x = Some q -> is_state (st_eqs d) i = false -> defined (st_eqs d) (Z.of_nat i) = false).
Proof.
  intros S i x Hx. pose proof (s_tc _ _ S) as T. unfold transform_constants in T.
  assert (Li : (i < length (st_vars d))%nat) by (apply nth_error_Some; congruence).
  destruct (tc_ok_inv _ _ (seq_NoDup (length (st_vars d)) 0) _ _ T i) as (A & B).
  { apply in_seq. lia. }
  cbn [fst snd] in A, B. rewrite (nth_map_seq' (is_state (st_eqs d)) _ i false Li) in A, B.
  assert (En : nth i (map finit (st_vars d)) None = finit x).
  { rewrite nth_indep with (d' := finit x) by (rewrite map_length; auto).
    rewrite (map_nth finit (st_vars d) x i). rewrite (nth_error_nth _ _ _ Hx). reflexivity. }
  rewrite En in A, B. auto.
Qed.

(* a state variable (it has an ODE after substitution of connected variables) without initial value *)
Lemma reject_state_without_initial_value d :
  (exists i x, nth_error (st_vars d) i = Some x /\ finit x = None /\ is_state (st_eqs d) i = true) ->
  exists e, load d = Error e.
Proof.
  intros (i & x & Hx & Hf & Hs). apply reject. intros f H. apply load_stages in H.
  destruct (stages_tc _ _ H i x Hx) as (A & _). rewrite (A Hf) in Hs. discriminate.
Qed.

(* a variable that is not a state has an initial value AND a defining equation *)
Lemma reject_initial_value_and_equation d :
  (exists i x q, nth_error (st_vars d) i = Some x /\ finit x = Some q /\ is_state (st_eqs d) i = false /\
                 defined (st_eqs d) (Z.of_nat i) = true) ->
  exists e, load d = Error e.
Proof.
  intros (i & x & q & Hx & Hf & Hs & Hd). apply reject. intros f H. apply load_stages in H.
  destruct (stages_tc _ _ H i x Hx) as (_ & B). rewrite (B q Hf Hs) in Hd. discriminate.
Qed.
