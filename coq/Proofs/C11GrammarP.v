(* C11 -- part 1: every well-bracketed parse tree is derived from its own tokens by the levelled grammar
   (T1); the generated tables agree with the specification of Python's math module (T4). *)
From Coq Require Import List ZArith QArith Bool Reals Qreals String Arith Lia.
From Verif Require Import Sexp Expr Eval PyGrammar PyPrinter PrinterTables_gen.
Import ListNotations.
Open Scope list_scope.

Lemma lvl_le9 p : (lvl p <= 9)%nat.
Proof. destruct p; cbn; try lia. destruct k; cbn; lia. Qed.

Lemma derives_le : forall d m ts p, (m + d <= 9)%nat -> derives (m + d) ts p -> derives m ts p.
Proof.
  induction d as [|d IH]; intros m ts p Hle H.
  - rewrite Nat.add_0_r in H. exact H.
  - apply IH; [lia|]. apply D_sub; [lia|]. replace (S (m + d)) with (m + S d)%nat by lia. exact H.
Qed.

Lemma derives_down m n ts p : (m <= n)%nat -> (n <= 9)%nat -> derives n ts p -> derives m ts p.
Proof.
  intros H1 H2 H. apply (derives_le (n - m) m); replace (m + (n - m))%nat with n by lia; assumption.
Qed.

Lemma toks_app a b : toks_of (a ++ b) = toks_of a ++ toks_of b.
Proof. induction a as [|[t|] a IH]; cbn; [reflexivity| rewrite IH; reflexivity | exact IH]. Qed.

Lemma toks_sepcat (l : list (list piece)) :
  toks_of (sepcat [Tk TComma; Sp] l) = sepcat [TComma] (map toks_of l).
Proof.
  destruct l as [|x r]; [reflexivity|]. cbn [sepcat map]. rewrite toks_app. f_equal.
  induction r as [|y r IH]; [reflexivity|]. cbn [map concat]. rewrite toks_app, IH, toks_app. reflexivity.
Qed.

Lemma toks_nary k (r : list (bool * ptree)) :
  toks_of (concat (map (fun bp => Sp :: Tk (optok k (fst bp)) :: Sp :: flat (snd bp)) r))
  = nary_toks k (map (fun bp => toks (snd bp)) r) r.
Proof.
  unfold nary_toks. induction r as [|x r IH]; [reflexivity|].
  cbn [map concat combine fst snd]. rewrite toks_app. cbn [toks_of]. rewrite IH. reflexivity.
Qed.

Lemma leb_le a b : Nat.leb a b = true -> (a <= b)%nat.
Proof. apply Nat.leb_le. Qed.

Lemma grammar_sound : forall p, wb p = true -> derives (lvl p) (toks p) p.
Proof.
  induction p using ptree_ind'; intros Hwb; cbn [wb] in Hwb; unfold toks; cbn [flat lvl toks_of].
  - apply D_num. apply Z.leb_le. exact Hwb.
  - apply D_float. apply Z.leb_le. exact Hwb.
  - apply D_var.
  - apply D_lit.
  - apply D_bool.
  - (* call *)
    rewrite toks_app, toks_sepcat, map_map. cbn [toks_of].
    apply D_call.
    induction l as [|x r IHr]; cbn [map]; constructor.
    + inversion H; subst. cbn [forallb] in Hwb. apply andb_prop in Hwb. destruct Hwb as [Hx _].
      apply (derives_down 0 (lvl (snd x))); [lia | apply lvl_le9 | apply H2; exact Hx].
    + inversion H; subst. cbn [forallb] in Hwb. apply andb_prop in Hwb. destruct Hwb as [_ Hr].
      apply IHr; assumption.
  - (* paren *)
    rewrite toks_app. cbn [toks_of]. apply D_paren.
    apply (derives_down 0 (lvl p)); [lia | apply lvl_le9 | apply IHp; exact Hwb].
  - (* pow *)
    repeat (apply andb_prop in Hwb; destruct Hwb as [Hwb ?]).
    rewrite toks_app. cbn [toks_of]. apply D_pow.
    + apply (derives_down 9 (lvl p1)); [apply leb_le; assumption | apply lvl_le9 | apply IHp1; assumption].
    + apply (derives_down 7 (lvl p2)); [apply leb_le; assumption | apply lvl_le9 | apply IHp2; assumption].
  - (* neg *)
    apply andb_prop in Hwb. destruct Hwb as [Hq Hl]. apply D_neg.
    apply (derives_down 7 (lvl p)); [apply leb_le; assumption | apply lvl_le9 | apply IHp; assumption].
  - (* nary *)
    repeat (apply andb_prop in Hwb; destruct Hwb as [Hwb ?]).
    rewrite toks_app, toks_nary. apply D_nary.
    + destruct r; [discriminate | discriminate].
    + apply (derives_down (ksub k) (lvl p)); [apply leb_le; assumption | apply lvl_le9 | apply IHp; assumption].
    + clear Hwb H1. induction r as [|x r IHr]; cbn [map]; constructor.
      * inversion H; subst. cbn [forallb] in H0. apply andb_prop in H0. destruct H0 as [Hx _].
        apply andb_prop in Hx. destruct Hx as [Hx1 Hx2].
        apply (derives_down (ksub k) (lvl (snd x))); [apply leb_le; assumption | apply lvl_le9 | apply H4; assumption].
      * inversion H; subst. cbn [forallb] in H0. apply andb_prop in H0. destruct H0 as [_ Hr].
        apply IHr; assumption.
  - (* cmp *)
    destruct (cmp_ok op) eqn:Hc; [|discriminate Hwb]. cbn [andb] in Hwb.
    repeat (apply andb_prop in Hwb; destruct Hwb as [Hwb ?]).
    rewrite toks_app. cbn [toks_of]. apply D_cmp; [assumption| |].
    + apply (derives_down 5 (lvl p1)); [apply leb_le; assumption | apply lvl_le9 | apply IHp1; assumption].
    + apply (derives_down 5 (lvl p2)); [apply leb_le; assumption | apply lvl_le9 | apply IHp2; assumption].
  - (* if *)
    repeat (apply andb_prop in Hwb; destruct Hwb as [Hwb ?]).
    rewrite toks_app. cbn [toks_of]. rewrite toks_app. cbn [toks_of]. apply D_if.
    + apply (derives_down 1 (lvl p1)); [apply leb_le; assumption | apply lvl_le9 | apply IHp1; assumption].
    + apply (derives_down 1 (lvl p2)); [apply leb_le; assumption | apply lvl_le9 | apply IHp2; assumption].
    + apply (derives_down 0 (lvl p3)); [lia | apply lvl_le9 | apply IHp3; assumption].
Qed.

(* the whole emitted text is an "expression" (level 0) *)
Lemma grammar_sound_top : forall p, wb p = true -> derives 0 (toks p) p.
Proof.
  intros p H. apply (derives_down 0 (lvl p)); [lia | apply lvl_le9 | apply grammar_sound; exact H].
Qed.

(* ---- tables --------------------------------------------------------------------------------- *)
Definition meaning_eqb (a b : meaning) : bool :=
  match a, b with
  | MFn f, MFn g => Z.eqb f g
  | MSqrt, MSqrt => true
  | _, _ => false
  end.

Lemma meaning_eqb_eq a b : meaning_eqb a b = true -> a = b.
Proof.
  destruct a, b; cbn; try discriminate; try reflexivity. intros H. apply Z.eqb_eq in H. subst. reflexivity.
Qed.

(* what a generated (sympy name, python name) pair must satisfy *)
Definition fn_entry_ok (sp : string * string) : bool :=
  let '(s, py) := sp in
  if String.eqb s "sqrt" then match spec_fn py with Some MSqrt => true | _ => false end
  else match fn_id s, spec_fn py with
       | Some f, Some (MFn g) => Z.eqb f g
       | _, _ => false
       end.

Lemma function_table_ok : forallb fn_entry_ok function_names = true.
Proof. vm_compute. reflexivity. Qed.

Lemma function_table_spec : forall s py, In (s, py) function_names ->
  (s = "sqrt"%string /\ spec_fn py = Some MSqrt) \/
  (exists f, fn_id s = Some f /\ spec_fn py = Some (MFn f)).
Proof.
  intros s py Hin. pose proof function_table_ok as H. rewrite forallb_forall in H.
  specialize (H _ Hin). unfold fn_entry_ok in H.
  destruct (String.eqb s "sqrt") eqn:E.
  - left. apply String.eqb_eq in E. split; [exact E|]. destruct (spec_fn py) as [[|]|]; try discriminate. reflexivity.
  - right. destruct (fn_id s) as [f|]; [|discriminate]. destruct (spec_fn py) as [[g|]|]; try discriminate.
    apply Z.eqb_eq in H. subst. exists g. split; reflexivity.
Qed.

(* the form the value theorem uses: looking a function id up gives a Python name with that meaning *)
Definition fn_lookup_ok (fs : Z * string) : bool :=
  match slookup function_names (snd fs) with
  | Some py => match spec_fn py with Some m => meaning_eqb m (MFn (fst fs)) | None => false end
  | None => true
  end.

Lemma fn_lookup_table_ok : forallb fn_lookup_ok fn_table = true.
Proof. vm_compute. reflexivity. Qed.

Lemma zlookup_in {X} (l : list (Z * X)) z x : zlookup l z = Some x -> In (z, x) l.
Proof.
  induction l as [|[k y] r IH]; cbn; [discriminate|].
  destruct (Z.eqb z k) eqn:E.
  - intros H. inversion H; subst. apply Z.eqb_eq in E. subst. left. reflexivity.
  - intros H. right. apply IH. exact H.
Qed.

Lemma fn_lookup_spec f s py :
  fn_name f = Some s -> slookup function_names s = Some py -> spec_fn py = Some (MFn f).
Proof.
  intros Hn Hl. apply zlookup_in in Hn. pose proof fn_lookup_table_ok as H. rewrite forallb_forall in H.
  specialize (H _ Hn). unfold fn_lookup_ok in H. cbn [fst snd] in H. rewrite Hl in H.
  destruct (spec_fn py) as [m|]; [|discriminate]. apply meaning_eqb_eq in H. subst. reflexivity.
Qed.

Lemma sqrt_lookup_spec py : slookup function_names "sqrt" = Some py -> spec_fn py = Some MSqrt.
Proof. vm_compute. intros H. inversion H; subst. reflexivity. Qed.

Definition lit_key_const (k : string) : option Z :=
  if String.eqb k "pi" then Some 0%Z else if String.eqb k "e" then Some 1%Z
  else if String.eqb k "nan" then Some 4%Z else None.

Definition lit_entry_ok (kp : string * string) : bool :=
  match lit_key_const (fst kp), spec_lit (snd kp) with
  | Some c, Some c' => Z.eqb c c'
  | _, _ => false
  end.

Lemma literal_table_ok : forallb lit_entry_ok literal_names = true.
Proof. vm_compute. reflexivity. Qed.

Lemma literal_table_spec : forall k py, In (k, py) literal_names ->
  exists c, lit_key_const k = Some c /\ spec_lit py = Some c.
Proof.
  intros k py Hin. pose proof literal_table_ok as H. rewrite forallb_forall in H. specialize (H _ Hin).
  unfold lit_entry_ok in H. cbn [fst snd] in H.
  destruct (lit_key_const k) as [c|]; [|discriminate]. destruct (spec_lit py) as [c'|]; [|discriminate].
  apply Z.eqb_eq in H. subst. exists c'. split; reflexivity.
Qed.

Lemma slookup_in {X} (l : list (string * X)) s x : slookup l s = Some x -> In (s, x) l.
Proof.
  induction l as [|[k y] r IH]; cbn; [discriminate|].
  destruct (String.eqb s k) eqn:E.
  - intros H. inversion H; subst. apply String.eqb_eq in E. subst. left. reflexivity.
  - intros H. right. apply IH. exact H.
Qed.

Lemma lit_spec key p c : lit_key_const key = Some c -> lit key = Ok p ->
  exists s, p = PLit s /\ spec_lit s = Some c.
Proof.
  unfold lit. intros Hk H. destruct (slookup literal_names key) as [s|] eqn:E; [|discriminate].
  inversion H; subst. exists s. split; [reflexivity|].
  apply slookup_in in E. destruct (literal_table_spec _ _ E) as [c' [H1 H2]].
  rewrite Hk in H1. inversion H1; subst. exact H2.
Qed.

(* unsupported constructs are refused: ValueError, never text *)
Lemma unsupported_raises : forall n,
  (forall c, c <> 0%Z -> c <> 1%Z -> pp (S n) (EConst c) = Err) /\
  (forall l, pp (S n) (EFn fn_max l) = Err) /\ (forall l, pp (S n) (EFn fn_min l) = Err) /\
  (forall op l, op <> 0%Z -> op <> 1%Z -> pp (S n) (EBool op l) = Err) /\
  (forall f s l, fn_name f = Some s -> slookup function_names s = None ->
                 forall ps, collect (map (pp n) l) = Ok ps -> pp (S n) (EFn f l) = Err).
Proof.
  intros n. split; [|split; [|split; [|split]]].
  - intros c H0 H1. cbn [pp]. destruct (Z.eqb c 0) eqn:E0; [apply Z.eqb_eq in E0; contradiction|].
    destruct (Z.eqb c 1) eqn:E1; [apply Z.eqb_eq in E1; contradiction|]. reflexivity.
  - intros l. reflexivity.
  - intros l. reflexivity.
  - intros op l H0 H1. cbn [pp]. destruct (Z.eqb op 0) eqn:E0; [apply Z.eqb_eq in E0; contradiction|].
    destruct (Z.eqb op 1) eqn:E1; [apply Z.eqb_eq in E1; contradiction|]. reflexivity.
  - intros f s l Hn Hl ps Hc. cbn [pp].
    destruct (Z.eqb f fn_max || Z.eqb f fn_min)%bool; [reflexivity|].
    rewrite Hn, Hc. cbn [rbind]. rewrite Hl. reflexivity.
Qed.
