(* C06: the equivalence theorems for convert_variable itself (shape lemmas + semantic lemmas). *)
From Coq Require Import List ZArith QArith Bool Lia Reals Lra Qreals.
From Verif Require Import Sexp UnitAlg UnitAlgP Expr Eval ModelSM ConvertVar C06EvalP C06P C06ShapeP C06ReplaceP C06StateP.
Import ListNotations.
Open Scope R_scope.

Section Sem.
Variable fsem : Z -> list R -> option R.
Variable psem : R -> R -> option R.
Variable csem : Z -> option R.
Hypothesis psem_inv : forall x, x <> 0 -> psem x (Q2R (-1 # 1)) = Some (/ x).

Notation Sat := (Sat fsem psem csem).

Lemma Q2R_pos q : (0 < q)%Q -> 0 < Q2R q.
Proof. intros H. replace 0 with (Q2R 0) by (unfold Q2R; cbn; lra). apply Qlt_Rlt. exact H. Qed.

(* OUTPUT: every pre-existing variable keeps its value, the new variable is the original times the factor, no
   derivative changes -- for every valuation, in both directions *)
Theorem output_conversion s v target mv s' n :
  convert_variable s v target DOutput mv = COk (s', n) -> n <> v ->
  fresh_var (length (cvars s)) (ceqs s) = true ->
  exists k, 0 < k /\ forall nu dl,
    (Sat nu dl (ceqs s) -> Sat (upd nu n (nu v * k)) dl (ceqs s')) /\
    (Sat nu dl (ceqs s') -> Sat nu dl (ceqs s) /\ nu n = nu v * k).
Proof.
  intros H Hnv Hf. destruct (convert_output_shape s v target mv s' n H) as [[_ E]|[orig [cfv [cfq [Ho [_ [_ [_ [Hpos [Hn [He _]]]]]]]]]]]; [congruence|].
  exists (Q2R cfq). split; [apply Q2R_pos; exact Hpos|]. intros nu dl. rewrite He. subst n.
  apply (output_equiv fsem psem csem (ceqs s) v (length (cvars s)) (cqnext s) cfq _ nu dl Hf). congruence.
Qed.

(* INPUT of a computed variable, a parameter or an input constant (neither a state nor the free variable) *)
Theorem input_plain_conversion s v target mv s' n :
  convert_variable s v target DInput mv = COk (s', n) -> n <> v ->
  is_state s v = false -> (forall t, free_var s = Some t -> t <> v) ->
  fresh_var (length (cvars s)) (ceqs s) = true ->
  exists k, 0 < k /\ forall nu dl,
    (Sat nu dl (ceqs s) -> Sat (upd nu n (nu v * k)) dl (ceqs s')) /\
    (Sat nu dl (ceqs s') -> Sat nu dl (ceqs s) /\ nu n = nu v * k).
Proof.
  intros H Hnv Hst Hfree Hf.
  destruct (convert_input_plain_shape s v target mv s' n H Hst Hfree) as [[_ E]|[orig [cfv [cfq [Ho [_ [_ [_ [Hpos [Hn He]]]]]]]]]]; [congruence|].
  cbn zeta in He. exists (Q2R cfq). pose proof (Q2R_pos cfq Hpos) as Hk. split; [exact Hk|]. intros nu dl. rewrite He. subst n.
  destruct (find (fun q => clhs_eqb (q_lhs q) (CLV v)) (ceqs s)) as [q|] eqn:Hq.
  - apply (input_computed_equiv fsem psem csem psem_inv (ceqs s) v (length (cvars s)) (cqnext s) cfq _ q nu dl Hf); [congruence|lra|exact Hq].
  - apply (input_constant_equiv fsem psem csem psem_inv (ceqs s) v (length (cvars s)) (cqnext s) cfq _ nu dl Hf); [congruence|lra].
Qed.

(* INPUT of a STATE variable (not the free variable): the converted variable becomes the state, the original ODE
   right-hand side is kept in a new variable w, every other mention of the old derivative is replaced by w.
   Every pre-existing variable keeps its value; new = factor x original; d new/dt = factor x d original/dt *)
Lemma find_none_not_in l v : find (fun q => clhs_eqb (q_lhs q) (CLV v)) l = None -> ~ In (CLV v) (map q_lhs l).
Proof.
  intros H Hin. apply in_map_iff in Hin as [q [E Hq]]. apply (find_none _ _ H) in Hq. rewrite E in Hq.
  cbn [clhs_eqb] in Hq. rewrite Nat.eqb_refl in Hq. discriminate.
Qed.

Theorem input_state_conversion s v target mv s' n ode t :
  convert_variable s v target DInput mv = COk (s', n) -> n <> v ->
  ode_def s v = Some ode -> q_lhs ode = CLD v t ->
  var_def s v = None -> (forall t0, free_var s = Some t0 -> t0 <> v) ->
  NoDup (map q_lhs (ceqs s)) ->
  fresh_var (length (cvars s)) (ceqs s) = true -> fresh_var (S (length (cvars s))) (ceqs s) = true ->
  fresh_atom (length (cvars s)) t (ceqs s) = true -> (v < length (cvars s))%nat ->
  exists k, 0 < k /\ forall nu dl,
    (Sat nu dl (ceqs s) ->
     Sat (upd (upd nu n (nu v * k)) (S n) (dl v t)) (updd dl n t (dl v t * k)) (ceqs s')) /\
    (Sat nu dl (ceqs s') ->
     Sat nu (updd dl v t (nu (S n))) (ceqs s) /\ nu n = nu v * k /\ dl n t = nu (S n) * k).
Proof.
  intros H Hnv Hode Hl Hvd Hfree Hnd Hf1 Hf2 Hfa Hlt.
  destruct (convert_input_state_shape s v target mv s' n ode t H Hnv Hode Hl Hvd Hfree) as [orig [cfv [cfq [Ho [_ [_ [Hpos [Hn He]]]]]]]].
  exists (Q2R cfq). pose proof (Q2R_pos cfq Hpos) as Hk. split; [exact Hk|]. intros nu dl. rewrite He. subst n.
  apply (input_state_equiv fsem psem csem psem_inv (ceqs s) v t (length (cvars s)) (S (length (cvars s))) (cqnext s) cfq _ ode nu dl);
    try assumption; try lia; try lra.
  - apply (ode_def_exact s v ode t Hode Hl).
  - apply find_none_not_in. exact Hvd.
Qed.

End Sem.

(* the law assumed of powers holds for the concrete power of Sem/Eval.v *)
Lemma pow_sem_inv x : x <> 0 -> pow_sem x (Q2R (-1 # 1)) = Some (/ x).
Proof.
  intros Hx. replace (Q2R (-1 # 1)) with (-1) by (unfold Q2R; cbn; lra). unfold pow_sem.
  destruct (Rlt_dec 0 x) as [Hpos|Hneg].
  - f_equal. replace (-1) with (- (1)) by lra. rewrite Rpower_Ropp, Rpower_1 by exact Hpos. reflexivity.
  - assert (Hint : Int_part (-1) = (-1)%Z).
    { unfold Int_part. assert (E : up (-1) = 0%Z) by (symmetry; apply tech_up; simpl; lra). rewrite E. reflexivity. }
    rewrite Hint. destruct (Req_EM_T (IZR (-1)) (-1)) as [_|Hne]; [|exfalso; apply Hne; reflexivity].
    destruct (Req_EM_T x 0) as [E|_]; [contradiction|]. f_equal. unfold powerRZ. replace (Pos.to_nat 1) with 1%nat by reflexivity. rewrite pow_1. reflexivity.
Qed.
