(* C06: the imperative rewriting of every ODE (fold of free_step over all variable indices, then replace_derivs) that
   convert_variable performs for an INPUT conversion of the free variable yields, up to the order of the equations, the
   specification-level system free_system of Proofs/C06FreeP.v. *)
From Coq Require Import List ZArith QArith Bool Lia Permutation.
From Verif Require Import Sexp UnitAlg Expr ModelSM ConvertVar C06EvalP C06ReplaceP C06StateP C06ShapeP.
Import ListNotations.

(* ---- substitution leaves an expression that mentions none of the substituted atoms alone ------------------------- *)
Lemma mentions_list m l : (fix any (l : list expr) : bool := match l with [] => false | x :: r => mentions_deriv m x || any r end) l
  = existsb (mentions_deriv m) l.
Proof. induction l as [|x r IH]; [reflexivity|]. cbn [existsb]. rewrite IH. reflexivity. Qed.

Lemma mentions_plist m l : (fix anyp (l : list (expr * expr)) : bool :=
     match l with [] => false | (x, c) :: r => mentions_deriv m x || mentions_deriv m c || anyp r end) l
  = existsb (fun xc => mentions_deriv m (fst xc) || mentions_deriv m (snd xc)) l.
Proof. induction l as [|[x c] r IH]; [reflexivity|]. cbn [existsb fst snd]. rewrite IH. reflexivity. Qed.

Lemma map_id_on {X} (f : X -> X) l : Forall (fun x => f x = x) l -> map f l = l.
Proof. induction 1 as [|x r Hx _ IH]; cbn [map]; [reflexivity|]. rewrite Hx, IH. reflexivity. Qed.

Lemma existsb_false_forall {X} (f : X -> bool) l : existsb f l = false -> forall x, In x l -> f x = false.
Proof.
  intros H x Hx. destruct (f x) eqn:E; [|reflexivity]. exfalso.
  assert (existsb f l = true) by (apply existsb_exists; exists x; split; assumption). congruence.
Qed.

Lemma subst_not_mentioned m e : mentions_deriv m e = false -> subst_deriv m e = e.
Proof.
  induction e as [k q|c|id q u|v|l IH|l IH|b e IHb IHe|f l IH|a b k IHy IHt|r a b IHa IHb|op l IH| | |l IH] using expr_ind';
    intros H; try reflexivity.
  - cbn [mentions_deriv] in H. rewrite mentions_list in H. cbn [subst_deriv]. rewrite subst_list. f_equal. apply map_id_on.
    rewrite Forall_forall in *. intros x Hx. apply IH; [exact Hx|]. apply (existsb_false_forall _ _ H x Hx).
  - cbn [mentions_deriv] in H. rewrite mentions_list in H. cbn [subst_deriv]. rewrite subst_list. f_equal. apply map_id_on.
    rewrite Forall_forall in *. intros x Hx. apply IH; [exact Hx|]. apply (existsb_false_forall _ _ H x Hx).
  - cbn [mentions_deriv] in H. apply orb_false_iff in H as [H1 H2]. cbn [subst_deriv]. rewrite (IHb H1), (IHe H2). reflexivity.
  - cbn [mentions_deriv] in H. rewrite mentions_list in H. cbn [subst_deriv]. rewrite subst_list. f_equal. apply map_id_on.
    rewrite Forall_forall in *. intros x Hx. apply IH; [exact Hx|]. apply (existsb_false_forall _ _ H x Hx).
  - destruct a as [| | |va| | | | | | | | | |]; try reflexivity. destruct b as [| | |vb| | | | | | | | | |]; try reflexivity.
    destruct k as [|[p|p|]|p]; try reflexivity.
    cbn [mentions_deriv] in H. cbn [subst_deriv].
    destruct (find _ m) as [yw|] eqn:Hf; [|reflexivity].
    apply find_some in Hf as [Hin Hk]. exfalso.
    assert (existsb (fun yw => Nat.eqb (fst (fst yw)) (Z.to_nat va) && Nat.eqb (snd (fst yw)) (Z.to_nat vb)) m = true)
      by (apply existsb_exists; exists yw; split; assumption). congruence.
  - cbn [mentions_deriv] in H. apply orb_false_iff in H as [H1 H2]. cbn [subst_deriv]. rewrite (IHa H1), (IHb H2). reflexivity.
  - cbn [mentions_deriv] in H. rewrite mentions_list in H. cbn [subst_deriv]. rewrite subst_list. f_equal. apply map_id_on.
    rewrite Forall_forall in *. intros x Hx. apply IH; [exact Hx|]. apply (existsb_false_forall _ _ H x Hx).
  - cbn [mentions_deriv] in H. rewrite mentions_plist in H. cbn [subst_deriv]. rewrite subst_plist. f_equal.
    rewrite <- (map_id l) at 2. apply map_ext_in. intros [x c] Hxc. cbn [fst snd].
    rewrite Forall_forall in IH. destruct (IH _ Hxc) as [A B]. cbn [fst snd] in A, B.
    pose proof (existsb_false_forall _ _ H _ Hxc) as E. cbn [fst snd] in E. apply orb_false_iff in E as [E1 E2].
    rewrite (A E1), (B E2). reflexivity.
Qed.

(* replaced (the order-free form of replace_derivs) is, up to order, substitution in every equation *)
Lemma replaced_perm_map m l : Permutation (replaced m l) (map (sub m) l).
Proof.
  unfold replaced. induction l as [|q l IH]; cbn [filter map]; [constructor|].
  destruct (ment m q) eqn:Hm; cbn [negb app map].
  - etransitivity; [|apply perm_skip; exact IH]. apply Permutation_sym. apply Permutation_middle.
  - replace (sub m q) with q; [apply perm_skip; exact IH|]. unfold sub. unfold ment in Hm.
    rewrite (subst_not_mentioned m _ Hm). destruct q; reflexivity.
Qed.

Lemma NoDup_app_parts {X} (a b : list X) : NoDup (a ++ b) -> NoDup a /\ NoDup b.
Proof.
  induction a as [|x a IH]; cbn [app]; intros H; [split; [constructor|exact H]|].
  inversion H as [|? ? Hn Hr]; subst. destruct (IH Hr) as [A B]. split; [|exact B].
  constructor; [intro Hin; apply Hn; apply in_or_app; left; exact Hin|exact A].
Qed.

Lemma NoDup_map_via {X Y Z} (f : X -> Y) (g : X -> Z) l :
  (forall a b, f a = f b -> g a = g b) -> NoDup (map g l) -> NoDup (map f l).
Proof.
  intros Hfg. induction l as [|x l IH]; cbn [map]; intros H; [constructor|].
  inversion H as [|? ? Hn Hr]; subst. constructor; [|apply IH; exact Hr].
  intros Hin. apply in_map_iff in Hin as [b [E Hb]]. apply Hn. rewrite <- (Hfg _ _ E). apply in_map. exact Hb.
Qed.

(* ---- the fold ------------------------------------------------------------------------------------------------- *)
Section Fold.
Variables (v n : nat) (cf : expr) (base : list ceq) (L0 : nat).
Hypothesis Hbase_lhs : forall q, In q base -> exists x, q_lhs q = CLV x /\ (x < L0)%nat.
Hypothesis Hbase_nd : NoDup (map q_lhs base).
Hypothesis Hvn : v <> n.

Definition Oeq (o : orec) : ceq := {| q_lhs := CLD (fst (fst o)) v; q_rhs := snd (fst o) |}.
Definition Weq (o : orec) : ceq := {| q_lhs := CLV (snd o); q_rhs := snd (fst o) |}.
Definition Deq (o : orec) : ceq := {| q_lhs := CLD (fst (fst o)) n; q_rhs := ediv (var (snd o)) cf |}.
Definition parts (rem done : list orec) : list ceq := base ++ map Oeq rem ++ map Weq done ++ map Deq done.

Lemma in_parts q rem done : In q (parts rem done) ->
  In q base \/ (exists o, In o rem /\ q = Oeq o) \/ (exists o, In o done /\ q = Weq o) \/ (exists o, In o done /\ q = Deq o).
Proof.
  unfold parts. intros H. apply in_app_or in H as [H|H]; [left; exact H|right].
  apply in_app_or in H as [H|H]; [left; apply in_map_iff in H as [o [E Ho]]; exists o; split; [exact Ho|symmetry; exact E]|right].
  apply in_app_or in H as [H|H]; [left|right]; apply in_map_iff in H as [o [E Ho]]; exists o; (split; [exact Ho|symmetry; exact E]).
Qed.

Lemma parts_nodup rem done :
  NoDup (ys_of rem ++ ys_of done) -> ws_of done = seq L0 (length done) -> NoDup (map q_lhs (parts rem done)).
Proof.
  intros Hys Hws. unfold parts. rewrite !map_app, !map_map.
  destruct (NoDup_app_parts _ _ Hys) as [Hyr Hyd].
  apply NoDup_app_join_lhs; [exact Hbase_nd| |].
  - apply NoDup_app_join_lhs.
    + (* CLD y v, y in rem *)
      apply (NoDup_map_via _ (fun o : orec => fst (fst o))); [intros a b E; cbn [Oeq q_lhs] in E; congruence|exact Hyr].
    + apply NoDup_app_join_lhs.
      * apply (NoDup_map_via _ (fun o : orec => snd o)); [intros a b E; cbn [Weq q_lhs] in E; congruence|].
        change (NoDup (ws_of done)). rewrite Hws. apply seq_NoDup.
      * apply (NoDup_map_via _ (fun o : orec => fst (fst o))); [intros a b E; cbn [Deq q_lhs] in E; congruence|exact Hyd].
      * intros x Hx Hx'. apply in_map_iff in Hx as [o [<- _]]. apply in_map_iff in Hx' as [o' [E _]]. discriminate.
    + intros x Hx Hx'. apply in_map_iff in Hx as [o [<- Ho]]. apply in_app_or in Hx' as [Hx'|Hx'];
        apply in_map_iff in Hx' as [o' [E Ho']]; cbn [Oeq Weq Deq q_lhs] in E; [discriminate|].
      injection E as E1 E2. congruence.
  - intros x Hx Hx'. apply in_map_iff in Hx as [q [<- Hq]]. destruct (Hbase_lhs q Hq) as [x0 [E _]]. rewrite E in Hx'.
    apply in_app_or in Hx' as [Hx'|Hx']; [apply in_map_iff in Hx' as [o [E' _]]; discriminate|].
    apply in_app_or in Hx' as [Hx'|Hx']; [|apply in_map_iff in Hx' as [o [E' _]]; discriminate].
    apply in_map_iff in Hx' as [o [E' Ho]]. cbn [Weq q_lhs] in E'. injection E' as E'.
    destruct (Hbase_lhs q Hq) as [x1 [E1 Hlt]]. rewrite E in E1. injection E1 as <-.
    assert (In (snd o) (ws_of done)) by (unfold ws_of; apply in_map; exact Ho). rewrite Hws in H. apply in_seq in H. lia.
Qed.

Lemma ode_def_some st y ode : ode_def st y = Some ode -> In ode (ceqs st) /\ exists t', q_lhs ode = CLD y t'.
Proof.
  unfold ode_def. intros H. apply find_some in H as [Hin Hk]. split; [exact Hin|].
  destruct (q_lhs ode) as [x|x t']; [discriminate|]. apply Nat.eqb_eq in Hk. subst x. exists t'. reflexivity.
Qed.

Lemma ode_def_none st y q t' : ode_def st y = None -> In q (ceqs st) -> q_lhs q <> CLD y t'.
Proof.
  unfold ode_def. intros H Hin E. pose proof (find_none _ _ H q Hin) as Hk. cbn beta in Hk. rewrite E in Hk.
  rewrite Nat.eqb_refl in Hk. discriminate.
Qed.

Definition yR (o : orec) : nat * expr := fst o.

Lemma fold_free ks : forall st rp rem done,
  NoDup ks ->
  Permutation (ceqs st) (parts rem done) ->
  rp = subst_map done v ->
  length (cvars st) = (L0 + length done)%nat ->
  ws_of done = seq L0 (length done) ->
  NoDup (ys_of rem ++ ys_of done) ->
  (forall o, In o rem -> In (fst (fst o)) ks) ->
  (forall o, In o done -> ~ In (fst (fst o)) ks) ->
  exists done',
    Permutation (ceqs (fst (fold_left (free_step v n cf) ks (st, rp)))) (parts [] done') /\
    snd (fold_left (free_step v n cf) ks (st, rp)) = subst_map done' v /\
    ws_of done' = seq L0 (length done') /\
    Permutation (map yR done') (map yR (rem ++ done)) /\
    NoDup (ys_of done').
Proof.
  induction ks as [|k ks IH]; intros st rp rem done Hks Hp Hrp Hlen Hws Hys Hrem Hdone.
  - destruct rem as [|o rem]; [|exfalso; apply (Hrem o); left; reflexivity].
    exists done. cbn [fold_left fst snd app]. repeat split; [exact Hp|exact Hrp|exact Hws|reflexivity|exact Hys].
  - apply NoDup_cons_iff in Hks as [Hk Hks']. cbn [fold_left].
    assert (Hnd : NoDup (map q_lhs (ceqs st))).
    { apply (Permutation_NoDup (l := map q_lhs (parts rem done))); [apply Permutation_map; apply Permutation_sym; exact Hp|].
      apply parts_nodup; assumption. }
    destruct (ode_def st k) as [ode|] eqn:Ho.
    + destruct (ode_def_some st k ode Ho) as [Hin [t' Hl]].
      assert (Hin' : In ode (parts rem done)) by (apply (Permutation_in ode Hp); exact Hin).
      destruct (in_parts ode rem done Hin') as [Hb|[[o [Hor E]]|[[o [Hod E]]|[o [Hod E]]]]].
      * exfalso. destruct (Hbase_lhs ode Hb) as [x [E _]]. congruence.
      * (* the ODE of state k *)
        assert (Hyk : fst (fst o) = k /\ t' = v) by (rewrite E in Hl; cbn [Oeq q_lhs] in Hl; injection Hl as A B; split; congruence).
        destruct Hyk as [Hyk ->].
        destruct (in_split o rem Hor) as [r1 [r2 Hsplit]].
        set (w := length (cvars st)).
        set (o' := (k, snd (fst o), w) : orec).
        set (st' := {| cvars := cvars st ++ [{| c_name := unique_name (S (length (cvars st))) st
                                                (match nth_error (cvars st) k with Some c => c_name c | None => [] end ++ [95; 111; 114; 105; 103; 95; 100; 101; 114; 105; 118]%Z);
                                                c_unit := udiv (match nth_error (cvars st) k with Some c => c_unit c | None => [] end)
                                                               (match nth_error (cvars st) v with Some c => c_unit c | None => [] end);
                                                c_init := None; c_cmeta := None |}];
                       ceqs := (remove_eq (ceqs st) (q_lhs ode) ++ [{| q_lhs := CLV w; q_rhs := q_rhs ode |}])
                               ++ [{| q_lhs := CLD k n; q_rhs := ediv (var w) cf |}];
                       cunits := cunits st; cqnext := cqnext st |}).
        assert (Estep : free_step v n cf (st, rp) k = (st', rp ++ [((k, v), w)])).
        { unfold free_step. rewrite Ho, Hl, Nat.eqb_refl. reflexivity. }
        rewrite Estep.
        destruct (IH st' (rp ++ [((k, v), w)]) (r1 ++ r2) (done ++ [o'])) as [done' [A [B [C [D F]]]]].
        -- exact Hks'.
        -- (* the equations *)
           cbn [ceqs st'].
           assert (Hrm : Permutation (remove_eq (ceqs st) (q_lhs ode)) (parts (r1 ++ r2) done)).
           { apply (Permutation_cons_inv (a := ode)). etransitivity; [apply Permutation_sym; apply (remove_eq_perm _ _ Hnd Hin)|].
             etransitivity; [exact Hp|]. rewrite Hsplit, E. unfold parts. rewrite !map_app. cbn [map].
             rewrite <- !app_assoc. cbn [app].
             etransitivity; [apply Permutation_app_head; apply Permutation_sym; apply Permutation_middle|].
             apply Permutation_sym. apply Permutation_middle. }
           etransitivity; [apply Permutation_app_tail; apply Permutation_app_tail; exact Hrm|].
           unfold parts. rewrite !map_app. cbn [map]. rewrite <- !app_assoc. cbn [app].
           apply Permutation_app_head. apply Permutation_app_head. apply Permutation_app_head.
           replace {| q_lhs := CLV w; q_rhs := q_rhs ode |} with (Weq o') by (rewrite E; reflexivity).
           change {| q_lhs := CLD k n; q_rhs := ediv (var w) cf |} with (Deq o').
           apply Permutation_app_head. apply (Permutation_app_swap_app (map Deq done) [Weq o'] [Deq o']).
        -- rewrite Hrp. unfold subst_map. rewrite map_app. reflexivity.
        -- cbn [cvars st']. rewrite !app_length. cbn [length]. lia.
        -- assert (Ews : ws_of (done ++ [o']) = ws_of done ++ [w]) by (unfold ws_of; rewrite map_app; reflexivity).
           rewrite Ews, Hws, app_length. cbn [length].
           replace (length done + 1)%nat with (S (length done)) by lia. rewrite seq_S. unfold w. rewrite Hlen. reflexivity.
        -- apply (Permutation_NoDup (l := ys_of rem ++ ys_of done)); [|exact Hys].
           rewrite Hsplit. unfold ys_of. rewrite !map_app. cbn [map fst o']. rewrite Hyk. rewrite <- !app_assoc. cbn [app].
           apply Permutation_app_head.
           rewrite app_assoc. apply Permutation_cons_append.
        -- intros o2 Ho2. assert (Hin2 : In o2 rem) by (rewrite Hsplit; apply in_app_or in Ho2 as [H|H]; apply in_or_app; [left|right; right]; exact H).
           destruct (Hrem o2 Hin2) as [Ek|Hk2]; [|exact Hk2]. exfalso.
           (* two different positions of rem with the same state: contradicts NoDup *)
           rewrite Hsplit in Hys. unfold ys_of in Hys. rewrite !map_app in Hys. cbn [map] in Hys. rewrite <- app_assoc in Hys.
           apply NoDup_remove_2 in Hys. apply Hys. rewrite Hyk, Ek.
           apply in_app_or in Ho2 as [H|H]; apply in_or_app; [left|right; apply in_or_app; left];
             apply (in_map (fun o : orec => fst (fst o))) in H; exact H.
        -- intros o2 Ho2 Hk2. apply in_app_or in Ho2 as [H|[<-|[]]].
           ++ apply (Hdone o2 H). right. exact Hk2.
           ++ cbn [fst o'] in Hk2. contradiction.
        -- exists done'. split; [exact A|]. split; [exact B|]. split; [exact C|]. split; [|exact F].
           etransitivity; [exact D|]. rewrite Hsplit, !map_app. cbn [map]. rewrite <- !app_assoc. cbn [app].
           apply Permutation_app_head.
           assert (Eo : yR o' = yR o) by (unfold yR, o'; cbn [fst]; rewrite <- Hyk; destruct o as [[a0 b0] c0]; reflexivity).
           rewrite Eo. rewrite app_assoc. apply Permutation_sym. apply Permutation_cons_append.
      * exfalso. rewrite E in Hl. discriminate.
      * exfalso. rewrite E in Hl. cbn [Deq q_lhs] in Hl. injection Hl as A _. apply (Hdone o Hod). left. symmetry. exact A.
    + (* no ODE for k: no remaining record has state k *)
      assert (Estep : free_step v n cf (st, rp) k = (st, rp)) by (unfold free_step; rewrite Ho; reflexivity).
      rewrite Estep.
      apply (IH st rp rem done); try assumption.
      * intros o Hor. destruct (Hrem o Hor) as [Ek|Hk2]; [|exact Hk2]. exfalso.
        apply (ode_def_none st k (Oeq o) v Ho).
        -- apply (Permutation_in _ (Permutation_sym Hp)). unfold parts. apply in_or_app. right. apply in_or_app. left. apply in_map. exact Hor.
        -- cbn [Oeq q_lhs]. rewrite Ek. reflexivity.
      * intros o Hod Hk2. apply (Hdone o Hod). right. exact Hk2.
Qed.

End Fold.

(* ---- the shape of convert_variable for an INPUT conversion of the free variable ---------------------------------- *)
Lemma convert_input_free_shape s v target mv s' n :
  convert_variable s v target DInput mv = COk (s', n) -> n <> v ->
  free_var s = Some v -> is_state s v = false -> var_def s v = None ->
  exists orig cfv cfq s1,
    nth_error (cvars s) v = Some orig /\ conv (c_unit orig) target = Some cfv /\
    vec_to_Q cfv = Some cfq /\ (0 < cfq)%Q /\ n = length (cvars s) /\
    ceqs s1 = ceqs s ++ [{| q_lhs := CLV v; q_rhs := ediv (var n) (EQty (cqnext s) cfq (Z.of_nat (length (cunits s)))) |}] /\
    length (cvars s1) = S (length (cvars s)) /\
    ceqs s' = replace_derivs
                (snd (fold_left (free_step v n (EQty (cqnext s) cfq (Z.of_nat (length (cunits s))))) (seq 0 (length (cvars s1))) (s1, [])))
                (ceqs (fst (fold_left (free_step v n (EQty (cqnext s) cfq (Z.of_nat (length (cunits s))))) (seq 0 (length (cvars s1))) (s1, [])))).
Proof.
  intros H Hnv Hfree Hst Hvd. unfold convert_variable in H.
  destruct (nth_error (cvars s) v) as [orig|] eqn:Ho; [|discriminate].
  destruct (conv (c_unit orig) target) as [cfv|] eqn:Hc; [|discriminate].
  destruct (is_one cfv) eqn:H1; [injection H as _ E; congruence|].
  destruct (vec_to_Q cfv) as [cfq|] eqn:Hq; [|discriminate].
  rewrite Hst, Hfree, Nat.eqb_refl in H.
  unfold var_def in Hvd, H. cbn [ceqs] in H. rewrite Hvd in H.
  match type of H with context [fold_left ?F ?L (?S1, [])] => set (s1 := S1) in * end.
  exists orig, cfv, cfq, s1.
  assert (Hlen : length (cvars s1) = S (length (cvars s))).
  { unfold s1. cbn [cvars]. rewrite set_var_length. destruct (match c_cmeta orig with Some _ => mv | None => false end);
      rewrite ?set_var_length, app_length; cbn [length]; lia. }
  match type of H with context [fold_left ?F ?L ?A] => destruct (fold_left F L A) as [s3 repl2] eqn:Er end.
  injection H as <- <-. cbn [cvars ceqs] in *. rewrite Er. cbn [fst snd].
  repeat split; try reflexivity; try assumption. apply (conv_factor_pos _ _ _ _ Hc Hq).
Qed.

Lemma lhs_nodupb_sound l : lhs_nodupb l = true -> NoDup l.
Proof.
  induction l as [|x r IH]; cbn [lhs_nodupb]; intros H; [constructor|].
  apply andb_true_iff in H as [H1 H2]. constructor; [|apply IH; exact H2].
  intros Hin. apply negb_true_iff in H1. assert (E : existsb (clhs_eqb x) r = true).
  { apply existsb_exists. exists x. split; [exact Hin|]. destruct x as [a|a b]; cbn [clhs_eqb]; rewrite ?Nat.eqb_refl; reflexivity. }
  congruence.
Qed.

(* ---- the premises of the free-variable theorem as one boolean (evaluated by the interpreter) ---------------------- *)
Lemma split_odes v l : (forall q y t, In q l -> q_lhs q = CLD y t -> t = v) ->
  Permutation l (filter (fun q => negb (is_ode q)) l ++ map (Oeq v) (odes_of l)).
Proof.
  intros H. induction l as [|q l IH]; [constructor|].
  assert (IH' : Permutation l (filter (fun q => negb (is_ode q)) l ++ map (Oeq v) (odes_of l))).
  { apply IH. intros q0 y t Hq0. apply H. right. exact Hq0. }
  cbn [filter odes_of flat_map]. unfold is_ode at 1. destruct (q_lhs q) as [x|y t] eqn:El; cbn [negb app map].
  - apply perm_skip. exact IH'.
  - assert (t = v) by (apply (H q y t); [left; reflexivity|exact El]). subst t.
    replace (Oeq v (y, q_rhs q, 0%nat)) with q by (unfold Oeq; cbn [fst snd]; rewrite <- El; destruct q; reflexivity).
    etransitivity; [apply perm_skip; exact IH'|]. apply Permutation_middle.
Qed.

Lemma Oeq_yR v (l1 l2 : list orec) : Permutation (map yR l1) (map yR l2) -> Permutation (map (Oeq v) l1) (map (Oeq v) l2).
Proof.
  intros H. replace (map (Oeq v) l1) with (map (fun p : nat * expr => {| q_lhs := CLD (fst p) v; q_rhs := snd p |}) (map yR l1))
    by (rewrite map_map; reflexivity).
  replace (map (Oeq v) l2) with (map (fun p : nat * expr => {| q_lhs := CLD (fst p) v; q_rhs := snd p |}) (map yR l2))
    by (rewrite map_map; reflexivity).
  apply Permutation_map. exact H.
Qed.

Lemma ys_yR (l1 l2 : list orec) : Permutation (map yR l1) (map yR l2) -> Permutation (ys_of l1) (ys_of l2).
Proof.
  intros H. replace (ys_of l1) with (map fst (map yR l1)) by (unfold ys_of; rewrite map_map; reflexivity).
  replace (ys_of l2) with (map fst (map yR l2)) by (unfold ys_of; rewrite map_map; reflexivity).
  apply Permutation_map. exact H.
Qed.

(* the result of convert_variable, up to the order of the equations, is the specification-level system *)
Theorem convert_input_free_refines s v target mv s' n :
  convert_variable s v target DInput mv = COk (s', n) -> n <> v ->
  free_var s = Some v -> is_state s v = false -> var_def s v = None -> free_ok s v = true ->
  exists cfq os,
    (0 < cfq)%Q /\ n = length (cvars s) /\
    let cf := EQty (cqnext s) cfq (Z.of_nat (length (cunits s))) in
    let plain := filter (fun q => negb (is_ode q)) (ceqs s) in
    Permutation (ceqs s) (orig_system plain os v) /\
    Permutation (ceqs s') (free_system plain os v n cf) /\
    ws_of os = seq (S (length (cvars s))) (length os) /\ NoDup (ys_of os) /\
    Permutation (ys_of os) (ys_of (odes_of (ceqs s))) /\ length os = length (odes_of (ceqs s)).
Proof.
  intros H Hnv Hfree Hst Hvd Hok.
  destruct (convert_input_free_shape s v target mv s' n H Hnv Hfree Hst Hvd)
    as [orig [cfv [cfq [s1 [Ho [Hc [Hvq [Hpos [Hn [Hs1 [Hlen Hs']]]]]]]]]]].
  set (cf := EQty (cqnext s) cfq (Z.of_nat (length (cunits s)))) in *.
  set (N := length (cvars s)) in *.
  unfold free_ok in Hok. fold N in Hok.
  apply andb_true_iff in Hok as [Hok Hfresh]. apply andb_true_iff in Hok as [Hok HvN]. apply andb_true_iff in Hok as [Hnd Hsc].
  apply lhs_nodupb_sound in Hnd. apply Nat.ltb_lt in HvN. rewrite forallb_forall in Hsc.
  set (plain := filter (fun q => negb (is_ode q)) (ceqs s)).
  set (rem := odes_of (ceqs s)) in *.
  set (veq := {| q_lhs := CLV v; q_rhs := ediv (var n) cf |}) in *.
  set (base := plain ++ [veq]).
  assert (Hwrt : forall q y t, In q (ceqs s) -> q_lhs q = CLD y t -> t = v).
  { intros q y t Hq El. specialize (Hsc q Hq). rewrite El in Hsc. apply andb_true_iff in Hsc as [A _]. apply Nat.eqb_eq in A. exact A. }
  pose proof (split_odes v (ceqs s) Hwrt) as Hsplit. fold plain rem in Hsplit.
  (* facts about base *)
  assert (Hplain_lhs : forall q, In q plain -> exists x, q_lhs q = CLV x /\ (x < N)%nat).
  { intros q Hq. unfold plain in Hq. apply filter_In in Hq as [Hq Hno]. unfold is_ode in Hno. specialize (Hsc q Hq).
    destruct (q_lhs q) as [x|y t]; [|discriminate]. exists x. split; [reflexivity|apply Nat.ltb_lt; exact Hsc]. }
  assert (Hbase_lhs : forall q, In q base -> exists x, q_lhs q = CLV x /\ (x < S N)%nat).
  { intros q Hq. unfold base in Hq. apply in_app_or in Hq as [Hq|[<-|[]]].
    - destruct (Hplain_lhs q Hq) as [x [E Hx]]. exists x. split; [exact E|lia].
    - exists v. split; [reflexivity|lia]. }
  assert (Hnd_split : NoDup (map q_lhs (plain ++ map (Oeq v) rem))).
  { apply (Permutation_NoDup (l := map q_lhs (ceqs s))); [apply Permutation_map; exact Hsplit|exact Hnd]. }
  rewrite map_app in Hnd_split. destruct (NoDup_app_parts _ _ Hnd_split) as [Hnd_plain Hnd_odes].
  assert (Hbase_nd : NoDup (map q_lhs base)).
  { unfold base. rewrite map_app. apply NoDup_app_join_lhs; [exact Hnd_plain|cbn [map]; repeat constructor; intros []|].
    intros x Hx [<-|[]]. apply in_map_iff in Hx as [q [E Hq]]. unfold plain in Hq. apply filter_In in Hq as [Hq _].
    unfold var_def in Hvd. pose proof (find_none _ _ Hvd q Hq) as Hk. cbn beta in Hk. rewrite E in Hk. unfold veq in Hk. cbn [q_lhs clhs_eqb] in Hk.
    rewrite Nat.eqb_refl in Hk. discriminate. }
  assert (Hys_rem : NoDup (ys_of rem)).
  { rewrite map_map in Hnd_odes. cbn [Oeq q_lhs] in Hnd_odes.
    apply (NoDup_map_via (fun o : orec => fst (fst o)) (fun o : orec => CLD (fst (fst o)) v)); [intros a b E; congruence|exact Hnd_odes]. }
  assert (Hvn : v <> n) by congruence.
  (* the fold *)
  destruct (fold_free v n cf base (S N) Hbase_lhs Hbase_nd Hvn (seq 0 (length (cvars s1))) s1 [] rem [])
    as [os [A [B [C [D F]]]]].
  - apply seq_NoDup.
  - rewrite Hs1. unfold parts, base. cbn [map app]. rewrite app_nil_r. fold veq.
    etransitivity; [apply Permutation_app_tail; exact Hsplit|]. rewrite <- !app_assoc.
    apply Permutation_app_head. apply Permutation_app_comm.
  - reflexivity.
  - rewrite Hlen. cbn [length]. lia.
  - reflexivity.
  - cbn [ys_of map]. rewrite app_nil_r. exact Hys_rem.
  - intros o Hor. apply in_seq. rewrite Hlen. split; [lia|]. cbn [plus].
    unfold rem, odes_of in Hor. apply in_flat_map in Hor as [q [Hq Hor]]. specialize (Hsc q Hq).
    destruct (q_lhs q) as [x|y t]; [contradiction|]. destruct Hor as [<-|[]]. cbn [fst].
    apply andb_true_iff in Hsc as [_ Hy]. apply Nat.ltb_lt in Hy. fold N. lia.
  - intros o [].
  - (* assembling *)
    rewrite app_nil_r in D.
    exists cfq, os. split; [exact Hpos|]. split; [exact Hn|]. cbn zeta. fold cf plain.
    assert (Horig : Permutation (ceqs s) (orig_system plain os v)).
    { etransitivity; [exact Hsplit|]. unfold orig_system. apply Permutation_app_head.
      change (map (fun o : orec => {| q_lhs := CLD (fst (fst o)) v; q_rhs := snd (fst o) |}) os) with (map (Oeq v) os).
      apply Oeq_yR. apply Permutation_sym. exact D. }
    split; [exact Horig|]. split; [|split; [exact C|split; [exact F|split]]].
    + rewrite Hs'. set (r := fold_left (free_step v n cf) (seq 0 (length (cvars s1))) (s1, [])) in *.
      assert (Hnd3 : NoDup (map q_lhs (ceqs (fst r)))).
      { apply (Permutation_NoDup (l := map q_lhs (parts v n cf base [] os))); [apply Permutation_map; apply Permutation_sym; exact A|].
        apply (parts_nodup v n cf base (S N) Hbase_lhs Hbase_nd Hvn); [cbn [ys_of map app]; exact F|exact C]. }
      etransitivity; [apply (replace_derivs_perm (snd r) (ceqs (fst r)) Hnd3)|].
      etransitivity; [apply replaced_perm_map|].
      etransitivity; [apply Permutation_map; exact A|].
      rewrite B. unfold parts, base, free_system. cbn [map app]. rewrite !map_app. cbn [map]. rewrite <- !app_assoc. cbn [app].
      apply Permutation_refl'. f_equal.
      assert (Ev : sub (subst_map os v) veq = veq) by (unfold veq, cf; reflexivity). rewrite Ev. f_equal.
      rewrite !map_map. f_equal; apply map_ext; intros o; unfold cf; reflexivity.
    + apply ys_yR. exact D.
    + apply Permutation_length in D. rewrite !map_length in D. exact D.
Qed.
