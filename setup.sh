#!/bin/bash
# Build the framework from files on disk only: translators -> coq/Gen, full .vo build, extraction, OCaml driver.
# Fails if anything a claimed check needs (its Props file, the extraction) does not build.
cd "$(dirname "$0")"
# always a clean build: stale .vo files (copied sandboxes, interrupted edits) make Coq report inconsistent assumptions
find coq -name "*.vo" -o -name "*.vok" -o -name "*.vos" -o -name "*.glob" -o -name ".*.aux" | xargs rm -f
export PYTHONPATH=/repo:/verif/tools PYTHONHASHSEED=0 PYTHONDONTWRITEBYTECODE=1
/venv/bin/python -W ignore - <<'PY'
import json, os, sys, vlib
log = []
r = vlib.build_all(log)
print('\n'.join(log))
claimed = [c['property_id'] for c in json.load(open(os.path.join(vlib.VERIF, 'MANIFEST.json')))['checks']]
bad = [s for s in r['missing_vo'] if s.startswith('Props/') and s[6:-2] in claimed]
bad += [s for s in r['missing_vo'] if s.startswith('Extract/')]
if r['missing_vo']:
    print('not built:', r['missing_vo'])
if bad or not r['extract_ok'] or r['translators']:
    print(r['make_log'][-3000:]); print('FAILED:', bad, 'extract_ok:', r['extract_ok'], 'translators:', r['translators'])
    sys.exit(1)
print('setup ok (claimed: %s)' % ' '.join(claimed))
PY
