#!/bin/bash
# Build the framework from files on disk only: translators -> coq/Gen, full .vo build, extraction, OCaml driver.
cd "$(dirname "$0")"
export PYTHONPATH=/repo:/verif/tools PYTHONHASHSEED=0 PYTHONDONTWRITEBYTECODE=1
/venv/bin/python -W ignore - <<'PY'
import sys, vlib
log = []
r = vlib.build_all(log)
print('\n'.join(log))
if r['make_rc'] != 0 or r['missing_vo'] or not r['extract_ok'] or r['translators']:
    print(r['make_log'][-3000:]); print('missing:', r['missing_vo'], 'translators:', r['translators'])
    sys.exit(1)
print('setup ok')
PY
