"""Shared harness for the /verif checks (see DESIGN.md sections 2 and 4).

Everything here runs under /venv/bin/python with PYTHONPATH=/repo (set by ./check).
"""
import fcntl
import glob
import hashlib
import json
import os
import random
import re
import signal
import subprocess
import sys
import time
import traceback
from fractions import Fraction

VERIF = os.path.dirname(os.path.dirname(os.path.abspath(__file__)))
COQ = os.path.join(VERIF, 'coq')
BUILD = os.path.join(VERIF, 'build')
REPO = os.environ.get('VERIF_REPO', '/repo')
DRIVER = os.path.join(BUILD, 'modeldrv')
NPROC = int(os.environ.get('VERIF_JOBS', '14'))


# --------------------------------------------------------------------------------------------
# s-expressions
def sexp_dumps(x):
    if isinstance(x, bool):
        return '1' if x else '0'
    if isinstance(x, int):
        return str(x)
    if isinstance(x, Fraction):
        return '(%d %d)' % (x.numerator, x.denominator)
    if x is None:
        return '()'
    if isinstance(x, str):
        return '(' + ' '.join(str(ord(c)) for c in x) + ')'
    if isinstance(x, (list, tuple)):
        return '(' + ' '.join(sexp_dumps(y) for y in x) + ')'
    raise TypeError('cannot encode %r' % (x,))


_TOK = re.compile(r'\(|\)|-?\d+')


def sexp_loads(s):
    stack = [[]]
    for t in _TOK.findall(s):
        if t == '(':
            stack.append([])
        elif t == ')':
            top = stack.pop()
            stack[-1].append(top)
        else:
            stack[-1].append(int(t))
    assert len(stack) == 1 and len(stack[0]) == 1, 'bad sexp: %r' % s[:200]
    return stack[0][0]


def sexp_str(x):
    """decode a list of character codes"""
    return ''.join(chr(c) for c in x)


def model_run(fn, args):
    """Run the extracted model: fn (int), args (list of python sexp values) -> list of results."""
    if not args:
        return []
    if not os.path.exists(DRIVER):
        raise RuntimeError('extracted model driver missing')
    inp = '\n'.join('%d %s' % (fn, sexp_dumps(a)) for a in args) + '\n'
    p = subprocess.run(['bash', '-c', 'ulimit -s unlimited 2>/dev/null; exec "$0"', DRIVER],
                       input=inp, capture_output=True, text=True, timeout=1800)
    lines = p.stdout.strip('\n').split('\n') if p.stdout.strip() else []
    if p.returncode != 0 or len(lines) != len(args):
        raise RuntimeError('model driver failed rc=%s out=%d/%d err=%s' % (
            p.returncode, len(lines), len(args), p.stderr[-500:]))
    return [sexp_loads(l) for l in lines]


# --------------------------------------------------------------------------------------------
# build: translate, make, extract
def _sh(cmd, cwd=None, timeout=1800, env=None):
    t0 = time.time()
    try:
        p = subprocess.run(cmd, shell=True, cwd=cwd, capture_output=True, text=True, timeout=timeout, env=env)
        return p.returncode, p.stdout + p.stderr, time.time() - t0
    except subprocess.TimeoutExpired as e:
        return 124, 'TIMEOUT after %ss: %s' % (timeout, cmd), time.time() - t0


def coq_sources():
    out = []
    for d in ['Bridge', 'Units', 'Syntax', 'Sem', 'Gen', 'Model', 'Proofs', 'Props', 'Extract']:
        out += sorted(glob.glob(os.path.join(COQ, d, '*.v')))
    return [os.path.relpath(p, COQ) for p in out]


def run_translators(log):
    """Regenerate coq/Gen/*.v from /repo.  Returns dict name -> error string for broken ones."""
    broken = {}
    tdir = os.path.join(VERIF, 'tools')
    for path in sorted(glob.glob(os.path.join(tdir, 'translate_*.py'))):
        name = os.path.basename(path)[len('translate_'):-3]
        rc, out, _ = _sh('%s %s' % (sys.executable, path), cwd=VERIF, timeout=120)
        log.append('[translate %s] rc=%d %s' % (name, rc, out.strip()[-400:]))
        if rc != 0:
            broken[name] = out.strip()[-2000:]
    return broken


def write_if_changed(path, text):
    try:
        if open(path).read() == text:
            return False
    except OSError:
        pass
    os.makedirs(os.path.dirname(path), exist_ok=True)
    with open(path + '.tmp', 'w') as f:
        f.write(text)
    os.replace(path + '.tmp', path)
    return True


def build_all(log, need_extract=True):
    """Stages A-C of the pipeline under a lock.  Returns a dict describing what broke."""
    os.makedirs(BUILD, exist_ok=True)
    res = {'translators': {}, 'make_rc': 0, 'missing_vo': [], 'extract_ok': True, 'make_log': ''}
    with open(os.path.join(BUILD, '.lock'), 'w') as lock:
        fcntl.flock(lock, fcntl.LOCK_EX)
        res['translators'] = run_translators(log)
        srcs = coq_sources()
        listing = '\n'.join(srcs)
        lst = os.path.join(BUILD, 'sources.lst')
        if write_if_changed(lst, listing) or not os.path.exists(os.path.join(COQ, 'Makefile')):
            rc, out, _ = _sh('coq_makefile -f _CoqProject -o Makefile ' + ' '.join(srcs), cwd=COQ)
            log.append('[coq_makefile] rc=%d %s' % (rc, out[-300:]))
        rc, out, dt = _sh('timeout 3000 make -k -j%d 2>&1' % NPROC, cwd=COQ, timeout=3100)
        res['make_rc'] = rc
        res['make_log'] = out[-6000:]
        log.append('[make] rc=%d %.1fs' % (rc, dt))
        for s in srcs:
            vo = os.path.join(COQ, s[:-2] + '.vo')
            if not os.path.exists(vo) or os.path.getmtime(vo) < os.path.getmtime(os.path.join(COQ, s)):
                res['missing_vo'].append(s)
        if need_extract:
            ml = os.path.join(BUILD, 'model.ml')
            if not os.path.exists(ml):
                res['extract_ok'] = False
            elif (not os.path.exists(DRIVER) or os.path.getmtime(DRIVER) < os.path.getmtime(ml)
                  or os.path.getmtime(DRIVER) < os.path.getmtime(os.path.join(VERIF, 'extract', 'driver.ml'))):
                rc, out, dt = _sh('cp %s/extract/driver.ml %s/driver.ml && ocamlfind ocamlopt -O3 -w -a -o modeldrv.new '
                                  'model.mli model.ml driver.ml 2>&1 || ocamlfind ocamlopt -w -a -o modeldrv.new '
                                  'model.mli model.ml driver.ml 2>&1; mv modeldrv.new modeldrv' % (VERIF, BUILD),
                                  cwd=BUILD, timeout=900)
                log.append('[ocaml] rc=%d %.1fs %s' % (rc, dt, out[-500:]))
                if rc != 0 or not os.path.exists(DRIVER):
                    res['extract_ok'] = False
    return res


def props_check(prop, log):
    """Re-compile coq/Props/<prop>.v, return (theorem names, ok, assumptions per theorem, output)."""
    src = os.path.join(COQ, 'Props', prop + '.v')
    names = re.findall(r'^\s*Theorem\s+([A-Za-z0-9_\']+)', open(src).read(), re.M)
    args = open(os.path.join(COQ, '_CoqProject')).read().split()
    outdir = os.path.join(BUILD, 'props')
    os.makedirs(outdir, exist_ok=True)
    cmd = 'timeout 900 coqc %s Props/%s.v -o %s/%s.vo 2>&1' % (' '.join(args), prop, outdir, prop)
    rc, out, dt = _sh(cmd, cwd=COQ, timeout=1000)
    log.append('[coqc Props/%s.v] rc=%d %.1fs' % (prop, rc, dt))
    assumptions = {}
    # coqc prints, per Print Assumptions: "Closed under the global context" or "Axioms:" + lines
    blocks = re.split(r'(?=Closed under the global context|Axioms:)', out)
    blocks = [b for b in blocks if b.startswith('Closed') or b.startswith('Axioms:')]
    for n, b in zip(names, blocks):
        if b.startswith('Closed'):
            assumptions[n] = []
        else:
            assumptions[n] = sorted(set(re.findall(r'^([A-Za-z_][A-Za-z0-9_.\']*)\s*:', b, re.M)))
    return names, rc == 0, assumptions, out, cmd


FORBIDDEN = re.compile(r'\b(Admitted|admit|Axiom|Parameter|Conjecture|Unset Guard|bypass_check|Admit Obligations)\b')


def forbidden_words():
    hits = []
    for s in coq_sources():
        for i, line in enumerate(open(os.path.join(COQ, s)), 1):
            code = re.sub(r'\(\*.*?\*\)', '', line)
            if FORBIDDEN.search(code):
                hits.append('%s:%d: %s' % (s, i, line.strip()))
    return hits


# --------------------------------------------------------------------------------------------
# known findings
def load_known(prop):
    out = []
    path = os.path.join(VERIF, 'KNOWN_FINDINGS.txt')
    if not os.path.exists(path):
        return out
    for line in open(path):
        line = line.strip()
        if not line.startswith('known:'):
            continue
        m = re.match(r'known:\s+property=(\S+)\s+id=(\S+)\s+where=(\S+)\s+(.*)', line)
        if m and m.group(1) == prop:
            out.append({'id': m.group(2), 'where': m.group(3), 'what': m.group(4)})
    return out


# --------------------------------------------------------------------------------------------
class Timeout(Exception):
    pass


def with_alarm(seconds, fn, *a):
    def handler(signum, frame):
        raise Timeout()
    old = signal.signal(signal.SIGALRM, handler)
    signal.alarm(seconds)
    try:
        return fn(*a)
    finally:
        signal.alarm(0)
        signal.signal(signal.SIGALRM, old)


def err_class(e):
    """Map an exception to a small enum (canonicalisation for diffing)."""
    import cellmlmanip.units as U
    if isinstance(e, U.UnitError):
        return 'UnitError:' + type(e).__name__
    mod = type(e).__module__ or ''
    if mod.startswith('pint'):
        return 'pint:' + type(e).__name__
    for c in (AssertionError, KeyError, ValueError, TypeError, AttributeError, RecursionError,
              ZeroDivisionError, IndexError, NotImplementedError):
        if isinstance(e, c):
            return c.__name__
    return 'Other:' + type(e).__name__


class Ctx(object):
    """One run of one check."""

    def __init__(self, prop, tier, seed):
        self.prop = prop
        self.tier = tier
        self.seed = seed
        self.t0 = time.time()
        self.log = []
        self.violations = []      # (what, case)
        self.known_hits = {}      # id -> (what, case)
        self.tie_breaks = []      # (what, case or None)   proof / translator / correspondence breaks
        self.evaluations = 0
        self.nontrivial = set()
        self.samples = []
        self.hist = {}
        self.extra = {}
        self.known = load_known(prop)
        self.known_preds = {}
        self.obligations = []
        self.discharged = 0
        self.assumptions = {}
        self.checker_cmd = ''
        self.build = None
        self.rule = ''
        self.corr_cases = 0
        self.trusted = []
        self.assume = []

    # ---- bookkeeping
    def rng(self, shard=0):
        return random.Random(self.seed * 1000003 + shard)

    def count(self, case_key=None, nontrivial=True, kind=None):
        self.evaluations += 1
        if nontrivial and case_key is not None:
            self.nontrivial.add(hashlib.sha1(repr(case_key).encode()).hexdigest()[:16])
        if kind is not None:
            self.hist[kind] = self.hist.get(kind, 0) + 1

    def sample(self, case):
        if len(self.samples) < 5:
            self.samples.append(case)

    def violation(self, what, case):
        """A concrete failing input on the implementation.  Attributed to a known finding only
        if that finding's predicate holds for the case."""
        for k in self.known:
            pred = self.known_preds.get(k['where'])
            try:
                if pred is not None and pred(case):
                    self.known_hits.setdefault(k['id'], (k, what, case))
                    return
            except Exception:
                pass
        if len(self.violations) < 50:
            self.violations.append((what, case))

    def tie_break(self, what, case=None):
        if len(self.tie_breaks) < 50:
            self.tie_breaks.append((what, case))

    # ---- stages A-C
    def do_build(self, gen_deps=()):
        self.build = build_all(self.log)
        b = self.build
        for name in gen_deps:
            if name in b['translators']:
                self.tie_break('translator %s failed on the current /repo source: %s'
                               % (name, b['translators'][name][-600:]))
        propsrc = 'Props/%s.v' % self.prop
        names, ok, assumptions, out, cmd = props_check(self.prop, self.log)
        self.obligations = names
        self.checker_cmd = 'cd /verif/coq && ' + cmd
        self.assumptions = assumptions
        if ok and propsrc not in b['missing_vo']:
            self.discharged = len(names)
        else:
            self.discharged = 0
            m = re.search(r'File "\./([^"]+)", line (\d+)[^\n]*\n(.*?)(?=\nFile |\Z)', out, re.S)
            where = ('%s line %s: %s' % (m.group(1), m.group(2), m.group(3).strip()[:600])) if m else out[-800:]
            self.tie_break('proof obligation no longer checks: coq/Props/%s.v (theorems %s) -- %s'
                           % (self.prop, ', '.join(names), where))
        if not b['extract_ok']:
            self.tie_break('extracted model could not be built (coq/Extract/Extract.v or OCaml): ' + b['make_log'][-600:])
        return self.build

    def proof_ok(self):
        return self.discharged == len(self.obligations) and self.discharged > 0

    def model_ok(self):
        return self.build is not None and self.build['extract_ok'] and os.path.exists(DRIVER)

    # ---- stage E/F
    def finish(self):
        wall = time.time() - self.t0
        os.makedirs(os.path.join(VERIF, 'evidence'), exist_ok=True)
        rdir = os.path.join(BUILD, 'replays')
        os.makedirs(rdir, exist_ok=True)
        lines = []
        code = 0
        for kid, (k, what, case) in sorted(self.known_hits.items()):
            lines.append('KNOWN-FINDING: property=%s id=%s %s' % (self.prop, kid, k['what']))
        if self.violations:
            what, case = self.violations[0]
            path = os.path.join(rdir, '%s-%s.json' % (self.prop, hashlib.sha1(
                json.dumps(case, sort_keys=True, default=str).encode()).hexdigest()[:10]))
            with open(path, 'w') as f:
                json.dump({'property': self.prop, 'kind': 'failing-input', 'what': what, 'case': case,
                           'others': [{'what': w, 'case': c} for w, c in self.violations[1:10]],
                           'tie_breaks': [w for w, _ in self.tie_breaks]}, f, indent=1, default=str)
            lines.append('VIOLATION property=%s replay=%s' % (self.prop, path))
            lines.append('  what: ' + what[:500])
            code = 1
        elif self.tie_breaks:
            what, case = self.tie_breaks[0]
            path = os.path.join(rdir, '%s-tie-%s.json' % (self.prop, hashlib.sha1(what.encode()).hexdigest()[:10]))
            with open(path, 'w') as f:
                json.dump({'property': self.prop, 'kind': 'no-failing-input-found',
                           'no_longer_checks': [w for w, _ in self.tie_breaks],
                           'disagreeing_case': case,
                           'other_cases': [c for _, c in self.tie_breaks[1:10]]}, f, indent=1, default=str)
            lines.append('VIOLATION property=%s replay=%s no-failing-input-found' % (self.prop, path))
            lines.append('  what: ' + what[:500])
            code = 1
        axioms = sorted({a for v in self.assumptions.values() for a in v})
        cov = {
            'obligations': len(self.obligations),
            'discharged': self.discharged,
            'checker_cmd': self.checker_cmd,
            'trusted_base': [
                'Coq 8.16.1 kernel and VM (vm_compute); no native_compute',
                'axioms reported by Print Assumptions: ' + (', '.join(axioms) if axioms else 'none (closed under the global context)'),
                'extraction (ExtrOcamlBasic only) + OCaml 4.13.1 + extract/driver.ml',
                'correspondence harness tools/vlib.py + tools/props/%s.py (differential testing)' % self.prop.lower(),
            ] + self.trusted,
            'theorems': self.obligations,
            'assumptions_per_theorem': self.assumptions,
            'evaluations': self.evaluations,
            'distinct_nontrivial': len(self.nontrivial),
            'rule': self.rule,
            'samples': self.samples if self.samples else ['(no cases run: build stage failed)'],
            'traces_validated_against_impl': self.corr_cases,
            'input_histogram': self.hist,
            'known_findings_hit': sorted(self.known_hits),
            'tie_breaks': [w for w, _ in self.tie_breaks][:10],
            'build_log': self.log[-12:],
        }
        cov.update(self.extra)
        ev = {
            'property_id': self.prop, 'tier': self.tier, 'seed': self.seed, 'level': 'proof',
            'coverage': cov, 'assumptions': self.assume, 'wall_s': round(wall, 2),
            'violations': len(self.violations) + (1 if (self.tie_breaks and not self.violations) else 0),
        }
        with open(os.path.join(VERIF, 'evidence', self.prop + '.json'), 'w') as f:
            json.dump(ev, f, indent=1, default=str)
        for l in lines:
            print(l)
        print('[%s %s] theorems %d/%d, cases %d (distinct non-trivial %d), correspondence cases %d, %.1fs -> %s'
              % (self.prop, self.tier, self.discharged, len(self.obligations), self.evaluations,
                 len(self.nontrivial), self.corr_cases, wall, 'FAIL' if code else 'ok'))
        return code


def pmap(fn, items, procs=None):
    """Parallel map in forked worker processes (each imports cellmlmanip from /repo)."""
    import multiprocessing as mp
    items = list(items)
    if not items:
        return []
    procs = min(procs or NPROC, len(items))
    if procs <= 1:
        return [fn(x) for x in items]
    ctxm = mp.get_context('fork')
    with ctxm.Pool(procs, maxtasksperchild=50) as pool:
        return pool.map(fn, items, chunksize=1)


def assert_repo_import():
    import cellmlmanip
    p = os.path.realpath(cellmlmanip.__file__)
    if not p.startswith(os.path.realpath(REPO) + os.sep):
        raise RuntimeError('cellmlmanip imported from %s, not from %s' % (p, REPO))
