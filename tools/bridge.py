"""SymPy <-> sexp trees (coq/Syntax/Expr.v) and an independent numeric evaluator.

tree encoding (nested python lists, see expr_of_sexp):
  [0,k,Fraction] number (k: 0 Integer, 1 Rational, 2 Float)   [1,c] constant (0 pi 1 E 2 oo 3 -oo 4 nan 5 zoo)
  [2,id,Fraction,u] Quantity      [3,v] Variable      [4,*args] Add     [5,*args] Mul     [6,b,e] Pow
  [7,f,*args] function            [8,y,t,n] Derivative [9,r,a,b] relation [10,op,*args] And/Or/Xor/Not
  [11] true   [12] false          [13,[e,c],...] Piecewise
"""
import math
from fractions import Fraction

import sympy

FN_IDS = {
    'exp': 0, 'log': 1, 'Abs': 2, 'floor': 3, 'ceiling': 4,
    'sin': 10, 'cos': 11, 'tan': 12, 'sec': 13, 'csc': 14, 'cot': 15,
    'sinh': 16, 'cosh': 17, 'tanh': 18, 'sech': 19, 'csch': 20, 'coth': 21,
    'asin': 22, 'acos': 23, 'atan': 24, 'asec': 25, 'acsc': 26, 'acot': 27,
    'asinh': 28, 'acosh': 29, 'atanh': 30, 'asech': 31, 'acsch': 32, 'acoth': 33,
    'Max': 40, 'Min': 41, 'Mod': 42, 'factorial': 43,
}
FN_NAMES = {v: k for k, v in FN_IDS.items()}
REL_IDS = {'Equality': 0, 'Unequality': 1, 'StrictLessThan': 2, 'LessThan': 3, 'StrictGreaterThan': 4,
           'GreaterThan': 5}
REL_CLASSES = {0: sympy.Eq, 1: sympy.Ne, 2: sympy.Lt, 3: sympy.Le, 4: sympy.Gt, 5: sympy.Ge}
BOOL_IDS = {'And': 0, 'Or': 1, 'Xor': 2, 'Not': 3}
BOOL_CLASSES = {0: sympy.And, 1: sympy.Or, 2: sympy.Xor, 3: sympy.Not}


class Unsupported(Exception):
    pass


def exact(x):
    r = sympy.Rational(x)
    return Fraction(int(r.p), int(r.q))


class Reifier(object):
    """var_index(variable) -> int, unit_index(unit or other) -> int; quantities are numbered by first occurrence"""

    def __init__(self, var_index, unit_index):
        self.var_index = var_index
        self.unit_index = unit_index
        self.qids = {}
        self.qobjs = []

    def qid(self, q):
        if id(q) not in self.qids:
            self.qids[id(q)] = len(self.qobjs)
            self.qobjs.append(q)
        return self.qids[id(q)]

    def reify(self, e):
        from cellmlmanip import model
        r = self.reify
        if isinstance(e, model.Quantity):
            return [2, self.qid(e), Fraction(float(e)), self.unit_index(e.units)]
        if isinstance(e, (model.Variable, sympy.Symbol)):
            return [3, self.var_index(e)]
        if e is sympy.true or e is True:
            return [11]
        if e is sympy.false or e is False:
            return [12]
        if e is sympy.pi:
            return [1, 0]
        if e is sympy.E:
            return [1, 1]
        if e is sympy.oo:
            return [1, 2]
        if e is sympy.S.NegativeInfinity:
            return [1, 3]
        if e is sympy.nan:
            return [1, 4]
        if e is sympy.zoo:
            return [1, 5]
        if e.is_Integer:
            return [0, 0, Fraction(int(e))]
        if e.is_Rational:
            return [0, 1, Fraction(int(e.p), int(e.q))]
        if e.is_Float:
            return [0, 2, exact(e)]
        if e.is_Add:
            return [4] + [r(a) for a in e.args]
        if e.is_Mul:
            return [5] + [r(a) for a in e.args]
        if e.is_Pow:
            return [6, r(e.args[0]), r(e.args[1])]
        if e.is_Derivative:
            if len(e.args) != 2:
                raise Unsupported('derivative %s' % e)
            return [8, r(e.args[0]), r(e.args[1][0]), int(e.args[1][1])]
        if e.is_Piecewise:
            return [13] + [[r(a[0]), r(a[1])] for a in e.args]
        if e.is_Relational:
            return [9, REL_IDS[type(e).__name__], r(e.args[0]), r(e.args[1])]
        name = type(e).__name__
        if name in BOOL_IDS:
            return [10, BOOL_IDS[name]] + [r(a) for a in e.args]
        if e.is_Function and name in FN_IDS:
            return [7, FN_IDS[name]] + [r(a) for a in e.args]
        raise Unsupported('%s: %s' % (name, e))


def reflect(t, variables, quantities, evaluate=False):
    """tree -> SymPy.  variables: list of sympy objects by index; quantities: callable (id, value, unit) -> object"""
    def r(x):
        return reflect(x, variables, quantities, evaluate)
    k = t[0]
    if k == 0:
        q = t[2]
        if t[1] == 0:
            return sympy.Integer(q.numerator)
        if t[1] == 1:
            return sympy.Rational(q.numerator, q.denominator)
        return sympy.Float(q.numerator / q.denominator)
    if k == 1:
        return [sympy.pi, sympy.E, sympy.oo, -sympy.oo, sympy.nan, sympy.zoo][t[1]]
    if k == 2:
        return quantities(t[1], t[2], t[3])
    if k == 3:
        return variables[t[1]]
    if k == 4:
        return sympy.Add(*[r(a) for a in t[1:]], evaluate=evaluate)
    if k == 5:
        return sympy.Mul(*[r(a) for a in t[1:]], evaluate=evaluate)
    if k == 6:
        return sympy.Pow(r(t[1]), r(t[2]), evaluate=evaluate)
    if k == 7:
        cls = getattr(sympy, FN_NAMES[t[1]])
        return cls(*[r(a) for a in t[2:]], evaluate=evaluate)
    if k == 8:
        return sympy.Derivative(r(t[1]), (r(t[2]), t[3]), evaluate=False)
    if k == 9:
        return REL_CLASSES[t[1]](r(t[2]), r(t[3]), evaluate=evaluate)
    if k == 10:
        return BOOL_CLASSES[t[1]](*[r(a) for a in t[2:]], evaluate=evaluate)
    if k == 11:
        return sympy.true
    if k == 12:
        return sympy.false
    if k == 13:
        return sympy.Piecewise(*[(r(a[0]), r(a[1])) for a in t[1:]], evaluate=evaluate)
    raise Unsupported(repr(t))


class Undefined(Exception):
    pass


def _fn(f, xs):
    name = FN_NAMES[f]
    x = xs[0] if xs else None
    m = math
    try:
        if name == 'exp':
            return m.exp(x)
        if name == 'log':
            if x <= 0:
                raise Undefined()
            return m.log(x)
        if name == 'Abs':
            return abs(x)
        if name == 'floor':
            return float(m.floor(x))
        if name == 'ceiling':
            return float(m.ceil(x))
        if name in ('sin', 'cos', 'tan', 'sinh', 'cosh', 'tanh', 'asin', 'acos', 'atan', 'asinh', 'acosh', 'atanh'):
            return getattr(m, name)(x)
        if name == 'sec':
            return 1 / m.cos(x)
        if name == 'csc':
            return 1 / m.sin(x)
        if name == 'cot':
            return 1 / m.tan(x)
        if name == 'sech':
            return 1 / m.cosh(x)
        if name == 'csch':
            return 1 / m.sinh(x)
        if name == 'coth':
            return 1 / m.tanh(x)
        if name == 'asec':
            return m.acos(1 / x)
        if name == 'acsc':
            return m.asin(1 / x)
        if name == 'acot':
            return m.atan(1 / x)
        if name == 'asech':
            return m.acosh(1 / x)
        if name == 'acsch':
            return m.asinh(1 / x)
        if name == 'acoth':
            return m.atanh(1 / x)
        if name == 'Max':
            return max(xs)
        if name == 'Min':
            return min(xs)
        if name == 'Mod':
            return xs[0] - m.floor(xs[0] / xs[1]) * xs[1]
        if name == 'factorial':
            return float(m.factorial(int(x)))
    except (ValueError, ZeroDivisionError, OverflowError):
        raise Undefined()
    raise Undefined()


def eval_tree(t, var, qty=None, deriv=None):
    """Numeric value (float or bool) of a tree.  var: index -> float; qty: (id, value, unit) -> float (default: value);
    deriv: (y, t) -> float.  Raises Undefined where the real-number reading has no value."""
    def ev(x):
        return eval_tree(x, var, qty, deriv)
    k = t[0]
    if k == 0:
        return float(t[2])
    if k == 1:
        if t[1] == 0:
            return math.pi
        if t[1] == 1:
            return math.e
        raise Undefined()
    if k == 2:
        return float(t[2]) if qty is None else qty(t[1], t[2], t[3])
    if k == 3:
        return var(t[1])
    if k == 4:
        return math.fsum(ev(a) for a in t[1:])
    if k == 5:
        p = 1.0
        for a in t[1:]:
            p *= ev(a)
        return p
    if k == 6:
        b, e = ev(t[1]), ev(t[2])
        try:
            if b > 0:
                return b ** e
            if e == int(e):
                if b == 0:
                    if e > 0:
                        return 0.0
                    if e == 0:
                        return 1.0
                    raise Undefined()
                return b ** int(e)
        except (OverflowError, ZeroDivisionError):
            raise Undefined()
        raise Undefined()
    if k == 7:
        return _fn(t[1], [ev(a) for a in t[2:]])
    if k == 8:
        if deriv is None or t[1][0] != 3 or t[2][0] != 3 or t[3] != 1:
            raise Undefined()
        return deriv(t[1][1], t[2][1])
    if k == 9:
        a, b = ev(t[2]), ev(t[3])
        return [a == b, a != b, a < b, a <= b, a > b, a >= b][t[1]]
    if k == 10:
        bs = [ev(a) for a in t[2:]]
        if t[1] == 0:
            return all(bs)
        if t[1] == 1:
            return any(bs)
        if t[1] == 2:
            return sum(1 for b in bs if b) % 2 == 1
        return not bs[0]
    if k == 11:
        return True
    if k == 12:
        return False
    if k == 13:
        for e, c in t[1:]:
            if ev(c):
                return ev(e)
        raise Undefined()
    raise Undefined()
