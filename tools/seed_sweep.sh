#!/bin/bash
# Re-evaluates every stored seeded change against the current checks (scratch worktrees only). Output: build/seed_sweep.log
cd "$(dirname "$0")/.." || exit 2
OUT=build/seed_sweep.log
: > $OUT
for d in seeded/*/; do
  n=$(basename $d); p=${n%%-*}
  if grep -q '"status": "obsolete' $d/meta.json 2>/dev/null; then echo "######## $n OBSOLETE" >> $OUT; continue; fi
  echo "######## $n" >> $OUT
  tools/seedtest.sh /verif/$d/patch.diff /verif/$d/demo.py $p >> $OUT 2>&1
done
grep -E "^####|VIOLATION|APPLY|\] " $OUT | awk '/^####/{n=$2} /VIOLATION/{v[n]=$0} /APPLY/{a[n]=1} /\] /{r[n]=$0} END{for(k in r) print k, (k in v? (v[k] ~ /no-failing/ ? "TIE-ONLY":"CAUGHT") : "MISSED"); for(k in a) print k, "NOAPPLY"}' | sort
