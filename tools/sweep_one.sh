#!/bin/bash
# usage: tools/sweep_one.sh <seed name> [VERIF_SEED]   -- the stored seeded change <name> against its property's quick check
cd "$(dirname "$0")/.." || exit 2
n=$1; p=${n%%-*}
WT=/tmp/wt_sweep1_$n
git -C /repo worktree add -q $WT HEAD || exit 2
if ! git -C $WT apply /verif/seeded/$n/patch.diff; then git -C /repo worktree remove --force $WT; echo "$n NOAPPLY"; exit 0; fi
PYTHONPATH=$WT:/verif/tools VERIF_REPO=$WT PYTHONHASHSEED=0 VERIF_SEED=${2:-1} /venv/bin/python -W ignore tools/check.py $p quick 2>&1 | grep -E "^VIOLATION|what:|^\[$p" | cut -c1-300
git -C /repo worktree remove --force $WT
