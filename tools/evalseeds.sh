#!/bin/bash
# usage: tools/evalseeds.sh <Cxx> [more...]  -- evaluates /tmp/seed/<Cxx>/_seed/{patch,patch2}.diff, log in /tmp/evalseeds_<Cxx>.log
cd "$(dirname "$0")/.." || exit 2
for P in "$@"; do
  LOG=/tmp/evalseeds_$P.log; : > $LOG
  for k in "patch.diff demo.py" "patch2.diff demo2.py"; do set -- $k
    [ -f /tmp/seed/$P/_seed/$1 ] || continue
    echo "######## $P $1" >> $LOG
    tools/seedtest.sh /tmp/seed/$P/_seed/$1 /tmp/seed/$P/_seed/$2 $P >> $LOG 2>&1
  done
  grep -E "^####|exit|VIOLATION|what:|\] |passed|APPLY" $LOG | cut -c1-240
done
