"""C16 -- models and unit stores do not leak into one another.

correspondence: interleaved operations on 2-3 unit stores (independent / sharing a registry, same user names with
                different meanings) vs coq/Model/UStore.v (extracted, run_ustore)
oracle:         (a) stores: after every operation on one store the full view of every other store (known names, base-unit
                form of each unit, conversion factors between its units) is unchanged; with a shared registry equal names
                stay distinct units, names of one store are unknown in the other, units of both convert into each other;
                (b) models: interleavings of operations on 2-3 Model objects (loading further documents, convert_variable,
                remove_fixable_singularities, annotation edits, equation edits, transpiler handler changes, printing):
                a snapshot of all public queries of every other model is identical before and after.
"""
import glob
import json
import math
import os
import random

import vlib
from props import c07

FN = 7
GEN_DEPS = ('builtins',)

UNAMES = ['ua', 'ub', 'mV', 'ms', 'pc', 'x1', 'store0_x', 'store1_ua', 'A_per_F', 'u_2']
CELLML = os.path.join(vlib.REPO, 'tests', 'cellml_files')
SMALL_MODELS = ['basic_ode.cellml', 'test_simple_odes.cellml', 'algebraic.cellml', 'simple_model_units.cellml',
                'literals_for_conversion_tests.cellml', 'repeated_ode_for_conversion_tests.cellml']
BIG_MODELS = ['hodgkin_huxley_squid_axon_model_1952_modified.cellml', 'beeler_reuter_model_1977.cellml']


# ---- (a) stores -------------------------------------------------------------------------------------------
def gen_store_case(seed):
    rng = random.Random(seed)
    ops = [['new', -1]]
    nstores = rng.randint(2, 3)
    reg_of = {0: 0}
    nreg = 1
    for s in range(1, nstores):
        if rng.random() < 0.6:
            base = rng.randrange(s)
            ops.append(['new', base])
            reg_of[s] = reg_of[base]
        else:
            ops.append(['new', -1])
            reg_of[s] = nreg
            nreg += 1
    known = {s: list(c07.BUILTINS) for s in range(nstores)}
    defined = {s: [] for s in range(nstores)}
    pending = []
    if rng.random() < 0.4:
        # the same NEW BASE unit name declared in every store (stores sharing a registry must keep them apart)
        bname = rng.choice(['beat', 'ub', 'cell'])
        pending = [['base', t, bname] for t in range(nstores)]
    for _ in range(rng.randint(6, 14)):
        s = rng.randrange(nstores)
        name = rng.choice(UNAMES)
        if pending:
            op = pending.pop(0)
            s, name = op[1], op[2]
        elif rng.random() < 0.1:
            op = ['base', s, name]
        else:
            e = c07.gen_uexpr(rng, [n for n in known[s] if n not in ('radian', 'steradian', 'lumen', 'lux')])
            if not c07.has_ref(e):
                e = ('mul', e, ('ref', 'second'))
            op = ['add', s, name, e]
        foreign = [(o, n) for o in range(nstores) if o != s and reg_of[o] == reg_of[s] for n in defined[o] if n not in known[s]]
        if op[0] == 'add' and foreign and rng.random() < 0.15 and not any(n.startswith('store') for n in known[s]):
            # (not when this store has a user name that itself looks like a registry name: it could be that very string)
            # a definition that mentions a unit of ANOTHER store (sharing the registry) by its registry name, as str(unit)
            # prints it: unknown here, so it must be refused and change nothing
            o, n = rng.choice(foreign)
            qname = rng.choice(['qa', 'qb', 'qc'])
            if qname not in known[s]:
                ops.append(['add', s, qname, ('div', ('qref', o, n), ('ref', 'second'))])
        elif op[0] == 'add' and rng.random() < 0.15:
            # ... or by its PLAIN name, which only another store (a parent, a sibling, a stranger) knows
            plain = [n for o in range(nstores) if o != s for n in defined[o] if n not in known[s]]
            pname = rng.choice(['zz_pa', 'zz_pb', 'zz_pc'])
            if plain and pname not in known[s]:
                ops.append(['add', s, pname, ('div', ('ref', rng.choice(plain)), ('ref', 'second'))])
        ops.append(op)
        if name not in known[s]:
            known[s].append(name)
            defined[s].append(name)
        # views of every store after the operation
        for t in range(nstores):
            for n in UNAMES[:6]:
                ops.append(['isdef', t, n])
            for n in defined[t]:
                ops.append(['fmt', ('get', t, n)])
        # cross conversions inside one registry
        for t in range(nstores):
            for u in range(nstores):
                if t != u and reg_of[t] == reg_of[u] and defined[t] and defined[u]:
                    a, b = ('get', t, rng.choice(defined[t])), ('get', u, rng.choice(defined[u]))
                    ops.append(['cf', a, b])
    return {'seed': seed, 'ops': ops, 'nstores': nstores, 'reg_of': [reg_of[s] for s in range(nstores)]}


def store_oracle(case, impl):
    """frame property on the implementation's own answers"""
    bad = []
    view = {}
    mine = {}
    based = set()
    last_edit = None
    for op, r in zip(case['ops'], impl):
        k = op[0]
        if k in ('add', 'base', 'new'):
            last_edit = op
            if k == 'add' and r[0] == 'ok' and op[2] in ('zz_pa', 'zz_pb', 'zz_pc'):
                bad.append(('store %d accepted a definition of %r in terms of a name that only another store defines: names of one '
                            'store must be unknown in the other' % (op[1], op[2]), {'edit': op}))
            if k == 'add' and r[0] == 'ok' and 'qref' in repr(op[3]):
                bad.append(('store %d accepted a definition of %r that mentions a unit of another store by its registry name '
                            '(%s): names of one store must be unknown in the other' % (op[1], op[2], r[1:2] or ''), {'edit': op}))
            if k == 'base' and r[0] == 'ok':
                based.add((op[1], op[2]))
            if k == 'base':
                fresh_here = op[2] not in mine.setdefault(op[1], set()) and op[2] not in c07.BUILTINS
                if fresh_here and r[0] != 'ok':
                    bad.append(('declaring the new base unit %r in store %d fails (%r) although the name is unused in that store: '
                                'another store\'s declaration leaked' % (op[2], op[1], r[1:3]), {'edit': op}))
            if k in ('add', 'base') and r[0] == 'ok':
                mine.setdefault(op[1], set()).add(op[2])
            continue
        if k == 'fmt' and op[1][0] == 'get' and r[0] == 'ok' and (op[1][1], op[1][2]) in based:
            if not (math.isclose(r[1], 1.0) and r[2] == {op[1][2]: 1}):
                bad.append(('new base unit %r of store %d is reported as %r: a unit of the same name from another store leaked in'
                            % (op[1][2], op[1][1], r[3]), {'key': list(map(str, op[1]))}))
        if k == 'isdef':
            key = ('isdef', op[1], op[2])
            owner = op[1]
        elif k == 'fmt':
            key = ('fmt', repr(op[1]))
            owner = op[1][1]
        else:
            continue
        val = r[1:3] if r[0] == 'ok' else r[:2]
        if key in view and last_edit is not None and last_edit[0] in ('add', 'base') and last_edit[1] != owner:
            old = view[key]
            same = old == val or (k == 'fmt' and old[0:1] and val[0:1] and isinstance(old[0], float)
                                  and isinstance(val[0], float) and math.isclose(old[0], val[0], rel_tol=1e-12) and old[1] == val[1])
            if not same:
                bad.append(('an operation on store %d changed what store %d observes: %r was %r, now %r'
                            % (last_edit[1], owner, key, old, val), {'edit': last_edit, 'key': list(map(str, key))}))
        view[key] = val
    return bad


def store_work(case):
    try:
        return c07.run_impl(case) + [['xfmt', cross_format(case)]]
    except Exception as e:
        return [['err', 'harness:' + repr(e)]]


def cross_format(case):
    """stores sharing a registry can hold each other's units (a model loaded with unit_store=S converts a variable into a
    unit of S): the NAME a store prints for a unit must not depend on which store is asked, and never shows a store prefix.
    Returns a list of problems (strings)."""
    import re
    from cellmlmanip.units import UnitStore
    stores, defined, problems = [], [], []
    for op in case['ops']:
        try:
            if op[0] == 'new':
                stores.append(UnitStore(None if op[1] < 0 else stores[op[1]]))
                defined.append([])
            elif op[0] == 'add':
                stores[op[1]].add_unit(op[2], c07.uexpr_str(op[3], stores))
                defined[op[1]].append(op[2])
            elif op[0] == 'base':
                stores[op[1]].add_base_unit(op[2])
                defined[op[1]].append(op[2])
        except Exception:
            pass
    reg = case['reg_of']
    for t in range(len(stores)):
        for n in dict.fromkeys(defined[t]):
            try:
                u = stores[t].get_unit(n)
            except Exception:
                continue
            own = (stores[t].format(u), stores[t].format(u, base_units=True))
            if own[0] != n:
                problems.append('store %d prints its own unit %r as %r' % (t, n, own[0]))
            for s_ in range(len(stores)):
                if s_ == t or reg[s_] != reg[t]:
                    continue
                try:
                    other = (stores[s_].format(u), stores[s_].format(u, base_units=True))
                except Exception as e:
                    problems.append('store %d cannot format unit %r of store %d (same registry): %r' % (s_, n, t, e))
                    continue
                if other != own:
                    problems.append('unit %r of store %d is printed %r by its own store but %r by store %d (same registry)'
                                    % (n, t, own, other, s_))
    return problems[:5]


# ---- (b) models --------------------------------------------------------------------------------------------
def snapshot(m):
    """all public queries of a model, as plain data"""
    from cellmlmanip.printer import Printer
    snap = {}
    if m is None:       # a load that was refused (reported by the load operation itself)
        return {'absent': True}

    def q(name, fn):
        try:
            snap[name] = fn()
        except Exception as e:
            snap[name] = 'raises ' + vlib.err_class(e)
    q('equations', lambda: [str(e) for e in m.equations])
    q('variables', lambda: [[v.name, m.units.format(v.units), v.initial_value, v.cmeta_id] for v in m.variables()])
    q('states', lambda: [v.name for v in m.get_state_variables()])
    q('free', lambda: m.get_free_variable().name)
    q('derived', lambda: [v.name for v in m.get_derived_quantities()])
    q('eqs_for', lambda: [str(e) for e in m.get_equations_for(list(m.get_state_variables()) or list(m.variables())[:2])])
    q('units', lambda: sorted([n, m.units.format(m.units.get_unit(n), base_units=True)] for n in m.units._known_units))
    q('rdf', lambda: sorted(str(t) for t in m.rdf))
    q('cmeta', lambda: sorted([c, v.name] for c, v in m._cmeta_id_to_variable.items()))
    q('printed', lambda: [Printer().doprint(e.rhs) for e in m.equations[:5]])
    q('unit_check', lambda: [str(m.units.evaluate_units(e.rhs)) for e in m.equations[:5]])
    snap.update(store_probe(m.units))
    return snap


def store_probe(us):
    """what a unit store answers without being changed: its known names, and conversions across dimensions that only a
    conversion rule (registered by somebody) could make possible"""
    out = {}

    def q(name, fn):
        try:
            out[name] = fn()
        except Exception as e:
            out[name] = 'raises ' + vlib.err_class(e)
    q('known_units', lambda: sorted(us._known_units))
    amp, metre, volt = us.get_unit('ampere'), us.get_unit('metre'), us.get_unit('volt')
    q('rule_probe_1', lambda: str(us.get_conversion_factor(amp, amp / metre ** 2)))
    q('rule_probe_2', lambda: str(us.convert(us.Quantity(3.0, amp * 1e-6), amp / metre ** 2).magnitude))
    q('rule_probe_3', lambda: str(us.get_conversion_factor(volt, amp)))
    q('rule_probe_4', lambda: str(us.get_conversion_factor(us.get_unit('mole'), us.get_unit('gram'))))
    return out


def _differs(now, before, shared):
    """keys whose answer changed; with a deliberately shared registry a conversion that was impossible may become possible
    (a rule registered by a sharing store is visible by design), but one that worked must keep working with the same value"""
    out = []
    for k in now:
        if now[k] != before.get(k):
            if shared and k.startswith('rule_probe') and str(before.get(k)).startswith('raises'):
                continue
            out.append(k)
    return out


def model_ops(rng, n):
    kinds = ['load', 'convert', 'singularity', 'cmeta', 'addunit', 'addvar', 'transpile', 'rmvar', 'rule', 'print', 'xconvert']
    return [[rng.choice(kinds), rng.randrange(3), rng.randrange(1000)] for _ in range(n)]


def gen_model_case(seed, big):
    rng = random.Random(seed)
    files = [rng.choice(SMALL_MODELS + (BIG_MODELS if big else [])) for _ in range(rng.randint(2, 3))]
    if rng.random() < 0.4:
        files[1] = files[0]       # structurally identical equations in two models (cached singularity analysis)
    # half of the cases hand every model one caller-owned unit store (models then share its registry, not its names)
    ops = model_ops(rng, rng.randint(6, 12))
    caller = rng.random() < 0.5
    if rng.random() < 0.4:
        # a rule in one model, later the same rule registered twice in another
        i = rng.randrange(len(ops))
        ops.insert(i, ['rule', 0, 2 * rng.randrange(400)])
        ops.insert(rng.randint(i + 1, len(ops)), ['rule', 1, 2 * rng.randrange(400) + 1])
    if caller and rng.random() < 0.5:
        # a model is replaced by a freshly loaded one (the old one and its unit store are discarded and collected) while a
        # model created AFTER it is still alive; then both define the same user name with different meanings
        last = len(files) - 1
        ops[0:0] = [['clashunit', last, 0], ['load', 0, rng.randrange(1000)], ['clashunit', 0, 0], ['print', last, 0]]
    return {'seed': seed, 'files': files, 'ops': ops, 'caller_store': caller}


def apply_model_op(models, op, rng_seed, caller=None):
    """performs one operation on models[op[1]]; returns a short description (exceptions are fine: they must not leak either)"""
    import sympy
    import cellmlmanip
    from cellmlmanip.model import DataDirectionFlow
    from cellmlmanip import parser
    kind, idx, salt = op
    idx = idx % len(models)
    m = models[idx]
    rng = random.Random(rng_seed * 1000 + salt)
    try:
        if kind == 'load':
            models[idx] = None
            import gc
            gc.collect()        # the replaced model and its unit store are really gone before the next one is created
            doc = rng.choice(SMALL_MODELS)
            try:
                models[idx] = cellmlmanip.load_model(os.path.join(CELLML, doc), unit_store=caller)
            except Exception as e:
                # every bundled document loads in a fresh process: a refusal here comes from what other models / stores
                # (sharing the registry or not) left behind (round-13 seed C16-21: sibling stores with one registry prefix)
                return ('load:XVIOLATION:loading %s as model %d (unit_store=%s) raises %s although the document loads on its own: '
                        'the units of another model or store leaked into the new one'
                        % (doc, idx, 'S' if caller is not None else 'None', vlib.err_class(e)))
        elif kind == 'clashunit':
            # one user name, another meaning in every model
            base_, fac_ = [('volt', 0.001), ('second', 60.0), ('ampere', 1e-6)][idx % 3]
            if not m.units.is_defined('rc_u'):
                m.units.add_unit('rc_u', '%s * %r' % (base_, fac_))
                try:
                    got = float(m.units.get_conversion_factor(m.units.get_unit('rc_u'), m.units.get_unit(base_)))
                except Exception as e:
                    got = repr(e)
                if not (isinstance(got, float) and math.isclose(got, fac_, rel_tol=1e-9)):
                    return ('clashunit:XVIOLATION:model %d defines rc_u = %r %s, but its rc_u converts to %s with %s: the definition of '
                            'another model / store is in the way' % (idx, fac_, base_, base_, got))
        elif kind == 'convert':
            vs = [v for v in m.variables()]
            v = rng.choice(vs)
            base = m.units.format(v.units, base_units=True)
            name = 'conv_%d' % salt
            if not m.units.is_defined(name):
                m.units.add_unit(name, '%s * %s' % (m.units.format(v.units), rng.choice(['1000', '0.001', '60'])))
            m.convert_variable(v, m.units.get_unit(name), rng.choice([DataDirectionFlow.INPUT, DataDirectionFlow.OUTPUT]))
        elif kind == 'singularity':
            states = m.get_state_variables()
            if states:
                m.remove_fixable_singularities(states[0])
        elif kind == 'cmeta':
            v = rng.choice(list(m.variables()))
            m.add_cmeta_id(v)
            if salt % 3 == 0:
                # the clash path: the display name of a new variable is already in use as an id
                m.add_variable('cl$w%d' % salt, 'dimensionless', cmeta_id='cl__v%d' % salt)
                m.add_cmeta_id(m.add_variable('cl$v%d' % salt, 'dimensionless'))
        elif kind == 'addunit':
            name = rng.choice(['mV', 'ms', 'ua', 'per_ms'])
            m.units.add_unit(name, rng.choice(['volt / 1000', 'second * 0.001', 'ampere * 1e-6', 'metre * 7']))
        elif kind == 'addvar':
            v = m.add_variable('extra$v%d' % salt, 'dimensionless', initial_value=1.0, cmeta_id='extra_%d' % salt)
            m.add_equation(sympy.Eq(v, m.create_quantity(2.0, 'dimensionless')))
        elif kind == 'transpile':
            t = parser.Transpiler(symbol_generator=lambda n: sympy.Symbol(n), number_generator=lambda x, u: sympy.Float(x))
            t.set_mathml_handler('abs', sympy.Abs)
            t.parse_string('<math xmlns="http://www.w3.org/1998/Math/MathML"><apply><plus/><ci>a</ci><cn>1</cn></apply></math>')
        elif kind == 'rmvar':
            cands = [v for v in m.variables() if m.get_definition(v) is None and not m.is_state(v)]
            free = None
            try:
                free = m.get_free_variable()
            except Exception:
                pass
            cands = [v for v in cands if v is not free and not any(v in e.rhs.atoms() for e in m.equations)]
            if cands:
                m.remove_variable(rng.choice(cands))
        elif kind == 'rule':
            us = m.units
            # conversion rules live in the pint registry and are keyed by dimensionality: with a deliberately shared
            # registry a rule becomes visible to the sharing stores by design, so there every model registers rules between
            # its OWN pair of dimensions; what must never happen is that a rule somebody registered stops working
            pair = (idx if caller is not None else idx + salt) % 3
            a, b = 'rule_a%d' % pair, 'rule_b%d' % pair
            if not us.is_defined(a):
                us.add_unit(a, ['ampere * 1e-6', 'volt * 1e-3', 'mole * 1e-3'][pair])
                us.add_unit(b, ['ampere / metre ** 2', 'ampere * 1e-9', 'gram'][pair])
            den = [us.get_unit('metre') ** 2, us.get_unit('volt') / us.get_unit('ampere'), us.get_unit('mole') / us.get_unit('gram')][pair]
            k = us.Quantity(2.0, den)
            us.add_conversion_rule(us.get_unit(a), us.get_unit(b), lambda ureg, rhs: rhs / k)
            if salt % 2:
                # the same rule registered again (e.g. to correct a constant): same value, so nothing observable changes
                k2 = us.Quantity(2.0, den)
                us.add_conversion_rule(us.get_unit(a), us.get_unit(b), lambda ureg, rhs: rhs / k2)
        elif kind == 'xconvert':
            # "units from both can still be converted into each other": a variable of this model, in its unit NAME, is
            # converted into the unit another model calls NAME too (same dimension, another scale; shared registry only)
            other = models[(idx + 1) % len(models)]
            if caller is not None and other is not m:
                name = 'xu%d' % salt
                if not m.units.is_defined(name) and not other.units.is_defined(name):
                    scale_m, scale_o = rng.sample(['1000', '1e-3', '1e-6', '60', '2.5'], 2)
                    dim = rng.choice(['volt', 'second', 'mole / litre'])
                    um = m.units.add_unit(name, '%s * %s' % (dim, scale_m))
                    uo = other.units.add_unit(name, '%s * %s' % (dim, scale_o))
                    v = m.add_variable('xvar$v%d' % salt, um, initial_value=5.0)
                    want = float(scale_m) / float(scale_o)
                    ret = m.convert_variable(v, uo, rng.choice([DataDirectionFlow.INPUT, DataDirectionFlow.OUTPUT]))
                    got = None if ret is v else float(m.units.get_conversion_factor(v.units, ret.units)) if ret.units is not um else 1.0
                    if ret is v or not m.units.is_equivalent(ret.units, uo) or not math.isclose(got, want, rel_tol=1e-9):
                        return ('xconvert:XVIOLATION:convert_variable(%s [%s of model %d = %s %s], unit %s of model %d = %s %s) returned '
                                '%s in %s; expected a new variable in the other model\'s unit (factor %r)'
                                % (v.name, name, idx, scale_m, dim, name, (idx + 1) % len(models), scale_o, dim,
                                   'the variable itself' if ret is v else ret.name, ret.units, want))
        elif kind == 'print':
            from cellmlmanip.printer import Printer
            Printer().doprint(m.equations[0]) if m.equations else None
        return kind
    except Exception as e:
        return kind + ':raises:' + vlib.err_class(e)


_PLACEHOLDER = []


def _exp_placeholder():
    """a user's stand-in for exp (as code generators install it with Transpiler.set_mathml_handler)"""
    import sympy
    if not _PLACEHOLDER:
        class exp_(sympy.Function):
            def _eval_is_real(self):
                return self.args[0].is_real

            def fdiff(self, argindex=1):
                assert argindex == 1
                return self
        _PLACEHOLDER.append(exp_)
    return _PLACEHOLDER[0]


def model_work(case):
    """a quarter of the cases run in a process whose user installed a placeholder for exp BEFORE any model existed: the
    operator table is the user's, no work on a model may change it"""
    from cellmlmanip import parser
    table = parser.SIMPLE_MATHML_TO_SYMPY_CLASSES
    saved = dict(table)
    if case['seed'] % 4 == 1:
        parser.Transpiler.set_mathml_handler('exp', _exp_placeholder())
    try:
        return _model_work(case)
    finally:
        table.clear()
        table.update(saved)


def _model_work(case):
    import cellmlmanip
    from cellmlmanip import parser
    bad = []
    hist = []
    caller = None
    try:
        if case.get('caller_store'):
            from cellmlmanip.units import UnitStore
            caller = UnitStore()
            caller.add_unit('caller_u', 'second * 3')
            caller.add_unit('mV', 'volt * 1e-6')      # a name the documents also define, with another meaning
            caller_snap = store_probe(caller)
        models = []
        for f in case['files']:
            models.append(cellmlmanip.load_model(os.path.join(CELLML, f), unit_store=caller))
            if caller is not None and store_probe(caller) != caller_snap:
                now = store_probe(caller)
                diff = [k for k in now if now[k] != caller_snap.get(k)]
                bad.append(('loading %s with unit_store=S changed the caller\'s store S: %s (was %r, now %r)'
                            % (f, ', '.join(diff), str(caller_snap[diff[0]])[:200], str(now[diff[0]])[:200]), {'op_index': -1}))
                caller_snap = now
    except Exception as e:
        return [('loading the bundled documents %r %s raises %r (each of them loads on its own)'
                 % (case['files'], 'into one caller-owned unit store (unit_store=S)' if case.get('caller_store') else '', e), {})], hist
    snaps = [snapshot(m) for m in models]
    for j, op in enumerate(case['ops']):
        idx = op[1] % len(models)
        table_before = dict(parser.SIMPLE_MATHML_TO_SYMPY_CLASSES)
        res = apply_model_op(models, op, case['seed'], caller)
        if dict(parser.SIMPLE_MATHML_TO_SYMPY_CLASSES) != table_before and op[0] != 'transpile':
            now_t = dict(parser.SIMPLE_MATHML_TO_SYMPY_CLASSES)
            tag = sorted(k for k in set(now_t) | set(table_before) if now_t.get(k) is not table_before.get(k))[0]
            try:
                import sympy
                t_ = parser.Transpiler(symbol_generator=lambda n: sympy.Symbol(n), number_generator=lambda x, u: sympy.Float(x))
                probe = t_.parse_string('<math xmlns="http://www.w3.org/1998/Math/MathML"><apply><%s/><ci>a</ci></apply></math>' % tag)
            except Exception as e:
                probe = repr(e)
            bad.append(('operation %r on model %d changed how every other document is read from now on: the process-wide MathML '
                        'operator %r, which the user had set to %s, is now %s (<%s/> applied to a now parses as %s)'
                        % (res, idx, tag, getattr(table_before.get(tag), '__name__', table_before.get(tag)),
                           getattr(now_t.get(tag), '__name__', now_t.get(tag)), tag, probe), {'op_index': j}))
            parser.SIMPLE_MATHML_TO_SYMPY_CLASSES.clear()
            parser.SIMPLE_MATHML_TO_SYMPY_CLASSES.update(table_before)
        if ':XVIOLATION:' in res:
            res, msg = res.split(':XVIOLATION:', 1)
            bad.append((msg, {'op_index': j}))
        hist.append(res)
        if caller is not None:
            now = store_probe(caller)
            if _differs(now, caller_snap, True):
                diff = _differs(now, caller_snap, True)
                bad.append(('operation %r on model %d changed the caller\'s unit store S (the models were loaded with '
                            'unit_store=S): %s (was %r, now %r)' % (res, idx, ', '.join(diff), str(caller_snap[diff[0]])[:200],
                                                                    str(now[diff[0]])[:200]), {'op_index': j, 'changed': diff}))
                caller_snap = now
        touched = {idx} | ({(idx + 1) % len(models)} if op[0] == 'xconvert' else set())   # xconvert defines a unit in both
        for t in range(len(models)):
            if t in touched:
                snaps[t] = snapshot(models[t])
                continue
            now = snapshot(models[t])
            if _differs(now, snaps[t], caller is not None):
                diff = _differs(now, snaps[t], caller is not None)
                bad.append(('operation %r on model %d (%s) changed model %d (%s): %s (was %r, now %r)'
                            % (res, idx, case['files'][idx], t, case['files'][t], ', '.join(diff),
                               str(snaps[t].get(diff[0]))[:200], str(now[diff[0]])[:200]), {'op_index': j, 'changed': diff}))
                snaps[t] = now
    if caller is None and not bad:
        # independence the other way round: the SAME operations on an identical model, performed now (after all the work on
        # the other models), give the same model again -- nothing process-wide (counters, caches) may have moved
        import re
        norm = lambda x: re.sub(r'store\d+_', '', json.dumps(x, sort_keys=True, default=str))      # noqa: E731
        for t in range(len(models)):
            try:
                twin = [None] * len(models)
                twin[t] = cellmlmanip.load_model(os.path.join(CELLML, case['files'][t]))
                for op in case['ops']:
                    if op[1] % len(models) == t:
                        apply_model_op(twin, op, case['seed'], None)
                a, b = snapshot(models[t]), snapshot(twin[t])
            except Exception as e:
                bad.append(('replaying the operations of model %d on a fresh copy raises %r' % (t, e), {'twin': t}))
                continue
            # compared: everything that does not print SymPy argument order (which follows SymPy's own process-wide Dummy
            # numbering) or rdflib's random blank-node names
            robust = [k for k in a if k not in ('equations', 'eqs_for', 'printed', 'unit_check', 'rdf')]
            diff = [k for k in robust if norm(a[k]) != norm(b.get(k))]
            if diff:
                bad.append(('the operations of model %d (%s), repeated on a fresh identical model after the work on the other '
                            'models, give a different model: %s (first %s, repeated %s)'
                            % (t, case['files'][t], ', '.join(diff), norm(a[diff[0]])[:160], norm(b[diff[0]])[:160]),
                            {'twin': t, 'differs': diff}))
    return bad, hist


def run_store_gc(k):
    """stores on one shared registry are created, DISCARDED (and collected) and created again; every live store keeps its own
    meaning of the user name they all define, and units of two stores convert with the ratio of their scales"""
    import gc
    from cellmlmanip.units import UnitStore
    rng = random.Random(k)
    root = UnitStore()
    live = {}
    bad = []
    scales = ['1000', '0.001', '1e-06', '60', '2.5', '1e-09', '7']

    def new_store(tag):
        st = UnitStore(root)
        sc = rng.choice(scales)
        st.add_unit('mV', 'volt * ' + sc)
        st.add_unit('mV_per_ms', 'mV / (second * 0.001)')
        live[tag] = (st, float(sc))
    for i in range(rng.randint(2, 4)):
        new_store('s%d' % i)
    for step in range(rng.randint(2, 5)):
        tags = sorted(live)
        if len(tags) >= 2 and rng.random() < 0.6:
            victim = rng.choice(tags[:-1])            # never the newest one
            del live[victim]
            gc.collect()
        new_store('n%d' % step)
        volt = root.get_unit('volt')
        for tag, (st, sc) in sorted(live.items()):
            try:
                got = float(st.get_conversion_factor(st.get_unit('mV'), volt))
            except Exception as e:
                got = repr(e)
            if not (isinstance(got, float) and math.isclose(got, sc, rel_tol=1e-9)):
                bad.append(('after stores were discarded and created on one registry, store %s (mV = %r volt) converts its mV to volt '
                            'with %s' % (tag, sc, got), {'store_gc': k}))
                return bad
        a, b = rng.sample(sorted(live), 2) if len(live) >= 2 else (None, None)
        if a:
            (sa, ca), (sb, cb) = live[a], live[b]
            try:
                got = float(sa.get_conversion_factor(sa.get_unit('mV_per_ms'), sb.get_unit('mV_per_ms')))
            except Exception as e:
                got = repr(e)
            if not (isinstance(got, float) and math.isclose(got, ca / cb, rel_tol=1e-9)):
                bad.append(('units of stores %s and %s (mV = %r / %r volt) convert with %s instead of %r' % (a, b, ca, cb, got, ca / cb),
                            {'store_gc': k}))
                return bad
    return bad


def run(ctx):
    ns = 40 if ctx.tier == 'quick' else 600
    nm = 40 if ctx.tier == 'quick' else 500
    ctx.rule = ('(a) interleaved definitions on 2-3 unit stores (60% sharing a registry; same user names, different meanings), '
                'the view of every store re-queried after every operation; (b) interleavings of 6-12 operations (load, '
                'convert_variable, singularity repair, annotation / equation / unit edits, conversion rules, transpiler handler '
                'changes, printing) on 2-3 models loaded from the bundled documents, full query snapshot of the other models '
                'after every operation; conversion rules also with shared registries (every model between its own pair of dimensions, '
                'registered twice in half of the cases: a conversion that worked must keep working); conversion of a variable into '
                'the unit another model calls by the same name; (c) 2-3 API-built models per process repaired one after another '
                '(numbers of one model must not belong to another model\'s registry), every third case twin models with identical names '
                'whose singular point depends on another state; definitions mentioning another store\'s registry names; the same '
                'new base-unit name in two stores; with separate registries the operations of every model are REPLAYED on a fresh '
                'identical model after all the other work and must give the same variables, units, ids and roles (nothing '
                'process-wide may have moved); non-trivial = at least 6 operations')
    ctx.trusted += ['Python-level sharing (class attributes, caches, module state) is outside the functional model: decided by the '
                    'interleaving oracle only']
    cases = load_corpus('stores') + [gen_store_case(ctx.seed * 100000 + i) for i in range(ns)]
    impls = vlib.pmap(store_work, cases)
    mods = vlib.model_run(FN, [c07.case_sexp(c) for c in cases]) if ctx.model_ok() else None
    for i, (case, impl) in enumerate(zip(cases, impls)):
        if impl and impl[-1][0] == 'xfmt':
            for prob in impl[-1][1]:
                ctx.violation('cross-store formatting: ' + prob, {'case': case, 'detail': {'kind': 'xfmt'}})
            impl = impl[:-1]
        ctx.count(case_key=case['ops'], nontrivial=len(case['ops']) > 20, kind='stores=%d/regs=%d' % (case['nstores'], len(set(case['reg_of']))))
        for what, detail in store_oracle(case, impl):
            ctx.violation(what, {'case': case, 'detail': detail})
        if mods is not None:
            names, reg_of = c07.base_unit_names(case)
            ctx.corr_cases += 1
            for op, r, m in zip(case['ops'], impl, mods[i]):
                bn = {}
                if op[0] == 'fmt':
                    bn = {g: n for (rr, g), n in names.items() if rr == reg_of[c07._sidx(op[1])]}
                d = c07.compare_op(op, r, m, bn)
                if d is not None:
                    ctx.tie_break('correspondence C16 (Model/UStore.v vs units.py) differs on %s: %s' % (op[0], d),
                                  {'case': case, 'op': op, 'impl': r, 'model': m})
                    break
        if i < 1:
            ctx.sample({'store_case_ops': case['ops'][:10], 'n_ops': len(case['ops'])})
    mcases = load_corpus('models') + [gen_model_case(ctx.seed * 100000 + i, ctx.tier == 'thorough' or i % 8 == 0) for i in range(nm)]
    for case, (bad, hist) in zip(mcases, vlib.pmap(model_work, mcases)):
        ctx.count(case_key=(case['files'], case['ops']), nontrivial=len(case['ops']) >= 6, kind='models=%d' % len(case['files']))
        for h in hist:
            ctx.hist['op:' + h] = ctx.hist.get('op:' + h, 0) + 1
        for what, detail in bad:
            ctx.violation(what, {'model_case': case, 'detail': detail})
    ctx.sample({'model_case': mcases[0]})
    gks = [ctx.seed * 1000 + i for i in range(40 if ctx.tier == 'quick' else 500)]
    for gk, bad in zip(gks, vlib.pmap(run_store_gc, gks)):
        ctx.count(case_key=('store-gc', gk), nontrivial=True, kind='store-gc')
        for what, detail in bad:
            ctx.violation(what, detail)
    # (c) models built through the API (separate registries), singularities repaired one after another in one process:
    # a number in model B's equations that belongs to model A's registry is work on A changing what B gets
    from props import c18
    seeds = [ctx.seed * 1000 + i for i in range(12 if ctx.tier == 'quick' else 200)]
    for sd, bad in zip(seeds, vlib.pmap(c18.run_api_singular, seeds)):
        ctx.count(case_key=('api_singular', sd), nontrivial=True, kind='api_singular')
        for what, detail in bad:
            ctx.violation('models repaired one after another in one process: ' + what, {'api_singular_seed': sd, 'detail': detail})


def load_corpus(kind):
    out = []
    for p in sorted(glob.glob(os.path.join(vlib.VERIF, 'corpus', 'C16', kind + '_*.json'))):
        out.append(json.load(open(p)))
    return out


def replay(ctx, case):
    if 'store_gc' in case:
        bad = run_store_gc(case['store_gc'])
        return bad[0][0] if bad else None
    if 'api_singular_seed' in case:
        from props import c18
        bad = c18.run_api_singular(case['api_singular_seed'])
        return bad[0][0] if bad else None
    if 'model_case' in case:
        bad, _ = model_work(case['model_case'])
        return bad[0][0] if bad else None
    c = case.get('case', case)
    impl = c07.run_impl(c)
    bad = store_oracle(c, impl)
    if bad:
        return bad[0][0]
    probs = cross_format(c)
    return ('cross-store formatting: ' + probs[0]) if probs else None


KNOWN_PREDICATES = {}
