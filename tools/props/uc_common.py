"""Shared by c04.py / c05.py: the fixed unit world, the random tree generator with single-leaf unit
mutations, the implementation-side model (cellmlmanip.model.Model), numeric readings, sexp coding.

Trees are the nested lists of tools/bridge.py.  Everything random comes from a random.Random given
by the caller.
"""
import math
from fractions import Fraction

import bridge

F = Fraction

# ---- the unit world -------------------------------------------------------------------------------
# generators: -1 meter -2 kilogram -3 second -4 ampere (SI dimensions), primes 2 3 5 (scale)
GEN_NAMES = {-1: 'meter', -2: 'kilogram', -3: 'second', -4: 'ampere', -5: 'kelvin', -6: 'mole', -7: 'candela',
             -8: 'radian'}
VOLT = {-2: 1, -1: 2, -3: -3, -4: -1}


def _v(base, p2=0, p3=0, p5=0):
    d = dict(base)
    for k, e in ((2, p2), (3, p3), (5, p5)):
        if e:
            d[k] = e
    return d


# (name, definition for add_unit or None for a built-in, SI vector)
ATOMS = [
    ('volt', None, _v(VOLT)),
    ('mV', 'volt / 1000', _v(VOLT, -3, 0, -3)),
    ('uV', 'volt * 1e-6', _v(VOLT, -6, 0, -6)),
    ('second', None, {-3: 1}),
    ('ms', 'second / 1000', _v({-3: 1}, -3, 0, -3)),
    ('metre', None, {-1: 1}),
    ('cm', 'metre / 100', _v({-1: 1}, -2, 0, -2)),
    ('percent', 'dimensionless / 100', _v({}, -2, 0, -2)),
    ('ampere', None, {-4: 1}),
    ('uA', 'ampere * 1e-6', _v({-4: 1}, -6, 0, -6)),
    ('minute', 'second * 60', _v({-3: 1}, 2, 1, 1)),
    ('kV', 'volt * 1000', _v(VOLT, 3, 0, 3)),
    # pint's radian is a base unit WITHOUT a dimension (generator -8); user units based on it.  The multipliers of deg
    # and turn are not products of small primes: 0.0174532925 = 6981317 * 2**-10 * 5**-8, 6.283185307 = 6283185307 *
    # 10**-9; the two big integers serve as scale generators of their own (multiplicatively independent of 2, 3, 5
    # and of each other)
    ('radian', None, {-8: 1}),
    ('mrad', 'radian * 0.001', _v({-8: 1}, -3, 0, -3)),
    ('deg', 'radian * 0.0174532925', {**_v({-8: 1}, -10, 0, -8), 6981317: 1}),
    ('turn', 'radian * 6.283185307', {**_v({-8: 1}, -9, 0, -9), 6283185307: 1}),
    ('one', 'dimensionless * 1', {}),          # a named unit equal to dimensionless
]
ATOM_ID = {a[0]: i for i, a in enumerate(ATOMS)}


def nu(**kw):
    return {ATOM_ID[k]: F(v) for k, v in kw.items()}


# unit table: index -> pint unit as a formal product of atoms (index 0 = dimensionless)
UTAB = [{}] + [{i: F(1)} for i in range(len(ATOMS))] + [
    nu(volt=1, second=-1), nu(mV=1, ms=-1), nu(ampere=1, second=1), nu(uA=1, ms=1),
    nu(metre=1, second=-1), nu(cm=1, ms=-1), nu(mV=1, volt=-1), nu(mV=2),
]
NU = len(UTAB)
# variables: index 3*u + j  (j = 0: no initial value, 1: initial value 1.5 or 2, 2: initial value 0)
INIT = [None, F(3, 2), F(0)]
# extra dimensionless variables with negative / other initial values (indices 3*NU ...), used by the deterministic
# "never another exception type" stratum of c04.py
EXTRA_VARS = [(0, F(-5, 2)), (0, F(-1)), (0, F(4)), (0, F(-1, 2))]
NV = 3 * NU + len(EXTRA_VARS)


def var_unit(v):
    return v // 3 if v < 3 * NU else EXTRA_VARS[v - 3 * NU][0]


def var_init(v):
    if v >= 3 * NU:
        return EXTRA_VARS[v - 3 * NU][1]
    j = v % 3
    if j == 1 and (v // 3) % 2 == 0:
        return F(2)
    return INIT[j]


def nmul(a, b, eb=1):
    d = dict(a)
    for k, e in b.items():
        d[k] = d.get(k, 0) + e * eb
        if d[k] == 0:
            del d[k]
    return d


def npow(a, q):
    return {k: e * q for k, e in a.items() if e * q != 0}


def expand(n):
    """nunit -> SI vector {generator: Fraction}"""
    d = {}
    for j, e in n.items():
        for g, x in ATOMS[j][2].items():
            d[g] = d.get(g, 0) + F(x) * e
    return {g: x for g, x in d.items() if x != 0}


def vdims(v):
    """dimension part; radian (-8) is not a dimension: angles count as dimensionless for sums and function arguments"""
    return tuple(sorted((g, x) for g, x in v.items() if g < 0 and g != -8))


def vscale(v):
    s = 1.0
    for g, x in v.items():
        if g > 0:
            s *= float(g) ** float(x)
    return s


def nscale(n):
    return vscale(expand(n))


def ndims(n):
    return vdims(expand(n))


UDIMS = [ndims(n) for n in UTAB]
USCALE = [nscale(n) for n in UTAB]


def vec_sexp(d):
    return [[k, F(e)] for k, e in sorted(d.items())]


def env_sexp(extra_units=()):
    return [[vec_sexp(a[2]) for a in ATOMS], [vec_sexp(n) for n in UTAB] + [vec_sexp(n) for n in extra_units],
            [[var_unit(v), [] if not var_init(v) else [var_init(v)]] for v in range(NV)]]


# ---- implementation side -----------------------------------------------------------------------------
class World(object):
    """A real cellmlmanip Model with the unit world, its variables, and quantities created on demand."""

    def __init__(self):
        from cellmlmanip.model import Model
        self.model = Model('m')
        U = self.store = self.model.units
        self.atoms = []
        for name, defn, vec in ATOMS:
            u = U.get_unit(name) if defn is None else U.add_unit(name, defn)
            self.atoms.append(u)
            f, base = U._registry.get_base_units(u)
            assert math.isclose(f, vscale(vec), rel_tol=1e-12), (name, f, vscale(vec))
        self.dimensionless = U.get_unit('dimensionless')
        self.units = [self.pint_unit(n) for n in UTAB]
        self.vars = [self.model.add_variable('v%d' % v, self.units[var_unit(v)],
                                             initial_value=None if var_init(v) is None else float(var_init(v)))
                     for v in range(NV)]
        self.var_index = {id(x): i for i, x in enumerate(self.vars)}
        self.unit_index = {id(u): i for i, u in enumerate(self.units)}

    def pint_unit(self, n):
        u = self.dimensionless
        first = True
        for j, e in sorted(n.items()):
            t = self.atoms[j] if e == 1 else self.atoms[j] ** float(e)
            u = t if first else u * t
            first = False
        return u

    def quantity(self, qid, value, uidx):
        v = float(value)
        if value == 0 and qid % 2:
            v = -0.0        # both signed zeros occur (the tree encoding has only one zero)
        return self.model.create_quantity(v, self.units[uidx])

    def build(self, tree, evaluate=False):
        made = {}        # one Quantity object per identity: a sub-expression that occurs twice is the SAME expression

        def quantity(qid, value, uidx):
            key = (qid, value, uidx)
            if key not in made:
                made[key] = self.quantity(qid, value, uidx)
            return made[key]
        return bridge.reflect(tree, self.vars, quantity, evaluate=evaluate)

    def nunit_of(self, unit):
        """a pint Unit of this world as a formal product of atoms"""
        import re
        n = {}
        for name, e in unit._units.items():
            name = re.sub(r'^store[0-9]+_', '', name)
            j = ATOM_ID[{'meter': 'metre'}.get(name, name)]
            n[j] = n.get(j, 0) + F(e).limit_denominator(1024)
        return {j: e for j, e in n.items() if e != 0}

    def reifier(self):
        def vi(x):
            return self.var_index[id(x)]

        def ui(u):
            return self.unit_index.get(id(u), -3)
        return bridge.Reifier(vi, ui)

    def unit_obs(self, unit):
        """(scale, {dimension name: exponent}) of a pint unit, through UnitStore.format(base_units=True)"""
        from props.c07 import parse_base
        return parse_base(self.store.format(unit, base_units=True))


_WORLD = None


def world():
    global _WORLD
    if _WORLD is None:
        _WORLD = World()
    return _WORLD


# ---- numeric readings ------------------------------------------------------------------------------
def valuation(rng):
    vals = [rng.uniform(0.6, 2.9) for _ in range(NV)]
    der = {}

    def dv(y, t):
        if (y, t) not in der:
            der[(y, t)] = 0.3 + 0.37 * ((y * 7 + t * 3) % 5)
        return der[(y, t)]
    return vals, dv


def qvalue(qid, val):
    """numeric value of a quantity node; negative identity -d = conversion quantity val**(1/d)"""
    if qid < -1:
        return float(val) ** (1.0 / (-qid))
    return float(val)


def _guarded(tree, var, qty, dv):
    """bridge.eval_tree, but factorial of more than 170 is Undefined (math.factorial would run for minutes and
    the result is not a float anyway)"""
    for s in reversed(list(subtrees(tree))):
        if s[0] == 7 and s[1] == 43:
            v = bridge.eval_tree(s[2], var, qty, dv)
            if not 0 <= v <= 170:
                raise bridge.Undefined()
    return bridge.eval_tree(tree, var, qty, dv)


def eval_n(tree, vals, dv):
    return _guarded(tree, lambda v: vals[v], lambda i, q, u: qvalue(i, q), dv)


def eval_si(tree, vals, dv):
    return _guarded(
        tree, lambda v: vals[v] * USCALE[var_unit(v)], lambda i, q, u: qvalue(i, q) * USCALE[u],
        lambda y, t: dv(y, t) * USCALE[var_unit(y)] / USCALE[var_unit(t)])


def try_eval(fn, tree, vals, dv):
    try:
        return fn(tree, vals, dv)
    except (bridge.Undefined, OverflowError, ZeroDivisionError, ValueError):
        return None


def stable_point(tree, vals, dv):
    """the numeric reading does not jump under a 1e-9 relative perturbation of the variables (away from
    discontinuities of floor / relations, from tan of huge arguments, from catastrophic cancellation)"""
    a = try_eval(eval_n, tree, vals, dv)
    for sub in subtrees(tree):
        v = try_eval(eval_n, sub, vals, dv)
        if v is not None and not isinstance(v, bool) and abs(v) > 1e9:
            return False          # huge intermediate values: Mod / tan / differences lose all precision
        if sub[0] == 9:           # a relation between (nearly) equal sides is decided by rounding: x**3 > (x**2)**1.5
            va, vb = try_eval(eval_n, sub[2], vals, dv), try_eval(eval_n, sub[3], vals, dv)
            if va is not None and vb is not None and not isinstance(va, bool) and not isinstance(vb, bool) \
                    and math.isclose(va, vb, rel_tol=1e-7, abs_tol=1e-12):
                return False
    # a function evaluated next to a branch point (acos / acosh / asin at 1, where x * (1/x) lands after rounding) turns a
    # rounding error of 1e-16 in its argument into 1e-8 in its value: such points say nothing about the conversion
    for sub in subtrees(tree):
        if sub[0] == 7 and len(sub) == 3:
            v = try_eval(eval_n, sub[2], vals, dv)
            if v is None or isinstance(v, bool):
                continue
            f0 = try_eval(lambda t, vs, d: _guarded(t, lambda _v: v, lambda i, q, u: 0.0, d), [7, sub[1], [3, 0]], vals, dv)
            for e_ in (1e-10, -1e-10):
                x_ = v * (1 + e_) if v != 0 else e_
                f1 = try_eval(lambda t, vs, d, x_=x_: _guarded(t, lambda _v: x_, lambda i, q, u: 0.0, d), [7, sub[1], [3, 0]], vals, dv)
                if (f0 is None) != (f1 is None):
                    return False
                if f0 is not None and not isinstance(f0, bool) and not math.isclose(f0, f1, rel_tol=1e-7, abs_tol=1e-9):
                    return False
    for eps in (1e-9, -1e-9):
        def pert(t, vs, d, eps=eps):
            return _guarded(t, lambda v: vs[v] * (1 + eps), lambda i, q, u: qvalue(i, q) * (1 + eps), d)
        b = try_eval(pert, tree, vals, dv)
        if (a is None) != (b is None):
            return False
        if a is None:
            continue
        if isinstance(a, bool) or isinstance(b, bool):
            if a != b:
                return False
        elif not math.isclose(a, b, rel_tol=1e-7, abs_tol=1e-9):
            return False
    return True


def same_value(a, b):
    """two readings of the same number (values are O(1) products of leaves in [0.6, 2.9])"""
    if isinstance(a, bool) or isinstance(b, bool):
        return a == b
    return math.isclose(a, b, rel_tol=1e-7, abs_tol=1e-9)


def close(a, b, tol=1e-9):
    if isinstance(a, bool) or isinstance(b, bool):
        return a == b
    return math.isclose(a, b, rel_tol=tol, abs_tol=1e-300)


# ---- sexp <-> tree ---------------------------------------------------------------------------------
def tree_of_sexp(x):
    k = x[0]
    if k == 0:
        return [0, x[1], F(x[2][0], x[2][1])]
    if k == 1:
        return [1, x[1]]
    if k == 2:
        return [2, x[1], F(x[2][0], x[2][1]), x[3]]
    if k == 3:
        return [3, x[1]]
    if k in (4, 5):
        return [k] + [tree_of_sexp(a) for a in x[1:]]
    if k == 6:
        return [6, tree_of_sexp(x[1]), tree_of_sexp(x[2])]
    if k in (7, 10):
        return [k, x[1]] + [tree_of_sexp(a) for a in x[2:]]
    if k == 8:
        return [8, tree_of_sexp(x[1]), tree_of_sexp(x[2]), x[3]]
    if k == 9:
        return [9, x[1], tree_of_sexp(x[2]), tree_of_sexp(x[3])]
    if k in (11, 12):
        return [k]
    if k == 13:
        return [13] + [[tree_of_sexp(a[0]), tree_of_sexp(a[1])] for a in x[1:]]
    raise ValueError(x)


def renumber(t, ids=None):
    """quantity identities numbered from 0 by first occurrence (what bridge.Reifier produces)"""
    if ids is None:
        ids = {}
    if not isinstance(t, list):
        return t
    if t and t[0] == 2 and len(t) == 4 and not isinstance(t[1], list):
        if t[1] not in ids:
            ids[t[1]] = len(ids)
        return [2, ids[t[1]], t[2], t[3]]
    return [renumber(x, ids) for x in t]


def tree_json(t):
    """JSON-able form (Fractions as 'n/d' strings) and back"""
    if isinstance(t, Fraction):
        return '%d/%d' % (t.numerator, t.denominator)
    if isinstance(t, list):
        return [tree_json(x) for x in t]
    return t


def tree_unjson(t):
    if isinstance(t, str):
        n, d = t.split('/')
        return F(int(n), int(d))
    if isinstance(t, list):
        return [tree_unjson(x) for x in t]
    return t


def vec_float(v):
    x = 1.0
    for k, (n, d) in v:
        if k > 0:
            x *= float(k) ** (n / d)
    return x


def vec_dims(v):
    return {GEN_NAMES[k]: n / d for k, (n, d) in v if k < 0}


def same_unit_obs(model_unit, impl_obs):
    """model (scale vec, dims vec) against the implementation's (scale, dims)"""
    ms, md = vec_float(model_unit[0]), vec_dims(model_unit[1])
    s, d = impl_obs
    return (close(ms, s) and set(md) == set(d) and all(abs(md[k] - d[k]) < 1e-9 for k in md))


# ---- tree walking ----------------------------------------------------------------------------------
def children(t):
    k = t[0]
    if k in (4, 5):
        return t[1:]
    if k == 6:
        return [t[1], t[2]]
    if k in (7, 10):
        return t[2:]
    if k == 8:
        return [t[1], t[2]]
    if k == 9:
        return [t[2], t[3]]
    if k == 13:
        return [x for p in t[1:] for x in p]
    return []


def subtrees(t):
    yield t
    for c in children(t):
        for s in subtrees(c):
            yield s


def depth(t):
    cs = children(t)
    return 1 + (max(depth(c) for c in cs) if cs else 0)


def leaf_paths(t, path=()):
    """paths (tuples of list indices) of the variable / quantity leaves"""
    if t[0] in (2, 3):
        yield path
        return
    if t[0] == 13:
        for i, p in enumerate(t[1:], 1):
            for j in (0, 1):
                for r in leaf_paths(p[j], path + (i, j)):
                    yield r
        return
    start = {4: 1, 5: 1, 6: 1, 7: 2, 10: 2, 8: 1, 9: 2}.get(t[0])
    if start is None:
        return
    end = 3 if t[0] == 8 else len(t)
    for i in range(start, end):
        for r in leaf_paths(t[i], path + (i,)):
            yield r


def get_at(t, path):
    for i in path:
        t = t[i]
    return t


def replace_at(t, path, new):
    if not path:
        return new
    c = list(t)
    c[path[0]] = replace_at(t[path[0]], path[1:], new)
    return c


def leaf_unit(leaf):
    return leaf[3] if leaf[0] == 2 else var_unit(leaf[1])


def with_unit(leaf, u):
    if leaf[0] == 2:
        return [2, leaf[1], leaf[2], u]
    return [3, 3 * u + (leaf[1] % 3 if leaf[1] < 3 * NU else 1)]


def closed_exponent(x):
    """python twin of Model/UnitCalc.v num_exp: a sum / product of numbers and quantities (no variable)"""
    if x[0] in (0, 2):
        return True
    if x[0] in (4, 5):
        return all(closed_exponent(a) for a in x[1:])
    return False


def exponent_vars(t):
    """variables that occur inside an exponent: traverse reads them at their initial value (a constant parameter
    such as a Hill coefficient), so the valuations of the oracle keep them there"""
    out = set()
    for s in subtrees(t):
        if s[0] == 6:
            out.update(x[1] for x in subtrees(s[2]) if x[0] == 3)
    return out


def pin_exponent_vars(t, vals):
    vals = list(vals)
    for v in exponent_vars(t):
        if var_init(v):
            vals[v] = float(var_init(v))
    return vals


def has_compound_exponent(t):
    """some exponent is not a closed sum / product of numbers and quantities"""
    return any(s[0] == 6 and not closed_exponent(s[2]) for s in subtrees(t))


def model_may_decline(t):
    """structural reasons for which Model/UnitCalc.v infer answers "declined" (no opinion): floor / ceiling (of a float it
    does not track), a constant (pi, E), an exponent that is not a sum / product of numbers, quantities and variables,
    a non-integer exponent (irrational or complex magnitudes)"""
    def plain(x):
        return x[0] in (0, 2, 3) or (x[0] in (4, 5) and all(plain(a) for a in x[1:]))
    for s in subtrees(t):
        if s[0] == 1 or (s[0] == 7 and s[1] in (3, 4)):
            return True
        if s[0] == 6 and (not plain(s[2]) or (s[2][0] == 0 and s[2][2].denominator != 1)):
            return True
    return False


def has_fn(t, ids):
    return any(s[0] == 7 and s[1] in ids for s in subtrees(t))


# ---- generator -------------------------------------------------------------------------------------
TRANS = [0, 1, 10, 11, 12, 16, 17, 18, 24, 28, 23, 43]      # exp log sin cos tan sinh cosh tanh atan asinh acos factorial
LIT_EXPS = [[0, 0, F(2)], [0, 0, F(3)], [0, 0, F(-1)], [0, 0, F(-2)], [0, 1, F(1, 2)], [0, 2, F(1, 2)],
            [0, 2, F(2)], [0, 1, F(3, 2)], [0, 1, F(-1, 2)], [0, 0, F(1)]]
NUMS = [[0, 0, F(2)], [0, 0, F(3)], [0, 2, F(5, 2)], [0, 1, F(1, 2)], [0, 2, F(3, 4)], [0, 0, F(10)]]
QVALS = [F(1), F(2), F(3), F(1, 2), F(5, 2), F(100), F(50), F(3, 2), F(7)]


class Gen(object):
    """Random trees typed bottom-up with their natural pint unit (a formal product of atoms).
    strict: probability that the siblings of a sum / piecewise / relation are generated in EXACTLY the
    unit of the first one (otherwise: same dimension, any scale)."""

    def __init__(self, rng, strict, max_depth=5):
        self.rng = rng
        self.strict = strict
        self.max_depth = max_depth
        self.nq = 0

    def qty(self, u, val=None):
        self.nq += 1
        return [2, self.nq, val if val is not None else self.rng.choice(QVALS), u]

    def leaf(self, u):
        r = self.rng.random()
        if r < 0.3:
            return self.qty(u, F(0) if self.rng.random() < 0.06 else None)
        return [3, 3 * u + self.rng.choice([0, 0, 1, 2])]

    def zero_like(self, n, exact):
        """a leaf of magnitude exactly 0 (0.0 / -0.0 quantity, for dimensionless also the literals 0 and 0.0) whose
        unit has the dimension of n (exact: also the scale); None if the unit table has no such unit"""
        rng = self.rng
        if not n and rng.random() < 0.3:
            return rng.choice([[0, 0, F(0)], [0, 2, F(0)]])
        us = self.units_like(n, exact)
        return self.qty(rng.choice(us), F(0)) if us else None

    def with_zero(self, args, n, exact, p=0.2):
        """operands of a sum / pieces / relation sides: sometimes a zero operand, mostly in FIRST position
        (code that tests `not quantity` looks at the magnitude)"""
        rng = self.rng
        if rng.random() >= p:
            return args
        z = self.zero_like(n, exact)
        if z is None:
            return args
        args = list(args)
        pos = 0 if rng.random() < 0.6 else rng.randrange(len(args) + 1)
        if rng.random() < 0.7 or pos >= len(args):
            args.insert(pos, z)
        else:
            args[pos] = z
        return args

    def units_like(self, n, exact):
        want_d, want_s = ndims(n), nscale(n)
        return [u for u in range(NU) if UDIMS[u] == want_d and (not exact or close(USCALE[u], want_s, 1e-12))]

    def dimless(self, d):
        """an expression of (exactly) dimensionless unit"""
        rng = self.rng
        r = rng.random()
        if d <= 1 or r < 0.3:
            return rng.choice(NUMS) if rng.random() < 0.4 else self.leaf(0)
        if r < 0.55:
            return [7, rng.choice(TRANS), self.dimless(d - 1)]
        if r < 0.8:
            a, n = self.any(d - 1)
            b = self.like(n, d - 1, True)
            return [5, a, [6, b, [0, 0, F(-1)]]]
        return [4, self.dimless(d - 1), self.dimless(d - 1)]

    def like(self, n, d, exact):
        """an expression whose unit has the dimension of n (exact: also the scale)"""
        rng = self.rng
        us = self.units_like(n, exact)
        r = rng.random()
        if us and (d <= 1 or r < 0.45):
            return self.leaf(rng.choice(us))
        if not n and (d <= 1 or r < 0.6):
            return self.dimless(d)
        if d <= 1 or not us:
            # rebuild from the atoms of n
            items = sorted(n.items())
            args = []
            for j, e in items:
                alts = [j] if exact else [k for k in range(len(ATOMS)) if vdims(ATOMS[k][2]) == vdims(ATOMS[j][2])]
                x = self.leaf(1 + rng.choice(alts))
                args.append(x if e == 1 else [6, x, [0, 1 if e.denominator > 1 else 0, e]])
            if len(args) == 1:
                return args[0]
            return [5] + args
        if r < 0.6:
            return [5, self.dimless(d - 1), self.like(n, d - 1, exact)]
        if r < 0.7:
            return [7, 2, self.like(n, d - 1, exact)]
        if r < 0.85:
            return [4] + self.with_zero([self.like(n, d - 1, exact), self.like(n, d - 1, exact)], n, exact)
        return self.piecewise(n, d, self.like(n, d - 1, exact))

    def cond(self, d):
        rng = self.rng
        r = rng.random()
        if r < 0.08:
            return [11]
        if r < 0.25 and d > 1:
            return [10, rng.choice([0, 1]), self.cond(d - 1), self.cond(d - 1)]
        a, n = self.any(max(1, d - 1))
        exact = rng.random() < self.strict
        b = self.like(n, max(1, d - 1), exact)
        if rng.random() < 0.15:
            z = self.zero_like(n, exact)
            if z is not None:
                a, b = (z, b) if rng.random() < 0.6 else (a, z)
        return [9, rng.choice([0, 2, 3, 4, 5]), a, b]

    def piecewise(self, n, d, first):
        rng = self.rng
        exact = rng.random() < self.strict
        pieces = [[first, self.cond(d - 1)]]
        for _ in range(rng.choice([1, 1, 2])):
            pieces.append([self.like(n, d - 1, exact), self.cond(d - 1) if rng.random() < 0.5 else [11]])
        if pieces[-1][1] != [11] and rng.random() < 0.8:
            pieces[-1][1] = [11]
        exprs = self.with_zero([p[0] for p in pieces], n, exact)
        if len(exprs) > len(pieces):        # a zero piece was inserted: give it a condition of its own
            k = next(i for i in range(len(exprs)) if i >= len(pieces) or exprs[i] is not pieces[i][0])
            pieces.insert(k, [exprs[k], self.cond(d - 1) if k < len(pieces) else [11]])
        else:
            pieces = [[e, p[1]] for e, p in zip(exprs, pieces)]
        return [13] + pieces

    def exponent(self):
        rng = self.rng
        r = rng.random()
        if r < 0.62:
            return rng.choice(LIT_EXPS)
        if r < 0.70:
            return self.qty(0, rng.choice([F(2), F(3), F(1, 2)]))
        if r < 0.74:      # dimensionless with scale 1 under another name: the user unit `one`, radian
            return self.qty(1 + ATOM_ID[rng.choice(['one', 'radian'])], rng.choice([F(2), F(3), F(1, 2)]))
        if r < 0.80:
            return [5, [0, 0, F(-1)], self.qty(0, F(2))]
        if r < 0.88:      # compound exponents (F6)
            return [4, self.qty(0, F(1)), self.qty(0, F(2))]
        if r < 0.92:
            return [4, self.qty(0, F(2)), [5, [0, 0, F(-1)], self.qty(0, F(1))]]
        if r < 0.95:
            return self.qty(8, F(50))         # percent
        if r < 0.98:
            return [3, 3 * 0 + rng.choice([0, 1])]     # dimensionless variable
        return [7, 1, self.qty(0, F(100))]

    def any(self, d):
        """(tree, natural unit)"""
        rng = self.rng
        r = rng.random()
        if d <= 1 or r < 0.12:
            if rng.random() < 0.12:
                return rng.choice(NUMS), {}
            u = rng.randrange(NU)
            return self.leaf(u), dict(UTAB[u])
        if r < 0.32:
            a, n = self.any(d - 1)
            exact = rng.random() < self.strict
            args = [a] + [self.like(n, d - 1, exact) for _ in range(rng.choice([1, 1, 2]))]
            if rng.random() < 0.25:
                args[-1] = [5, [0, 0, F(-1)], args[-1]]
            return [4] + self.with_zero(args, n, exact), n
        if r < 0.52:
            k = rng.choice([2, 2, 3])
            parts = [self.any(d - 1) for _ in range(k)]
            n = {}
            for _, m in parts:
                n = nmul(n, m)
            args = [p for p, _ in parts]
            if rng.random() < 0.3:
                args.insert(rng.randrange(len(args) + 1), rng.choice(NUMS))
            return [5] + args, n
        if r < 0.68:
            b, n = self.any(d - 1)
            x = self.exponent()
            val = exp_value(x)
            return [6, b, x], (npow(n, val) if val is not None else n)
        if r < 0.76:
            if rng.random() < 0.3:      # trig / hyperbolic function of an angle or another dimensionless-class leaf
                us = [u for u in range(NU) if UDIMS[u] == ()]
                return [7, rng.randrange(10, 22), self.leaf(rng.choice(us))], {}
            if rng.random() < 0.8:
                return [7, rng.choice(TRANS), self.like({}, d - 1, rng.random() < 0.6)], {}
            f2, b2 = rng.choice([40, 41, 42]), self.dimless(d - 1)
            if f2 == 42 and not any(x[0] == 3 for x in subtrees(b2)):
                try:        # no Mod by a closed expression that is exactly zero (log(1/2 + 1/2)): SymPy raises on rebuild
                    if bridge.eval_tree(b2, None) == 0:
                        b2 = [0, 0, F(2)]
                except Exception:
                    b2 = [0, 0, F(2)]
            return [7, f2, self.like({}, d - 1, rng.random() < 0.6), b2], {}
        if r < 0.86:
            a, n = self.any(d - 1)
            return [7, rng.choice([2, 2, 3, 4]), a], n
        if r < 0.93:
            a, n = self.any(d - 1)
            return self.piecewise(n, d, a), n
        y, t = rng.randrange(NV), 3 * rng.choice([4, 5, 11]) + rng.choice([0, 1, 2])
        return [8, [3, y], [3, t], 1], nmul(UTAB[var_unit(y)], UTAB[var_unit(t)], -1)


def shared_tree(g, d=3):
    """(tree, natural unit): one compound subterm S occurs 2-3 times in different unit contexts -- as a factor (any units
    will do), inside exp() after division by a unit-carrying quantity, as a side of a relation or an operand of a sum next
    to a differently scaled partner (specific units required) -- in both orders of first visit"""
    rng = g.rng
    while True:
        u = rng.randrange(1, NU)
        alts = [w for w in range(NU) if UDIMS[w] == UDIMS[u]]
        if UDIMS[u] and len(alts) > 1:
            break
    n = dict(UTAB[u])
    S = [4, g.leaf(rng.choice([u, u, rng.choice(alts)])), g.leaf(u)]
    if rng.random() < 0.3:
        S = [4, [5, rng.choice(NUMS), S[1]], S[2]]
    partner = lambda: g.leaf(rng.choice([w for w in alts if w != u] or alts))      # noqa: E731
    k = g.qty(0, rng.choice([F(2), F(3), F(1, 2)]))
    factor = [5, k, S]
    inexp = [7, rng.choice([0, 1, 10, 18]), [5, S, [6, g.qty(rng.choice(alts), F(2)), [0, 0, F(-1)]]]]
    rel = [9, rng.choice([2, 3, 4, 5]), partner(), S] if rng.random() < 0.5 else [9, rng.choice([2, 3, 4, 5]), S, partner()]
    summ = [4, partner(), S] if rng.random() < 0.6 else [4, S, partner()]
    zero = g.qty(u, F(0))
    r = rng.random()
    if r < 0.3:
        t, nat = [13, [factor, rel], [zero, [11]]], n                       # factor first, then relation side
    elif r < 0.45:
        t, nat = [13, [summ, rel], [factor, [11]]], n                       # sum first
    elif r < 0.65:
        t, nat = [5, inexp, summ], n                                        # exp argument first, then sum operand
    elif r < 0.8:
        t, nat = [5, summ, inexp], n                                        # the other order
    elif r < 0.9:
        t, nat = [4, factor, partner(), S], n                               # factor, then operand of the same sum
    else:
        t, nat = [13, [[5, inexp, S], rel], [summ, [11]]], n                # three occurrences
    return t, nat


def same_unit_sums():
    """Deterministic table: sums (2-3 terms; also inside Abs, as piecewise pieces, as relation sides) whose leaves ALL
    carry one unit u in {percent, mV/volt, ms, mV} and whose terms are products / quotients / powers / exp of those
    leaves or plain numbers.  -> list of (name, tree, u)"""
    out = []
    inv = lambda x: [6, x, [0, 0, F(-1)]]       # noqa: E731
    neg = lambda x: [5, [0, 0, F(-1)], x]       # noqa: E731
    for uname, u in (('percent', 1 + ATOM_ID['percent']), ('mV/volt', UTAB.index(nu(mV=1, volt=-1))),
                     ('ms', 1 + ATOM_ID['ms']), ('mV', 1 + ATOM_ID['mV'])):
        a, b, c, q = [3, 3 * u], [3, 3 * u + 1], [3, 3 * u + 2], [2, 1, F(3, 2), u]
        terms = [('b', b), ('b*c', [5, b, c]), ('-b*c', neg([5, b, c])), ('b/c', [5, b, inv(c)]), ('b**2', [6, b, [0, 0, F(2)]]),
                 ('-b**2', neg([6, b, [0, 0, F(2)]])), ('1/b', inv(b)), ('exp(b)', [7, 0, b]), ('b*exp(c)', [5, b, [7, 0, c]]),
                 ('2', [0, 0, F(2)]), ('2*b', [5, [0, 0, F(2)], b]), ('b*c/q', [5, b, c, inv(q)]), ('q', q),
                 ('sqrt(b*c)', [6, [5, b, c], [0, 1, F(1, 2)]])]
        sums = [('a + %s' % n, [4, a, t]) for n, t in terms] + [('%s + a' % n, [4, t, a]) for n, t in terms[1:8]]
        sums += [('a + %s + %s' % (terms[i][0], terms[j][0]), [4, a, terms[i][1], terms[j][1]])
                 for i, j in ((0, 1), (1, 3), (3, 0), (4, 0), (9, 0), (10, 11), (12, 13))]
        for n, t in sums:
            out.append(('%s [all leaves in %s]' % (n, uname), t, u))
            out.append(('Abs(%s) [%s]' % (n, uname), [7, 2, t], u))
            out.append(('Piecewise((%s, a < b), (a, True)) [%s]' % (n, uname), [13, [t, [9, 2, a, b]], [a, [11]]], u))
            out.append(('%s < a [%s]' % (n, uname), [9, 2, t, a], u))
    return out


def exp_value(x):
    """true value of a closed exponent tree (None if not closed over numbers / quantities)"""
    try:
        v = bridge.eval_tree(x, lambda v: (_ for _ in ()).throw(KeyError()), lambda i, q, u: float(q) * USCALE[u])
    except Exception:
        return None
    f = F(v).limit_denominator(64)
    return f if abs(float(f) - v) < 1e-12 else None


def mutations(rng, tree, per_leaf=2):
    """single-leaf unit mutations: same dimension other scale, and another dimension"""
    out = []
    for path in leaf_paths(tree):
        leaf = get_at(tree, path)
        u = leaf_unit(leaf)
        same = [w for w in range(NU) if w != u and UDIMS[w] == UDIMS[u] and not close(USCALE[w], USCALE[u], 1e-12)]
        other = [w for w in range(NU) if UDIMS[w] != UDIMS[u]]
        picks = []
        in_exp = any(get_at(tree, path[:k])[0] == 6 and path[k] == 2 for k in range(len(path)))
        if same and not in_exp:      # exponents stay dyadic and small (no x**50, no x**1.02: float exponents in pint)
            picks.append(('scale', rng.choice(same)))
        if other and per_leaf > 1:
            picks.append(('dimension', rng.choice(other)))
        for kind, w in picks:
            out.append((kind, replace_at(tree, path, with_unit(leaf, w))))
    return out
