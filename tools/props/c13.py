"""C13 -- annotations always point at exactly one live variable.

correspondence: annotation-heavy API histories on cellmlmanip.model.Model vs coq/Model/ModelSM.v (extracted)
oracle:         after every call, on the implementation: ids pairwise distinct and distinct from the model id; lookup by
                id / by RDF triple returns exactly the live carrier(s); has_cmeta_id agrees; removing a variable removes
                its annotations; plus convert_variable(move_annotations) and connection-time id transfer in documents.
"""
import glob
import json
import os
import random
import tempfile

import msm
import vlib


def check_state(im, bad, j, op):
    m = im.model
    live = list(m.variables())
    ids = {}
    for v in live:
        c = v.cmeta_id
        if c is None:
            if v.rdf_identity is not None:
                bad.append(('variable without cmeta id has an RDF identity', {'op_index': j, 'var': v.name}))
            continue
        if c in ids:
            bad.append(('two live variables carry the cmeta id %r: %s and %s' % (c, ids[c].name, v.name), {'op_index': j}))
        ids[c] = v
        if c == im.case.get('mcmeta'):
            bad.append(('a variable carries the model\'s own cmeta id %r' % c, {'op_index': j}))
        try:
            got = m.get_variable_by_cmeta_id(c)
        except Exception as e:
            bad.append(('lookup of id %r carried by live variable %s raises %r' % (c, v.name, e), {'op_index': j}))
            continue
        if got is not v:
            bad.append(('lookup of id %r returns %s, but %s carries it' % (c, getattr(got, 'name', got), v.name), {'op_index': j}))
        if not m.has_cmeta_id(c):
            bad.append(('has_cmeta_id(%r) is False although %s carries it' % (c, v.name), {'op_index': j}))
    for c in msm.CMETAS + ['c__x', 'c__y']:
        if c in ids or c == im.case.get('mcmeta'):
            continue
        if m.has_cmeta_id(c):
            bad.append(('has_cmeta_id(%r) is True but no live variable carries it' % c, {'op_index': j}))
        try:
            got = m.get_variable_by_cmeta_id(c)
            bad.append(('lookup of unused id %r returns %s' % (c, getattr(got, 'name', got)), {'op_index': j}))
        except KeyError:
            pass
        except Exception as e:
            bad.append(('lookup of unused id %r raises %r' % (c, e), {'op_index': j}))
    # the resource a variable's annotations hang on is the one named by its CURRENT id (none without an id)
    for k, v in enumerate(im.objs):
        if not im.live[k]:
            continue
        ident = getattr(v, 'rdf_identity', None)
        want_ident = None if v.cmeta_id is None else '#' + v.cmeta_id
        if (None if ident is None else str(ident)) != want_ident:
            bad.append(('variable %s has cmeta id %r but its annotations are looked up under %r (rdf_identity)'
                        % (v.name, v.cmeta_id, None if ident is None else str(ident)), {'op_index': j}))
    # RDF look-ups: exactly the live carriers of the subjects, in order_added order
    from cellmlmanip.rdf import create_rdf_node
    for p in range(2):
        for o in range(3):
            subs = set(str(s_)[1:] for s_ in m.rdf.subjects(create_rdf_node(msm.pred(p)),
                                                           create_rdf_node((msm.OBJ_NS, 'o%d' % o))))
            want = [ids[c] for c in subs if c in ids]
            try:
                got = m.get_variables_by_rdf(msm.pred(p), (msm.OBJ_NS, 'o%d' % o))
            except KeyError:
                if all(c in ids for c in subs):
                    bad.append(('get_variables_by_rdf raises KeyError although every annotated id has a live carrier',
                                {'op_index': j, 'p': p, 'o': o}))
                continue
            if any(c not in ids for c in subs):
                bad.append(('get_variables_by_rdf returns %r although id(s) %r have no live carrier'
                            % ([v.name for v in got], sorted(c for c in subs if c not in ids)), {'op_index': j}))
                continue
            if p == 0:
                # the same question through get_variable_by_ontology_term (predicate 0 is bqbiol:is)
                try:
                    one = m.get_variable_by_ontology_term((msm.OBJ_NS, 'o%d' % o))
                    if len(want) != 1 or one is not want[0]:
                        bad.append(('get_variable_by_ontology_term(o%d) returns %s (cmeta id %r), carriers are %r'
                                    % (o, one.name, one.cmeta_id, [v.name for v in want]), {'op_index': j}))
                except KeyError:
                    if len(want) == 1:
                        bad.append(('get_variable_by_ontology_term(o%d) raises KeyError although %s carries the annotated id'
                                    % (o, want[0].name), {'op_index': j}))
                except ValueError:
                    if len(want) <= 1:
                        bad.append(('get_variable_by_ontology_term(o%d) raises ValueError with %d carrier(s)' % (o, len(want)),
                                    {'op_index': j}))
            if set(map(id, got)) != set(map(id, want)) or len(got) != len(want):
                bad.append(('get_variables_by_rdf(p%d, o%d) returns %r, carriers are %r'
                            % (p, o, [v.name for v in got], [v.name for v in want]), {'op_index': j}))
            elif [v.order_added for v in got] != sorted(v.order_added for v in got):
                bad.append(('get_variables_by_rdf result is not sorted by order_added', {'op_index': j}))


def run_oracle(case):
    bad = []
    try:
        im = msm.Impl(case)
    except Exception as e:
        return [('harness', repr(e))]
    check_state(im, bad, -1, None)
    for j, op in enumerate(case['ops']):
        removed = None
        if op[0] == 'rmvar' and 0 <= op[1] < len(im.objs) and im.live[op[1]]:
            removed = im.objs[op[1]]
            rid, ident = removed.cmeta_id, removed.rdf_identity
        before = list(im.model.rdf)
        r = im.step(op)
        # frame rule for annotations: no operation deletes an annotation, except remove_variable those of the variable
        # removed (its subject); transfer_cmeta_id moves them to the new subject; only 'triple' adds one
        now = list(im.model.rdf)
        gone = msm.annotations_lost(before, now, op, ident if (removed is not None and r[0] == 'ok') else None) \
            if not (op[0] == 'rmvar' and (removed is None or r[0] != 'ok')) else [t for t in before if t not in now]
        if gone:
            bad.append(('%s deleted annotation(s) that do not belong to a removed variable: %s'
                        % (op, [tuple(str(x) for x in t) for t in gone[:3]]), {'op_index': j}))
        if removed is not None and r[0] == 'ok' and rid is not None:
            if list(im.model.rdf.triples((ident, None, None))):
                bad.append(('annotations of removed variable %s are still in the RDF graph' % removed.name, {'op_index': j}))
        if len(bad) < 5:
            check_state(im, bad, j, op)
    return bad


DOC = '''<?xml version="1.0"?>
<model xmlns="http://www.cellml.org/cellml/1.0#" xmlns:cmeta="http://www.cellml.org/metadata/1.0#" name="m">
  <units name="ms"><unit units="second" prefix="milli"/></units>
  <component name="A"><variable name="x" units="second" public_interface="out" initial_value="1" %s/></component>
  <component name="B"><variable name="x" units="%s" public_interface="in" %s/>
    <variable name="y" units="%s" public_interface="out" cmeta:id="y_id"/>
    <math xmlns="http://www.w3.org/1998/Math/MathML"><apply><eq/><ci>y</ci><ci>x</ci></apply></math></component>
  <component name="C"><variable name="y" units="%s" public_interface="in" %s/></component>
  <connection><map_components component_1="%s" component_2="%s"/><map_variables variable_1="x" variable_2="x"/></connection>
  <connection><map_components component_1="B" component_2="C"/><map_variables variable_1="y" variable_2="y"/></connection>
</model>
'''


def doc_cases():
    """documents with ids on source and/or non-source ends of connections, with and without a unit change"""
    out = []
    for src_id in (False, True):
        for tgt_id in (False, True):
            for unit in ('second', 'ms'):
                for swap in (False, True):
                    for cy in (False, True):
                        out.append({'src_id': src_id, 'tgt_id': tgt_id, 'unit': unit, 'swap': swap, 'c_id': cy})
    return out


def run_doc(dc):
    import cellmlmanip
    bad = []
    text = DOC % ('cmeta:id="ax"' if dc['src_id'] else '', dc['unit'], 'cmeta:id="bx"' if dc['tgt_id'] else '',
                  dc['unit'], dc['unit'], 'cmeta:id="cy"' if dc['c_id'] else '',
                  'B' if dc['swap'] else 'A', 'A' if dc['swap'] else 'B')
    d = tempfile.mkdtemp(prefix='c13_')
    path = os.path.join(d, 'm.cellml')
    try:
        with open(path, 'w') as f:
            f.write(text)
        try:
            m = cellmlmanip.load_model(path)
        except Exception as e:
            # an id on both ends of a connection makes load_model raise (documented choice, DESIGN section 6)
            return bad, 'raises:' + vlib.err_class(e)
        ids = {}
        for v in m.variables():
            if v.cmeta_id is not None:
                if v.cmeta_id in ids:
                    bad.append(('after loading, two variables carry id %r' % v.cmeta_id, dc))
                ids[v.cmeta_id] = v
                if m.get_variable_by_cmeta_id(v.cmeta_id) is not v:
                    bad.append(('after loading, lookup of %r does not return its carrier %s' % (v.cmeta_id, v.name), dc))
        for c in ('ax', 'bx', 'cy', 'y_id'):
            declared = {'ax': dc['src_id'], 'bx': dc['tgt_id'], 'cy': dc['c_id'], 'y_id': True}[c]
            if declared and c not in ids:
                # the id must still be reachable: it may have moved to the source variable
                try:
                    got = m.get_variable_by_cmeta_id(c)
                    bad.append(('after loading, no variable carries id %r, but looking it up returns %s (cmeta_id %r)'
                                % (c, got.name, got.cmeta_id), dc))
                except KeyError:
                    bad.append(('after loading, id %r declared in the document belongs to no variable' % c, dc))
        for c in ('ax', 'bx', 'cy', 'y_id', 'never_declared'):
            if m.has_cmeta_id(c) != (c in ids):
                bad.append(('after loading, has_cmeta_id(%r) is %r although %s' % (c, m.has_cmeta_id(c), 'variable %s carries it' % ids[c].name
                                                                               if c in ids else 'no variable carries it'), dc))
        # every carrier is a variable that appears in the equations (the source end), when the connection had equal units
        return bad, 'loaded'
    finally:
        try:
            os.remove(path)
            os.rmdir(d)
        except OSError:
            pass


RDF_BLOCK = ('<rdf:RDF xmlns:rdf="http://www.w3.org/1999/02/22-rdf-syntax-ns#" xmlns:bqbiol="http://biomodels.net/biology-qualifiers/">'
             '<rdf:Description rdf:about="#%s"><bqbiol:is rdf:resource="urn:c13#%s"/></rdf:Description></rdf:RDF>')
RDF_PLACES = ['model', 'component', 'variable', 'connection', 'map_components', 'group', 'relationship_ref', 'component_ref',
              'units', 'unit', 'math_sibling']


def rdf_place_doc(place, on_target):
    """a two-component document whose ONE metadata block about a variable sits at the given (schema-valid) place; the
    annotated id is on the source or on the receiving end of the connection"""
    blk = RDF_BLOCK % ('vid', 'term_v')
    at = lambda p: blk if p == place else ''      # noqa: E731
    src_id = '' if on_target else ' cmeta:id="vid"'
    tgt_id = ' cmeta:id="vid"' if on_target else ''
    return ('<?xml version="1.0"?><model xmlns="http://www.cellml.org/cellml/1.0#" xmlns:cmeta="http://www.cellml.org/metadata/1.0#" '
            'name="m">' + at('model')
            + '<units name="ms">' + at('units') + '<unit units="second" prefix="milli">' + at('unit') + '</unit></units>'
            + '<component name="A">' + at('component') + '<variable name="x" units="second" public_interface="out" '
            'initial_value="1"%s>' % src_id + at('variable') + '</variable></component>'
            + '<component name="B"><variable name="x" units="second" public_interface="in"%s/>' % tgt_id
            + '<variable name="y" units="second"/>' + at('math_sibling')
            + '<math xmlns="http://www.w3.org/1998/Math/MathML"><apply><eq/><ci>y</ci><ci>x</ci></apply></math></component>'
            + '<connection>' + at('connection') + '<map_components component_1="A" component_2="B">' + at('map_components')
            + '</map_components><map_variables variable_1="x" variable_2="x"/></connection>'
            + '<group>' + at('group') + '<relationship_ref relationship="encapsulation">' + at('relationship_ref')
            + '</relationship_ref><component_ref component="P">' + at('component_ref') + '<component_ref component="A"/>'
            '<component_ref component="B"/></component_ref></group><component name="P"/></model>')


def run_rdf_place(pc):
    """the annotation is found through the variable that carries the id after loading, wherever its block was written"""
    import cellmlmanip
    place, on_target = pc
    d = tempfile.mkdtemp(prefix='c13_')
    path = os.path.join(d, 'm.cellml')
    try:
        with open(path, 'w') as f:
            f.write(rdf_place_doc(place, on_target))
        try:
            m = cellmlmanip.load_model(path)
        except Exception as e:
            return [], 'raises:' + vlib.err_class(e)       # a placement the schema refuses
        bad = []
        carriers = [v for v in m.variables() if v.cmeta_id == 'vid']
        if len(carriers) != 1:
            return [('metadata block in <%s>: %d variables carry the id after loading' % (place, len(carriers)), list(pc))], 'loaded'
        for how, fn in (('get_variable_by_ontology_term', lambda: m.get_variable_by_ontology_term(('urn:c13#', 'term_v'))),
                        ('get_variables_by_rdf', lambda: m.get_variables_by_rdf(('http://biomodels.net/biology-qualifiers/', 'is'),
                                                                                ('urn:c13#', 'term_v')))):
            try:
                got = fn()
            except Exception as e:
                bad.append(('metadata block about #vid written inside <%s> (id on the %s end): %s raises %r although %s carries '
                            'the id' % (place, 'receiving' if on_target else 'source', how, e, carriers[0].name), list(pc)))
                continue
            got = got if isinstance(got, list) else [got]
            if len(got) != 1 or got[0] is not carriers[0]:
                bad.append(('metadata block about #vid written inside <%s> (id on the %s end): %s returns %s, the id is carried by %s'
                            % (place, 'receiving' if on_target else 'source', how, [g.name for g in got], carriers[0].name), list(pc)))
        return bad, 'loaded'
    finally:
        try:
            os.remove(path)
            os.rmdir(d)
        except OSError:
            pass


def run_foreign(seed):
    """annotations whose subject is a resource of ANOTHER document (absolute or relative URI ending in '#<id>' with <id> a
    cmeta id of this model): looking a variable up by such a resource, or by an annotation only that resource carries, never
    returns the local variable (the library answers NotImplementedError: non-local annotations are not supported)"""
    import rdflib
    from cellmlmanip.model import Model
    rng = random.Random(seed)
    bad = []
    m = Model('foreign%d' % seed)
    names = ['V', 'time', 'x%d' % rng.randrange(9)]
    vs = [m.add_variable(n, 'dimensionless', cmeta_id=(n if rng.random() < 0.8 else None)) for n in names]
    NS = 'https://chaste.comp.ox.ac.uk/cellml/ns/oxford-metadata#'
    PRED = ('http://biomodels.net/biology-qualifiers/', 'is')
    local_terms = {}
    for k, v in enumerate(vs):
        if v.cmeta_id is not None and rng.random() < 0.6:
            m.rdf.add((v.rdf_identity, rdflib.URIRef(PRED[0] + PRED[1]), rdflib.URIRef(NS + 'term_%d' % k)))
            local_terms[k] = v
    target = rng.choice(vs)
    frag = target.cmeta_id if target.cmeta_id is not None else target.name
    base = rng.choice(['http://models.example.org/other_model.cellml', 'other_model.cellml', 'urn:x-model:other', '../a/b.cellml'])
    foreign = rdflib.URIRef(base + '#' + frag)
    m.rdf.add((foreign, rdflib.URIRef(PRED[0] + PRED[1]), rdflib.URIRef(NS + 'foreign_term')))
    info = {'seed': seed, 'foreign_subject': str(foreign), 'local_ids': [v.cmeta_id for v in vs]}
    try:
        got = m.get_variable_by_cmeta_id(foreign)
        bad.append(('get_variable_by_cmeta_id(<%s>) returns the local variable %s (cmeta_id %r): the resource belongs to another '
                    'document' % (foreign, got.name, got.cmeta_id), info))
    except (NotImplementedError, KeyError):
        pass
    for name, fn in (('get_variables_by_rdf', lambda: m.get_variables_by_rdf(PRED, (NS, 'foreign_term'))),
                     ('get_variable_by_ontology_term', lambda: [m.get_variable_by_ontology_term((NS, 'foreign_term'))])):
        try:
            got = fn()
            if got:
                bad.append(('%s for an annotation that only <%s> (a resource of another document) carries returns the local '
                            'variable(s) %s, none of which carries it' % (name, foreign, [g.name for g in got]), info))
        except (NotImplementedError, KeyError):
            pass
    # variables removed and added again (a removed variable's place in the order of introduction may be re-used): a look-up
    # returns every live carrier, once
    shared = rdflib.URIRef(NS + 'shared_term')
    grp = []
    for k_ in range(rng.randint(3, 5)):
        gv = m.add_variable('grp%d' % k_, 'dimensionless', cmeta_id='grp%d_id' % k_)
        m.rdf.add((gv.rdf_identity, rdflib.URIRef(PRED[0] + PRED[1]), shared))
        grp.append(gv)
    for step in range(rng.randint(1, 3)):
        victim = grp.pop(rng.randrange(len(grp) - 1))          # never the most recently added one
        m.remove_variable(victim)
        gv = m.add_variable('again%d' % step, 'dimensionless', cmeta_id='again%d_id' % step)
        m.rdf.add((gv.rdf_identity, rdflib.URIRef(PRED[0] + PRED[1]), shared))
        grp.append(gv)
        try:
            got = m.get_variables_by_rdf(PRED, (NS, 'shared_term'))
            if sorted(g.name for g in got) != sorted(g.name for g in grp):
                bad.append(('after removing %s and adding %s, get_variables_by_rdf(shared_term) returns %s, the live carriers are %s'
                            % (victim.name, gv.name, [g.name for g in got], [g.name for g in grp]), info))
                break
        except Exception as e:
            bad.append(('get_variables_by_rdf(shared_term) raises %r after a removal and an addition' % (e,), info))
            break
    # objects that are "falsy" (an empty literal, the number 0) are objects like any other, not a wildcard
    P2 = rdflib.URIRef('http://example.org/ns#note')
    carriers = {}
    for v, obj in zip([x for x in vs if x.cmeta_id is not None], [rdflib.Literal(''), rdflib.Literal('remark'), rdflib.Literal(0)]):
        m.rdf.add((v.rdf_identity, P2, obj))
        carriers[obj] = v
    for obj, arg in ((rdflib.Literal(''), ''), (rdflib.Literal(0), rdflib.Literal(0)), (rdflib.Literal('remark'), 'remark')):
        try:
            got = m.get_variables_by_rdf(('http://example.org/ns#', 'note'), arg)
        except Exception as e:
            bad.append(('get_variables_by_rdf(note, %r) raises %r' % (arg, e), info))
            continue
        want = [carriers[obj]] if obj in carriers else []
        if [g.name for g in got] != [w.name for w in want]:
            bad.append(('get_variables_by_rdf(note, %r) returns %s, the variables carrying exactly that object are %s'
                        % (arg, [g.name for g in got], [w.name for w in want]), info))
    # typed literals that compare equal in Python (True == 1 == 1.0) are different RDF objects; a literal that LOOKS like a URI
    # is a literal; look-ups in every order find exactly the carrier
    P3 = rdflib.URIRef('http://example.org/ns#level')
    typed = [(rdflib.Literal(True), True), (rdflib.Literal(1.0), 1.0), (rdflib.Literal(1), 1),
             (rdflib.Literal('http://data.example.org/traces/ik1.csv'), 'http://data.example.org/traces/ik1.csv')]
    tcar = {}
    for k_, (obj, _) in enumerate(typed):
        tv = m.add_variable('typed%d' % k_, 'dimensionless', cmeta_id='typed%d_id' % k_)
        m.rdf.add((tv.rdf_identity, P3, obj))
        tcar[k_] = tv
    order = list(range(len(typed)))
    rng.shuffle(order)
    for k_ in order + order[::-1]:
        try:
            got = m.get_variables_by_rdf(('http://example.org/ns#', 'level'), typed[k_][1])
        except Exception as e:
            bad.append(('get_variables_by_rdf(level, %r) raises %r' % (typed[k_][1], e), info))
            continue
        if [g.name for g in got] != [tcar[k_].name]:
            bad.append(('get_variables_by_rdf(level, %r) returns %s, the annotation %r is carried by %s alone'
                        % (typed[k_][1], [g.name for g in got], typed[k_][0], tcar[k_].name), info))
            break
    # the local annotations are still found
    for k, v in local_terms.items():
        try:
            got = m.get_variable_by_ontology_term((NS, 'term_%d' % k))
            if got is not v:
                bad.append(('get_variable_by_ontology_term(term_%d) returns %s, the annotation is on %s' % (k, got.name, v.name), info))
        except Exception as e:
            bad.append(('get_variable_by_ontology_term(term_%d) raises %r although %s carries it' % (k, e, v.name), info))
    return bad


def work(case):
    return msm.run_plain(case), run_oracle(case)


def run(ctx):
    n = 150 if ctx.tier == 'quick' else 3000
    ctx.rule = ('random annotation-heavy API histories (add_variable with / without / clashing ids, add_cmeta_id, '
                'transfer_cmeta_id, RDF triples, remove_variable, re-adding removed names, look-ups) over 4-7 variables; all 32 '
                'two-connection documents with ids on source / target ends; histories of convert_variable calls with either '
                'setting of move_annotations on generated models with annotated variables (look-ups by id, RDF and ontology '
                'term before and after every conversion; oracle only); injected histories "look at the annotations, move the id '
                'away, give a new id, remove the variable"; annotations whose subject is a resource of another document (absolute / relative URI with '
                'a local id as fragment); registry consistency (has_cmeta_id / look-up) after loading; one metadata block written at each '
                'of 11 places of a document (model, component, variable, connection, map_components, group, relationship_ref, '
                'component_ref, units, unit, beside the maths) with the id on either end of a connection; ids that are not ASCII; '
                'annotations whose object is a local resource; frame rule (no operation deletes annotations of other variables); '
                'non-trivial = at least 3 '
                'id-changing calls')
    ctx.trusted += ['rdflib graph modelled as a set of (subject id, predicate, object) triples',
                    'calls that hand the model dead or foreign variables (F16) are excluded on both sides']
    cases = load_corpus() + [msm.gen_case(ctx.seed * 100000 + i, 'annot') for i in range(n)]
    results = vlib.pmap(work, cases)
    for case, (plain, bad) in zip(cases, results):
        edits = sum(1 for o in case['ops'] if o[0] in ('addvar', 'rmvar', 'addcmeta', 'transfer'))
        ctx.count(case_key=case['ops'], nontrivial=edits >= 3, kind='hist')
        for what, detail in bad:
            ctx.violation(what, {'case': case, 'detail': detail})
        for op, r in zip(case['ops'], plain.get('results', [])):
            kind = op[0] + (':err%s' % r[1] if r[0] == 'err' else '')
            ctx.hist[kind] = ctx.hist.get(kind, 0) + 1
    msm.correspond(ctx, cases, [p for p, _ in results], 'C13')
    for c in cases[:2]:
        ctx.sample({'base': c['base'], 'ops': c['ops'][:12]})
    from props import c08
    c08.conversion_stratum(ctx, 'C13', 40 if ctx.tier == 'quick' else 600)
    docs = doc_cases()
    for dc, (bad, outcome) in zip(docs, vlib.pmap(run_doc, docs)):
        ctx.count(case_key=dc, kind='doc:' + outcome)
        for what, detail in bad:
            ctx.violation(what, {'doc': detail})
    pcs = [(p_, t_) for p_ in RDF_PLACES for t_ in (False, True)]
    nloaded = 0
    for pc, (bad, outcome) in zip(pcs, vlib.pmap(run_rdf_place, pcs)):
        ctx.count(case_key=('rdf_place', pc), kind='rdf-place:' + outcome.split(':')[0])
        nloaded += outcome == 'loaded'
        for what, detail in bad:
            ctx.violation(what, {'rdf_place': detail})
    if nloaded < 12:
        ctx.tie_break('only %d of the %d metadata placements load at all: the placement stratum has lost its meaning' % (nloaded, len(pcs)),
                      {'kind': 'rdf_place'})
    fseeds = [ctx.seed * 1000 + i for i in range(30 if ctx.tier == 'quick' else 400)]
    for sd, bad in zip(fseeds, vlib.pmap(run_foreign, fseeds)):
        ctx.count(case_key=('foreign', sd), kind='foreign-subject')
        for what, detail in bad:
            ctx.violation(what, {'foreign': detail})
    if ctx.tie_breaks and not ctx.violations:
        more = [msm.gen_case(ctx.seed * 100000 + 50000 + i, 'annot') for i in range(10 * n if ctx.tier == 'quick' else n)]
        for case, bad in zip(more, vlib.pmap(run_oracle, more)):
            ctx.count(case_key=case['ops'], kind='search')
            for what, detail in bad:
                ctx.violation(what, {'case': case, 'detail': detail})


def load_corpus():
    out = []
    for p in sorted(glob.glob(os.path.join(vlib.VERIF, 'corpus', 'C13', '*.json'))):
        out.append(json.load(open(p)))
    return out


def replay(ctx, case):
    if 'conversion_case' in case:
        import cvlib
        bad = [b for b in cvlib.conversion_coherence(case['conversion_case']) if b[0] == 'C13']
        for who, what, detail in bad:
            ctx.violation(what, {'conversion_case': case['conversion_case'], 'detail': detail})
        return bad[0][1] if bad else None
    if 'rdf_place' in case:
        bad, _ = run_rdf_place(tuple(case['rdf_place']))
        return bad[0][0] if bad else None
    if 'foreign' in case:
        bad = run_foreign(case['foreign']['seed'])
        return bad[0][0] if bad else None
    if 'doc' in case:
        bad, _ = run_doc(case['doc'])
        return bad[0][0] if bad else None
    c = case.get('case', case)
    bad = run_oracle(c)
    if bad:
        return bad[0][0]
    msm.correspond(ctx, [c], [msm.run_plain(c)], 'C13')
    return ctx.tie_breaks[0][0] if ctx.tie_breaks else None


KNOWN_PREDICATES = {}
