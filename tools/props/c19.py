"""C19 -- custom conversion rules apply the same way whatever units sit on either side.

correspondence: unit families + linear rules (numeric / symbolic coefficients, chains of two) + conversions between all
                spellings of the source and target dimensions: UnitStore vs coq/Model/URules.v (extracted)
oracle:         on the implementation's own numbers: result(a, b) = factor(a, a0) x result(a0, b0) x factor(b0, b);
                conversions inside one dimension are the same before and after registering rules; pairs no rule connects
                still raise DimensionalityError; Model.convert_variable uses the rule (numeric check of the new equation).
"""
import glob
import json
import math
import os
import random
from fractions import Fraction

import vlib
from props import c07

FN = 190
GEN_DEPS = ('builtins',)

SYMVALS = {0: 1.7, 1: 0.3}
DIMS = [('ampere', 'uA', '1e-6'), ('farad', 'pF', '1e-12'), ('metre', 'cm', '0.01'), ('second', 'ms', '0.001'),
        ('volt', 'mV', '0.001'), ('mole', 'mmol', '0.001')]


def gen_case(seed):
    rng = random.Random(seed)
    ops = []
    # three dimensions X -> Y (-> Z): built from distinct base dimensions
    picks = rng.sample(DIMS, 3)
    kbase = rng.choice([d for d in DIMS if d not in picks])
    units = {}
    for tag, (base, small, fac) in zip('XYZ', picks):
        n0 = tag + '0'
        ops.append(['add', 0, n0, ('mul', ('ref', base), ('num', rng.choice(['1', '1000', '0.001', '60'])))])
        ops.append(['add', 0, tag + '1', ('mul', ('ref', n0), ('num', rng.choice(['1000', '1e-6', '2.5', '12'])))])
        ops.append(['add', 0, tag + '2', ('div', ('ref', base), ('num', rng.choice(['100', '7', '1e3'])))])
        units[tag] = [('get', 0, tag + '0'), ('get', 0, tag + '1'), ('get', 0, tag + '2'),
                      ('div', ('mul', ('get', 0, tag + '1'), ('get', 0, 'second')), ('get', 0, 'second'))]
    # K units: make X * uK ~ Y  (or X / uK ~ Y):   uK = Y0 / X0  (mul)   or   X0 / Y0  (div), possibly rescaled
    rules = []
    chain = rng.random() < 0.5
    pairs = [('X', 'Y')] + ([('Y', 'Z')] if chain else [])
    composite = (not chain) and rng.random() < 0.4
    if composite:
        # the only rule starts from a COMPOSITE dimension C = X*W (current per area, say): a unit of the part X alone, or of W
        # alone, is not connected to Y by it
        ops.append(['add', 0, 'C0', ('mul', ('ref', 'X0'), ('ref', kbase[0]))])
        ops.append(['add', 0, 'C1', ('mul', ('ref', 'C0'), ('num', rng.choice(['1000', '0.01', '2.5'])))])
        ops.append(['add', 0, 'W0', ('mul', ('ref', kbase[0]), ('num', '10'))])
        ops.append(['add', 0, 'C2', ('mul', ('ref', 'X1'), ('ref', 'W0'))])
        units['C'] = [('get', 0, 'C0'), ('get', 0, 'C1'), ('get', 0, 'C2')]
        units['W'] = [('get', 0, 'W0'), ('get', 0, kbase[0])]
        pairs = [('C', 'Y')]
    for k, (s, t) in enumerate(pairs):
        div = rng.random() < 0.5
        kname = 'K%d' % k
        ratio = ('div', ('ref', s + '0'), ('ref', t + '0')) if div else ('div', ('ref', t + '0'), ('ref', s + '0'))
        ops.append(['add', 0, kname, ('mul', ratio, ('num', rng.choice(['1', '1000', '0.01', '3'])))])
        # coefficients with no, one or two symbolic factors (a product of several symbols must survive as a whole)
        sym = rng.choice([[], [], [k], [k], [0, 1]])
        rules.append({'from': rng.choice(units[s][:3]), 'to': rng.choice(units[t][:3]), 'div': div,
                      'kq': rng.choice(['12', '1.1', '0.5', '2', '96', '1', '1', '-1', '-2.5', '1.0000002', '0.99999985']), 'ksym': sym,
                      'kunit': ('get', 0, kname)})
    dim_pairs = [('X', 'Y'), ('Y', 'X'), ('X', 'Z'), ('Y', 'Z'), ('Z', 'X'), ('X', 'X'), ('Y', 'Y')]
    if composite:
        dim_pairs += [('C', 'Y'), ('W', 'Y'), ('C', 'X'), ('Y', 'C'), ('X', 'C')]
    if rng.random() < 0.4 and not composite:
        # a generic rule function ("multiply by K") registered for a second pair of dimensions P = X*W -> Q = Y*W as the
        # very same callable
        for tag, src in (('P', 'X'), ('Q', 'Y')):
            ops.append(['add', 0, tag + '0', ('mul', ('ref', src + '0'), ('ref', kbase[0]))])
            ops.append(['add', 0, tag + '1', ('mul', ('ref', tag + '0'), ('num', rng.choice(['1000', '0.01', '2.5'])))])
            units[tag] = [('get', 0, tag + '0'), ('get', 0, tag + '1')]
        rules.append(dict(rules[0], **{'from': rng.choice(units['P']), 'to': rng.choice(units['Q']), 'same_callable_as': 0}))
        dim_pairs += [('P', 'Q'), ('Q', 'P'), ('P', 'Y'), ('X', 'Q')]
    queries = []
    for s, t in dim_pairs:
        for a in units[s]:
            for b in rng.sample(units[t], 2):
                queries.append(['conv', a, b])
    # before: ordinary conversions and failing pairs; then rules; then everything again
    before = [q for q in queries]
    ops += [['q'] + q[1:] for q in before]
    for r in rules:
        ops.append(['rule', r])
    ops += [['q'] + q[1:] for q in queries]
    return {'seed': seed, 'ops': ops, 'rules': rules, 'chain': chain}


def case_sexp(case):
    out = []
    for op in case['ops']:
        k = op[0]
        if k == 'add':
            out.append([1, op[1], op[2], c07.uexpr_sexp(op[3])])
        elif k == 'rule':
            r = op[1]
            out.append([10, [c07.uterm_sexp(r['from']), c07.uterm_sexp(r['to']), bool(r['div']), c07.frac(r['kq']),
                             list(r['ksym']), c07.uterm_sexp(r['kunit'])]])
        elif k == 'q':
            out.append([11, c07.uterm_sexp(op[1]), c07.uterm_sexp(op[2])])
    return out


def run_impl(case):
    import sympy
    from cellmlmanip.units import UnitStore
    st = UnitStore()
    stores = [st]
    syms = {i: sympy.Symbol('k%d' % i, positive=True) for i in SYMVALS}
    out = []
    callables = []
    for op in case['ops']:
        k = op[0]
        try:
            if k == 'add':
                st.add_unit(op[2], c07.uexpr_str(op[3]))
                out.append(['ok'])
            elif k == 'rule':
                r = op[1]
                mag = float(Fraction(c07.frac(r['kq'])))
                for s_ in r['ksym']:
                    mag = mag * syms[s_]
                K = st.Quantity(mag, c07._term(stores, r['kunit']))
                if r.get('same_callable_as') is not None:
                    fn = callables[r['same_callable_as']]
                elif r['div']:
                    fn = lambda ureg, rhs, K=K: rhs / K      # noqa: E731
                else:
                    fn = lambda ureg, rhs, K=K: rhs * K      # noqa: E731
                callables.append(fn)
                st.add_conversion_rule(c07._term(stores, r['from']), c07._term(stores, r['to']), fn)
                out.append(['ok'])
            elif k == 'q':
                a, b = c07._term(stores, op[1]), c07._term(stores, op[2])
                # a quantity of magnitude zero is converted like any other: between unconnected dimensions it fails too
                try:
                    st.convert(st.Quantity(0.0, a), b)
                    zero_ok = True
                except Exception:
                    zero_ok = False
                # both entry points are tried, whatever the other does (a failed attempt must not be remembered)
                try:
                    st.get_conversion_factor(a, b)
                except Exception:
                    pass
                q = st.convert(st.Quantity(1.0, a), b)
                mag = q.magnitude
                if isinstance(mag, sympy.Expr):
                    mag = float(mag.subs({syms[i]: v for i, v in SYMVALS.items()}))
                cf = st.get_conversion_factor(a, b)
                if isinstance(cf, sympy.Expr):
                    cf = float(cf.subs({syms[i]: v for i, v in SYMVALS.items()}))
                out.append(['ok', float(mag), bool(q.units == b), float(cf)])
        except Exception as e:
            out.append(['err', c07._errcode(e), str(e)[:100]] + (['zero-converted'] if k == 'q' and locals().get('zero_ok') else []))
    return out


def model_value(m):
    q = Fraction(m[1][0], m[1][1])
    x = float(q)
    for s_, e in m[2]:
        x *= SYMVALS[s_] ** e
    return x * c07.vec_float(m[3])


def oracle(case, impl):
    bad = []
    n_before = sum(1 for op in case['ops'] if op[0] == 'q') // 2
    qs = [(op, r) for op, r in zip(case['ops'], impl) if op[0] == 'q']
    before, after = qs[:n_before], qs[n_before:]
    res = {}
    for (op, r0), (_, r1) in zip(before, after):
        key = (repr(op[1]), repr(op[2]))
        res[key] = r1
        if r0[0] == 'ok':
            # convertible without any rule: registering rules must not change the answer
            if r1[0] != 'ok' or not math.isclose(r0[1], r1[1], rel_tol=1e-9) or not math.isclose(r0[3], r1[3], rel_tol=1e-9):
                bad.append(('a conversion that needs no rule changed after rules were registered: before %r after %r'
                            % (r0[1:], r1[1:]), {'from': op[1], 'to': op[2]}))
        elif r0[1] != 4:
            bad.append(('conversion between incompatible units raised something other than a dimensionality error: %r' % (r0,),
                        {'from': op[1], 'to': op[2]}))
    # which dimension pairs are connected by the registered rules
    conn = set()
    for r in case['rules']:
        conn.add((r['from'][2][0], r['to'][2][0]))
    if ('X', 'Y') in conn and ('Y', 'Z') in conn:
        conn.add(('X', 'Z'))

    def tag(t):
        while t[0] != 'get':
            t = t[1]
        return t[2][0]
    for (op, r1) in before + after:
        if r1[0] == 'err' and r1[-1] == 'zero-converted':
            bad.append(('a quantity of magnitude 0 converts between units whose conversion of 1 raises: %r' % (r1[:3],),
                        {'from': op[1], 'to': op[2]}))
    for (op, r1) in after:
        s, t = tag(op[1]), tag(op[2])
        if s != t and (s, t) not in conn:
            if r1[0] == 'ok':
                bad.append(('conversion between dimensions no rule connects succeeded: %r' % (r1[1:],), {'from': op[1], 'to': op[2]}))
            elif r1[1] != 4:
                bad.append(('conversion between dimensions no rule connects raised %r instead of a dimensionality error' % (r1,),
                            {'from': op[1], 'to': op[2]}))
        if (s, t) in conn and r1[0] != 'ok':
            bad.append(('conversion along a registered rule fails: %r' % (r1,), {'from': op[1], 'to': op[2]}))
        if r1[0] == 'ok' and not r1[2]:
            bad.append(('converted quantity is not in the requested unit', {'from': op[1], 'to': op[2]}))
        if r1[0] == 'ok' and not math.isclose(r1[1], r1[3], rel_tol=1e-9):
            bad.append(('get_conversion_factor (%r) differs from convert(1 unit) (%r)' % (r1[3], r1[1]), {'from': op[1], 'to': op[2]}))
    # absolute value of every conversion along the rules, from the SI meaning of all units involved (reference vectors
    # written independently in c07): 1 a = scale(a) SI; each rule multiplies / divides by K = kq * symbols * scale(kunit);
    # the result is read in b
    known = c07.reference_vectors({'ops': [['new', -1]] + [op for op in case['ops'] if op[0] == 'add']})

    def si_scale(t):
        v = c07.reference_term(known, t)
        if v is None:
            return None
        x = 1.0
        for g, e in v.items():
            if g > 0:
                x *= float(g) ** float(e)
        return x
    kfac = {}
    for r in case['rules']:
        ks = si_scale(r['kunit'])
        if ks is None:
            continue
        kv = float(Fraction(c07.frac(r['kq']))) * ks
        for s_ in r['ksym']:
            kv *= SYMVALS[s_]
        kfac[(r['from'][2][0], r['to'][2][0])] = 1.0 / kv if r['div'] else kv
    if ('X', 'Y') in kfac and ('Y', 'Z') in kfac:
        kfac[('X', 'Z')] = kfac[('X', 'Y')] * kfac[('Y', 'Z')]
    for (op, r1) in after:
        s, t = tag(op[1]), tag(op[2])
        if r1[0] == 'ok' and (s, t) in kfac:
            sa, sb = si_scale(op[1]), si_scale(op[2])
            if sa is not None and sb is not None:
                want = sa * kfac[(s, t)] / sb
                if not math.isclose(r1[1], want, rel_tol=1e-8):
                    bad.append(('conversion along the rule gives %r, but 1 source unit = %r SI, the rule factor is %r SI and the '
                                'target unit is %r SI: expected %r' % (r1[1], sa, kfac[(s, t)], sb, want),
                                {'from': op[1], 'to': op[2]}))
    # unit independence: result(a, b) = factor(a, a') x result(a', b') x factor(b', b) for all spellings of the two dimensions
    for (a, b), r in res.items():
        if r[0] != 'ok':
            continue
        for (a2, b2), r2 in res.items():
            if r2[0] != 'ok' or (a2, b2) == (a, b):
                continue
            faa = res.get((a, a2))
            fbb = res.get((b2, b))
            if faa and fbb and faa[0] == 'ok' and fbb[0] == 'ok':
                want = faa[1] * r2[1] * fbb[1]
                if not math.isclose(r[1], want, rel_tol=1e-8):
                    bad.append(('rule result depends on the units used: convert(%s -> %s) = %r, but through (%s -> %s) it is %r'
                                % (a, b, r[1], a2, b2, want), {'a': a, 'b': b, 'a2': a2, 'b2': b2}))
    return bad


def convert_variable_case(seed):
    """Model.convert_variable across a rule: the new variable equals the rule's result"""
    import sympy
    import cellmlmanip.model as M
    rng = random.Random(seed)
    bad = []
    m = M.Model('m')
    us = m.units
    uA = us.add_unit('uA', 'ampere * 1e-6')
    uF = us.add_unit('uF', 'farad * 1e-6')
    cm2 = us.add_unit('cm2', '(metre * 0.01) ** 2')
    src = us.add_unit('src', 'uA / cm2')
    dst = us.add_unit('dst', 'ampere / farad')
    alt = us.add_unit('alt', rng.choice(['uA / (metre * 0.001) ** 2', 'ampere / metre ** 2 * 3', 'uA / cm2 * 1000']))
    dalt = us.add_unit('dalt', rng.choice(['uA / uF', 'ampere / farad * 1e-3', 'ampere / uF']))
    kval = rng.choice([1.1, 2.0, 0.25, -1.0, -8.0, 1e-3, 4000.0])
    Cs = us.Quantity(kval, us.get_unit('uF') / cm2)
    us.add_conversion_rule(src, dst, lambda ureg, rhs: rhs / Cs)
    t = m.add_variable('t', 'second')
    x = m.add_variable('x', 'dimensionless', initial_value=0.5)
    i = m.add_variable('i', alt)
    m.add_equation(sympy.Eq(sympy.Derivative(x, t), m.create_quantity(1.0, us.get_unit('dimensionless') / us.get_unit('second'))))
    m.add_equation(sympy.Eq(i, m.create_quantity(3.0, alt) * x))
    direction = rng.choice([M.DataDirectionFlow.OUTPUT, M.DataDirectionFlow.INPUT])
    # rules are one-way: a variable of the TARGET dimension cannot be converted back to the source dimension, in either role
    back = m.add_variable('back', dalt, initial_value=2.0)
    for dirn in (M.DataDirectionFlow.OUTPUT, M.DataDirectionFlow.INPUT):
        try:
            got = m.convert_variable(back, alt, dirn)
            return bad + [('convert_variable(%s) against the direction of the only registered rule (%s -> %s) succeeded and '
                           'returned %s' % (dirn, dalt, alt, got.name), {'seed': seed})]
        except Exception as e:
            if vlib.err_class(e) != 'pint:DimensionalityError':
                bad.append(('convert_variable against the direction of the only registered rule raised %r, not a dimensionality '
                            'error' % (e,), {'seed': seed}))
    want_cf = us.convert(us.Quantity(1.0, alt), dalt).magnitude
    if rng.random() < 0.5:
        # a STATE variable (it has an initial value) converted across the one-way rule, in either direction
        j = m.add_variable('j', alt, initial_value=rng.choice([1.3, -40.0, 2e-4]))
        m.add_equation(sympy.Eq(sympy.Derivative(j, t), m.create_quantity(1.0, alt / us.get_unit('second'))))
        j0 = j.initial_value
        try:
            newj = m.convert_variable(j, dalt, direction)
        except Exception as e:
            return bad + [('convert_variable of a state variable across a registered rule (%s) raises %r' % (direction, e), {'seed': seed})]
        if direction == M.DataDirectionFlow.INPUT:
            if newj.initial_value is None or not math.isclose(newj.initial_value, j0 * float(want_cf), rel_tol=1e-9):
                bad.append(('INPUT conversion of a state across a rule: new initial value %r, expected %r'
                            % (newj.initial_value, j0 * float(want_cf)), {'seed': seed}))
        return bad
    direct = us.convert(us.Quantity(1.0, src), dst).magnitude * float(us.get_conversion_factor(alt, src)) * float(us.get_conversion_factor(dst, dalt))
    if not math.isclose(float(want_cf), float(direct), rel_tol=1e-9):
        bad.append(('rule result depends on the units used (convert vs factors): %r vs %r' % (want_cf, direct), {'seed': seed}))
    try:
        new = m.convert_variable(i, dalt, direction)
    except Exception as e:
        return bad + [('convert_variable across a registered rule raises %r' % (e,), {'seed': seed})]
    eqs = m.get_equations_for([new], strip_units=True)
    val = {x: 0.5}
    vals = {}
    for eq in eqs:
        if eq.lhs.is_Derivative:
            continue
        vals[eq.lhs] = float(eq.rhs.xreplace(val).xreplace(vals))
    got = vals.get(new)
    want = 3.0 * 0.5 * float(want_cf)
    if got is None or not math.isclose(got, want, rel_tol=1e-9):
        bad.append(('convert_variable across a rule: new variable evaluates to %r, expected %r' % (got, want),
                    {'seed': seed, 'direction': str(direction)}))
    return bad


def rule_scenarios(seed):
    """(a) a rule INTO dimensionless, and units of the source dimension defined AFTER it: they are ordinary units; (b) the
    quantity handed to convert is not changed by the call: converting it a second time, to a unit of its own dimension,
    needs no rule and still works"""
    from cellmlmanip.units import UnitStore
    rng = random.Random(seed)
    bad = []
    us = UnitStore()
    mV = us.add_unit('mV', 'volt / 1000')
    dless = us.get_unit('dimensionless')
    VT = us.Quantity(rng.choice([25.0, 26.7, 0.5]), mV)
    us.add_conversion_rule(mV, dless, lambda ureg, rhs: rhs / VT)
    sc = rng.choice(['1e-6', '1e-9', '60', '2.5'])
    uV = us.add_unit('uV', 'volt * ' + sc)              # defined after the rule
    pc = us.add_unit('pc', 'dimensionless * 0.01')
    for a, b, want in ((uV, mV, float(sc) * 1000), (uV, us.get_unit('volt'), float(sc)), (pc, dless, 0.01),
                       (mV, dless, 1.0 / VT.magnitude), (uV, dless, float(sc) * 1000 / VT.magnitude)):
        try:
            got = float(us.get_conversion_factor(a, b))
        except Exception as e:
            got = repr(e)
        if not (isinstance(got, float) and math.isclose(got, want, rel_tol=1e-9)):
            bad.append(('with a rule voltage -> dimensionless registered BEFORE the unit was defined, factor(%s -> %s) is %s, expected %r'
                        % (a, b, got, want), {'scenario': seed}))
    try:
        us.get_conversion_factor(dless, uV)
        bad.append(('conversion dimensionless -> %s succeeds although the only rule goes the other way' % uV, {'scenario': seed}))
    except Exception:
        pass
    # (b)
    nA = us.add_unit('nA', 'ampere * 1e-9')
    pA = us.add_unit('pA', 'ampere * 1e-12')
    dens = us.add_unit('uA_per_cm2', 'ampere * 1e-6 / (metre * 0.01) ** 2')
    area = us.Quantity(rng.choice([2.0, 0.5]), us.get_unit('metre') ** 2)
    us.add_conversion_rule(nA, dens, lambda ureg, rhs: rhs / area)
    q = us.Quantity(3.0, nA)
    try:
        us.convert(q, dens)
        again = us.convert(q, pA)
        if q.units != nA or q.magnitude != 3.0 or not math.isclose(float(again.magnitude), 3000.0, rel_tol=1e-9):
            bad.append(('convert(q, unit) changed its argument: q is now %s, converting it again to pA gives %s' % (q, again),
                        {'scenario': seed}))
    except Exception as e:
        bad.append(('after convert(q, %s) along a rule, converting the same quantity q = 3 nA to pA raises %r' % (dens, e),
                    {'scenario': seed}))
    return bad


def work(case):
    try:
        return run_impl(case)
    except Exception as e:
        return [['err', 'harness:' + repr(e)]]


def run(ctx):
    n = 100 if ctx.tier == 'quick' else 1500
    ctx.rule = ('three dimensions with three spellings + one composite spelling each; one rule X->Y or a chain X->Y->Z; linear '
                'rules q*K or q/K with numeric or symbolic coefficient and a rescaled K unit; every spelling pair of every '
                'dimension pair converted before and after the rules are registered, through convert AND get_conversion_factor '
                'independently (a failed attempt must not be remembered); in 40% of the cases one callable registered for a second '
                'pair of dimensions P = X*W -> Q = Y*W; negative coefficients; convert_variable of computed and of state variables across '
                'a rule in both roles, and AGAINST the direction of the only rule (must fail); non-trivial = every case (>= 40 '
                'conversions)')
    ctx.trusted += ['pint contexts modelled at specification level (shortest chain of dimension-to-dimension transformations, '
                    'each applied to the quantity in its current units)']
    cases = load_corpus() + [gen_case(ctx.seed * 100000 + i) for i in range(n)]
    impls = vlib.pmap(work, cases)
    mods = vlib.model_run(FN, [case_sexp(c) for c in cases]) if ctx.model_ok() else None
    for i, (case, impl) in enumerate(zip(cases, impls)):
        ctx.count(case_key=case['ops'], kind='chain' if case['chain'] else 'single')
        for what, detail in oracle(case, impl):
            ctx.violation(what, {'case': case, 'detail': detail})
        if mods is not None:
            ctx.corr_cases += 1
            for op, r, m in zip(case['ops'], impl, mods[i]):
                d = None
                if m[0] == -1:
                    if not (r[0] == 'err' and r[1] == m[1]):
                        d = 'model: error %d, implementation %r' % (m[1], r[:3])
                elif r[0] == 'err':
                    d = 'model: ok, implementation raised %r' % (r[1:],)
                elif op[0] == 'q':
                    want = model_value(m)
                    if not math.isclose(r[1], want, rel_tol=1e-8):
                        d = 'converted magnitude: model %r implementation %r' % (want, r[1])
                if d is not None:
                    ctx.tie_break('correspondence C19 (Model/URules.v vs units.py) differs on %r: %s' % (op[:1], d),
                                  {'case': case, 'op': op, 'impl': r, 'model': m})
                    break
        if i < 1:
            ctx.sample({'rules': case['rules'], 'ops': case['ops'][:6], 'n_ops': len(case['ops'])})
    seeds = [ctx.seed * 1000 + i for i in range(20 if ctx.tier == 'quick' else 200)]
    for sd, bad in zip(seeds, vlib.pmap(rule_scenarios, seeds)):
        ctx.count(case_key=('scenario', sd), kind='rule-scenario')
        for what, detail in bad:
            ctx.violation(what, {'rule_scenario': detail})
    for sd, bad in zip(seeds, vlib.pmap(convert_variable_case, seeds)):
        ctx.count(case_key=('cv', sd), kind='convert_variable')
        for what, detail in bad:
            ctx.violation(what, {'convert_variable_case': detail})


def load_corpus():
    out = []
    for p in sorted(glob.glob(os.path.join(vlib.VERIF, 'corpus', 'C19', '*.json'))):
        out.append(json.load(open(p)))
    return out


def _tup(x):
    return tuple(_tup(y) for y in x) if isinstance(x, list) else x


def replay(ctx, case):
    if 'rule_scenario' in case:
        bad = rule_scenarios(case['rule_scenario']['scenario'])
        return bad[0][0] if bad else None
    if 'convert_variable_case' in case:
        bad = convert_variable_case(case['convert_variable_case']['seed'])
        return bad[0][0] if bad else None
    c = case.get('case', case)
    for op in c['ops']:
        for i in range(1, len(op)):
            if isinstance(op[i], list):
                op[i] = _tup(op[i])
            elif isinstance(op[i], dict):
                for k in ('from', 'to', 'kunit'):
                    op[i][k] = _tup(op[i][k])
    c['rules'] = [op[1] for op in c['ops'] if op[0] == 'rule']
    impl = run_impl(c)
    bad = oracle(c, impl)
    return bad[0][0] if bad else None


KNOWN_PREDICATES = {}
