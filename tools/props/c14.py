"""C14 -- every number written in the document reaches the generated code bit for bit (DESIGN.md section 5, C14).

case = {'kind': stratum, 'lits': [lit, ...]}     lit = {'form': 'cn'|'sep'|'init'|'state', 'text': str, 'exp': str|None}
  one CellML document per case: the first literal is the initial value of the state variable, every other one a
  constant  c_i = <cn>text</cn>,  c_i = <cn type="e-notation">text<sep/>exp</cn>  or  <variable initial_value=text>;
  the same <cn> elements are also handed to Transpiler().parse_string as bare MathML fragments.
  implementation : load_model; float(quantity), Model.get_value, get_equations_for(strip_units=True) right-hand side,
                   Printer().doprint of it; Variable.initial_value; Float precisions seen by Quantity._eval_evalf
  model          : extracted Model/Floats.v  (run 140): dps_to_prec for 1..200 (exhaustive, against
                   mpmath.libmp.dps_to_prec), FLOAT_PRECISION and the chain of precisions of evalf
  oracle (D)     : every observation has the float.hex() of Python's own float(text) (= the double nearest to the
                   exact decimal value, cross-checked with Fraction arithmetic: m * 10^e is computed exactly).
"""
import decimal
import math
import os
import random
import re
import struct
import tempfile
from decimal import Decimal
from fractions import Fraction

import vlib

FN = 140
GEN_DEPS = ('precision',)
KNOWN_PREDICATES = {}

MAXF = 1.7976931348623157e308
MINN = 2.2250738585072014e-308


# ------------------------------------------------------------------------------------------------
# documents
def cn_xml(lit, ent=None):
    text, exp = lit['text'], lit['exp']
    if ent is not None:
        # the digits are declared once as internal XML entities and referenced from the number
        ent.append(text)
        text = '&n%d;' % (len(ent) - 1)
        if exp is not None:
            ent.append(exp)
            exp = '&n%d;' % (len(ent) - 1)
    if lit['form'] == 'sep':
        return '<cn cellml:units="dimensionless" type="e-notation">%s<sep/>%s</cn>' % (text, exp)
    return '<cn cellml:units="dimensionless">%s</cn>' % text


def document(lits, entities=False, explit=None, tinit=None, compound=None):
    ent = [] if entities else None
    vs = ['<variable name="t" units="second"%s/>' % (' initial_value="%s"' % tinit['text'] if tinit else ''),
          '<variable name="x" units="dimensionless" initial_value="%s"/>' % lits[0]['text']]
    eqs = ['<apply><eq/><apply><diff/><bvar><ci>t</ci></bvar><ci>x</ci></apply>'
           '<cn cellml:units="dimensionless">1</cn></apply>']
    for i, lit in enumerate(lits[1:]):
        if lit['form'] == 'init':
            vs.append('<variable name="c%d" units="dimensionless" initial_value="%s"/>' % (i, lit['text']))
        else:
            vs.append('<variable name="c%d" units="dimensionless"/>' % i)
            eqs.append('<apply><eq/><ci>c%d</ci>%s</apply>' % (i, cn_xml(lit, ent)))
    if explit is not None:
        # a literal placed directly as the exponent of a power
        vs.append('<variable name="pw" units="dimensionless"/>')
        eqs.append('<apply><eq/><ci>pw</ci><apply><power/><ci>x</ci>%s</apply></apply>' % cn_xml(explit, ent))
    if compound is not None:
        # literals inside larger expressions: c * exp(x) - n   and   c * piecewise(a if x < th else b) + d
        cn = lambda t: '<cn cellml:units="dimensionless">%s</cn>' % t      # noqa: E731
        c, n_, c2, a, th, b, d_ = compound
        vs.append('<variable name="we" units="dimensionless"/><variable name="wp" units="dimensionless"/>')
        eqs.append('<apply><eq/><ci>we</ci><apply><minus/><apply><times/>%s<apply><exp/><ci>x</ci></apply></apply>%s</apply></apply>'
                   % (cn(c), cn(n_)))
        eqs.append('<apply><eq/><ci>wp</ci><apply><plus/><apply><times/>%s<piecewise><piece>%s<apply><lt/><ci>x</ci>%s</apply>'
                   '</piece><otherwise>%s</otherwise></piecewise></apply>%s</apply></apply>' % (cn(c2), cn(a), cn(th), cn(b), cn(d_)))
    doctype = ''
    if ent:
        doctype = '<!DOCTYPE model [' + ''.join('<!ENTITY n%d "%s">' % (k, t) for k, t in enumerate(ent)) + ']>'
    return ('<?xml version="1.0"?>' + doctype + '<model name="m" xmlns="http://www.cellml.org/cellml/1.0#" '
            'xmlns:cellml="http://www.cellml.org/cellml/1.0#"><component name="c">' + ''.join(vs)
            + '<math xmlns="http://www.w3.org/1998/Math/MathML">' + ''.join(eqs) + '</math></component></model>')


MATH_OPEN = ('<?xml version="1.0"?><math xmlns="http://www.w3.org/1998/Math/MathML" '
             'xmlns:cellml="http://www.cellml.org/cellml/1.0#">')


# ------------------------------------------------------------------------------------------------
# expected value: exact rational of the text, then ONE correctly rounded conversion
def exact_value(lit):
    q = Fraction(Decimal(lit['text'].strip()))
    if lit['form'] == 'sep':
        q *= Fraction(10) ** int(lit['exp'].strip())
    return q


def python_text(lit):
    if lit['form'] == 'sep':
        return '%se%d' % (lit['text'].strip(), int(lit['exp'].strip()))
    return lit['text'].strip()


def expected_hex(lit):
    """(hex of Python's float(text), hex of float(exact Fraction))"""
    a = float(python_text(lit))
    try:
        b = float(exact_value(lit))
    except OverflowError:
        b = math.inf
    if b == 0 and python_text(lit).lstrip().startswith('-'):
        b = -0.0
    return a.hex(), b.hex()


# ------------------------------------------------------------------------------------------------
# implementation
def run_impl(case):
    """-> {'obs': [ {name: hex or 'ERR:class'} per literal ], 'precs': sorted list of (asked, got, final)}"""
    import cellmlmanip
    from cellmlmanip.model import Quantity
    from cellmlmanip.parser import Transpiler
    from cellmlmanip.printer import Printer
    import sympy
    lits = case['lits']
    out = {'obs': [dict() for _ in lits], 'precs': [], 'load': None}
    fd, path = tempfile.mkstemp(suffix='.cellml')
    try:
        os.write(fd, document(lits, case.get('entities', False), case.get('explit'), case.get('tinit'), case.get('compound')).encode())
        os.close(fd)
        try:
            m = cellmlmanip.load_model(path)
        except Exception as e:
            out['load'] = vlib.err_class(e) + ': ' + str(e)[:200]
            return out
    finally:
        os.unlink(path)
    seen = []
    orig = Quantity._eval_evalf

    def spy(self, prec):
        r = orig(self, prec)
        seen.append((int(prec), int(getattr(r, '_prec', -1))))
        return r

    def guard(o, name, fn):
        try:
            v = fn()
            o[name] = float(v).hex() if not isinstance(v, str) else v
        except Exception as e:
            o[name] = 'ERR:' + vlib.err_class(e)

    pr = Printer(lambda v: 'v')
    # state variable
    x = m.get_variable_by_name('c$x')
    o = out['obs'][0]
    guard(o, 'initial_value', lambda: x.initial_value)
    guard(o, 'get_value', lambda: m.get_value(x))
    names = [m.get_variable_by_name('c$c%d' % i) for i in range(len(lits) - 1)]
    Quantity._eval_evalf = spy
    try:
        try:
            stripped = {eq.lhs: eq.rhs for eq in m.get_equations_for(names, strip_units=True)}
            serr = None
        except Exception as e:
            stripped, serr = {}, 'ERR:' + vlib.err_class(e)
    finally:
        Quantity._eval_evalf = orig
    finals = set()
    for i, v in enumerate(names):
        o = out['obs'][i + 1]
        try:
            rhs = m.get_definition(v).rhs
        except Exception as e:
            o['definition'] = 'ERR:' + vlib.err_class(e)
            continue
        if not isinstance(rhs, Quantity):
            o['definition'] = 'ERR:not-a-Quantity ' + type(rhs).__name__
        guard(o, 'float(quantity)', lambda: float(rhs))
        guard(o, 'str(quantity)', lambda: float(str(rhs)))
        guard(o, 'get_value', lambda: m.get_value(v))
        if serr:
            o['stripped'] = serr
        else:
            s = stripped.get(v)
            if not isinstance(s, sympy.Number):
                o['stripped'] = 'ERR:not-a-Number ' + type(s).__name__
            else:
                if isinstance(s, sympy.Float):       # evalf turns a zero into the Integer 0
                    finals.add(int(s._prec))
                guard(o, 'stripped', lambda: float(s))
                guard(o, 'doprint', lambda: float(pr.doprint(s)))
                try:
                    o['doprint_text'] = pr.doprint(s)
                except Exception as e:
                    o['doprint_text'] = 'ERR:' + vlib.err_class(e)
        # the same element as a bare MathML fragment
        if lits[i + 1]['form'] != 'init':
            def frag():
                r = Transpiler().parse_string(MATH_OPEN + cn_xml(lits[i + 1]) + '</math>')
                return float(r[0])
            guard(o, 'fragment', frag)
            def fragprint():
                r = Transpiler().parse_string(MATH_OPEN + cn_xml(lits[i + 1]) + '</math>')
                return float(pr.doprint(r[0]))
            guard(o, 'fragment_doprint', fragprint)
    out['extra'] = {}
    if case.get('explit') is not None:
        o = out['extra']['explit'] = {}
        pw = m.get_variable_by_name('c$pw')

        def expo(e):
            pws = [p_ for p_ in sympy.preorder_traversal(e) if isinstance(p_, sympy.Pow)]
            return pws[0].exp if pws else sympy.Integer(1)      # x**1 collapses to x
        guard(o, 'float(quantity)', lambda: float(expo(m.get_definition(pw).rhs)))
        try:
            srhs = [eq.rhs for eq in m.get_equations_for([pw], strip_units=True) if eq.lhs is pw][0]
            guard(o, 'stripped', lambda: float(expo(srhs)))
            guard(o, 'doprint', lambda: float(pr.doprint(srhs).split('**')[1].strip().strip('()')) if '**' in pr.doprint(srhs) else 1.0)
        except Exception as e:
            o['stripped'] = 'ERR:' + vlib.err_class(e)
    if case.get('compound') is not None:
        import re as _re
        o = out['extra']['compound'] = {}
        num = _re.compile(r'(?<![\w.])\d+\.?\d*(?:[eE][-+]?\d+)?')
        for nm_ in ('we', 'wp'):
            wv = m.get_variable_by_name('c$' + nm_)
            try:
                srhs = [eq.rhs for eq in m.get_equations_for([wv], strip_units=True) if eq.lhs is wv][0]
                o[nm_ + ':stripped'] = sorted(abs(float(f)).hex() for f in srhs.atoms(sympy.Float))
                o[nm_ + ':doprint'] = sorted(abs(float(t_)).hex() for t_ in num.findall(pr.doprint(srhs)))
            except Exception as e:
                o[nm_ + ':stripped'] = 'ERR:' + vlib.err_class(e)
    if case.get('tinit') is not None:
        o = out['extra']['tinit'] = {}
        t = m.get_variable_by_name('c$t')
        guard(o, 'float(quantity)', lambda: float(m.get_definition(t).rhs))
        guard(o, 'get_value', lambda: m.get_value(t))
        try:
            srhs = [eq.rhs for eq in m.get_equations_for([t], strip_units=True) if eq.lhs is t][0]
            guard(o, 'stripped', lambda: float(srhs))
            guard(o, 'doprint', lambda: float(pr.doprint(srhs)))
        except Exception as e:
            o['stripped'] = 'ERR:' + vlib.err_class(e)
    out['precs'] = sorted(set(seen))
    out['finals'] = sorted(finals)
    return out


def judge(case, res):
    """-> list of (what, detail) oracle failures"""
    bad = []
    if res['load'] is not None:
        return [('document with finite decimal literals refused: ' + res['load'], None, 'load')]
    for i, (lit, o) in enumerate(zip(case['lits'], res['obs'])):
        want, _ = expected_hex(lit)
        for name, got in sorted(o.items()):
            if name == 'doprint_text':
                continue
            if got != want:
                bad.append(('%s of literal %r is %s, the nearest double of the text is %s (%r)'
                            % (name, python_text(lit), got if got.startswith('ERR') else
                               '%s (%r)' % (got, float.fromhex(got)), want, float.fromhex(want)), i, name))
    if case.get('compound') is not None:
        c, n_, c2, a, th, b, d_ = case['compound']
        want = {'we': sorted(abs(float(t_)).hex() for t_ in (c, n_)), 'wp': sorted(abs(float(t_)).hex() for t_ in (c2, a, th, b, d_))}
        for name, got in sorted((res.get('extra') or {}).get('compound', {}).items()):
            if got != want[name.split(':')[0]]:
                bad.append(('the numbers of %s in the equation %s = %s are %s, the document\'s literals are %s'
                            % (name.split(':')[1], name.split(':')[0],
                               'c*exp(x) - n' if name.startswith('we') else 'c*piecewise(a if x < th else b) + d',
                               got if isinstance(got, str) else [float.fromhex(g) for g in got],
                               [float.fromhex(g) for g in want[name.split(':')[0]]]), None, name))
    for key, where in (('explit', 'written as the exponent of a power'), ('tinit', 'the initial_value of the variable of integration')):
        lit = case.get(key)
        if lit is None:
            continue
        want, _ = expected_hex(lit)
        for name, got in sorted((res.get('extra') or {}).get(key, {}).items()):
            if got != want:
                bad.append(('%s of literal %r (%s) is %s, the nearest double of the text is %s (%r)'
                            % (name, python_text(lit), where, got if got.startswith('ERR') else
                               '%s (%r)' % (got, float.fromhex(got)), want, float.fromhex(want)), None, name))
    return bad


def small_case(case, idx, stage):
    if idx is None:
        return dict(case, stage=stage, lits=case['lits'][:1])
    return {'kind': 'document', 'seed': case.get('seed'), 'strata': [], 'stage': stage, 'entities': case.get('entities', False),
            'lits': [case['lits'][0]] + ([case['lits'][idx]] if idx else [])}


def negative_zero_after_sympy(case):
    """the failing literal denotes -0.0 and the failing observation went through a SymPy number (which has no
    signed zero): the unit-stripped equation, its printed form, a bare fragment (sympy.Float)"""
    lit = case['lits'][-1]
    return (case.get('stage') in ('stripped', 'doprint', 'fragment', 'fragment_doprint')
            and expected_hex(lit)[0] == (-0.0).hex())


KNOWN_PREDICATES['negative_zero_after_sympy'] = negative_zero_after_sympy


def work(case):
    try:
        return run_impl(case)
    except Exception as e:
        import traceback
        return {'load': 'harness: ' + traceback.format_exc()[-400:], 'obs': [], 'precs': [], 'finals': []}


# ------------------------------------------------------------------------------------------------
# generators
def rand_double(r):
    while True:
        x = struct.unpack('<d', struct.pack('<Q', r.getrandbits(64)))[0]
        if math.isfinite(x):
            return x


def rand_value(r, kind):
    if kind == 'bits':
        return rand_double(r)
    if kind == 'subnormal':
        return math.copysign(struct.unpack('<d', struct.pack('<Q', r.getrandbits(r.randint(1, 52))))[0],
                             r.choice([1, -1]))
    if kind == 'extreme':
        return r.choice([MAXF, -MAXF, MINN, 5e-324, -5e-324, math.nextafter(MAXF, 0), math.nextafter(MINN, 0),
                         math.nextafter(MINN, 1), 2.0 ** -1022, 2.0 ** 1023, 1e308, 1e-308, 1e-323, 0.0, -0.0])
    if kind == 'bigint':
        return float(2 ** r.randint(53, 80) + r.randint(-5000, 5000))
    if kind == 'moderate':
        return float(repr(r.uniform(-1, 1) * 10.0 ** r.randint(-12, 12)))
    if kind == 'short':
        return float('%d.%0*d' % (r.randint(0, 999), r.randint(1, 4), r.randint(0, 999)))
    raise ValueError(kind)


def plain_digits(x):
    """positional decimal text (no exponent) that rounds to x, built from the shortest repr"""
    d = Decimal(repr(x))
    return format(d, 'f')


def point_variant(r, text):
    """the same number written with a bare decimal point: '5.' / '5.e3' (no fraction digits), '.5' (no integer digits),
    or with redundant zeros; all are legal decimal literals"""
    t = text.strip()
    m = re.fullmatch(r'([+-]?)([0-9]*)(?:\.([0-9]*))?((?:[eE][+-]?[0-9]+)?)', t)
    if not m or not (m.group(2) or m.group(3)):
        return text
    sign, ip, fp, ex = m.group(1), m.group(2), m.group(3) or '', m.group(4)
    v = r.randrange(4)
    if v == 0 and fp.strip('0') == '' and ip:
        return sign + ip + '.' + ex                      # 5.   5.e3
    if v == 1 and ip.strip('0') == '' and fp:
        return sign + '.' + fp + ex                      # .5
    if v == 2:
        return sign + '00' + (ip or '0') + ('.' + fp if fp else '') + ex
    if v == 3 and ip:
        return sign + ip + '.' + fp + '000' + ex
    return text


def spell(r, x, kind):
    """-> lit: one spelling whose nearest double is (usually) x"""
    form = r.choice(['cn', 'cn', 'sep', 'sep', 'init'])
    s = r.randint(0, 7)
    if kind == 'bigint' and r.random() < 0.6:
        n = int(x) + r.choice([0, 1, -1, 3, 255, -511])          # integers that are NOT doubles themselves
        text = str(n)
        if form == 'sep':
            k = r.randint(0, 6)
            return {'form': 'sep', 'text': text, 'exp': str(k)} if r.random() < 0.5 else \
                {'form': 'sep', 'text': text[:-k or None] + ('.' + text[-k:] if k else ''), 'exp': str(k)}
        return {'form': form, 'text': text, 'exp': None}
    if s == 0:
        text = repr(x)
    elif s == 1:
        text = '%.17g' % x
    elif s == 2:
        text = '%.17e' % x
    elif s == 3:
        text = '%.25e' % x                                        # more digits than needed
    elif s == 4:
        # the exact binary value plus a little: near the double, never a tie
        text = str(Decimal(x)) if abs(x) > 1e-300 or x == 0 else '%.40e' % x
    elif s == 5:
        # a decimal just above / below the midpoint between x and its neighbour: the hard cases for rounding
        y = math.nextafter(x, math.inf if r.random() < 0.5 else -math.inf)
        if math.isfinite(y) and x != 0:
            with decimal.localcontext() as dctx:
                dctx.prec = 1200       # exact midpoint (the default context would round it to 28 digits)
                mid = (Decimal(x) + Decimal(y)) / 2
                eps = Decimal(1).scaleb(mid.adjusted() - 30)
                text = format((mid + eps * r.choice([1, -1])), '.45e')
        else:
            text = repr(x)
    elif s == 6:
        text = repr(x).replace('e', 'E') if r.random() < 0.5 else ('+' + repr(x) if x >= 0 and str(x)[0] != '-' else repr(x))
    else:
        text = ' ' * r.randint(0, 2) + repr(x) + r.choice(['', ' ', '\n  '])
    if text.strip() in ('inf', '-inf', 'nan') or not math.isfinite(float(text)):
        text = repr(x)
    if form in ('cn', 'sep') and r.random() < 0.15:
        text = point_variant(r, text)
    if form == 'sep':
        # mantissa must be a plain decimal; move the exponent (and a random shift) behind <sep/>
        d = Decimal(text.strip())
        sh = r.randint(-6, 6)
        e = d.adjusted() + sh if d != 0 else r.randint(-5, 5)
        with decimal.localcontext() as dctx:
            dctx.prec = 1200       # exact: the default context would round the mantissa to 28 digits
            mant = d.scaleb(-e)
        mtext = format(mant, 'f')
        pad = r.choice(['', ' ', '  '])
        if r.random() < 0.15:
            mtext = point_variant(r, mtext)
        return {'form': 'sep', 'text': pad + mtext, 'exp': pad + ('%+d' % e if r.random() < 0.3 else str(e)) + pad}
    return {'form': form, 'text': text, 'exp': None}


KINDS = ['bits', 'bits', 'bits', 'subnormal', 'extreme', 'bigint', 'moderate', 'short']


def gen_case(seed, nlits=12):
    r = random.Random(seed)
    lits = []
    kinds = []
    for i in range(nlits):
        k = r.choice(KINDS)
        x = rand_value(r, k)
        lit = spell(r, x, k)
        if i == 0:
            lit = {'form': 'state', 'text': (lit['text'] if lit['form'] != 'sep' else repr(x)), 'exp': None}
        # finite after conversion only
        try:
            if not math.isfinite(float(python_text(lit))):
                lit = {'form': lit['form'] if lit['form'] != 'sep' else 'cn', 'text': repr(x), 'exp': None}
        except (ValueError, OverflowError):
            lit = {'form': 'cn', 'text': repr(x), 'exp': None}
        lits.append(lit)
        kinds.append(k)
    case = {'kind': 'document', 'seed': seed, 'strata': kinds, 'lits': lits, 'entities': r.random() < 0.1}
    if r.random() < 0.5:
        # a literal as the exponent of a power: near-integers must stay what they are
        text = r.choice(['2.0000000001', '0.9999999999', '3.0000000000000004', '-1.9999999999999998', '2.5', '1.0000000000000002',
                         '400000000001e-11', '0.5000000000000001', '-0.33333333333333337', '7.000000000000001'])
        case['explit'] = {'form': 'cn', 'text': text, 'exp': None}
    if r.random() < 0.5:
        # literals inside larger expressions (distinct; the factors c may be 1 or -1 in any spelling)
        pool = ['2.5', '3.3', '1.1', '7.3', '0.3', '1000.1', '0.001', '1.0000000000000002', '6.02214076e23', '4.9e-324',
                '1.7976931348623157e308', '0.30000000000000004', '12345.678901234567', '9.5e-7']
        case['compound'] = r.sample(pool, 7)
        # the edge value one as a factor (any spelling): it is a literal of the document like any other
        r1 = random.Random(seed * 7 + 3)
        for pos in (0, 2):
            if r1.random() < 0.35:
                case['compound'][pos] = r1.choice(['1', '1.0', '-1', '100e-2', '-1.0', '0.01e2'])
    if r.random() < 0.4:
        x = rand_value(r, r.choice(['bits', 'moderate', 'short', 'extreme', 'subnormal']))
        if x != 0 and math.isfinite(x):
            case['tinit'] = {'form': 'init', 'text': repr(x), 'exp': None}
    return case


FIXED = [
    # hand-picked: 17-digit shortest forms, double-rounding traps for m * 10^e, extremes
    [{'form': 'state', 'text': '0.1', 'exp': None},
     {'form': 'sep', 'text': '1.1', 'exp': '2'}, {'form': 'sep', 'text': '0.07', 'exp': '1'},
     {'form': 'sep', 'text': '0.9', 'exp': '-3'}, {'form': 'sep', 'text': '2.3', 'exp': '2'},
     {'form': 'sep', 'text': '8.2', 'exp': '2'}, {'form': 'sep', 'text': '1.7976931348623157', 'exp': '308'},
     {'form': 'sep', 'text': '4.9406564584124654', 'exp': '-324'}, {'form': 'sep', 'text': '49.406564584124654', 'exp': '-325'},
     {'form': 'cn', 'text': '9007199254740993', 'exp': None}, {'form': 'cn', 'text': '9007199254740995', 'exp': None},
     {'form': 'init', 'text': '18014398509481985', 'exp': None}, {'form': 'cn', 'text': '0.30000000000000004', 'exp': None},
     {'form': 'cn', 'text': '5e-324', 'exp': None}, {'form': 'init', 'text': '2.2250738585072011e-308', 'exp': None},
     {'form': 'cn', 'text': '1.7976931348623157e308', 'exp': None}, {'form': 'init', 'text': '-1.7976931348623157e+308', 'exp': None},
     {'form': 'cn', 'text': '123456789012345678', 'exp': None}, {'form': 'cn', 'text': '1.2345678901234567', 'exp': None},
     {'form': 'cn', 'text': '0.1234567890123456789012345', 'exp': None}, {'form': 'init', 'text': '1e23', 'exp': None},
     {'form': 'cn', 'text': '8.41e21', 'exp': None}, {'form': 'cn', 'text': '2.2250738585072014e-308', 'exp': None},
     {'form': 'sep', 'text': '22250738585072014', 'exp': '-324'}, {'form': 'cn', 'text': '-0.0', 'exp': None},
     {'form': 'cn', 'text': '5.', 'exp': None}, {'form': 'cn', 'text': '-12.', 'exp': None}, {'form': 'cn', 'text': '5.e3', 'exp': None},
     {'form': 'cn', 'text': '.5', 'exp': None}, {'form': 'cn', 'text': '18014398509481985.', 'exp': None},
     {'form': 'sep', 'text': '5.', 'exp': '3'}, {'form': 'sep', 'text': '-.25', 'exp': '-2'}, {'form': 'cn', 'text': '1.E-3', 'exp': None}],
]


# ------------------------------------------------------------------------------------------------
def check_model(ctx):
    """dps_to_prec (exhaustive 1..200) and the precision chain against the implementation's libraries."""
    import mpmath.libmp as libmp
    import cellmlmanip.model as M
    if not ctx.model_ok():
        return None
    ns = list(range(0, 201)) + [250, 500, 1000]
    res = vlib.model_run(FN, [[0, n] for n in ns] + [[1]])
    for n, r in zip(ns, res[:-1]):
        want = libmp.dps_to_prec(n)
        ctx.count(('dps', n), True, 'dps_to_prec')
        ctx.corr_cases += 1
        if r[0] != want:
            ctx.tie_break('dps_to_prec model (Model/Floats.v) %d != mpmath.libmp.dps_to_prec(%d) = %d' % (r[0], n, want),
                          {'kind': 'dps', 'n': n})
        if 1 <= n <= 200 and r[1] != 1:
            ctx.tie_break('dps_to_prec: rational constant not adequate (margin) at %d' % n, {'kind': 'dps', 'n': n})
    fp, chain = res[-1]
    if fp != M.FLOAT_PRECISION:
        ctx.tie_break('generated FLOAT_PRECISION %d differs from cellmlmanip.model.FLOAT_PRECISION %r'
                      % (fp, M.FLOAT_PRECISION), {'kind': 'const'})
    return fp, chain


def run(ctx):
    n = 500 if ctx.tier == "quick" else 6000
    ctx.rule = ('dps_to_prec: EXHAUSTIVE 0..200 (+3) against mpmath.  Documents: %d per run, 12 literals each '
                '(+1 fixed document of 25): values from random 64-bit patterns (finite), subnormals, range extremes, '
                'integers beyond 2^53 that are not doubles, moderate and short decimals; spelled as shortest repr, '
                '%%.17g, %%.17e, 25 digits, exact binary expansion, just off a rounding midpoint (45 digits), E / + / '
                'white space variants; placed as plain <cn>, <cn type="e-notation">m<sep/>e</cn> with shifted mantissa, '
                'initial_value of constants and of the state variable, and as bare MathML fragments; 15%% of the <cn> texts with a bare '
                'decimal point or redundant zeros (5. / .5 / 5.e3 / 005.0 / 5.000), 10%% of the documents with the digits supplied '
                'through internal XML entities; in half of the documents a near-integer literal written directly as the exponent of a '
                'power, in 40%% an initial_value on the variable of integration.' % n)
    ctx.trusted += ['tools/translate_precision.py (FLOAT_PRECISION, _cn_handler conversions and format, Quantity.__float__ / '
                    '_eval_evalf, Variable.initial_value, Printer._print_float/_print_Float shapes)',
                    'CPython float(text) correctly rounded and repr(float) round-trips (cross-checked against exact '
                    'Fraction arithmetic on every literal, not proved)',
                    'Flocq 4.1.0; sympy/mpmath evalf chain observed (asked/got/final precisions) on every document']
    ctx.assume += ['the mantissa of an e-notation <cn> is a plain decimal (no exponent of its own)',
                   'finite values only: the format FLT(-1074,53) has no overflow threshold']
    chain = check_model(ctx)
    cases = [{'kind': 'fixed', 'seed': -1, 'strata': [], 'lits': FIXED[0]}]
    cases += [gen_case(ctx.seed * 1000003 + i) for i in range(n)]
    evaluate(ctx, cases, chain)
    if ctx.tie_breaks and not ctx.violations:
        ctx.log.append('[C14] tie broken: running the oracle on 10x more documents')
        more = [gen_case(ctx.seed * 1000003 + 500000 + i) for i in range(10 * n)]
        evaluate(ctx, more, chain)


def evaluate(ctx, cases, chain):
    results = vlib.pmap(work, cases)
    for case, res in zip(cases, results):
        for lit, k in zip(case['lits'], case.get('strata') or ['fixed'] * len(case['lits'])):
            a, b = expected_hex(lit)
            if a != b:
                ctx.tie_break('CPython float(%r) = %s is not the double nearest to the exact value (%s)'
                              % (python_text(lit), a, b), {'kind': 'float', 'lit': lit})
            ctx.count((lit['form'], python_text(lit)), True, '%s/%s' % (k, lit['form']))
        bad = judge(case, res)
        for what, idx, stage in bad[:6]:
            ctx.violation(what, small_case(case, idx, stage))
        if res.get('load') is None and chain is not None:
            fp, ch = chain
            # correspondence of the precision chain: asked p+4, got dps_to_prec(p+4), final p
            want_seen = [(ch[1], ch[0])]
            if res['precs'] and [tuple(x) for x in res['precs']] != want_seen:
                ctx.tie_break('evalf precision chain: Quantity._eval_evalf saw (asked, got) = %s, model says %s'
                              % (res['precs'], want_seen), case)
            if res['finals'] and res['finals'] != [ch[2]]:
                ctx.tie_break('precision of the stripped Float is %s bits, model says %d' % (res['finals'], ch[2]), case)
            ctx.corr_cases += 1
        if len(ctx.samples) < 3:
            ctx.sample({'lits': case['lits'][:4], 'observed': res['obs'][:4]})


def replay(ctx, case):
    if case.get('kind') in ('dps', 'const', 'float'):
        check_model(ctx)
        return ctx.tie_breaks[0][0] if ctx.tie_breaks else None
    res = work(case)
    bad = judge(case, res)
    if case.get('stage'):
        bad = [b for b in bad if b[2] == case['stage']] or bad
    for what, idx, stage in bad[:6]:
        ctx.violation(what, small_case(case, idx, stage))
    if ctx.violations:
        return ctx.violations[0][0]
    return None
