"""C15 -- the same document always yields the same model.

correspondence: generated documents (and their permuted variants) loaded with cellmlmanip.load_model vs
                coq/Model/Loader.v (extracted): ORDERED variable list, ORDERED Model.equations, initial values,
                cmeta ids, assigned_to -- the model predicts every order the code takes from a Python container
oracle:         (a) every document is loaded in 4 fresh interpreters, PYTHONHASHSEED in {0, 1, 2, random}: ordered
                variables, ordered equations, get_state_variables, get_derived_quantities, get_derivatives,
                get_equations_for(all) must be identical; (b) each permutation kind (units: random, every definition before / after what it is built from; groups, connections,
                map_variables, the two ends of a connection, equations / math elements, components) is applied and
                the order-insensitive observables must be unchanged, the name-sorted queries
                (get_equations_for in all its variants, get_free_variable) identical for every kind, the
                order_added-sorted queries identical for every kind but `components`
"""
import glob
import json
import os
import random
import shutil
import tempfile

import loader_gen as G
import vlib

GEN_DEPS = ('builtins', 'prefixes')
SEEDS = ['0', '1', '2', 'random']
ORDERED_KEYS = ('annotations', 'eq_numbers', 'unit_meaning', 'var_order', 'eq_order', 'states', 'derived', 'derivatives', 'states_unsorted', 'derived_unsorted',
                'derivatives_unsorted', 'eqs_for', 'eqs_for_units', 'eqs_for_top',
                'eqs_for_each', 'free')
# name-sorted queries: their answers depend on the equation graph only, never on the order of anything in the file
GRAPH_KEYS = ('eq_numbers', 'unit_meaning', 'eqs_for', 'eqs_for_units', 'eqs_for_top', 'eqs_for_each', 'free')


def gen_cases(ctx):
    n = 36 if ctx.tier == 'quick' else 400
    cases = []
    for i in range(n):
        seed = ctx.seed * 100000 + i
        # every third document has variables whose names differ only in case (k / K, rate / Rate) in one component and
        # in one topological layer: name-sorted queries must not fall back to the order of the <apply> elements
        doc = G.gen_valid(seed, case_names=(i % 3 == 1))
        rng = random.Random(seed + 3)
        perms = []
        for kind in G.PERM_KINDS:
            d2 = G.permute(doc, kind, rng)
            if d2 is not None:
                perms.append([kind, d2])
        cases.append({'gen_seed': seed, 'doc': doc, 'perms': perms})
    return cases


def observe_all(cases):
    """-> per case: {'seeds': {seed: obs}, 'perms': [obs ...]}"""
    tmp = tempfile.mkdtemp(prefix='c15_')
    try:
        paths, perm_paths = [], []
        for i, c in enumerate(cases):
            p = os.path.join(tmp, 'd%d.cellml' % i)
            open(p, 'w').write(G.to_xml(c['doc']))
            paths.append(p)
            for j, (kind, d2) in enumerate(c['perms']):
                pp = os.path.join(tmp, 'd%d_p%d.cellml' % (i, j))
                open(pp, 'w').write(G.to_xml(d2))
                perm_paths.append(pp)
        nsh = max(1, min(vlib.NPROC, len(paths) // 4 or 1))
        tasks = []
        for s in SEEDS:
            for k in range(nsh):
                tasks.append((s, paths[k::nsh], os.path.join(tmp, 'o_%s_%d.json' % (s, k))))
        for k in range(nsh):
            tasks.append(('0', perm_paths[k::nsh], os.path.join(tmp, 'op_%d.json' % k)))
        outs = vlib.pmap(G.run_observer, tasks)
        by_path = {}
        for (s, ps, _), o in zip(tasks, outs):
            for p, r in zip(ps, o):
                by_path[(s, p)] = r
        res = []
        it = iter(perm_paths)
        for i, c in enumerate(cases):
            r = {'seeds': {s: by_path[(s, paths[i])] for s in SEEDS}, 'perms': []}
            for _ in c['perms']:
                r['perms'].append(by_path[('0', next(it))])
            res.append(r)
        return res
    finally:
        shutil.rmtree(tmp, ignore_errors=True)


def diff_keys(a, b, keys):
    if a.get('status') != b.get('status'):
        return ['status']
    return [k for k in keys if a.get(k) != b.get(k)]


def evaluate(ctx, cases, obs, use_model=True):
    mods = {}
    if use_model and ctx.model_ok():
        docs, idx = [], []
        for i, c in enumerate(cases):
            docs.append(c['doc'])
            idx.append((i, None))
            for j, (kind, d2) in enumerate(c['perms']):
                docs.append(d2)
                idx.append((i, j))
        uts = G.units_table(docs)
        sx = [G.doc_sexp(d, u) for d, u in zip(docs, uts)]
        outs = vlib.model_run(G.FN_LOAD, [s for s, _ in sx])
        for key, d, (s, it), o in zip(idx, docs, sx, outs):
            mods[key] = G.decode_model(o, it, d)
    for i, (c, ob) in enumerate(zip(cases, obs)):
        ctx.count(case_key=('doc', c['gen_seed']), nontrivial=True, kind='hash-seeds')
        base = ob['seeds']['0']
        if base.get('status') == 'harness-error':
            ctx.tie_break('harness: observer failed: %s' % base.get('msg'), {'gen_seed': c['gen_seed']})
            continue
        # ---- the equation  zsq = zneg * k * k  is written with the literal k twice: two numbers must survive
        if base.get('status') == 'ok' and isinstance(base.get('eq_numbers'), list):
            for lhs, nums in base['eq_numbers']:
                if lhs.endswith('$zsq') and len(nums) != 2:
                    ctx.violation('document %s: the equation for %s is written with two number literals, the loaded '
                                  'equation holds %d number(s): %r' % (c['gen_seed'], lhs, len(nums), nums),
                                  {'kind': 'structure', 'gen_seed': c['gen_seed'], 'doc': c['doc']})
        # ---- (a) four hash seeds
        for s in SEEDS[1:]:
            o = ob['seeds'][s]
            dk = diff_keys(base, o, ORDERED_KEYS + ('vars',))
            if dk:
                k0 = dk[0]
                ctx.violation('document %s: PYTHONHASHSEED=0 and PYTHONHASHSEED=%s give different %s: %r vs %r'
                              % (c['gen_seed'], s, ', '.join(dk), first_diff(base.get(k0), o.get(k0))[0],
                                 first_diff(base.get(k0), o.get(k0))[1]),
                              {'kind': 'hash', 'gen_seed': c['gen_seed'], 'doc': c['doc'], 'differs': dk})
                break
        # ---- model predicts the orders
        if (i, None) in mods:
            ctx.corr_cases += 1
            for s in SEEDS:
                d = G.compare_records(mods[(i, None)], ob['seeds'][s], ordered=True)
                if d is not None:
                    ctx.violation('document %s under PYTHONHASHSEED=%s: the order predicted from the document '
                                  '(Model/Loader.v: insertion order) differs from the implementation: %s'
                                  % (c['gen_seed'], s, d),
                                  {'kind': 'predicted-order', 'gen_seed': c['gen_seed'], 'doc': c['doc'], 'hash_seed': s})
                    break
        # ---- (b) permutations
        for j, ((kind, d2), o) in enumerate(zip(c['perms'], ob['perms'])):
            ctx.count(case_key=('perm', c['gen_seed'], kind), nontrivial=True, kind='perm:' + kind)
            what = None
            if o.get('status') != base.get('status'):
                what = 'status %r vs %r' % (base.get('status'), o.get('status'))
            elif base.get('status') == 'ok':
                if sorted(base['var_order']) != sorted(o['var_order']):
                    what = 'the set of variables'
                elif sorted(base['eq_order']) != sorted(o['eq_order']):
                    what = 'the set of equations: %r' % (first_diff(sorted(base['eq_order']), sorted(o['eq_order'])),)
                elif sorted(map(str, base['vars'])) != sorted(map(str, o['vars'])):
                    what = 'variable attributes (units, initial value, cmeta id, assigned_to)'
                else:
                    keys = ('states', 'derived', 'derivatives')
                    if kind != 'components':
                        bad = [k for k in keys + ('var_order',) if base.get(k) != o.get(k)]
                    else:
                        bad = [k for k in keys if not same_set(base.get(k), o.get(k))]
                    bad += [k for k in GRAPH_KEYS if base.get(k) != o.get(k)]
                    if bad:
                        what = 'the ordered query %s: %r' % (bad[0], first_diff(base.get(bad[0]), o.get(bad[0])))
                    elif (kind.startswith('units') or kind in ('groups', 'ends')) and base['eq_order'] != o['eq_order']:
                        what = 'the order of Model.equations'
            if what is not None:
                ctx.violation('document %s: permuting %s changes %s' % (c['gen_seed'], kind, what),
                              {'kind': 'perm', 'perm': kind, 'gen_seed': c['gen_seed'], 'doc': c['doc'], 'permuted': d2})
            if (i, j) in mods:
                ctx.corr_cases += 1
                d = G.compare_records(mods[(i, j)], o, ordered=True)
                if d is not None:
                    ctx.tie_break('correspondence (Model/Loader.v vs parser.py) on document %s with %s permuted: %s'
                                  % (c['gen_seed'], kind, d), {'gen_seed': c['gen_seed'], 'doc': d2})


def same_set(a, b):
    if isinstance(a, list) and isinstance(b, list):
        return sorted(a) == sorted(b)
    return a == b


def first_diff(a, b):
    if isinstance(a, list) and isinstance(b, list):
        for x, y in zip(a, b):
            if x != y:
                return (x, y)
        return (len(a), len(b))
    return (a, b)


def run(ctx):
    ctx.rule = ('valid documents from tools/loader_gen.py, each loaded in 4 fresh interpreters (PYTHONHASHSEED 0, 1, 2, '
                'random) and once per applicable permutation kind (units: random, every definition before / after what it is built from; groups, connections, map_variables, ends, '
                'maths, components); non-trivial = every case (every document has several constants and connections)')
    ctx.trusted += ['hash randomisation is only run, not modelled: 4 hash seeds per document',
                    'the <units> part enters the model as the table computed by Model/UnitsLoader.v (C03)']
    cases = load_corpus() + gen_cases(ctx)
    obs = observe_all(cases)
    evaluate(ctx, cases, obs)
    if ctx.tie_breaks and not ctx.violations:
        sub = vlib.Ctx(ctx.prop, 'quick', ctx.seed + 17)
        more = gen_cases(sub) * 1
        for k in range(1, 4 if ctx.tier == 'quick' else 2):
            sub = vlib.Ctx(ctx.prop, 'quick', ctx.seed + 17 + k)
            more += gen_cases(sub)
        evaluate(ctx, more, observe_all(more), use_model=False)
    for c in cases[:2]:
        ctx.sample({'gen_seed': c['gen_seed'], 'perms': [k for k, _ in c['perms']], 'text': G.to_xml(c['doc'])[:1500]})


def load_corpus():
    out = []
    for p in sorted(glob.glob(os.path.join(vlib.VERIF, 'corpus', 'C15', '*.json'))):
        c = json.load(open(p))
        c = c.get('case', c)
        if 'perms' not in c:
            c = {'gen_seed': c.get('gen_seed'), 'doc': c['doc'], 'perms': []}
        out.append(c)
    return out


def replay(ctx, case):
    c = case.get('case', case)
    if c.get('kind') == 'perm':
        cc = {'gen_seed': c.get('gen_seed'), 'doc': c['doc'], 'perms': [[c['perm'], c['permuted']]]}
    else:
        cc = {'gen_seed': c.get('gen_seed'), 'doc': c['doc'], 'perms': c.get('perms', [])}
    evaluate(ctx, [cc], observe_all([cc]))
    if ctx.violations:
        return ctx.violations[0][0]
    if ctx.known_hits:
        return list(ctx.known_hits.values())[0][1]
    if ctx.tie_breaks:
        return ctx.tie_breaks[0][0]
    return None


# ---- known findings -------------------------------------------------------------------------------------------------
# F11 (set iteration in transform_constants) was repaired by the fix: commit cb3fd7e; nothing is suppressed any more
KNOWN_PREDICATES = {}
