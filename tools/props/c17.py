"""C17 -- broken or unsupported documents are refused, never half-loaded.

correspondence: every fault class of the property statement injected at every applicable site of generated valid
                documents (singly; in pairs in the thorough tier), the two-component interface documents
                (9 x 9 interface settings x 4 component relations, both orientations of the connection), loaded with
                cellmlmanip.load_model vs coq/Model/Loader.v (extracted): raise / return, exception family,
                which check fired (message class), and for documents that load the whole flat model
oracle:         a document carrying a fault must end in an exception within 10 s (a hang is a violation), never in a
                model; schema-invalid documents are run on the implementation only
"""
import glob
import json
import os
import random
import shutil

import loader_gen as G
import vlib

GEN_DEPS = ('builtins', 'prefixes')
LEAF_FAULTS = ('undefined_identifier', 'undefined_number_units')


def impl_work(case):
    if case.get('text') is not None:
        text = case['text']
    else:
        text = G.to_xml(case['doc'])
    r = G.impl_record(text)
    r.pop('model', None)
    return r


def enum_cases(ctx):
    allc = G.all_two_comp()
    if ctx.tier == 'quick':
        allc = ctx.rng(17).sample(allc, 60)
    out = []
    for (p1, v1, p2, v2, rel) in allc:
        for sw in (False, True):
            out.append({'kind': 'enum', 'doc': G.two_comp_doc(p1, v1, p2, v2, rel, sw), 'swap': sw,
                        'expect_raise': not G.spec_valid_pair(p1, v1, p2, v2, rel)})
    return out


PAIRS_PER_DOC = 200         # thorough tier: class pairs tried on one document (stratified sample, see class_pairs)
BUILTIN_DOCS = 11
LEAF_CAP = {'quick': 10, 'thorough': 40}
UNIT_FAULTS = ('offset_units', 'undefined_units_reference', 'unit_cycle', 'duplicate_units')
UNIT_CAP = {'quick': 5, 'thorough': 12}
FAULT_CLASSES = ['bad_lhs', 'bare_component', 'both_receivers', 'both_sources', 'builtin_override', 'cyclic_encapsulation',
                 'definition_through_connection', 'duplicate_component', 'duplicate_units', 'incompatible_units',
                 'initial_value_and_equation', 'missing_component', 'missing_variable', 'no_direction_source',
                 'no_direction_target', 'offset_units', 'reaction', 'second_feed', 'two_definitions',
                 'undefined_identifier', 'undefined_number_units', 'undefined_units_reference',
                 'undefined_variable_units', 'unit_cycle', 'units_in_component', 'unresolvable_duplicate', 'verbatim_duplicate']


def class_pairs(seed, ndocs):
    """the (unordered, incl. equal) pairs of fault classes each document is asked to combine: one fixed shuffle of all
    pairs (seeded), dealt round-robin, so that over the run every pair of classes is tried on many documents"""
    allp = [(a, b) for i, a in enumerate(FAULT_CLASSES) for b in FAULT_CLASSES[i:]]
    random.Random(seed * 7919 + 13).shuffle(allp)
    out, k = [], 0
    for _ in range(ndocs):
        out.append([allp[(k + j) % len(allp)] for j in range(min(PAIRS_PER_DOC, len(allp)))])
        k += PAIRS_PER_DOC
    return out, len(allp)


def doc_cases(seed, tier, index, pairs):
    """all cases built from one generated valid document; -> (cases, (pairs possible, pairs run))"""
    out = []
    doc = G.gen_valid(seed)
    rng = random.Random(seed + 7)
    out.append({'kind': 'valid', 'doc': doc, 'gen_seed': seed, 'expect_raise': False})
    sites = G.fault_sites(doc)
    leaf = [s for s in sites if s[0] in LEAF_FAULTS]
    rest = [s for s in sites if s[0] not in LEAF_FAULTS]
    if len(leaf) > LEAF_CAP[tier]:
        leaf = rng.sample(leaf, LEAF_CAP[tier])
    # the documents declare ~45 <units>; the per-definition unit faults are sampled (every class keeps UNIT_CAP sites)
    for cls in UNIT_FAULTS:
        mine = [x for x in rest if x[0] == cls]
        if len(mine) > UNIT_CAP[tier]:
            keep = rng.sample(mine, UNIT_CAP[tier])
            rest = [x for x in rest if x[0] != cls or x in keep]
    # redefinition of a built-in unit: ALL 33 names x {derived, new base unit} x {used by a variable, unused} in every run,
    # dealt over the first BUILTIN_DOCS documents
    allb = G.builtin_override_sites()
    if index < BUILTIN_DOCS:
        rest = rest + allb[index::BUILTIN_DOCS]
    singles = []
    for f in rest + leaf:
        fd = G.apply_fault(doc, f)
        if fd is not None:
            singles.append(f)
            out.append({'kind': 'fault', 'doc': fd, 'gen_seed': seed, 'expect_raise': True})
    possible = run = 0
    if tier == 'thorough':
        by = {}
        for f in singles:
            by.setdefault(f[0], []).append(f)
        classes = sorted(by)
        possible = len(classes) * (len(classes) + 1) // 2
        for a, b in pairs:
            if a not in by or b not in by:
                continue
            fa, fb = rng.choice(by[a]), rng.choice(by[b])
            if fa == fb:
                continue
            d1 = G.apply_fault(doc, fa)
            try:
                d2 = G.apply_fault(d1, fb) if d1 is not None else None
            except Exception:
                d2 = None
            if d2 is not None:
                run += 1
                out.append({'kind': 'pair', 'doc': d2, 'gen_seed': seed, 'expect_raise': True})
    for kind in G.SCHEMA_FAULTS:
        t = G.schema_fault_text(doc, kind)
        if t is not None and (tier == 'thorough' or index < 6):
            out.append({'kind': 'schema', 'text': t, 'fault': kind, 'gen_seed': seed, 'expect_raise': True})
    return out, (possible, run)


def fault_cases(ctx):
    """(kept for the search budget and replays) every case of the tier, built in this process"""
    ndocs = 24 if ctx.tier == 'quick' else 150
    pairs, _ = class_pairs(ctx.seed, ndocs)
    out = []
    for i in range(ndocs):
        out += doc_cases(ctx.seed * 100000 + i, ctx.tier, i, pairs[i])[0]
    return out


def job(args):
    """one pool task: build the cases of one document (or take the given ones), run the implementation, the extracted
    model and the comparison; -> (events, (pairs possible, pairs run), samples)"""
    kind, payload, use_model = args
    stats = (0, 0)
    if kind == 'doc':
        seed, tier, index, pairs = payload
        cases, stats = doc_cases(seed, tier, index, pairs)
    else:
        cases = payload
    try:
        imps = [impl_work(c) for c in cases]
        ev = events_of(cases, imps, use_model)
    finally:
        for d in list(G._TMP.values()):
            shutil.rmtree(d, ignore_errors=True)
        G._TMP.clear()
    samples = [{'kind': c['kind'], 'faults': (c.get('doc') or {}).get('faults'),
                'text': (c.get('text') or G.to_xml(c['doc']))[:1500]} for c in cases[:1]]
    return ev, stats, samples


def fault_names(case):
    d = case.get('doc') or {}
    return [f[0] for f in d.get('faults', [])]


def describe(case):
    if case['kind'] == 'enum':
        return 'two-component document %r (connection written %s)' % (case['doc']['enum'],
                                                                      'B-A' if case.get('swap') else 'A-B')
    if case['kind'] == 'schema':
        return 'schema-invalid variant %s of generated document %s' % (case['fault'], case['gen_seed'])
    return 'generated document %s with fault(s) %r' % (case.get('gen_seed'), (case.get('doc') or {}).get('faults', []))


def events_of(cases, imps, use_model=True):
    """pure: the list of ('count' | 'violation' | 'tie' | 'corr', ...) events for these cases"""
    ev = []
    modelled = [i for i, (c, r) in enumerate(zip(cases, imps)) if c['kind'] != 'schema' and r['status'] != 'schema']
    mods = {}
    if use_model and modelled:
        uts = G.units_table([cases[i]['doc'] for i in modelled])
        sx = [G.doc_sexp(cases[i]['doc'], u) for i, u in zip(modelled, uts)]
        outs = vlib.model_run(G.FN_LOAD, [x for x, _ in sx])
        for i, (x, it), o in zip(modelled, sx, outs):
            mods[i] = G.decode_model(o, it, cases[i]['doc'])
    for i, (case, imp) in enumerate(zip(cases, imps)):
        kind = case['kind']
        names = fault_names(case)
        hk = kind if kind in ('enum', 'valid', 'schema') else '+'.join(sorted(set(names)))
        ev.append(('count', (kind, case.get('gen_seed'), case.get('fault'), (case.get('doc') or {}).get('faults'),
                             (case.get('doc') or {}).get('enum'), case.get('swap')),
                   kind != 'valid', hk if kind != 'pair' else 'pair'))
        # ---- stage D: the property on the implementation
        if case['expect_raise'] and imp['status'] == 'ok':
            ev.append(('violation', '%s: load_model returned a model (%d variables, %d equations) instead of raising'
                       % (describe(case), len(imp['vars']), len(imp['eqs'])), slim(case)))
        elif imp.get('family') == 'Timeout':
            ev.append(('violation', '%s: load_model did not terminate within 10 s' % describe(case), slim(case)))
        # ---- correspondence
        if i in mods:
            ev.append(('corr',))
            d = G.compare_records(mods[i], imp, ordered=False)
            if d is not None:
                ev.append(('tie', 'correspondence (Model/Loader.v vs parser.py) on %s: %s' % (describe(case), d),
                           slim(case)))
        elif kind != 'schema' and imp['status'] == 'schema' and kind != 'enum':
            ev.append(('tie', 'harness: generated document %s is schema-invalid: %s' % (describe(case), imp.get('msg')),
                       slim(case)))
    return ev


def apply_events(ctx, ev):
    for e in ev:
        if e[0] == 'count':
            ctx.count(case_key=e[1], nontrivial=e[2], kind=e[3])
        elif e[0] == 'violation':
            ctx.violation(e[1], e[2])
        elif e[0] == 'tie':
            ctx.tie_break(e[1], e[2])
        elif e[0] == 'corr':
            ctx.corr_cases += 1


def evaluate(ctx, cases, imps, use_model=True):
    apply_events(ctx, events_of(cases, imps, use_model and ctx.model_ok()))


def slim(case):
    c = {k: v for k, v in case.items() if k != 'model'}
    return c


def run(ctx):
    ndocs = 24 if ctx.tier == 'quick' else 150
    pairs, npairs = class_pairs(ctx.seed, ndocs)
    ctx.trusted += ['the <units> part enters the model as the table computed by Model/UnitsLoader.v (C03 check) for the '
                    'same document', 'lxml parsing and RELAX NG validation are not modelled (schema-invalid documents are '
                    'run on the implementation only)', 'MathML transpilation is C02: equations enter the model as trees '
                    'written by the generator in document order']
    use_model = ctx.model_ok()
    fixed = load_corpus() + enum_cases(ctx)
    jobs = [('cases', fixed[k:k + 60], use_model) for k in range(0, len(fixed), 60)]
    jobs += [('doc', (ctx.seed * 100000 + i, ctx.tier, i, pairs[i]), use_model) for i in range(ndocs)]
    possible = run_pairs = 0
    samples = []
    for ev, st, sm in vlib.pmap(job, jobs):
        apply_events(ctx, ev)
        possible += st[0]
        run_pairs += st[1]
        samples += sm
    ctx.rule = ('valid documents from tools/loader_gen.py (2-7 components, encapsulation depth <= 3, values routed over 1-4 '
                'hops, unit changes, ODEs, cmeta ids, shuffled element order); %d fault classes injected at every '
                'applicable site singly (identifier / number-unit sites: at most %d per document); thorough: pairs of '
                'faults, a stratified sample -- one fixed shuffle (seeded by VERIF_SEED) of all %d pairs of classes dealt '
                '%d per document, one random site pair each: %d pairs run out of %d applicable (class pair, document) '
                'combinations; 9 schema-invalid variants (implementation only); the 9x9x4 two-component interface '
                'documents in both orientations (quick: 60 of 324); non-trivial = carries a fault'
                % (len(FAULT_CLASSES), LEAF_CAP[ctx.tier], npairs, PAIRS_PER_DOC, run_pairs, possible))
    ctx.extra['fault_pairs_run'] = run_pairs
    ctx.extra['fault_pairs_applicable'] = possible
    if ctx.tie_breaks and not ctx.violations:
        # a proof or the correspondence broke: look for a concrete failing input with a larger budget (oracle only)
        more_docs = 240 if ctx.tier == 'quick' else 300
        mp, _ = class_pairs(ctx.seed + 1, more_docs)
        jobs = [('doc', ((ctx.seed + 1) * 100000 + 50000 + i, 'thorough', i, mp[i]), False) for i in range(more_docs)]
        for ev, st, sm in vlib.pmap(job, jobs):
            apply_events(ctx, [e for e in ev if e[0] != 'tie'])
    for x in samples[::max(1, len(samples) // 5)][:5]:
        ctx.sample(x)


def load_corpus():
    out = []
    for p in sorted(glob.glob(os.path.join(vlib.VERIF, 'corpus', 'C17', '*.json'))):
        c = json.load(open(p))
        out.append(c.get('case', c))
    return out


def replay(ctx, case):
    c = case.get('case', case)
    imp = impl_work(c)
    evaluate(ctx, [c], [imp])
    if ctx.violations:
        return ctx.violations[0][0]
    if ctx.known_hits:
        return list(ctx.known_hits.values())[0][1]
    if ctx.tie_breaks:
        return ctx.tie_breaks[0][0]
    return None


# ---- known findings -------------------------------------------------------------------------------------------------
# the two findings about _determine_connection_direction (sibling interfaces, unrelated components) were repaired by
# the fix: commit 9e0bca6; nothing is suppressed any more
KNOWN_PREDICATES = {}
