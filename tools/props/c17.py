"""C17 -- broken or unsupported documents are refused, never half-loaded.

correspondence: every fault class of the property statement injected at every applicable site of generated valid
                documents (singly; in pairs in the thorough tier), the two-component interface documents
                (9 x 9 interface settings x 4 component relations, both orientations of the connection), loaded with
                cellmlmanip.load_model vs coq/Model/Loader.v (extracted): raise / return, exception family,
                which check fired (message class), and for documents that load the whole flat model
oracle:         a document carrying a fault must end in an exception within 10 s (a hang is a violation), never in a
                model; schema-invalid documents are run on the implementation only
"""
import glob
import json
import os
import random
import shutil

import loader_gen as G
import vlib

GEN_DEPS = ('builtins', 'prefixes')
LEAF_FAULTS = ('undefined_identifier', 'undefined_number_units')


def impl_work(case):
    if case.get('text') is not None:
        text = case['text']
    else:
        text = G.to_xml(case['doc'])
    r = G.impl_record(text)
    r.pop('model', None)
    return r


def enum_cases(ctx):
    allc = G.all_two_comp()
    if ctx.tier == 'quick':
        allc = ctx.rng(17).sample(allc, 60)
    out = []
    for (p1, v1, p2, v2, rel) in allc:
        for sw in (False, True):
            out.append({'kind': 'enum', 'doc': G.two_comp_doc(p1, v1, p2, v2, rel, sw), 'swap': sw,
                        'expect_raise': not G.spec_valid_pair(p1, v1, p2, v2, rel)})
    return out


def fault_cases(ctx):
    ndocs = 24 if ctx.tier == 'quick' else 150
    out = []
    for i in range(ndocs):
        seed = ctx.seed * 100000 + i
        doc = G.gen_valid(seed)
        rng = random.Random(seed + 7)
        out.append({'kind': 'valid', 'doc': doc, 'gen_seed': seed, 'expect_raise': False})
        sites = G.fault_sites(doc)
        leaf = [s for s in sites if s[0] in LEAF_FAULTS]
        rest = [s for s in sites if s[0] not in LEAF_FAULTS]
        if ctx.tier == 'quick' and len(leaf) > 10:
            leaf = rng.sample(leaf, 10)
        singles = []
        for f in rest + leaf:
            fd = G.apply_fault(doc, f)
            if fd is not None:
                singles.append((f, fd))
                out.append({'kind': 'fault', 'doc': fd, 'gen_seed': seed, 'expect_raise': True})
        if ctx.tier == 'thorough':
            # pairs: for every two fault classes one random pair of sites
            by = {}
            for f, fd in singles:
                by.setdefault(f[0], []).append(f)
            classes = sorted(by)
            for a in range(len(classes)):
                for b in range(a, len(classes)):
                    fa, fb = rng.choice(by[classes[a]]), rng.choice(by[classes[b]])
                    if fa == fb:
                        continue
                    d1 = G.apply_fault(doc, fa)
                    try:
                        d2 = G.apply_fault(d1, fb) if d1 is not None else None
                    except Exception:
                        d2 = None
                    if d2 is not None:
                        out.append({'kind': 'pair', 'doc': d2, 'gen_seed': seed, 'expect_raise': True})
        for kind in G.SCHEMA_FAULTS:
            t = G.schema_fault_text(doc, kind)
            if t is not None and (ctx.tier == 'thorough' or i < 6):
                out.append({'kind': 'schema', 'text': t, 'fault': kind, 'gen_seed': seed, 'expect_raise': True})
    return out


def fault_names(case):
    d = case.get('doc') or {}
    return [f[0] for f in d.get('faults', [])]


def describe(case):
    if case['kind'] == 'enum':
        return 'two-component document %r (connection written %s)' % (case['doc']['enum'],
                                                                      'B-A' if case.get('swap') else 'A-B')
    if case['kind'] == 'schema':
        return 'schema-invalid variant %s of generated document %s' % (case['fault'], case['gen_seed'])
    return 'generated document %s with fault(s) %r' % (case.get('gen_seed'), (case.get('doc') or {}).get('faults', []))


def evaluate(ctx, cases, imps, use_model=True):
    modelled = [i for i, (c, r) in enumerate(zip(cases, imps)) if c['kind'] != 'schema' and r['status'] != 'schema']
    mods = {}
    if use_model and ctx.model_ok() and modelled:
        uts = G.units_table([cases[i]['doc'] for i in modelled])
        sx = [G.doc_sexp(cases[i]['doc'], u) for i, u in zip(modelled, uts)]
        outs = vlib.model_run(G.FN_LOAD, [s for s, _ in sx])
        for i, (s, it), o in zip(modelled, sx, outs):
            mods[i] = G.decode_model(o, it, cases[i]['doc'])
    for i, (case, imp) in enumerate(zip(cases, imps)):
        kind = case['kind']
        names = fault_names(case)
        hk = kind if kind in ('enum', 'valid', 'schema') else '+'.join(sorted(set(names)))
        ctx.count(case_key=(kind, case.get('gen_seed'), case.get('fault'), (case.get('doc') or {}).get('faults'),
                            (case.get('doc') or {}).get('enum'), case.get('swap')),
                  nontrivial=kind != 'valid', kind=hk if kind != 'pair' else 'pair')
        # ---- stage D: the property on the implementation
        if case['expect_raise']:
            if imp['status'] == 'ok':
                ctx.violation('%s: load_model returned a model (%d variables, %d equations) instead of raising'
                              % (describe(case), len(imp['vars']), len(imp['eqs'])), slim(case))
            elif imp.get('family') == 'Timeout':
                ctx.violation('%s: load_model did not terminate within 10 s' % describe(case), slim(case))
        elif imp.get('family') == 'Timeout':
            ctx.violation('%s: load_model did not terminate within 10 s' % describe(case), slim(case))
        if kind == 'schema' and imp['status'] not in ('schema', 'err'):
            pass
        # ---- correspondence
        if i in mods:
            ctx.corr_cases += 1
            d = G.compare_records(mods[i], imp, ordered=False)
            if d is not None:
                ctx.tie_break('correspondence (Model/Loader.v vs parser.py) on %s: %s' % (describe(case), d), slim(case))
        elif kind != 'schema' and imp['status'] == 'schema' and kind != 'enum':
            ctx.tie_break('harness: generated document %s is schema-invalid: %s' % (describe(case), imp.get('msg')),
                          slim(case))


def slim(case):
    c = {k: v for k, v in case.items() if k != 'model'}
    return c


def run(ctx):
    ctx.rule = ('valid documents from tools/loader_gen.py (2-7 components, encapsulation depth <= 3, values routed over 1-4 '
                'hops, unit changes, ODEs, cmeta ids, shuffled element order); 32 fault classes injected at every '
                'applicable site singly (quick: at most 10 identifier / number-unit sites per document), one random site '
                'pair for every two classes (thorough); 9 schema-invalid variants (implementation only); the 9x9x4 '
                'two-component interface documents in both orientations (quick: 60 of 324); non-trivial = carries a fault')
    ctx.trusted += ['the <units> part enters the model as the table computed by Model/UnitsLoader.v (C03 check) for the '
                    'same document', 'lxml parsing and RELAX NG validation are not modelled (schema-invalid documents are '
                    'run on the implementation only)', 'MathML transpilation is C02: equations enter the model as trees '
                    'written by the generator in document order']
    cases = load_corpus() + enum_cases(ctx) + fault_cases(ctx)
    try:
        imps = vlib.pmap(impl_work, cases)
        evaluate(ctx, cases, imps)
        if ctx.tie_breaks and not ctx.violations:
            # a proof or the correspondence broke: look for a concrete failing input with a larger budget
            sub = vlib.Ctx(ctx.prop, 'thorough', ctx.seed + 1)
            more = fault_cases(sub)[:20000 if ctx.tier == 'thorough' else 6000] + [c for c in enum_cases(sub)]
            evaluate(ctx, more, vlib.pmap(impl_work, more), use_model=False)
    finally:
        for d in list(G._TMP.values()):
            shutil.rmtree(d, ignore_errors=True)
    for c in cases[:400:80]:
        ctx.sample({'kind': c['kind'], 'faults': (c.get('doc') or {}).get('faults'),
                    'text': (c.get('text') or G.to_xml(c['doc']))[:1500]})


def load_corpus():
    out = []
    for p in sorted(glob.glob(os.path.join(vlib.VERIF, 'corpus', 'C17', '*.json'))):
        c = json.load(open(p))
        out.append(c.get('case', c))
    return out


def replay(ctx, case):
    c = case.get('case', case)
    imp = impl_work(c)
    evaluate(ctx, [c], [imp])
    if ctx.violations:
        return ctx.violations[0][0]
    if ctx.known_hits:
        return list(ctx.known_hits.values())[0][1]
    if ctx.tie_breaks:
        return ctx.tie_breaks[0][0]
    return None


# ---- known findings -------------------------------------------------------------------------------------------------
# the two findings about _determine_connection_direction (sibling interfaces, unrelated components) were repaired by
# the fix: commit 9e0bca6; nothing is suppressed any more
KNOWN_PREDICATES = {}
