"""C01 -- loading a CellML document preserves its mathematics (flattening fidelity).

correspondence: generated documents loaded with cellmlmanip.load_model vs coq/Model/Loader.v (extracted): variable list
                (names, units, initial values, cmeta ids, assigned_to), equation set keyed by left-hand side with the
                variables / derivatives each right-hand side mentions, conversion factors, constants; the two-component
                interface documents (9 x 9 x 4, both orientations)
oracle:         the loaded model must be a closed equation system (every variable on a right-hand side is defined, a
                state or the free variable; Model.graph and get_equations_for succeed) in which every document
                variable has a value; an independent reference semantics of the DOCUMENT (tools/loader_gen.ref_solve: every component
                evaluated over its own variables, every number and variable read as a physical quantity, both ends of a
                connection the same quantity) against the numeric value of every variable computed from the loaded
                model alone after units.convert_expression_recursively(eq, None), at 3 random states
"""
import glob
import json
import os
import random
import shutil

import loader_gen as G
import vlib

GEN_DEPS = ('builtins', 'prefixes')
NSTATES = 3


def numeric_check(doc, model):
    """-> list of (what, detail); [] when the loaded model computes what the document says"""
    bad = []
    compared = 0
    for msg in G.closed_system(model)[:2]:
        bad.append(('the loaded model is not a closed equation system: ' + msg, {}))
    if bad:
        return bad, 0
    for k in range(NSTATES):
        try:
            vals, dsi, classes, chosen, si, complete = G.ref_solve(doc, 1000 + k)
            mags = G.ref_magnitudes(doc, si, dsi, classes)
        except (OverflowError, ZeroDivisionError, G.Tie):
            continue
        if not complete:
            bad.append(('harness: the reference semantics could not evaluate the generated document', {}))
            break
        try:
            iv, dv = G.impl_values(model, doc, classes, si)
        except (OverflowError, ZeroDivisionError):
            continue
        except Exception as e:
            fam = vlib.err_class(e)
            if fam.startswith('UnitError'):
                return [('unit-fix', {'error': fam, 'msg': str(e)[:200]})]
            bad.append(('evaluating the loaded model failed: %s %s' % (fam, str(e)[:200]), {}))
            break
        # cancellations (x - 2[V] at x = 2 V) leave rounding noise: absolute tolerance relative to the smallest
        # non-zero magnitude that takes part in the document
        for (c, n), x in sorted(vals.items()):
            name = '%s$%s' % (c, n)
            if name not in iv:
                bad.append(('variable %s has the value %r in the document but no value in the loaded model: %s'
                            % (name, x, iv['?why'].get(name, '?')), {'variable': name}))
                break
            compared += 1
            if not G.close(x, iv[name], 1e-9) and abs(x - iv[name]) > 1e-12 * mags.get((c, n), 0.0):
                bad.append(('variable %s: the document gives %r, the loaded model (after the unit-fix pass) %r, state %d'
                            % (name, x, iv[name], k), {'variable': name, 'document': x, 'model': iv[name]}))
                break
        if bad:
            break
    return bad, compared


def work(case):
    if case['kind'] == 'seq':
        # several documents in THIS process, one after the other: the same unit names mean different things
        return [work({'kind': 'valid', 'doc': d}) for d in case['docs']]
    doc = case['doc']
    text = G.to_xml(doc)
    rec = G.impl_record(text)
    model = rec.pop('model', None)
    num = None
    if model is not None and case.get('numeric', True):
        try:
            num = numeric_check(doc, model)
        except Exception as e:
            num = ([('harness error in the numeric oracle: %r' % (e,), {})], 0)
        if isinstance(num, list):          # unit-fix refused
            num = (num, 0)
    return rec, num


def gen_cases(ctx):
    n = 150 if ctx.tier == 'quick' else 3000
    out = []
    for i in range(n):
        seed = ctx.seed * 100000 + i
        out.append({'kind': 'valid', 'gen_seed': seed, 'doc': G.gen_valid(seed)})
    allc = G.all_two_comp()
    if ctx.tier == 'quick':
        allc = ctx.rng(23).sample(allc, 60)
    for (p1, v1, p2, v2, rel) in allc:
        for sw in (False, True):
            for (u1, u2) in ((('volt', 'mV'),) if ctx.tier == 'quick' else (('volt', 'mV'), ('uV', 'uV'))):
                out.append({'kind': 'enum', 'doc': G.two_comp_doc(p1, v1, p2, v2, rel, sw, u1, u2), 'swap': sw,
                            'valid': G.spec_valid_pair(p1, v1, p2, v2, rel)})
    # the same document with the meaning of the user units uv_x / ut_x changed, loaded in one process in both orders
    ns = 15 if ctx.tier == 'quick' else 200
    for i in range(ns):
        seed = ctx.seed * 100000 + 80000 + i
        fl = random.Random(seed).sample([0, 1, 2], 2)
        da, db = G.gen_valid(seed, flavour=fl[0]), G.gen_valid(seed, flavour=fl[1])
        out.append({'kind': 'seq', 'gen_seed': seed, 'docs': [da, db, da]})
    # sequences first: a failure that needs the earlier documents of the process is then reported with a replayable case
    out = [c for c in out if c['kind'] == 'seq'] + [c for c in out if c['kind'] != 'seq']
    nf = 12 if ctx.tier == 'quick' else 150
    for i in range(nf):
        seed = ctx.seed * 100000 + 70000 + i
        out.append({'kind': 'floor', 'gen_seed': seed, 'doc': G.gen_valid(seed, floor_fns=True)})
    return out


def evaluate(ctx, cases, results, use_model=True):
    fc, fr = [], []
    for case, res in zip(cases, results):
        if case['kind'] == 'seq':
            for j, (d, r) in enumerate(zip(case['docs'], res)):
                fc.append({'kind': 'seqdoc', 'gen_seed': case['gen_seed'], 'doc': d, 'pos': j, 'seq': case})
                fr.append(r)
        else:
            fc.append(case)
            fr.append(res)
    cases, results = fc, fr
    mods = {}
    idx = [i for i, (c, (rec, num)) in enumerate(zip(cases, results)) if rec['status'] != 'schema']
    if use_model and ctx.model_ok() and idx:
        uts = G.units_table([cases[i]['doc'] for i in idx])
        sx = [G.doc_sexp(cases[i]['doc'], u) for i, u in zip(idx, uts)]
        outs = vlib.model_run(G.FN_LOAD, [s for s, _ in sx])
        for i, (s, it), o in zip(idx, sx, outs):
            mods[i] = G.decode_model(o, it, cases[i]['doc'])
    nvars = 0
    for i, (case, (rec, num)) in enumerate(zip(cases, results)):
        kind = case['kind']
        unit_change = any(e.get('kind') == 'conv?' for e in rec.get('eqs', []))
        ctx.count(case_key=(kind, case.get('gen_seed'), (case['doc'].get('enum')), case.get('swap'), case.get('pos')),
                  nontrivial=(kind != 'enum' and unit_change) or (kind == 'enum' and case.get('valid')),
                  kind=kind + (':unit-change' if unit_change else ''))
        # ---- stage D
        if kind in ('valid', 'floor', 'seqdoc') and rec['status'] != 'ok':
            ctx.violation('generated valid document %s is refused: %s %s' % (case.get('gen_seed'), rec.get('family'),
                                                                              rec.get('msg')), slim(case))
        if num is not None:
            bad, compared = num
            nvars += compared
            for what, detail in bad:
                if what == 'unit-fix':
                    ctx.hist['unit-fix pass refused'] = ctx.hist.get('unit-fix pass refused', 0) + 1
                    continue
                if what.startswith('harness'):
                    ctx.tie_break(what, slim(case))
                    continue
                ctx.violation('document %s: %s' % (case['doc'].get('enum') if case.get('gen_seed') is None else case['gen_seed'], what),
                              dict(slim(case), detail=detail))
        if kind == 'enum' and case.get('valid') and rec['status'] == 'ok':
            # the value must flow from the `out` end to the `in` end
            p1, v1, p2, v2, rel = case['doc']['enum']
            a = {'siblings': p1, 'parent12': v1, 'parent21': p1}[rel]
            src, tgt = ('A$x', 'B$x') if a == 'out' else ('B$x', 'A$x')
            m = {v[0]: v[4] for v in rec['vars']}
            defined = {e['lhs'] for e in rec['eqs']}
            ok = (m.get(tgt) == src) or (tgt in defined and any(e['lhs'] == tgt and e['refs'] == [src] for e in rec['eqs']))
            if not ok:
                ctx.violation('two-component document %r: the value does not flow from %s to %s (assigned_to %r)'
                              % (case['doc']['enum'], src, tgt, m), slim(case))
        # ---- correspondence
        if i in mods:
            ctx.corr_cases += 1
            d = G.compare_records(mods[i], rec, ordered=False)
            if d is not None:
                ctx.tie_break('correspondence (Model/Loader.v vs parser.py) on %s %s: %s'
                              % (kind, case.get('gen_seed') or case['doc'].get('enum'), d), slim(case))
    ctx.extra['variables_compared_numerically'] = ctx.extra.get('variables_compared_numerically', 0) + nvars


def slim(case):
    if case.get('seq') is not None:          # replay the whole sequence, in one process
        return dict(case['seq'], failing_position=case.get('pos'))
    return {k: v for k, v in case.items()}


def run(ctx):
    ctx.rule = ('valid documents from tools/loader_gen.py: forests of 2-7 components of depth <= 3, 1-4 own variables each, '
                'values routed over 1-4 hops through public/private in/out, component_1/2 and variable_1/2 randomly '
                'swapped, shuffled file order, units of equal dimension and different scale (volt/mV/uV, second/ms, '
                'dimensionless/percent, a user base unit and its kilo-multiple, areas m2 / 0.5 m2 / 0.25 (cm)2 that combine '
                'multiplier, prefix and exponent, half-integer powers of second / ms, gram with every one of the 20 SI prefix names and integer prefixes (3 + 1 per '
                'document, rotating so that all occur within 7 documents), two unit names uv_x / ut_x whose definition '
                'changes from document to document), assignments over + - * / ** exp, ODEs, '
                'derivatives on right-hand sides, initial-value constants, cmeta ids; every variable compared at 3 random '
                'states; the 9x9x4 two-component interface documents in both orientations (quick: 60 of 324); the same document under two meanings of uv_x / ut_x '
                'loaded in ONE process in the order a, b, a; number-free equations; piecewise definitions with conditions on variables received through unit-changing connections; a stratum with floor / ceiling / rem '
                '(known finding F14); non-trivial = has a unit-changing connection')
    ctx.trusted += ['the reference semantics reads every number and variable of an equation as a physical quantity '
                    '(value x scale of its unit); for equations whose operands share one unit per dimension this is the '
                    'numeric reading of the component', 'numeric comparison with relative tolerance 1e-9',
                    'the <units> part enters the model as the table computed by Model/UnitsLoader.v (C03)']
    cases = load_corpus() + gen_cases(ctx)
    try:
        results = vlib.pmap(work, cases)
        evaluate(ctx, cases, results)
        if ctx.tie_breaks and not ctx.violations:
            sub = vlib.Ctx(ctx.prop, 'thorough' if ctx.tier == 'thorough' else 'quick', ctx.seed + 31)
            more = []
            for k in range(10 if ctx.tier == 'quick' else 1):
                sub.seed = ctx.seed + 31 + k
                more += [c for c in gen_cases(sub) if c['kind'] == 'valid']
            evaluate(ctx, more, vlib.pmap(work, more), use_model=False)
    finally:
        for d in list(G._TMP.values()):
            shutil.rmtree(d, ignore_errors=True)
    for c in cases[:2]:
        ctx.sample({'kind': c['kind'], 'gen_seed': c.get('gen_seed'),
                    'text': G.to_xml(c.get('doc') or c['docs'][0])[:2000]})


def load_corpus():
    out = []
    for p in sorted(glob.glob(os.path.join(vlib.VERIF, 'corpus', 'C01', '*.json'))):
        c = json.load(open(p))
        out.append(c.get('case', c))
    return out


def replay(ctx, case):
    c = case.get('case', case)
    c = {k: v for k, v in c.items() if k not in ('detail', 'failing_position')}
    evaluate(ctx, [c], [work(c)])
    if ctx.violations:
        return ctx.violations[0][0]
    if ctx.known_hits:
        return list(ctx.known_hits.values())[0][1]
    if ctx.tie_breaks:
        return ctx.tie_breaks[0][0]
    return None


# ---- known findings -------------------------------------------------------------------------------------------------
def rounding_of_rescaled_quantity(case):
    """F14: an equation that applies floor / ceiling / rem and in which some unit scale changes: an identifier that is
    received through a connection (it is replaced by a source that may be declared in another unit), or operands /
    left-hand side in units whose scale is not 1 (the unit-fix pass then moves a factor across the rounding)"""
    doc = case.get('doc')
    if not doc or case.get('kind') != 'floor':
        return False
    scales = G.doc_scales(doc)
    for c in doc['comps']:
        units = {v['name']: v for v in c['vars']}
        for m in c['maths']:
            for q in m:
                if not any(e[0] in ('floor', 'ceiling', 'rem') for e in G.walk(q[2])):
                    continue
                for kind, x in G.expr_leaves(q[1]) + G.expr_leaves(q[2]):
                    if kind == 'id':
                        v = units.get(x)
                        if v is None or v.get('owner') or scales.get(v['units'], 0) != 1:
                            return True
                    elif scales.get(x, 0) != 1:
                        return True
    return False


KNOWN_PREDICATES = {'rounding_of_rescaled_quantity': rounding_of_rescaled_quantity}
