"""C11 -- generated Python code computes exactly what the expression means.

correspondence: Printer().doprint(expr) (implementation) == text of Model/PyPrinter.v (extracted), character by
                character, on every (parent, child, position) triple and on random deeper trees, evaluated and
                unevaluated; ast.parse of the emitted text == the model's parse tree (grammar unambiguity sampled);
                Coq [printable] == its Python twin; trig rewriting pass == sympy's optimize on plain cases.
oracle:         eval(printed text) == value of the expression (own evaluator, independent of the model) at 3 points;
                truth values for relations / logic; ValueError is the only accepted failure of doprint.
"""
import ast
import json
import math
import os
import random
from fractions import Fraction

import vlib
import bridge

FN = 110
GEN_DEPS = ('printer',)
NV = 4

EXTRA_FN = {50: 'atan2', 51: 'expm1', 52: 'log10', 53: 'log1p', 54: 'log2'}
EXTRA_IDS = {v: k for k, v in EXTRA_FN.items()}
TRIG2 = ['sec', 'csc', 'cot', 'sech', 'csch', 'coth', 'asec', 'acsc', 'acot', 'asech', 'acsch', 'acoth']


# ---- trees (JSON form: numbers are [0, kind, [num, den]]) --------------------------------------------------
def V(i):
    return [3, i]


def I(n):
    return [0, 0, [n, 1]]


def Q(n, d):
    return [0, 1, [n, d]]


def Fl(x):
    f = Fraction(float(x))
    return [0, 2, [f.numerator, f.denominator]]


def Add(*a):
    return [4] + list(a)


def Mul(*a):
    return [5] + list(a)


def Pow(b, e):
    return [6, b, e]


def Fn(name, *a):
    return [7, bridge.FN_IDS[name] if name in bridge.FN_IDS else EXTRA_IDS[name]] + list(a)


def Rel(r, a, b):
    return [9, r, a, b]


def And(*a):
    return [10, 0] + list(a)


def Or(*a):
    return [10, 1] + list(a)


def Pw(*pairs):
    return [13] + [[e, c] for e, c in pairs]


TRUE, FALSE = [11], [12]
X, Y, Z, W = V(0), V(1), V(2), V(3)


def to_bridge(t):
    """JSON tree -> bridge tree (Fractions)"""
    if t[0] == 0:
        return [0, t[1], Fraction(t[2][0], t[2][1])]
    if t[0] == 13:
        return [13] + [[to_bridge(a[0]), to_bridge(a[1])] for a in t[1:]]
    return [x if isinstance(x, int) else to_bridge(x) for x in t]


def to_json(t):
    if t[0] == 0:
        return [0, t[1], [t[2].numerator, t[2].denominator]]
    if t[0] == 13:
        return [13] + [[to_json(a[0]), to_json(a[1])] for a in t[1:]]
    return [x if isinstance(x, int) else to_json(x) for x in t]


def subtrees(t):
    yield t
    if t[0] == 13:
        for a in t[1:]:
            for s in subtrees(a[0]):
                yield s
            for s in subtrees(a[1]):
                yield s
    elif t[0] != 0:
        for x in t[1:]:
            if isinstance(x, list):
                for s in subtrees(x):
                    yield s


# ---- SymPy side -------------------------------------------------------------------------------------------------
def _symbols():
    import sympy
    return [sympy.Symbol('v%d' % i) for i in range(NV + 2)]


def _fn_class(fid):
    import sympy
    import sympy.codegen.cfunctions as cf
    if fid in EXTRA_FN:
        n = EXTRA_FN[fid]
        return getattr(sympy, n) if hasattr(sympy, n) and n == 'atan2' else getattr(cf, n)
    return getattr(sympy, bridge.FN_NAMES[fid])


def reflect(t, syms, evaluate):
    """bridge tree -> SymPy (like bridge.reflect, plus the function ids 50..54)"""
    import sympy

    def r(x):
        return reflect(x, syms, evaluate)
    k = t[0]
    if k == 7:
        return _fn_class(t[1])(*[r(a) for a in t[2:]], evaluate=evaluate)
    if k in (0, 1, 3, 11, 12):
        return bridge.reflect(t, syms, None, evaluate)
    if k == 4:
        return sympy.Add(*[r(a) for a in t[1:]], evaluate=evaluate)
    if k == 5:
        return sympy.Mul(*[r(a) for a in t[1:]], evaluate=evaluate)
    if k == 6:
        return sympy.Pow(r(t[1]), r(t[2]), evaluate=evaluate)
    if k == 9:
        return bridge.REL_CLASSES[t[1]](r(t[2]), r(t[3]), evaluate=evaluate)
    if k == 10:
        return bridge.BOOL_CLASSES[t[1]](*[r(a) for a in t[2:]], evaluate=evaluate)
    if k == 13:
        return sympy.Piecewise(*[(r(a[0]), r(a[1])) for a in t[1:]], evaluate=evaluate)
    raise bridge.Unsupported(repr(t))


class Reifier(bridge.Reifier):
    def reify(self, e):
        name = type(e).__name__
        if name in EXTRA_IDS and getattr(e, 'is_Function', False):
            return [7, EXTRA_IDS[name]] + [self.reify(a) for a in e.args]
        return super().reify(e)


def reify(e):
    return Reifier(lambda s: int(str(s)[1:]), lambda u: -2).reify(e)


TRIG_SPEC = {'sec': (0, 'cos'), 'csc': (0, 'sin'), 'cot': (0, 'tan'), 'sech': (0, 'cosh'), 'csch': (0, 'sinh'),
             'coth': (0, 'tanh'), 'asec': (1, 'acos'), 'acsc': (1, 'asin'), 'acot': (1, 'atan'), 'asech': (1, 'acosh'),
             'acsch': (1, 'asinh'), 'acoth': (1, 'atanh')}


def py_rewrite(t, top=True):
    """the plain form of the trig rewriting pass (no re-evaluation of anything): f(a) -> 1/g(a) or g(1/a)"""
    if top and t[0] in (9, 10, 11, 12):
        return t                      # doprint only rewrites sympy.Expr inputs
    k = t[0]
    if k in (0, 1, 2, 3, 8, 11, 12):
        return t
    if k == 13:
        return [13] + [[py_rewrite(a[0], False), py_rewrite(a[1], False)] for a in t[1:]]
    u = [x if isinstance(x, int) else py_rewrite(x, False) for x in t]
    if k == 7 and len(u) == 3 and bridge.FN_NAMES.get(u[1]) in TRIG_SPEC:
        sh, g = TRIG_SPEC[bridge.FN_NAMES[u[1]]]
        m1 = [0, 0, Fraction(-1)]
        return [6, [7, bridge.FN_IDS[g], u[2]], m1] if sh == 0 else [7, bridge.FN_IDS[g], [6, u[2], m1]]
    return u


def keep_coeff_nonplain(expr):
    """modelling assumption of PyPrinter.v: _keep_coeff(-c, rest) is the plain product (-c) * rest.
    Returns the (reified) results of _keep_coeff where it is not: SymPy re-evaluated the remainder."""
    import sympy
    from sympy.core.mul import _keep_coeff
    out = []
    for m in sympy.preorder_traversal(expr):
        if isinstance(m, sympy.Mul):
            c, e = m.as_coeff_Mul()
            try:
                neg = c.is_Number and c < 0 and -c is not sympy.S.One
            except TypeError:      # zoo / nan coefficient: not comparable (the printer's own `c < 0` raises too)
                continue
            if neg:
                res = _keep_coeff(-c, e)
                want = (-c,) + tuple(sympy.Mul.make_args(e))
                if not (isinstance(res, sympy.Mul) and res.args == want):
                    try:
                        out.append(to_json(reify(res)))
                    except Exception:
                        out.append([1, 4])
    return out


# ---- own evaluator (independent of the model and of the printer) -----------------------------------------------------
class Undef(Exception):
    pass


def ev(t, env, st):
    """float / bool value of a bridge tree; st['scale'] tracks the largest intermediate magnitude"""
    k = t[0]

    def num(v):
        if isinstance(v, bool):
            raise Undef()
        if v != v or abs(v) > 1e12:
            raise Undef()
        st['scale'] = max(st['scale'], abs(v))
        return v
    if k == 0:
        return num(float(t[2]))
    if k == 1:
        if t[1] == 0:
            return math.pi
        if t[1] == 1:
            return math.e
        raise Undef()
    if k == 3:
        return num(float(env[t[1]]))
    if k == 4:
        return num(math.fsum(ev(a, env, st) for a in t[1:]))
    if k == 5:
        p = 1.0
        for a in t[1:]:
            p = num(p * ev(a, env, st))
        return p
    if k == 6:
        b, e = ev(t[1], env, st), ev(t[2], env, st)
        try:
            if b > 0:
                return num(b ** e)
            if e == int(e):
                if b == 0:
                    if e > 0:
                        return 0.0
                    if e == 0:
                        return 1.0
                    raise Undef()
                return num(b ** int(e))
        except (OverflowError, ZeroDivisionError):
            raise Undef()
        raise Undef()
    if k == 7:
        f = t[1]
        xs = [ev(a, env, st) for a in t[2:]]
        try:
            if f in EXTRA_FN:
                n = EXTRA_FN[f]
                if n == 'atan2':
                    return num(math.atan2(xs[0], xs[1]))
                return num(getattr(math, n)(xs[0]))
            n = bridge.FN_NAMES[f]
            if n == 'log' and len(xs) == 2:
                return num(math.log(xs[0]) / math.log(xs[1]))
            if n == 'factorial':
                a = t[2]
                if not (a[0] == 3 or (a[0] == 0 and a[1] == 0)) or xs[0] != int(xs[0]) or xs[0] < 0:
                    raise Undef()
                return num(float(math.factorial(int(xs[0]))))
            if len(xs) != (2 if n == 'Mod' else len(xs) if n in ('Max', 'Min') else 1):
                raise Undef()
            return num(bridge._fn(f, xs))
        except (ValueError, ZeroDivisionError, OverflowError, bridge.Undefined):
            raise Undef()
    if k == 9:
        a, b = ev(t[2], env, st), ev(t[3], env, st)
        if isinstance(a, bool) and isinstance(b, bool) and t[1] in (0, 1):
            return (a == b) if t[1] == 0 else (a != b)      # equality of truth values (iff / xor)
        if isinstance(a, bool) or isinstance(b, bool):
            raise Undef()     # ill-sorted: ordering truth values, or comparing a truth value with a number
        if abs(a - b) <= 1e-9 * max(1.0, st['scale']):
            raise Undef()     # too close to call in floating point
        return [a == b, a != b, a < b, a <= b, a > b, a >= b][t[1]]
    if k == 10:
        bs = [ev(a, env, st) for a in t[2:]]
        if not all(isinstance(b, bool) for b in bs):
            raise Undef()
        if t[1] == 0:
            return all(bs)
        if t[1] == 1:
            return any(bs)
        if t[1] == 2:
            return sum(1 for b in bs if b) % 2 == 1
        return not bs[0]
    if k == 11:
        return True
    if k == 12:
        return False
    if k == 13:
        for e, c in t[1:]:
            cv = ev(c, env, st)
            if not isinstance(cv, bool):
                raise Undef()
            if cv:
                return ev(e, env, st)
        raise Undef()
    raise Undef()


def well_sorted(t):
    """numbers where numbers are expected, truth values where truth values are expected (the property's scope)"""
    k = t[0]
    if k == 9 and t[1] in (0, 1) and all(c[0] in (9, 10, 11, 12) for c in t[2:]):
        return all(well_sorted(c) for c in t[2:])      # Eq / Ne of two truth values
    if k in (4, 5, 6, 7, 9):
        ch = t[2:] if k in (7, 9) else t[1:]
        return all(c[0] not in (9, 10, 11, 12) and well_sorted(c) for c in ch)
    if k == 10:
        return all(c[0] in (9, 10, 11, 12) and well_sorted(c) for c in t[2:])
    if k == 13:
        return all(a[0][0] not in (9, 10, 11, 12) and well_sorted(a[0]) and a[1][0] in (9, 10, 11, 12) and well_sorted(a[1])
                   for a in t[1:])
    return True


def ev_top(t, env, st):
    """value of the whole expression: a piecewise none of whose conditions holds is NaN (the printer's documented
    fallback); anywhere deeper an undefined sub-expression makes the point undefined"""
    if t[0] == 13:
        for e, c in t[1:]:
            cv = ev(c, env, st)
            if not isinstance(cv, bool):
                raise Undef()
            if cv:
                return ev_top(e, env, st)
        return float('nan')
    return ev(t, env, st)


def has_piecewise(t):
    return any(s[0] == 13 for s in subtrees(t))


def has_factorial(t):
    return any(s[0] == 7 and s[1] == bridge.FN_IDS['factorial'] for s in subtrees(t))


def has_nested_relation(t):
    return any(s[0] == 9 and any(c[0] in (9, 10, 11, 12) for c in s[2:]) for s in subtrees(t))


def points(case_key, t):
    rng = random.Random('pt' + case_key)
    out = []
    if has_piecewise(t) and not has_factorial(t):      # one point in every region of the thresholds 1, 2, 3 on v0
        for x0 in (0.5, 1.5, 2.5, 3.5):
            out.append([x0, 0.7, 1.3, 2.2, 0.9, 1.7][:NV + 2])
    for j in range(10 if has_nested_relation(t) else 3):
        if has_factorial(t):
            out.append([rng.randint(0, 5) for _ in range(NV + 2)])
        elif j % 3 == 2:
            out.append([rng.choice([0.25, 0.5, 0.75, 1.25, 1.5, 2.0, 3.0]) for _ in range(NV + 2)])
        else:
            out.append([round(rng.choice([-1, 1, 1]) * rng.uniform(0.2, 2.9), 3) for _ in range(NV + 2)])
    return out


def oracle(key, tree, printed):
    """property on the implementation: list of (what, detail)"""
    bad = []
    st0 = {'n': 0}
    for vals in points(key, tree):
        st = {'scale': 0.0}
        try:
            want = ev_top(tree, vals, st)
        except Undef:
            continue
        except (OverflowError, ZeroDivisionError, ValueError):
            continue
        env = {'math': math, 'abs': abs, 'float': float, '__builtins__': {}}
        for i, v in enumerate(vals):
            env['v%d' % i] = v
        try:
            got = eval(printed, env)
        except SyntaxError as e:
            return [('generated code is not a Python expression', {'printed': printed, 'error': str(e)})], 0
        except Exception as e:
            bad.append(('generated code fails (%s) where the expression has a value' % type(e).__name__,
                        {'printed': printed, 'point': vals, 'expected': want, 'error': str(e)}))
            continue
        st0['n'] += 1
        if isinstance(want, float) and math.isnan(want):
            ok = isinstance(got, float) and math.isnan(got)
        elif isinstance(want, bool):
            ok = isinstance(got, bool) and got == want
        else:
            ok = (not isinstance(got, (bool, complex))) and isinstance(got, (int, float)) and \
                abs(got - want) <= 1e-9 * max(1.0, st['scale'], abs(want))
        if not ok:
            bad.append(('generated code computes a different value', {'printed': printed, 'point': vals,
                                                                        'expected': want, 'got': repr(got)}))
    return bad, st0['n']


# ---- implementation worker -------------------------------------------------------------------------------------
def work(case):
    """one case under a time limit: SymPy occasionally does not come back from evaluating / rewriting a large random tree"""
    try:
        return vlib.with_alarm(90, _work, case)
    except vlib.Timeout:
        return {'status': 'invalid', 'why': 'timeout: the case did not finish within 90 s'}


def _work(case):
    """case: {'tree': json tree, 'ev': bool}.  Returns a JSON-able record."""
    import sympy
    from sympy.codegen.rewriting import optimize
    from cellmlmanip.printer import Printer
    import warnings
    warnings.simplefilter('ignore')
    out = {'status': 'ok'}
    try:
        syms = _symbols()
        try:
            expr = reflect(to_bridge(case['tree']), syms, case['ev'])
            tree = reify(expr)                 # the object that is actually printed
        except Exception as e:
            return {'status': 'invalid', 'why': '%s: %s' % (type(e).__name__, e)}
        if any(s[0] == 0 and (s[2].numerator.bit_length() > 400 or s[2].denominator.bit_length() > 400) for s in subtrees(tree)):
            return {'status': 'invalid', 'why': 'huge number after SymPy evaluation'}
        out['tree'] = to_json(tree)
        try:
            out['sympy'] = sympy.srepr(expr)[:300]
        except Exception:
            out['sympy'] = 'tree %s' % json.dumps(out['tree'])[:300]
        pr = Printer()
        out['opt_err'] = out['kc_err'] = None
        target = expr
        try:
            if isinstance(expr, sympy.Expr):
                target = optimize(expr, pr._optims)
                topt = reify(target)
                if any(s[0] == 0 and (s[2].numerator.bit_length() > 400 or s[2].denominator.bit_length() > 400) for s in subtrees(topt)):
                    return {'status': 'invalid', 'why': 'huge number after SymPy evaluation'}
                out['opt'] = to_json(topt)
            else:
                out['opt'] = out['tree']
        except Exception as e:
            out['opt'] = None
            out['opt_err'] = type(e).__name__
        out['rw_plain'] = out['opt'] is not None and to_json(py_rewrite(tree)) == out['opt']
        if out['opt'] is None:
            out['kc'] = [[1, 4]]
        else:
            try:
                out['kc'] = keep_coeff_nonplain(target) if isinstance(target, sympy.Basic) else []
            except Exception as e:
                out['kc'] = [[1, 4]]
                out['kc_err'] = type(e).__name__
        out['plain'] = not out['kc']
        try:      # `-expr.exp is S.One / S.Half` in _bracket / _print_Pow evaluates an unevaluated numeric exponent
            for q in (sympy.preorder_traversal(target) if isinstance(target, sympy.Basic) else []):
                if isinstance(q, sympy.Pow) and not q.exp.is_Number and ((-q.exp) is sympy.S.One or (-q.exp) is sympy.S.Half):
                    out['plain'] = False
        except Exception:
            out['plain'] = False
        try:
            s = pr.doprint(expr)
            out['impl'] = ['ok', s]
        except Exception as e:
            out['impl'] = ['err', vlib.err_class(e), str(e)[:200]]
        out['sorted'] = well_sorted(tree)
        if out['impl'][0] == 'ok' and out['sorted']:
            out['oracle'], out['npts'] = oracle(json.dumps(case['tree']), tree, out['impl'][1])
        else:
            out['oracle'], out['npts'] = [], 0
        return out
    except Exception as e:
        import traceback
        return {'status': 'harness', 'why': traceback.format_exc()[-800:]}


# ---- python twin of the Coq guard [printable] (Model/PyPrinter.v): supported constructs, well-sorted ------------------------------------------------
def _numv(t):
    return Fraction(t[2][0], t[2][1]) if isinstance(t[2], list) else t[2]


def rewrite_pass_raises(case):
    """F18: a SymPy operation the printer applies to its (unevaluated) input re-evaluates it: optimize(expr, _optims)
    on a tree with a secondary trig function raises or returns something else than the plain rewriting (SymPy
    re-evaluated the ancestors), or _keep_coeff(-c, rest) in _print_Mul raises"""
    d = case.get('detail', case)
    t = d.get('tree')
    trig = t is not None and any(s[0] == 7 and bridge.FN_NAMES.get(s[1]) in TRIG2 for s in subtrees(to_bridge(t)))
    return bool(trig and (d.get('opt_err') or not d.get('rw_plain', True))) or bool(d.get('kc_err'))


KNOWN_PREDICATES = {'rewrite_pass_raises': rewrite_pass_raises}


def _isbool(t):
    return t[0] in (9, 10, 11, 12)


def py_printable(t):
    """twin of PyPrinter.printable"""
    k = t[0]
    if k == 0:
        return t[1] in (1, 2) or (t[1] == 0 and _numv(t).denominator == 1)
    if k == 1:
        return t[1] in (0, 1)
    if k == 3:
        return True
    if k in (2, 8):
        return False
    if k in (11, 12):
        return True
    if k == 13:
        return all((not _isbool(a[0])) and py_printable(a[0]) and _isbool(a[1]) and py_printable(a[1]) for a in t[1:])
    if k == 10:
        return all(_isbool(a) and py_printable(a) for a in t[2:])
    ch = t[2:] if k in (7, 9) else t[1:]
    return all((not _isbool(a)) and py_printable(a) for a in ch)


# ---- model output decoding -------------------------------------------------------------------------------------
def model_text(codes):
    out = []
    for c in codes:
        if isinstance(c, list):
            out.append(repr(float(Fraction(c[1][0], c[1][1]))))
        else:
            out.append(chr(c))
    return ''.join(out)


def nf_model(p):
    k = p[0]
    if k == 0:
        return ('num', p[1])
    if k == 1:
        return ('float', float(Fraction(p[1][0], p[1][1])))
    if k == 2:
        return ('name', 'v%d' % p[1])
    if k == 3:
        return ('lit', vlib.sexp_str(p[1]))
    if k == 4:
        return ('bool', bool(p[1]))
    if k == 5:
        return ('call', vlib.sexp_str(p[1]), tuple(nf_model(a) for a in p[2:]))
    if k == 6:
        return nf_model(p[1])
    if k == 7:
        return ('bin', '**', nf_model(p[1]), nf_model(p[2]))
    if k == 8:
        return ('neg', nf_model(p[1]))
    if k == 9:
        kind = p[1]
        if kind in (0, 1):
            acc = nf_model(p[2])
            for fl, q in p[3:]:
                op = {(0, 1): '+', (0, 0): '-', (1, 1): '*', (1, 0): '/'}[(kind, fl)]
                acc = ('bin', op, acc, nf_model(q))
            return acc
        return ('and' if kind == 2 else 'or', tuple([nf_model(p[2])] + [nf_model(q) for _, q in p[3:]]))
    if k == 10:
        return ('cmp', p[1], nf_model(p[2]), nf_model(p[3]))
    if k == 11:
        return ('if', nf_model(p[2]), nf_model(p[1]), nf_model(p[3]))
    raise ValueError(p)


_BIN = {ast.Add: '+', ast.Sub: '-', ast.Mult: '*', ast.Div: '/', ast.Pow: '**'}
_CMP = {ast.Eq: 0, ast.NotEq: 1, ast.Lt: 2, ast.LtE: 3, ast.Gt: 4, ast.GtE: 5}


def _dotted(n):
    if isinstance(n, ast.Name):
        return n.id
    if isinstance(n, ast.Attribute):
        return _dotted(n.value) + '.' + n.attr
    raise ValueError(ast.dump(n))


def nf_ast(n):
    if isinstance(n, ast.Expression):
        return nf_ast(n.body)
    if isinstance(n, ast.Constant):
        if isinstance(n.value, bool):
            return ('bool', n.value)
        if isinstance(n.value, int):
            return ('num', n.value)
        if isinstance(n.value, float):
            return ('float', n.value)
    if isinstance(n, ast.Name):
        return ('name', n.id)
    if isinstance(n, ast.Attribute):
        return ('lit', _dotted(n))
    if isinstance(n, ast.Call):
        name = _dotted(n.func)
        if name == 'float' and len(n.args) == 1 and isinstance(n.args[0], ast.Constant) and n.args[0].value == 'nan':
            return ('lit', "float('nan')")
        return ('call', name, tuple(nf_ast(a) for a in n.args))
    if isinstance(n, ast.BinOp) and type(n.op) in _BIN:
        return ('bin', _BIN[type(n.op)], nf_ast(n.left), nf_ast(n.right))
    if isinstance(n, ast.UnaryOp) and isinstance(n.op, ast.USub):
        return ('neg', nf_ast(n.operand))
    if isinstance(n, ast.BoolOp):
        return ('and' if isinstance(n.op, ast.And) else 'or', tuple(nf_ast(v) for v in n.values))
    if isinstance(n, ast.Compare):
        if len(n.ops) == 1 and type(n.ops[0]) in _CMP:
            return ('cmp', _CMP[type(n.ops[0])], nf_ast(n.left), nf_ast(n.comparators[0]))
        return ('chain', ast.dump(n))
    if isinstance(n, ast.IfExp):
        return ('if', nf_ast(n.test), nf_ast(n.body), nf_ast(n.orelse))
    return ('other', ast.dump(n))


# ---- case generation ---------------------------------------------------------------------------------------------
UNARY_FNS = ['exp', 'log', 'Abs', 'floor', 'ceiling', 'sin', 'cos', 'tan', 'sinh', 'cosh', 'tanh', 'asin', 'acos',
             'atan', 'asinh', 'acosh', 'atanh', 'factorial', 'expm1', 'log10', 'log1p', 'log2'] + TRIG2
NUMS = [I(2), I(-3), I(0), I(1), I(-1), Q(2, 3), Q(-2, 3), Q(1, 2), Q(-1, 2), Fl(1.5), Fl(-0.5), Fl(1e-7), Fl(2.0)]


def children():
    x, y, z = X, Y, Z
    c = [x] + NUMS + [
        Add(x, y), Add(x, Mul(I(-1), y)), Add(Mul(I(-1), x), y), Add(x, I(-2)), Add(I(2), x), Add(x, Q(-2, 3)),
        Add(x, Fl(-1.5)), Add(x, y, W),
        Mul(x, y), Mul(I(-1), x), Mul(I(-2), x), Mul(I(2), x), Mul(Q(2, 3), x), Mul(Q(-1, 2), x), Mul(Fl(-1.5), x),
        Mul(x, Pow(y, I(-1))), Mul(I(-1), x, Pow(y, I(-1))), Pow(y, I(-1)), Mul(I(-1), Pow(y, I(-1))),
        Mul(I(-1), Add(x, y)), Mul(I(-2), Add(x, y)), Mul(x, Add(y, W)), Mul(x, I(-2)), Mul(I(-1), Mul(I(-2), Add(x, y))),
        Mul(x, Pow(Mul(y, W), I(-1))), Mul(x, Pow(y, I(-1)), Pow(W, I(-1))), Mul(x, Pow(y, I(-2))),
        Mul(x, Pow(Pow(y, I(-1)), I(-1))), Mul(x, Pow(Q(2, 3), I(-1))), Mul(x, Pow(Pow(y, Q(-1, 2)), I(-1))),
        Mul(x, Pow(y, Q(-1, 2))), Mul(x, Pow(y, Q(-2, 3))), Mul(x, Pow(Add(y, W), I(-1))),
        Pow(x, y), Pow(x, I(2)), Pow(x, I(-2)), Pow(x, Q(1, 2)), Pow(x, Q(-1, 2)), Pow(x, Q(2, 3)), Pow(x, Q(-2, 3)),
        Pow(x, Fl(1.5)), Pow(x, Fl(-1.5)), Pow(x, Fl(-1.0)), Pow(I(2), x), Pow(I(-2), x), Pow(Q(2, 3), x),
        Pow(x, Pow(y, W)), Pow(Pow(x, y), W), Pow(x, Mul(I(-1), y)), Pow(x, Add(y, I(1))), Pow(Add(x, y), I(2)),
        Pow(Mul(x, y), I(-1)), Pow(Pow(x, I(2)), I(-1)), Pow(Pow(x, Q(1, 2)), y), Pow(Pow(x, I(-1)), y),
        Fn('sin', x), Fn('Abs', x), Fn('Abs', Mul(I(-1), x)), Fn('sec', x), Fn('acot', x), Fn('exp', Mul(I(-1), x)),
        Fn('atan2', x, y), Fn('log', x, I(2)), [1, 0], [1, 1],
        Pw((x, Rel(2, x, y)), (y, TRUE)), Pw((x, Rel(2, x, y)), (y, Rel(0, y, W))),
        # ill-sorted children (a truth value where a number is expected): only the bracketing decisions are compared
        Rel(2, x, y), Rel(0, x, y), And(Rel(2, x, y), Rel(4, y, W)), Or(Rel(2, x, y), Rel(4, y, W)),
    ]
    return c


def parents(h):
    """every operand position of every operator, with the child h in it"""
    z, y = Z, Y
    p = [
        ('add0', Add(h, z)), ('add1', Add(z, h)), ('add2', Add(z, y, h)), ('sub', Add(z, Mul(I(-1), h))),
        ('sub0', Add(Mul(I(-1), h), z)), ('sub2', Add(z, Mul(I(-2), h))),
        ('mul0', Mul(h, z)), ('mul1', Mul(z, h)), ('mul2', Mul(z, y, h)), ('neg', Mul(I(-1), h)), ('neg2', Mul(I(-1), h, z)),
        ('coef2', Mul(I(2), h)), ('coefm2', Mul(I(-2), h)), ('coefq', Mul(Q(-2, 3), h)), ('coeff', Mul(Fl(-1.5), h)),
        ('quot_den', Mul(z, Pow(h, I(-1)))), ('quot_num', Mul(h, Pow(z, I(-1)))), ('quot_den2', Mul(z, Pow(h, I(-1)), Pow(y, I(-1)))),
        ('quot_den3', Mul(z, Pow(y, I(-1)), Pow(h, I(-1)))), ('quot_denp', Mul(z, Pow(h, I(-2)))),
        ('quot_denr', Mul(z, Pow(h, Q(-2, 3)))), ('quot_dens', Mul(z, Pow(h, Q(-1, 2)))), ('recip', Pow(h, I(-1))),
        ('negquot', Mul(I(-1), z, Pow(h, I(-1)))), ('negrecip', Mul(I(-1), Pow(h, I(-1)))),
        ('pow_base', Pow(h, z)), ('pow_exp', Pow(z, h)), ('pow_b2', Pow(h, I(2))), ('pow_bm2', Pow(h, I(-2))),
        ('sqrt', Pow(h, Q(1, 2))), ('rsqrt', Pow(h, Q(-1, 2))), ('pow_bq', Pow(h, Q(2, 3))), ('pow_bmq', Pow(h, Q(-2, 3))),
        ('pow_bf', Pow(h, Fl(1.5))), ('pow_bmf', Pow(h, Fl(-1.5))), ('pow_2e', Pow(I(2), h)), ('tower_l', Pow(Pow(h, y), z)),
        ('tower_r', Pow(z, Pow(y, h))), ('tower_m', Pow(z, Pow(h, y))),
        ('abs', Fn('Abs', h)), ('sin', Fn('sin', h)), ('atan2a', Fn('atan2', h, z)), ('atan2b', Fn('atan2', z, h)),
        ('sec', Fn('sec', h)), ('acsc', Fn('acsc', h)),
        ('pw_e', Pw((h, Rel(2, z, y)), (y, TRUE))), ('pw_o', Pw((z, Rel(2, z, y)), (h, TRUE))),
        ('pw_c', Pw((z, Rel(3, h, y)), (y, TRUE))), ('pw_nan', Pw((h, Rel(2, z, y)), (y, Rel(5, z, h)))),
        ('and', And(Rel(2, h, z), Rel(0, z, y))), ('or', Or(Rel(1, z, h), Rel(4, h, y))),
    ]
    for r in range(6):
        p.append(('rel%dl' % r, Rel(r, h, z)))
        p.append(('rel%dr' % r, Rel(r, z, h)))
    return p


def bool_cases():
    a, b, c, d = Rel(2, X, Y), Rel(0, Y, Z), Rel(5, Z, W), Rel(1, X, W)
    out = []
    for name, t in [
        ('and2', And(a, b)), ('or2', Or(a, b)), ('and3', And(a, b, c)), ('or3', Or(a, b, c)),
        ('and_or', And(a, Or(b, c))), ('or_and', Or(a, And(b, c))), ('and_and', And(a, And(b, c))),
        ('and_and0', And(And(a, b), c)), ('or_or', Or(a, Or(b, c))), ('or_or0', Or(Or(a, b), c)),
        ('and_or_or', And(Or(a, b), Or(c, d))), ('or_and_and', Or(And(a, b), And(c, d))),
        ('and_true', And(TRUE, a)), ('or_false', Or(FALSE, a)), ('true', TRUE), ('false', FALSE),
        ('not', [10, 3, a]), ('xor', [10, 2, a, b]), ('and_not', And(a, [10, 3, b])),
        ('pw_and', Pw((X, And(a, b)), (Y, Or(b, c)), (Z, TRUE))), ('pw_and_nan', Pw((X, And(a, Or(b, c))), (Y, d))),
        ('pw_true_first', Pw((X, TRUE), (Y, a))), ('pw_false', Pw((X, FALSE), (Y, a), (Z, TRUE))),
        ('pw_in_pw', Pw((Pw((X, a), (Y, TRUE)), b), (Z, TRUE))),
        ('rel_sec', Rel(2, Fn('sec', X), Y)), ('and_sec', And(Rel(2, Fn('cot', X), Y), a)),
        ('pw_sec', Pw((Fn('sec', X), Rel(2, Fn('csc', X), Y)), (Fn('acoth', Z), TRUE))),
    ]:
        out.append((name, t))
    return out


def unitpow_cases():
    """Pow(base, e) held unevaluated for trivial / float exponents, base of every lower-precedence kind, in every operand
    position of every parent operator (the parent brackets by precedence(Pow); the Pow printer must not drop them)"""
    x, y = X, Y
    exps = [('f1', Fl(1.0)), ('i1', I(1)), ('fm1', Fl(-1.0)), ('im1', I(-1)), ('f2', Fl(2.0)), ('fh', Fl(0.5))]
    bases = [('sum', Add(x, y)), ('diff', Add(x, Mul(I(-1), y))), ('prod', Mul(x, y)), ('neg', Mul(I(-1), x)),
             ('quot', Mul(x, Pow(y, I(-1)))), ('recip', Pow(y, I(-1))), ('negint', I(-2)), ('rat', Q(2, 3)),
             ('negfloat', Fl(-0.5)), ('pow', Pow(x, y)), ('sym', x), ('fn', Fn('exp', x)), ('rel', Rel(2, x, y))]
    out = []
    for en, e in exps:
        for bn, b in bases:
            h = Pow(b, e)
            out.append(('unitpow:%s:%s:top' % (en, bn), h))
            for pn, t in parents(h):
                out.append(('unitpow:%s:%s:%s' % (en, bn, pn), t))
    return out


def nested_pw_cases():
    """nested piecewise: inner with / without otherwise x outer with / without otherwise x position of the inner one
    (conditional piece, later conditional piece, otherwise piece, inside arithmetic / a call in a piece, bare)"""
    x, y, z = X, Y, Z
    c1, c2, c3 = Rel(2, x, I(1)), Rel(2, x, I(2)), Rel(2, x, I(3))
    inners = [('io', Pw((y, c1), (z, TRUE))), ('in', Pw((y, c1), (z, c2))), ('io3', Pw((y, c1), (Mul(y, y), c2), (z, TRUE)))]
    out = []
    for iname, inner in inners:
        wraps = [('bare', inner), ('sum', Add(inner, I(1))), ('neg', Mul(I(-1), inner)), ('call', Fn('exp', inner))]
        for wname, h in wraps:
            for oname, tail in (('oo', [(W, TRUE)]), ('on', [])):
                forms = [('cond1', [(h, c2), (Mul(y, z), c3)]), ('cond2', [(Mul(y, z), c1), (h, c3)]),
                         ('both', [(h, c2), (h, c3)])]
                for fname, pieces in forms:
                    out.append(('npw:%s:%s:%s:%s' % (iname, wname, oname, fname), Pw(*(pieces + tail))))
                out.append(('npw:%s:%s:%s:other' % (iname, wname, oname), Pw((Mul(y, z), c2), (h, TRUE))))
            out.append(('npw:%s:%s:free' % (iname, wname), Add(h, y)))
            out.append(('npw:%s:%s:top' % (iname, wname), h))
    return out


def relrel_cases():
    """relations whose operands are relations / truth values: 6 x 6 kinds x (left, right, both), constants, and the
    same inside and / or / piecewise conditions.  Eq / Ne of two truth values is well-sorted (value-checked);
    an inequality over truth values is not (SymPy itself refuses to build it evaluated): correspondence only."""
    out = []
    for p in range(6):
        for c in range(6):
            inner, other = Rel(c, X, Y), Rel(c, Z, W)
            for c2 in range(6):
                out.append(('relrel:%d:%d:both%d' % (p, c, c2), Rel(p, inner, Rel(c2, Z, W))))
            out.append(('relrel:%d:%d:l' % (p, c), Rel(p, inner, Z)))
            out.append(('relrel:%d:%d:r' % (p, c), Rel(p, Z, inner)))
            for cname, cst in (('T', TRUE), ('F', FALSE)):
                out.append(('relrel:%d:%d:l%s' % (p, c, cname), Rel(p, inner, cst)))
                out.append(('relrel:%d:%d:r%s' % (p, c, cname), Rel(p, cst, inner)))
            if p in (0, 1):
                nest = Rel(p, inner, other)
                out.append(('relrel:%d:%d:and' % (p, c), And(nest, Rel(2, X, W))))
                out.append(('relrel:%d:%d:or' % (p, c), Or(Rel(4, Y, Z), nest)))
                out.append(('relrel:%d:%d:pw' % (p, c), Pw((X, nest), (Y, TRUE))))
                out.append(('relrel:%d:%d:deep' % (p, c), Rel(1 - p, Rel(p, inner, other), Rel(c, Y, Z))))
                out.append(('relrel:%d:%d:andop' % (p, c), Rel(p, And(inner, Rel(2, X, W)), Or(other, Rel(3, Y, X)))))
    return out


def fn_cases():
    out = []
    for f in UNARY_FNS:
        for an, a in [('x', X), ('sum', Add(X, Y)), ('neg', Mul(I(-1), X)), ('quot', Mul(X, Pow(Y, I(-1)))), ('num', Q(1, 2))]:
            out.append(('fn:%s:%s' % (f, an), Fn(f, a)))
        out.append(('fn:%s:in_sum' % f, Add(Z, Fn(f, X))))
        out.append(('fn:%s:in_pow' % f, Pow(Fn(f, X), Y)))
        out.append(('fn:%s:in_exp' % f, Pow(I(2), Fn(f, X))))
        out.append(('fn:%s:in_prod' % f, Mul(I(-1), Y, Fn(f, X))))
    for f in ['Max', 'Min', 'Mod']:
        out.append(('fn:%s' % f, Fn(f, X, Y)))
    out.append(('fn:atan2', Fn('atan2', X, Y)))
    out.append(('fn:log2arg', Fn('log', X, Y)))
    for c in [[1, 0], [1, 1], [1, 2], [1, 3], [1, 4], [1, 5]]:
        out.append(('const:%d' % c[1], c))
        out.append(('const:%d:in_sum' % c[1], Add(X, c)))
    return out


def rand_tree(rng, depth, boolean=False):
    if boolean:
        r = rng.random()
        if depth <= 0 or r < 0.5:
            return Rel(rng.randrange(6), rand_tree(rng, depth - 1), rand_tree(rng, depth - 1))
        if r < 0.7:
            return And(*[rand_tree(rng, depth - 1, True) for _ in range(rng.choice([2, 2, 3]))])
        if r < 0.9:
            return Or(*[rand_tree(rng, depth - 1, True) for _ in range(rng.choice([2, 2, 3]))])
        return rng.choice([TRUE, FALSE])
    r = rng.random()
    if depth <= 0 or r < 0.18:
        if rng.random() < 0.6:
            return V(rng.randrange(NV))
        return rng.choice(NUMS + [I(3), I(5), Q(3, 4), Q(-5, 2), Fl(2.5), Fl(0.1), Fl(-3.25), I(-2)])
    if r < 0.36:
        return Add(*[rand_tree(rng, depth - 1) for _ in range(rng.choice([2, 2, 3]))])
    if r < 0.6:
        n = rng.choice([2, 2, 3])
        args = [rand_tree(rng, depth - 1) for _ in range(n)]
        if rng.random() < 0.35:
            args[0] = rng.choice([I(-1), I(-1), I(-2), Q(-1, 2), Fl(-1.5), I(2), Q(2, 3)])
        return Mul(*args)
    if r < 0.8:
        e = rng.choice([I(-1), I(-1), I(2), I(-2), Q(1, 2), Q(-1, 2), Q(2, 3), Q(-2, 3), Fl(1.5), Fl(-1.0), None, None])
        return Pow(rand_tree(rng, depth - 1), e if e is not None else rand_tree(rng, depth - 1))
    if r < 0.93:
        return Fn(rng.choice(UNARY_FNS[:17] + TRIG2[:4]), rand_tree(rng, depth - 1))
    n = rng.choice([1, 2, 2])
    pairs = [(rand_tree(rng, depth - 1), rand_tree(rng, depth - 2, True)) for _ in range(n)]
    if rng.random() < 0.7:
        pairs.append((rand_tree(rng, depth - 1), TRUE))
    return Pw(*pairs)


def gen_cases(seed, tier, extra=0):
    cases = []
    ch = children()
    for ci, c in enumerate(ch):
        for pn, p in parents(c):
            for evf in (False, True):
                cases.append({'tree': p, 'ev': evf, 'kind': 'triple:' + pn})
    for c in ch:
        for evf in (False, True):
            cases.append({'tree': c, 'ev': evf, 'kind': 'single'})
    for name, t in bool_cases():
        for evf in (False, True):
            cases.append({'tree': t, 'ev': evf, 'kind': 'logic'})
    for name, t in fn_cases():
        for evf in (False, True):
            cases.append({'tree': t, 'ev': evf, 'kind': 'function'})
    for name, t in relrel_cases():
        for evf in (False, True):
            cases.append({'tree': t, 'ev': evf, 'kind': 'relrel'})
    for name, t in nested_pw_cases():
        for evf in (False, True):
            cases.append({'tree': t, 'ev': evf, 'kind': 'nestedpw'})
    for name, t in unitpow_cases():
        for evf in (False, True):
            cases.append({'tree': t, 'ev': evf, 'kind': 'unitpow'})
    rng = random.Random(seed * 1000003 + 11 + extra)
    n = (3000 if tier == 'quick' else 150000) * (4 if extra and tier == 'quick' else 1)
    for i in range(n):
        depth = rng.choice([2, 3, 3, 4])
        t = rand_tree(rng, depth, boolean=rng.random() < 0.15)
        cases.append({'tree': t, 'ev': rng.random() < 0.4, 'kind': 'random'})
    seen = set()
    out = []
    for c in cases:
        k = json.dumps([c['tree'], c['ev']])
        if k not in seen:
            seen.add(k)
            out.append(c)
    return out


# ---- evaluation of one batch -------------------------------------------------------------------------------------
def model_run(trees, fn=FN):
    return vlib.model_run(fn, [to_bridge(t) for t in trees])


def evaluate(ctx, cases, results, use_model=True):
    idx = [i for i, r in enumerate(results) if r.get('status') == 'ok']
    mods = {}
    if use_model and ctx.model_ok() and idx:
        first = model_run([results[i]['tree'] for i in idx])
        redo = []
        for i, m in zip(idx, first):
            mods[i] = m
            r = results[i]
            r['rewrite_plain'] = r['rw_plain']
            if to_json_from_model(m[5]) != to_json(py_rewrite(to_bridge(r['tree']))):
                ctx.tie_break('rewriting pass of the model (PyPrinter.rewrite, generated _extra_trig) differs from its specification twin',
                              {'case': cases[i], 'detail': {'tree': r['tree'], 'model': to_json_from_model(m[5])}})
            if not r['rewrite_plain'] and r['opt'] is not None:
                redo.append(i)
        if redo:      # sympy re-evaluated parents while rewriting: compare the printer proper on the rewritten tree
            second = model_run([results[i]['opt'] for i in redo], FN + 1)
            for i, m in zip(redo, second):
                mods[i] = m
    for i, (case, r) in enumerate(zip(cases, results)):
        if r.get('status') == 'harness':
            ctx.tie_break('harness error in worker: ' + r['why'], case)
            continue
        if r.get('status') != 'ok':
            ctx.count(kind='invalid-for-sympy')
            if str(r.get('why', '')).startswith('timeout'):
                ctx.hist['case-timeout'] = ctx.hist.get('case-timeout', 0) + 1
                if ctx.hist['case-timeout'] == 1 + len(cases) // 500:
                    # isolated SymPy hangs on large random trees are tolerated; a printer that stops terminating is not
                    ctx.tie_break('more than %d cases did not finish within the time limit (first: %r)'
                                  % (len(cases) // 500, case), case)
            continue
        rec = {'case': case, 'detail': {'tree': r['tree'], 'opt': r['opt'], 'kc': r['kc'], 'opt_err': r['opt_err'], 'kc_err': r['kc_err'], 'rw_plain': r['rw_plain'], 'sympy': r['sympy'], 'impl': r['impl']}}
        impl = r['impl']
        nontrivial = sum(1 for _ in subtrees(r['tree'])) >= 4
        ctx.count(case_key=[r['tree']], nontrivial=nontrivial, kind=case['kind'].split(':')[0] + (':eval' if case['ev'] else ':uneval'))
        # stage D
        if not r['sorted']:
            ctx.hist['ill-sorted (correspondence only)'] = ctx.hist.get('ill-sorted (correspondence only)', 0) + 1
        if impl[0] == 'err' and impl[1] != 'ValueError' and r['sorted']:
            ctx.violation('doprint raises %s (only ValueError is an accepted refusal): %s' % (impl[1], impl[2]), rec)
        for what, detail in r['oracle'][:1]:
            rec2 = {'case': case, 'detail': dict(rec['detail'], **detail)}
            ctx.violation('%s: %s -> %r; at %s expected %r, got %s' % (
                what, r['sympy'], detail.get('printed'), detail.get('point'), detail.get('expected'),
                detail.get('got', detail.get('error'))), rec2)
        ctx.hist['oracle:points-evaluated'] = ctx.hist.get('oracle:points-evaluated', 0) + r['npts']
        if impl[0] == 'ok' and r['npts'] == 0:
            ctx.hist['oracle:no-defined-point'] = ctx.hist.get('oracle:no-defined-point', 0) + 1
        if impl[0] == 'err':
            ctx.hist['refused:ValueError'] = ctx.hist.get('refused:ValueError', 0) + 1
        # stage C
        m = mods.get(i)
        if m is None:
            continue
        status = m[0]
        printed_tree = to_bridge(r['opt'] if r['opt'] is not None else r['tree'])
        if r['opt'] is not None:
            twin = py_printable(printed_tree)
            if bool(m[4]) != twin:
                ctx.tie_break('Coq guard [printable] = %s but its Python twin = %s' % (bool(m[4]), twin), rec)
        if status == 3:
            ctx.tie_break('model ran out of fuel', rec)
            continue
        if status == 2 or not r['plain']:
            ctx.hist['unmodelled'] = ctx.hist.get('unmodelled', 0) + 1
            continue
        if impl[0] == 'err' and impl[1] != 'ValueError' and not r['sorted']:
            continue          # SymPy itself rejects an operation on the ill-sorted tree
        ctx.corr_cases += 1
        if case['kind'] == 'function' and case['tree'][0] == 7 and case['tree'][2] == X and not r['rewrite_plain']:
            ctx.tie_break('trig rewriting pass of the model differs from sympy optimize(_optims) on f(symbol)', rec)
        if status == 1:
            if impl[0] != 'err':
                ctx.tie_break('correspondence C11: model refuses (ValueError), implementation prints %r' % impl[1], rec)
            continue
        mtext = model_text(m[1])
        if impl[0] != 'ok':
            ctx.tie_break('correspondence C11: implementation raises %s, model prints %r' % (impl[1], mtext), rec)
            continue
        if mtext != impl[1]:
            ctx.tie_break('correspondence C11 (Model/PyPrinter.v vs printer.py): model %r, implementation %r'
                          % (mtext, impl[1]), rec)
            continue
        wbflag, prflag = bool(m[3]), bool(m[4])
        if prflag and not wbflag:
            ctx.tie_break('printable tree whose model parse tree is not well-bracketed (contradicts C11_print_wellbracketed)', rec)
        try:
            got = nf_ast(ast.parse(mtext, mode='eval'))
        except SyntaxError as e:
            got = ('syntax-error', str(e))
        same = (got == nf_model(m[2]))
        if wbflag and not same:
            ctx.tie_break('Python parses %r as %r but the well-bracketed model parse tree is %r (grammar)' % (
                mtext, got, nf_model(m[2])), rec)
        if not wbflag:
            ctx.hist['not-well-bracketed'] = ctx.hist.get('not-well-bracketed', 0) + 1
        if i % 400 == 0:
            ctx.sample({'sympy': r['sympy'], 'printed': impl[1], 'evaluate': case['ev']})


def to_json_from_model(s):
    """sexp of an expr (Coq sexp_of_expr) -> JSON tree"""
    k = s[0]
    if k == 0:
        return [0, s[1], [s[2][0], s[2][1]]]
    if k == 13:
        return [13] + [[to_json_from_model(a[0]), to_json_from_model(a[1])] for a in s[1:]]
    return [x if isinstance(x, int) else to_json_from_model(x) for x in s]


def run(ctx):
    ctx.rule = ('every (parent operator, child, operand position) triple over sums, differences, products, quotients, '
                'powers (integer / negative / rational / float / symbolic exponents, towers), negation, relations, and / or, '
                'piecewise, abs, every function-table entry and rewritten trig function, negative / rational / float literals '
                'in every position, evaluated and evaluate=False; random deeper trees; 3 evaluation points each; '
                'non-trivial = at least 4 nodes')
    ctx.trusted += ['tools/translate_printer.py (_function_names, _extra_trig, _literal_names -> Gen/PrinterTables_gen.v)',
                    'unambiguity of Python\'s expression grammar (sampled: ast.parse of every emitted text vs the model parse tree)',
                    'float literals: repr(float) round-trips (placeholder in the model text)',
                    'SymPy precedence(), as_coeff_Mul, make_args, _keep_coeff modelled in PyPrinter.v; _keep_coeff assumed plain (checked per case)',
                    'premises of C11_print_value / C11_trig_rewrite_sound: psem x 1 = x, psem x (-y) = 1/psem x y (y > 0), '
                    'sec = 1/cos ... acoth x = atanh(1/x)']
    cases = load_corpus() + gen_cases(ctx.seed, ctx.tier)
    results = vlib.pmap(work, cases)
    evaluate(ctx, cases, results)
    if ctx.tie_breaks and not ctx.violations:
        more = gen_cases(ctx.seed, ctx.tier, extra=1)
        evaluate(ctx, more, vlib.pmap(work, more), use_model=False)


def load_corpus():
    import glob
    out = []
    for p in sorted(glob.glob(os.path.join(vlib.VERIF, 'corpus', 'C11', '*.json'))):
        out.append(json.load(open(p)))
    return out


def replay(ctx, case):
    c = case.get('case', case)
    r = work(c)
    if r.get('status') != 'ok':
        return None
    evaluate(ctx, [c], [r])
    if ctx.tie_breaks:
        return ctx.tie_breaks[0][0]
    return None
