"""C02 -- MathML -> SymPy transpilation preserves meaning (DESIGN.md section 5, C02).

case = {'kind': stratum, 'tree': T, 'must_raise': bool}   with  T = [tag, type|None, text|None, tail|None, [children]]
  implementation : cellmlmanip.parser.Transpiler().parse_string(<math>T</math>)
  model          : extracted Model/Transpile.v  (run 20)
  oracle (D)     : independent MathML 2 evaluator below vs the numeric value of the implementation's expression;
                   malformed inputs must raise.
"""
import itertools
import logging
import math
import os
import sys
from fractions import Fraction

import mpmath as mp

import vlib

mp.mp.dps = 40
FN = 20
GEN_DEPS = ('transpiler',)
POINTS = [Fraction(-5, 2), Fraction(-1), Fraction(0), Fraction(1, 2), Fraction(1), Fraction(3)]
MATH_OPEN = ('<?xml version="1.0"?><math xmlns="http://www.w3.org/1998/Math/MathML" '
             'xmlns:cellml="http://www.cellml.org/cellml/1.0#">')


# ------------------------------------------------------------------------------------------------
# trees
def E(tag, children=(), text=None, ty=None, tail=None):
    return [tag, ty, text, tail, list(children)]


def ci(name):
    return E('ci', text=name)


def cn(text, ty=None):
    return E('cn', text=text, ty=ty)


def cn_e(mant, exp, ty='e-notation'):
    return [ 'cn', ty, mant, None, [E('sep', tail=exp)]]


def ap(op, *args):
    return E('apply', [E(op)] + list(args))


def xml(t):
    tag, ty, text, tail, ch = t
    s = '<%s%s>' % (tag, '' if ty is None else ' type="%s"' % ty)
    s += (text or '') + ''.join(xml(c) for c in ch) + '</%s>' % tag + (tail or '')
    return s


def sx(t):
    tag, ty, text, tail, ch = t
    return [tag, 0 if ty is None else (1 if ty == 'e-notation' else 2), text or '', tail or '', [sx(c) for c in ch]]


def encode(name):
    a = 1
    for c in name.strip():
        a = a * 256 + ord(c)
    return a


def idents(t, acc=None):
    acc = [] if acc is None else acc
    if t[0] == 'ci' and t[2] and t[2].strip() and t[2].strip() not in acc:
        acc.append(t[2].strip())
    for c in t[4]:
        idents(c, acc)
    return acc


def size(t):
    return 1 + sum(size(c) for c in t[4])


# ------------------------------------------------------------------------------------------------
# independent MathML 2 evaluator (stage D).  Returns float / bool, raises Undef where MathML gives no real value.
class Undef(Exception):
    pass


class Malformed(Exception):
    """the tree has no MathML meaning at all (unknown element, wrong arity, malformed number, misplaced qualifier)"""


def _real(x):
    if isinstance(x, bool):
        raise Undef()
    return x


def _boolv(x):
    if not isinstance(x, bool):
        raise Undef()
    return x


def _pow(b, e):
    if mp.isinf(b) or mp.isinf(e):
        raise Undef()          # powers with an infinite operand are not pinned down here
    if b > 0:
        if abs(e * mp.log(b)) > 1e4:
            raise Undef()
        return mp.power(b, e)
    if e == int(e):
        if b == 0:
            if e > 0:
                return mp.mpf(0)
            if e == 0:
                return mp.mpf(1)
            raise Undef()
        if abs(e) > 1e4:
            raise Undef()
        return b ** int(e)
    raise Undef()        # negative base, non-integer exponent: no real value


def _g(f, dom=None):
    def w(x):
        if mp.isinf(x):
            # <infinity/> as an operand: the limit in the extended reals where mpmath has one (exp(-inf) = 0,
            # arctan(inf) = pi/2, tanh(inf) = 1, cosh(-inf) = +inf, ...), no value otherwise (sin(inf), coth(inf))
            try:
                r = f(x)
            except (ValueError, ZeroDivisionError, OverflowError):
                raise Undef()
            if isinstance(r, mp.mpc) or mp.isnan(r):
                raise Undef()
            return r
        if dom is not None and not dom(x):
            raise Undef()
        try:
            r = f(x)
        except (ValueError, ZeroDivisionError, OverflowError):
            raise Undef()
        if isinstance(r, mp.mpc) or not mp.isfinite(r) or abs(r) > 1e30:
            raise Undef()          # also a pole met up to rounding: csc(pi) is 1/sin(pi) = 2e42 at 40 digits
        return r
    return w


def _inv(f):
    return lambda x: 1 / f(x)


# A&S 4.3 / 4.4 / 4.5 / 4.6 at 40 digits; arccot x = arctan(1/x) (branch of the implementation, DESIGN section 6)
_small = lambda x: abs(x) < 1e4 or mp.isinf(x)
UNARY = {
    'exp': _g(mp.exp, _small), 'ln': _g(mp.log, lambda x: x > 0), 'abs': _g(abs), 'floor': _g(mp.floor), 'ceiling': _g(mp.ceil),
    'sin': _g(mp.sin), 'cos': _g(mp.cos), 'tan': _g(mp.tan),
    'sec': _g(_inv(mp.cos)), 'csc': _g(_inv(mp.sin)), 'cot': _g(lambda x: mp.cos(x) / mp.sin(x)),
    'sinh': _g(mp.sinh, _small), 'cosh': _g(mp.cosh, _small), 'tanh': _g(mp.tanh),
    'sech': _g(_inv(mp.cosh), _small), 'csch': _g(_inv(mp.sinh), _small),
    'coth': _g(lambda x: mp.cosh(x) / mp.sinh(x), _small),
    'arcsin': _g(mp.asin, lambda x: abs(x) <= 1), 'arccos': _g(mp.acos, lambda x: abs(x) <= 1), 'arctan': _g(mp.atan),
    'arcsec': _g(lambda x: mp.acos(1 / x), lambda x: abs(x) >= 1), 'arccsc': _g(lambda x: mp.asin(1 / x), lambda x: abs(x) >= 1),
    'arccot': _g(lambda x: mp.atan(1 / x), lambda x: x != 0),
    'arcsinh': _g(mp.asinh), 'arccosh': _g(mp.acosh, lambda x: x >= 1), 'arctanh': _g(mp.atanh, lambda x: abs(x) < 1),
    'arcsech': _g(lambda x: mp.acosh(1 / x), lambda x: 0 < x <= 1), 'arccsch': _g(lambda x: mp.asinh(1 / x), lambda x: x != 0),
    'arccoth': _g(lambda x: mp.atanh(1 / x), lambda x: abs(x) > 1),
}
RELS = {'eq': lambda a, b: a == b, 'neq': lambda a, b: a != b, 'lt': lambda a, b: a < b, 'leq': lambda a, b: a <= b,
        'gt': lambda a, b: a > b, 'geq': lambda a, b: a >= b}
NARY_REAL = ('plus', 'times', 'max', 'min')
NARY_BOOL = ('and', 'or', 'xor')
CONSTS = ('pi', 'exponentiale', 'true', 'false', 'infinity', 'notanumber')
QUALIFIERS = ('degree', 'logbase', 'bvar')
OPERATORS = tuple(UNARY) + tuple(RELS) + NARY_REAL + NARY_BOOL + ('not', 'minus', 'divide', 'power', 'rem', 'root', 'log', 'diff')
DIGITS = '0123456789'
BOOL_OPS = NARY_BOOL + ('not',)
REAL_OPS = tuple(UNARY) + tuple(RELS) + NARY_REAL + ('minus', 'divide', 'power', 'rem', 'root', 'log', 'diff')


def mathml_decimal(s, allow_exponent=False):
    """MathML 2 4.4.1.1 real: optional sign, digits with an optional decimal point.  Exact Fraction or Malformed.
    Choice in favour of the implementation (and of CellML practice): a plain <cn> may carry a decimal exponent
    "1.5e-3"; underscores, inf and nan are malformed."""
    s = s.strip(' \t\r\n')
    if allow_exponent and ('e' in s or 'E' in s):
        m, _, x = s.replace('E', 'e').partition('e')
        if m != m.strip(' \t\r\n') or x != x.strip(' \t\r\n'):
            raise Malformed('number %r' % s)
        return mathml_decimal(m) * Fraction(10) ** mathml_integer(x)
    body = s[1:] if s[:1] in ('+', '-') else s
    ip, dot, fp = body.partition('.')
    if not (ip + fp) or any(c not in DIGITS for c in ip + fp):
        raise Malformed('number %r' % s)
    v = Fraction(int(ip + fp), 10 ** len(fp))
    return -v if s[:1] == '-' else v


def mathml_integer(s):
    s = s.strip(' \t\r\n')
    body = s[1:] if s[:1] in ('+', '-') else s
    if not body or any(c not in DIGITS for c in body):
        raise Malformed('integer %r' % s)
    return -int(body) if s[:1] == '-' else int(body)


def cn_exact(t):
    tag, ty, text, tail, ch = t
    if ty is None:
        if ch or text is None:
            raise Malformed('cn content')
        return mathml_decimal(text, allow_exponent=True)
    if ty == 'e-notation':
        if len(ch) != 1 or ch[0][0] != 'sep' or ch[0][4] or text is None or ch[0][3] is None:
            raise Malformed('e-notation content')
        return mathml_decimal(text) * Fraction(10) ** mathml_integer(ch[0][3])
    raise Malformed('cn type %r' % ty)


def operand(t, env):
    """value of an element in operand position"""
    tag, ty, text, tail, ch = t
    if tag == 'ci':
        if ch or not text or not text.strip():
            raise Malformed('ci content')
        return env['v'][text.strip()]
    if tag == 'cn':
        q = cn_exact(t)
        return mp.mpf(q.numerator) / q.denominator
    if tag in CONSTS:
        if ch:
            raise Malformed('constant with children')
        if tag == 'pi':
            return +mp.pi
        if tag == 'exponentiale':
            return +mp.e
        if tag in ('true', 'false'):
            return tag == 'true'
        if tag == 'infinity':
            return mp.inf              # MathML 2 4.4.12.15: the notion of (positive) infinity; extended real +inf
        raise Undef()                  # notanumber: no value
    if tag == 'piecewise':
        return piecewise(ch, env)
    if tag == 'apply':
        return apply(ch, env)
    raise Malformed('<%s> in operand position' % tag)


def piecewise(ch, env):
    if not ch:
        raise Malformed('empty piecewise')
    for i, c in enumerate(ch):
        if c[0] == 'piece':
            if len(c[4]) != 2:
                raise Malformed('piece arity')
        elif c[0] == 'otherwise':
            if len(c[4]) != 1 or i != len(ch) - 1:
                raise Malformed('otherwise')
        else:
            raise Malformed('piecewise child')
    err = None
    for c in ch:
        if c[0] == 'piece':
            # check the value too, so that malformed sub-trees are found whichever branch is taken
            try:
                val = operand(c[4][0], env)
            except Undef as e:
                val = e
            cond = _boolv(operand(c[4][1], env))
            if cond:
                if isinstance(val, Undef):
                    raise val
                return val
        else:
            return operand(c[4][0], env)
    raise Undef()


def well_formed(t):
    """MathML meaning exists for some environment (structure only)"""
    try:
        _walk(t)
        return True
    except Malformed:
        return False


def _walk(t):
    """structural check: evaluates every sub-tree, ignoring undefined values"""
    tag, ty, text, tail, ch = t
    if tag == 'ci':
        if ch or not text or not text.strip():
            raise Malformed('ci')
        return
    if tag == 'cn':
        cn_exact(t)
        return
    if tag in CONSTS:
        if ch:
            raise Malformed('const children')
        return
    if tag == 'piecewise':
        if not ch:
            raise Malformed('empty piecewise')
        for i, c in enumerate(ch):
            if c[0] == 'piece' and len(c[4]) == 2:
                _walk(c[4][0]); _walk(c[4][1])
            elif c[0] == 'otherwise' and len(c[4]) == 1 and i == len(ch) - 1:
                _walk(c[4][0])
            else:
                raise Malformed('piecewise child')
        return
    if tag == 'apply':
        if len(ch) == 1 and ch[0][0] not in OPERATORS:
            _walk(ch[0])        # an <apply> around a single value is that value (the implementation's suite relies on it)
            return
        if not ch or ch[0][0] not in OPERATORS or ch[0][4]:
            raise Malformed('apply without operator')
        op, args = ch[0][0], ch[1:]
        if op == 'root' and len(args) == 2 and args[0][0] == 'degree':
            if len(args[0][4]) != 1:
                raise Malformed('degree')
            _walk(args[0][4][0]); _walk(args[1]); return
        if op == 'log' and len(args) == 2 and args[0][0] == 'logbase':
            if len(args[0][4]) != 1:
                raise Malformed('logbase')
            _walk(args[0][4][0]); _walk(args[1]); return
        if op == 'diff':
            if len(args) != 2 or args[0][0] != 'bvar':
                raise Malformed('diff shape')
            b = args[0][4]
            if not (1 <= len(b) <= 2) or b[0][0] != 'ci':
                raise Malformed('bvar')
            _walk(b[0]); _walk(args[1])
            if len(b) == 2:
                if b[1][0] != 'degree' or len(b[1][4]) != 1 or b[1][4][0][0] != 'cn':
                    raise Malformed('bvar degree')
                d = cn_exact(b[1][4][0])
                if d.denominator != 1 or d < 1:
                    raise Malformed('degree of a derivative must be a positive integer')
            return
        n = len(args)
        ok = (n >= 1 if op in NARY_REAL + NARY_BOOL else
              n >= 2 if op in RELS and op != 'neq' else
              n == 2 if op in ('neq', 'divide', 'power', 'rem') else
              n in (1, 2) if op == 'minus' else
              n == 1)
        if not ok:
            raise Malformed('arity of %s: %d' % (op, n))
        for a in args:
            _walk(a)
        return
    raise Malformed('<%s> in operand position' % tag)


def apply(ch, env):
    if len(ch) == 1 and ch[0][0] not in OPERATORS:
        return operand(ch[0], env)
    if not ch or ch[0][0] not in OPERATORS or ch[0][4]:
        raise Malformed('apply without operator')
    op, args = ch[0][0], ch[1:]
    if op == 'root':
        if len(args) == 2 and args[0][0] == 'degree' and len(args[0][4]) == 1:
            d = _real(operand(args[0][4][0], env))
            x = _real(operand(args[1], env))
        elif len(args) == 1:
            d, x = mp.mpf(2), _real(operand(args[0], env))
        else:
            raise Malformed('root')
        if d == 0:
            raise Undef()
        return _pow(x, 1 / d)
    if op == 'log':
        if len(args) == 2 and args[0][0] == 'logbase' and len(args[0][4]) == 1:
            b = _real(operand(args[0][4][0], env))
            x = _real(operand(args[1], env))
        elif len(args) == 1:
            b, x = mp.mpf(10), _real(operand(args[0], env))
        else:
            raise Malformed('log')
        if b <= 0 or b == 1 or x <= 0:
            raise Undef()
        return mp.log(x) / mp.log(b)
    if op == 'diff':
        if len(args) != 2 or args[0][0] != 'bvar':
            raise Malformed('diff')
        if args[1][0] != 'ci':
            raise Undef()          # derivative of a compound expression: no denotation here
        b = args[0][4]
        if not (1 <= len(b) <= 2) or b[0][0] != 'ci':
            raise Malformed('bvar')
        order = 1
        if len(b) == 2:
            if b[1][0] != 'degree' or len(b[1][4]) != 1 or b[1][4][0][0] != 'cn':
                raise Malformed('bvar degree')
            d = cn_exact(b[1][4][0])
            if d.denominator != 1 or d < 1:
                raise Malformed('degree of derivative')
            order = int(d)
        if order == 1:
            return env['d'](args[1][2].strip(), b[0][2].strip())
        return ('deriv', args[1][2].strip(), b[0][2].strip(), order)
    vals = [operand(a, env) for a in args]
    n = len(vals)
    if any(isinstance(v, tuple) for v in vals):
        raise Undef()
    if op in NARY_REAL:
        if n < 1:
            raise Malformed('arity')
        xs = [_real(v) for v in vals]
        if op == 'plus':
            return mp.fsum(xs)
        if op == 'times':
            p = mp.mpf(1)
            for x in xs:
                p *= x
            return p
        return max(xs) if op == 'max' else min(xs)
    if op in NARY_BOOL:
        if n < 1:
            raise Malformed('arity')
        bs = [_boolv(v) for v in vals]
        return all(bs) if op == 'and' else any(bs) if op == 'or' else (sum(bs) % 2 == 1)
    if op == 'not':
        if n != 1:
            raise Malformed('arity')
        return not _boolv(vals[0])
    if op in RELS:
        if (op == 'neq' and n != 2) or n < 2:
            raise Malformed('arity')
        xs = [_real(v) for v in vals]
        return all(RELS[op](a, b) for a, b in zip(xs[:-1], xs[1:]))
    if op == 'minus':
        if n == 1:
            return -_real(vals[0])
        if n == 2:
            return _real(vals[0]) - _real(vals[1])
        raise Malformed('arity')
    if op in ('divide', 'power', 'rem'):
        if n != 2:
            raise Malformed('arity')
        a, b = _real(vals[0]), _real(vals[1])
        if op == 'divide':
            if b == 0:
                raise Undef()
            return a / b
        if op == 'power':
            return _pow(a, b)
        if b == 0 or mp.isinf(a) or mp.isinf(b):
            raise Undef()
        return a - mp.floor(a / b) * b        # floored: sign of the divisor (DESIGN: choice of the implementation)
    if n != 1:
        raise Malformed('arity')
    return UNARY[op](_real(vals[0]))


def spec_value(tree, env):
    """('v', value) | ('undef',) | ('malformed', why)"""
    try:
        _walk(tree)
    except Malformed as e:
        return ('malformed', str(e))
    d0 = env['d']
    env = {'v': {k: (mp.mpf(x.numerator) / x.denominator if isinstance(x, Fraction) else mp.mpf(x))
                 for k, x in env['v'].items()}, 'd': lambda y, t: mp.mpf(d0(y, t))}
    try:
        v = operand(tree, env)
    except (Undef, OverflowError, ZeroDivisionError):
        return ('undef',)
    if isinstance(v, mp.mpf):
        if mp.isnan(v) or (mp.isfinite(v) and abs(v) > 1e300):
            return ('undef',)
        v = float(v)               # +-inf stays: only <infinity/> produces it (exp, cosh ... refuse large arguments)
    return ('v', v)


# ------------------------------------------------------------------------------------------------
# sample points
def denv(y, t):
    """value of the derivative atom dy/dt (any fixed function of the two names)"""
    return ((encode(y) * 31 + encode(t) * 17) % 97) / 16.0 - 3.0


def points_for(tree):
    import hashlib
    import random
    names = idents(tree)
    k = len(names)
    if k == 0:
        return names, [[]]
    if k <= 2:
        return names, [list(p) for p in itertools.product(POINTS, repeat=k)]
    rng = random.Random(int(hashlib.sha1(xml(tree).encode()).hexdigest()[:12], 16))
    pts = [[rng.choice(POINTS) for _ in range(k)] for _ in range(10)]
    pts += [[Fraction(3)] * k, [Fraction(1, 2)] * k]
    return names, pts


# ------------------------------------------------------------------------------------------------
# implementation
def _num(res):
    """numeric value of a SymPy object without free symbols: float | bool | None (undefined / complex) | 'sym'"""
    import sympy
    if res is sympy.true or res is True:
        return True
    if res is sympy.false or res is False:
        return False
    if isinstance(res, sympy.core.relational.Relational):
        a, b = _num(res.lhs), _num(res.rhs)
        if not isinstance(a, float) or not isinstance(b, float):
            return None if (a is None or b is None) else 'sym'
        import bridge
        return [a == b, a != b, a < b, a <= b, a > b, a >= b][bridge.REL_IDS[type(res).__name__]]
    if isinstance(res, (sympy.And, sympy.Or, sympy.Xor, sympy.Not)):
        bs = [_num(a) for a in res.args]
        if any(not isinstance(b, bool) for b in bs):
            return None if any(b is None for b in bs) else 'sym'
        if isinstance(res, sympy.And):
            return all(bs)
        if isinstance(res, sympy.Or):
            return any(bs)
        if isinstance(res, sympy.Xor):
            return sum(bs) % 2 == 1
        return not bs[0]
    if not isinstance(res, sympy.Expr):
        return 'sym'
    if res.free_symbols or res.atoms(sympy.Derivative):
        return 'sym'
    try:
        v = res.evalf(30)
    except Exception:
        return None
    if v is sympy.oo:
        return math.inf
    if v is sympy.S.NegativeInfinity:
        return -math.inf
    if v.is_Float or v.is_Integer or v.is_Rational:
        f = float(v)
        return f if math.isfinite(f) else None
    if v.is_number:
        return None
    return 'sym'


def run_impl(case):
    import sympy
    import bridge
    from cellmlmanip.parser import Transpiler
    logging.disable(logging.CRITICAL)
    tree = case['tree']
    out = {'cls': None, 'err': None, 'vals': None, 'tree': None, 'deriv': None, 'repr': None}
    try:
        res = Transpiler().parse_string(MATH_OPEN + xml(tree) + '</math>')
    except Exception as e:
        out['cls'] = 'err'
        out['err'] = vlib.err_class(e)
        out['repr'] = str(e)[:120]
        return out
    if len(res) != 1:
        out['cls'] = 'harness'
        out['repr'] = 'expected one result, got %d' % len(res)
        return out
    r = res[0]
    if not isinstance(r, sympy.Basic):
        out['cls'] = 'nonexpr'
        out['repr'] = type(r).__name__
        return out
    out['cls'] = 'expr'
    try:
        out['repr'] = sympy.srepr(r)[:300]
    except Exception:
        out['repr'] = type(r).__name__
    if isinstance(r, sympy.Derivative) and len(r.args) == 2 and r.args[0].is_Symbol and r.args[1][0].is_Symbol \
            and r.args[1][1].is_Integer:
        out['deriv'] = [r.args[0].name, r.args[1][0].name, int(r.args[1][1])]
    try:
        out['tree'] = _jsonable(bridge.Reifier(lambda s: encode(s.name), lambda u: 0).reify(r))
    except Exception:
        out['tree'] = None
    names, pts = points_for(tree)
    vals = []
    slow = False
    for p in pts:
        env = {sympy.Symbol(n): sympy.Float(sympy.Rational(v.numerator, v.denominator), 30) for n, v in zip(names, p)}
        v = 'sym'
        if not slow:
            try:
                v = vlib.with_alarm(5, _value_at, r, env)
            except vlib.Timeout:
                slow = True             # SymPy's own evaluation explodes (Max/Min/Mod over Piecewise ...)
            except Exception:
                v = None
        if slow:
            # fall back to a direct numeric reading of the implementation's expression tree
            v = 'sym'
            if out['tree'] is not None:
                v = tree_values(_unjson(out['tree']), names, [p])[0]
        vals.append(v)
    out['vals'] = vals
    return out


def _value_at(r, env):
    # operand values are 30-digit Floats, not exact rationals: SymPy's symbolic rewriting of exact arguments has
    # bugs of its own (asec(csc(-1)) evaluates to pi/2 - 1 instead of pi/2 + 1) that are not the transpiler's
    import sympy
    sub = {}
    for d in r.atoms(sympy.Derivative):
        if len(d.args) == 2 and d.args[0].is_Symbol and d.args[1][0].is_Symbol and d.args[1][1] == 1:
            sub[d] = sympy.Float(denv(d.args[0].name, d.args[1][0].name))
    rr = r.xreplace(sub) if sub else r
    return _num(rr.xreplace(env))


def _jsonable(t):
    if isinstance(t, Fraction):
        return {'q': [t.numerator, t.denominator]}
    if isinstance(t, list):
        return [_jsonable(x) for x in t]
    return t


def _unjson(t):
    if isinstance(t, dict):
        return Fraction(t['q'][0], t['q'][1])
    if isinstance(t, list):
        return [_unjson(x) for x in t]
    return t


def work(case):
    import warnings
    warnings.simplefilter('ignore')
    try:
        return run_impl(case)
    except Exception as e:      # harness failure inside the worker
        return {'cls': 'harness', 'repr': repr(e)[:300], 'err': None, 'vals': None, 'tree': None, 'deriv': None}


# ------------------------------------------------------------------------------------------------
# model
def model_tree(m):
    """sexp of Expr.v -> bridge tree (rationals as Fraction)"""
    k = m[0]
    if k == 0:
        return [0, m[1], Fraction(m[2][0], m[2][1])]
    if k == 2:
        return [2, m[1], Fraction(m[2][0], m[2][1]), m[3]]
    if k in (1, 3, 11, 12):
        return list(m)
    if k in (4, 5):
        return [k] + [model_tree(a) for a in m[1:]]
    if k == 6:
        return [6, model_tree(m[1]), model_tree(m[2])]
    if k in (7, 10):
        return [k, m[1]] + [model_tree(a) for a in m[2:]]
    if k == 8:
        return [8, model_tree(m[1]), model_tree(m[2]), m[3]]
    if k == 9:
        return [9, m[1], model_tree(m[2]), model_tree(m[3])]
    if k == 13:
        return [13] + [[model_tree(a[0]), model_tree(a[1])] for a in m[1:]]
    raise ValueError(m)


def tree_sort(t):
    """'r' | 'b' | None: the sort discipline of Sem/Eval.v (bridge.eval_tree itself is lax about it)"""
    k = t[0]
    if k in (0, 1, 2, 3):
        return 'r'
    if k in (4, 5, 7):
        return 'r' if all(tree_sort(a) == 'r' for a in t[(1 if k != 7 else 2):]) else None
    if k == 6:
        return 'r' if tree_sort(t[1]) == 'r' and tree_sort(t[2]) == 'r' else None
    if k == 8:
        return 'r'
    if k == 9:
        return 'b' if tree_sort(t[2]) == 'r' and tree_sort(t[3]) == 'r' else None
    if k == 10:
        return 'b' if all(tree_sort(a) == 'b' for a in t[2:]) else None
    if k in (11, 12):
        return 'b'
    if k == 13:
        ss = {tree_sort(a[0]) for a in t[1:]}
        if any(tree_sort(a[1]) != 'b' for a in t[1:]) or len(ss) != 1:
            return None
        return ss.pop()
    return None


def tree_values(tree_, names, pts):
    import bridge
    if tree_sort(tree_) is None:
        return [None] * len(pts)
    code = {encode(n): i for i, n in enumerate(names)}
    back = {encode(n): n for n in names}
    out = []
    for p in pts:
        try:
            v = bridge.eval_tree(tree_, lambda i: float(p[code[i]]), None,
                                 lambda y, t: denv(_name_of(y), _name_of(t)))
            if isinstance(v, float) and not math.isfinite(v):
                v = None
            out.append(v)
        except (bridge.Undefined, KeyError, OverflowError, ZeroDivisionError, ValueError, TypeError):
            out.append(None)
    return out


def sympy_value(mt, names, p):
    import sympy
    import bridge
    syms = {encode(n): sympy.Symbol(n) for n in names}
    try:
        e = bridge.reflect(mt, syms, None, evaluate=False)
        env = {sympy.Symbol(n): sympy.Float(sympy.Rational(v.numerator, v.denominator), 30) for n, v in zip(names, p)}
        return vlib.with_alarm(5, _value_at, e, env)
    except Exception:
        return None


def _name_of(code):
    s = ''
    while code > 1:
        s = chr(code % 256) + s
        code //= 256
    return s


def close(a, b, tol=1e-7):
    if isinstance(a, bool) or isinstance(b, bool):
        return a is b
    if math.isinf(a) or math.isinf(b):
        return a == b
    return abs(a - b) <= tol * max(1.0, abs(a), abs(b))


def perturbed(p):
    """neighbours of a point (all coordinates up / down, each coordinate alone up / down): a value that changes
    between them sits on a discontinuity (floor, rem, relations, piecewise) or is ill-conditioned (arcsin near 1),
    and binary rounding decides it -- such points are skipped"""
    base = [float(x) for x in p]
    up = lambda x: x * (1 + 3e-10) + 1e-11
    dn = lambda x: x * (1 - 3e-10) - 1e-11
    out = [[up(x) for x in base], [dn(x) for x in base]]
    for i in range(len(base)):
        for g in (up, dn):
            q = list(base)
            q[i] = g(q[i])
            out.append(q)
    return out


def stable(f, p, v):
    for q in perturbed(p):
        w = f(q)
        if w is None or isinstance(w, tuple) or isinstance(w, bool) != isinstance(v, bool) or not close(v, w, 1e-6):
            STATS['unstable_points_skipped'] += 1
            return False
    return True


STATS = {'model_points': 0, 'spec_points': 0, 'unstable_points_skipped': 0}


def compare_model(case, impl, m):
    """None or a description of the disagreement between Model/Transpile.v and the implementation"""
    mcls = {0: 'expr', 1: 'nonexpr', -1: 'err'}[m[0]]
    if m[0] == 1 and m[1] == 3:
        mcls = 'expr'                      # accepted SymPy object the model does not describe
    if mcls != impl['cls']:
        return 'accept/reject class: model %s%s, implementation %s (%s)' % (
            mcls, m[1:] if m[0] != 0 else '', impl['cls'], impl['err'] or impl['repr'])
    if m[0] != 0:
        return None
    mt = model_tree(m[1])
    if mt[0] == 8 and mt[3] != 1:
        want = [_name_of(mt[1][1]) if mt[1][0] == 3 else None, _name_of(mt[2][1]) if mt[2][0] == 3 else None, mt[3]]
        if impl['deriv'] != want:
            return 'derivative: model %s, implementation %s' % (want, impl['deriv'])
        return None
    names, pts = points_for(case['tree'])
    mv = tree_values(mt, names, pts)
    for p, a, b in zip(pts, mv, impl['vals']):
        if a is None or b is None or b == 'sym':
            continue
        STATS['model_points'] += 1
        if not close(a, b):
            if not stable(lambda q: tree_values(mt, names, [q])[0], p, a):
                continue
            a2 = sympy_value(mt, names, p)      # float saturation (tanh 27 = 1.0): evaluate the model tree exactly
            if a2 is None or a2 == 'sym' or close(a2, b):
                continue
            return 'value at %s=%s: model %r, implementation %r' % (names, [str(x) for x in p], a, b)
    return None


# ------------------------------------------------------------------------------------------------
# stage D: the property itself on the implementation
def oracle(case, impl):
    """list of (what, detail)"""
    tree = case['tree']
    bad = []
    names, pts = points_for(tree)
    wf = well_formed(tree)
    if impl['cls'] == 'harness':
        return [('harness failure: %s' % impl['repr'], {'kind': 'harness'})]
    mixed = must_refuse_mixed(tree)
    if mixed and impl['cls'] != 'err':
        return [('%s must be refused (mixed boolean / non-boolean operands) but yields %s: %s'
                 % (mixed, impl['repr'], xml(tree)), {'kind': 'accepts-ill-sorted'})]
    if not wf:
        if impl['cls'] != 'err':
            why = spec_value(tree, {'v': {}, 'd': denv})[1]
            bad.append(('malformed MathML (%s) is accepted and yields %s: %s' % (why, impl['repr'], xml(tree)),
                        {'kind': 'accepts-malformed', 'why': why}))
        return bad
    specs = []
    for p in pts:
        specs.append(spec_value(tree, {'v': dict(zip(names, p)), 'd': denv}))
    if impl['cls'] == 'err':
        if any(s[0] == 'v' for s in specs):
            bad.append(('well-formed MathML with a defined value is refused (%s: %s): %s'
                        % (impl['err'], impl['repr'], xml(tree)), {'kind': 'rejects-valid'}))
        return bad
    if impl['cls'] == 'nonexpr':
        bad.append(('well-formed MathML yields a non-expression %s: %s' % (impl['repr'], xml(tree)),
                    {'kind': 'nonexpr'}))
        return bad
    strict = case.get('strict', False)
    has_nan = any(t[0] == 'notanumber' for t, _, _ in _nodes(tree))
    for p, s, b in zip(pts, specs, impl['vals']):
        if strict and s[0] != 'v' and has_nan and isinstance(b, float) and math.isfinite(b):
            bad.append(('value at %s=%s: an expression over <notanumber/> silently yields the finite number %r (%s): %s'
                        % (names, [str(x) for x in p], b, impl['repr'], xml(tree)), {'kind': 'value'}))
            break
        if strict and s[0] == 'v' and not isinstance(s[1], tuple) and (b is None or b == 'sym'):
            # constants as operands: the contexts of this stratum have a value in the extended reals, and the
            # implementation's expression must have it too (not nan, not complex infinity, not an unevaluated object)
            bad.append(('value at %s=%s: MathML 2 gives %r, the transpiled expression %s has no real value: %s'
                        % (names, [str(x) for x in p], s[1], impl['repr'], xml(tree)), {'kind': 'value'}))
            break
        if s[0] != 'v' or b is None:
            continue
        v = s[1]
        if isinstance(v, tuple):
            if impl['deriv'] != [v[1], v[2], v[3]]:
                bad.append(('derivative: MathML %s, implementation %s: %s' % (list(v[1:]), impl['deriv'], xml(tree)),
                            {'kind': 'value'}))
            break
        if b == 'sym':
            continue
        if isinstance(v, float) and math.isnan(v):
            continue
        STATS['spec_points'] += 1
        if not close(v, b):
            def f(q):
                r = spec_value(tree, {'v': dict(zip(names, q)), 'd': denv})
                return r[1] if r[0] == 'v' else None
            if not stable(f, p, v):
                continue
            bad.append(('value at %s=%s: MathML 2 gives %r, the transpiled expression %s gives %r: %s'
                        % (names, [str(x) for x in p], v, impl['repr'], b, xml(tree)), {'kind': 'value'}))
            break
    # numbers: the double must be the correctly rounded decimal
    if tree[0] == 'cn' and impl['tree'] is not None:
        t = _unjson(impl['tree'])
        if t[0] == 0:
            exact = cn_exact(tree)
            got = t[2]
            if exact != 0 and abs(got - exact) > Fraction(math.ulp(float(exact))) / 2:
                bad.append(('number %s is read as %s, not the nearest double of %s' % (xml(tree), float(got), exact),
                            {'kind': 'value'}))
            if exact == 0 and got != 0:
                bad.append(('number %s is read as %s' % (xml(tree), float(got)), {'kind': 'value'}))
    return bad


# ------------------------------------------------------------------------------------------------
# generators
STRUCTURAL = ('apply', 'piecewise', 'piece', 'otherwise', 'degree', 'logbase', 'bvar', 'math', 'ci', 'cn', 'sep')
EXTRA_TAGS = ('foo', 'factorial', 'quotient', 'gcd', 'lcm', 'implies', 'int', 'sum', 'product', 'limit', 'lambda',
              'csymbol', 'semantics', 'conjugate', 'arg', 'real', 'imaginary', 'exists', 'forall', 'factorof',
              'eulergamma', 'imaginaryi', 'partialdiff', 'divergence', 'mean', 'sdev', 'vector', 'set', 'list',
              'interval', 'inverse', 'compose', 'ident', 'condition', 'declare', 'PLUS', 'Sin')


def all_tags():
    from cellmlmanip.parser import Transpiler
    return sorted(set(Transpiler().handlers) | set(OPERATORS) | set(CONSTS) | set(STRUCTURAL) | set(EXTRA_TAGS))


class Fresh(object):
    def __init__(self):
        self.n = 0

    def ci(self):
        self.n += 1
        return ci('x%d' % (self.n - 1))

    def rel(self, op='lt'):
        return ap(op, self.ci(), self.ci())

    def operand(self, kind):
        if kind == 'ci':
            return self.ci()
        if kind == 'rel':
            return self.rel()
        if kind == 'cn':
            self.n += 1
            return cn(['2', '0.5', '3', '1.5', '7'][self.n % 5])
        raise ValueError(kind)


def gen_tag_arity():
    out = []
    for tag in all_tags():
        for k in range(5):
            for kind in ('ci', 'rel', 'cn'):
                if k == 0 and kind != 'ci':
                    continue
                # SymPy is not consistent about Booleans in arithmetic and numbers in logic (exp(x<y), Xor(0.5, 3)
                # are built, sin(x<y), And(0.5, 3) are refused): ill-sorted operands are not generated
                if (kind == 'rel' and tag in REAL_OPS) or (kind == 'cn' and tag in BOOL_OPS):
                    continue
                f = Fresh()
                out.append({'kind': 'tag-arity', 'tree': E('apply', [E(tag)] + [f.operand(kind) for _ in range(k)])})
    # the same tags as containers with k children, at the top and inside their proper parent
    for tag in ('piecewise', 'piece', 'otherwise', 'degree', 'logbase', 'bvar', 'math', 'apply', 'plus', 'sin', 'ci', 'cn', 'foo'):
        for k in range(5):
            f = Fresh()
            kids = [f.ci() for _ in range(k)]
            text = 'y' if tag == 'ci' else '2' if tag == 'cn' else None
            out.append({'kind': 'container', 'tree': E(tag, kids, text=text)})
    for k in range(5):
        for kind in ('ci', 'rel'):
            f = Fresh()
            kids = [f.operand(kind) for _ in range(k)]
            y = f.ci()
            out.append({'kind': 'container', 'tree': E('piecewise', [E('piece', kids)])})
            out.append({'kind': 'container', 'tree': E('piecewise', [E('piece', [y, f.rel()]), E('otherwise', kids)])})
            if kind == 'ci':
                out.append({'kind': 'container', 'tree': ap('root', E('degree', kids), y)})
                out.append({'kind': 'container', 'tree': ap('log', E('logbase', kids), y)})
                out.append({'kind': 'container', 'tree': ap('diff', E('bvar', kids), y)})
    return out


def gen_special_operands():
    """every real operator with a 'special' operand (a literal 0, 0.0, 1, -1, or an expression that SymPy evaluates to 0)
    in every position: handlers that test an operand for truthiness or identity show up here"""
    out = []
    specials = [lambda: cn('0'), lambda: cn('0.0'), lambda: cn('1'), lambda: cn('-1'),
                lambda: ap('minus', ci('z'), ci('z')), lambda: ap('times', cn('0'), ci('z'))]
    for tag in REAL_OPS:
        if tag == 'diff':
            continue
        for k in range(1, 4):
            for pos in range(k):
                for mk in specials:
                    f = Fresh()
                    ops = [f.ci() for _ in range(k)]
                    ops[pos] = mk()
                    out.append({'kind': 'special-operand', 'tree': E('apply', [E(tag)] + ops)})
    return out


def gen_qualifiers():
    out = []

    def add(t, kind='qualifier'):
        out.append({'kind': kind, 'tree': t})
    x, y, z = ci('x'), ci('y'), ci('z')
    quals = {'degree': [cn('3'), ci('n')], 'logbase': [cn('3'), ci('b')], 'bvar': [ci('t'), cn('3')]}
    for op in ('root', 'log', 'diff', 'plus', 'times', 'minus', 'divide', 'power', 'sin', 'ln', 'exp', 'eq', 'lt',
               'max', 'rem', 'abs'):
        for q, contents in quals.items():
            for c in contents:
                Q = E(q, [c])
                add(ap(op, Q, x))              # first
                add(ap(op, x, Q))              # last
                add(ap(op, Q, Q, x))           # duplicated
                add(ap(op, Q, x, Q))
                add(ap(op, Q))                 # alone
                add(ap(op, Q, x, y))
                add(ap(op, x, Q, y))
        add(ap(op, E('degree', [cn('3')]), E('logbase', [cn('2')]), x))
        add(ap(op, E('bvar', [ci('t'), E('degree', [cn('2')])]), x))
        add(ap(op, x, E('bvar', [ci('t'), E('degree', [cn('2')])])))
    # diff: degree, bvar content, operand, third operand
    for d in (cn('1'), cn('2'), cn('3'), cn('2.7'), cn('0'), cn('-1'), cn('1.0'), ci('n'), ap('plus', ci('n'), cn('1')),
              E('true'), E('pi')):
        add(ap('diff', E('bvar', [ci('t'), E('degree', [d])]), y), 'diff')
        add(ap('diff', E('bvar', [E('degree', [d]), ci('t')]), y), 'diff')
    for b in (ci('t'), cn('2'), ap('plus', x, z), E('true'), E('false'), E('pi'), ap('diff', E('bvar', [ci('t')]), z)):
        for yy in (ci('y'), cn('3'), ap('plus', y, z), ap('sin', y), E('true'), E('false'), E('pi')):
            add(ap('diff', E('bvar', [b]), yy), 'diff')
    for third in (cn('0'), cn('1'), ci('w'), E('true'), E('false'), E('bvar', [ci('u')]), ap('lt', x, z), E('plus')):
        add(ap('diff', E('bvar', [ci('t')]), y, third), 'diff')
    add(ap('diff', E('bvar', [ci('t')]), E('bvar', [ci('y')])), 'diff')
    add(ap('diff', E('math', [x, z]), y), 'diff')
    add(ap('diff', E('math', [x, cn('2')]), y), 'diff')
    add(ap('diff', E('math', [x]), y), 'diff')
    add(ap('plus', ap('diff', E('bvar', [ci('t')]), y), x), 'diff')
    add(ap('times', cn('2'), ap('diff', E('bvar', [ci('t')]), y)), 'diff')
    add(ap('eq', ap('diff', E('bvar', [ci('t')]), y), ap('minus', x)), 'diff')
    # boolean-operand checks of the relations
    lits = [E('true'), E('false')]
    dv = ap('diff', E('bvar', [ci('t')]), y)
    for r in RELS:
        for a, b in itertools.product(lits + [x, dv, cn('1')], repeat=2):
            add(ap(r, a, b), 'bool-operand')
        for a in lits:
            add(ap(r, a, x, z), 'bool-operand')
            add(ap(r, x, z, a), 'bool-operand')
            add(ap(r, a, dv, z), 'bool-operand')
    # piecewise shapes
    conds = {'rel': lambda f: f.rel(), 'ci': lambda f: f.ci(), 'cn': lambda f: cn('1'), 'true': lambda f: E('true'),
             'false': lambda f: E('false'), 'plus': lambda f: ap('plus', f.ci(), f.ci()),
             'and': lambda f: ap('and', f.rel(), f.rel('geq')), 'not': lambda f: ap('not', f.rel('eq'))}
    for npieces in range(4):
        for oth in ('none', 'last', 'first', 'dup', 'middle'):
            for ck in conds:
                if npieces == 0 and ck != 'rel':
                    continue
                f = Fresh()
                ps = [E('piece', [f.ci(), conds[ck](f)]) for _ in range(npieces)]
                o = lambda: E('otherwise', [f.ci()])
                kids = {'none': ps, 'last': ps + [o()], 'first': [o()] + ps, 'dup': ps + [o(), o()],
                        'middle': ps[:1] + [o()] + ps[1:]}[oth]
                add(E('piecewise', kids), 'piecewise')
    f = Fresh()
    add(E('piecewise', [E('piece', [f.rel(), f.rel()]), E('otherwise', [f.rel('geq')])]), 'piecewise')
    add(E('piecewise', [f.ci()]), 'piecewise')
    add(E('piecewise', [E('piece', [f.ci(), f.rel()]), f.ci()]), 'piecewise')
    add(E('piecewise', [E('degree', [f.ci()])]), 'piecewise')
    add(ap('plus', E('piecewise', [E('piece', [f.ci(), f.rel()]), E('otherwise', [f.ci()])]), f.ci()), 'piecewise')
    # a piecewise inside a condition (SymPy folds it into an ITE, which it can do only for a total piecewise)
    for inner in ('otherwise', 'two', 'one'):
        for wrap in ('lt', 'eq', 'sin', 'value'):
            f = Fresh()
            kids = [E('piece', [f.ci(), f.rel()])]
            if inner == 'two':
                kids.append(E('piece', [f.ci(), f.rel('geq')]))
            if inner == 'otherwise':
                kids.append(E('otherwise', [f.ci()]))
            pw = E('piecewise', kids)
            if wrap == 'value':
                t = E('piecewise', [E('piece', [pw, f.rel()]), E('otherwise', [f.ci()])])
            else:
                c = ap('lt', ap('sin', pw), f.ci()) if wrap == 'sin' else ap(wrap, pw, f.ci())
                t = E('piecewise', [E('piece', [f.ci(), c]), E('otherwise', [f.ci()])])
            add(t, 'piecewise')
            add(ap('plus', t, f.ci()), 'piecewise')
    # things in operator position
    for first in (ci('f'), cn('2'), ap('plus', x, y), ap('plus', x), E('piecewise', [E('otherwise', [x])]),
                  E('pi'), E('true'), E('exponentiale'), E('infinity'), E('notanumber'), E('false'),
                  E('piece', [x, y]), E('bvar', [x, y]), E('math', [x]), E('degree', [x]), ap('sin'), ap('minus'),
                  E('apply', [ap('plus')])):
        for k in range(3):
            add(E('apply', [first] + [ci('a%d' % i) for i in range(k)]), 'operator-position')
    # non-expression values as operands
    # (tuples from <piece>/<otherwise> are not used as operands: SymPy turns them into Tuple objects that Add, Mul and
    #  Derivative accept with a deprecation warning; the model does not follow SymPy there)
    junk = [ap('minus'), ap('sin'), ap('plus'), ap('eq'), E('bvar', [ci('t'), cn('2')]), E('math', [x]), E('math', [])]
    # (the unary function classes are left out: SymPy builds exp(<class sin>) = 1, asec(<class Add>) = zoo, ...)
    # (so are the Boolean classes and diff: Xor(<class sin>, x), Not(<class Add>), Derivative(x, <class sin>) are built)
    for op in [o for o in OPERATORS if (o not in UNARY or o in ('sin', 'ln', 'abs')) and o not in BOOL_OPS and o != 'diff']:
        for j in junk:
            add(ap(op, j), 'junk-operand')
            add(ap(op, x, j), 'junk-operand')
            add(ap(op, j, x), 'junk-operand')
            add(ap(op, x, y, j), 'junk-operand')
    for j in junk:
        add(E('piecewise', [E('piece', [j, ap('lt', x, y)])]), 'junk-operand')
        add(E('piecewise', [E('piece', [x, j])]), 'junk-operand')
        add(E('piecewise', [E('otherwise', [j])]), 'junk-operand')
        add(ap('root', E('degree', [j]), x), 'junk-operand')
        add(ap('log', E('logbase', [j]), x), 'junk-operand')
    return out


def gen_numbers():
    out = []
    signs = ['', '+', '-']
    ints = ['', '0', '7', '12', '007', '120']
    fracs = [None, '', '0', '5', '25', '125', '001']
    exps = [None, 'e0', 'e3', 'E3', 'e+2', 'e-2', 'e-07', 'e', 'e+', 'e1.5']
    for s, i, f, x in itertools.product(signs, ints, fracs, exps):
        text = s + i + ('' if f is None else '.' + f) + (x or '')
        out.append({'kind': 'cn', 'tree': cn(text)})
    malformed = ['1_0', '1__0', '_1', '1_', '1_.5', '1._5', '1.5_5', '1e1_0', '1e_1', 'nan', 'NaN', '-nan', 'inf', '-inf',
                 '+Infinity', 'infinity', 'INF', 'infinit', 'in', '', ' ', '1..2', '1.2.3', '..', '.', '+', '-', '+-1',
                 '--1', '1-', '1 2', '1,5', '0x10', '1f', 'abc', '1e5e2', '١٢', '1/2', '1e', '12e3.0', ' 1.5 ', '\n2\t',
                 '1 e3', '1e 3', '٣', '1.5E+3', '.5e-1', '5.e1', 'e5', '.e5', '1d5', '1j', '(1)', '1e+', '0_0', '1_000.000_1']
    for m in malformed:
        out.append({'kind': 'cn-malformed', 'tree': cn(m)})
    # e-notation
    mants = ['1.5', '1.1', '6.02214076', '-2.5', '+3', '.5', '5.', '0', '007.10', '9.999999999999999', '1.2345678901234567',
             '3.3', '7e2', '1_0', 'nan', 'inf', '', ' ', ' 1.5 ', '1..5', '1,5', 'x', '-', '1.5e']
    exs = ['3', '-3', '+3', '0', '23', '-23', '22', '-25', '16', '-7', ' 2 ', '1_0', '3.0', '1e1', '', ' ', 'x', '--1',
           '0x1', '+', '٣', '-0']
    for m, x in itertools.product(mants, exs):
        out.append({'kind': 'cn-enotation', 'tree': cn_e(m, x)})
    # the structure of e-notation, other types
    for ty in ('real', 'integer', 'rational', 'complex-cartesian', 'constant', 'E-notation', ''):
        out.append({'kind': 'cn-type', 'tree': cn('2', ty=ty)})
        out.append({'kind': 'cn-type', 'tree': cn_e('2', '3', ty=ty)})
    out.append({'kind': 'cn-type', 'tree': cn('2', ty='e-notation')})
    out.append({'kind': 'cn-type', 'tree': ['cn', 'e-notation', '2', None, [E('sep', tail='3'), E('sep', tail='4')]]})
    out.append({'kind': 'cn-type', 'tree': ['cn', 'e-notation', '2', None, [E('foo', tail='3')]]})
    out.append({'kind': 'cn-type', 'tree': ['cn', 'e-notation', None, None, [E('sep', tail='3')]]})
    out.append({'kind': 'cn-type', 'tree': ['cn', 'e-notation', '2', None, [E('sep')]]})
    out.append({'kind': 'cn-type', 'tree': ['cn', None, '2', None, [E('sep', tail='3')]]})
    out.append({'kind': 'cn-type', 'tree': ['cn', None, None, None, []]})
    out.append({'kind': 'cn-type', 'tree': ['ci', None, None, None, []]})
    out.append({'kind': 'cn-type', 'tree': ci(' y ')})
    # numbers as operands
    for t in ('1.5', '1e3', '-2', '1_0', 'nan', 'inf'):
        out.append({'kind': 'cn-operand', 'tree': ap('plus', ci('x'), cn(t))})
        out.append({'kind': 'cn-operand', 'tree': ap('times', cn(t), ci('x'))})
    return out


U_TAGS = tuple(UNARY)


def gen_repeated_chains():
    """n-ary relations whose operand tuples repeat an operand (x y y, x x y, x x x, 1 1 x, x y x, equal numbers in
    different spellings, identical sub-expressions), alone, under and / or / not and as piece conditions: the chain
    is the conjunction of ALL adjacent pairs, so x < y < y is false and x <= y <= y is x <= y"""
    out = []

    def add(t):
        out.append({'kind': 'repeated-chain', 'tree': t})
    x, y, z = ci('x'), ci('y'), ci('z')
    one, one0, two = cn('1'), cn('1.0'), cn('2')
    sx = lambda: ap('sin', ci('x'))
    pxy = lambda: ap('plus', ci('x'), ci('y'))
    tuples = [list(t) for t in itertools.product((x, y), repeat=3)] + [list(t) for t in itertools.product((x, y), repeat=4)]
    tuples += [[x, y, z, z], [x, x, y, z], [x, y, y, z], [z, y, y, x], [x, y, x, y], [x, y, z, x], [x, y, z, y]]
    tuples += [[one, one, x], [x, one, one], [one, x, one], [one, one0, x], [x, one0, one], [one, one, one], [one, one0, one],
               [one, two, two], [two, two, one], [one, one, two, two], [x, one, one, y], [one, x, x, two], [two, x, x, one],
               [cn_e('1', '0'), one, x], [x, cn('0.5'), cn_e('5', '-1')]]
    tuples += [[sx(), sx(), y], [y, sx(), sx()], [sx(), sx(), sx()], [pxy(), pxy(), x], [x, pxy(), pxy()],
               [pxy(), x, pxy()], [ap('minus', x), ap('minus', x), y], [x, ap('times', two, y), ap('times', two, y), x]]
    chains = [r for r in RELS if r != 'neq']
    for r in chains:
        for t in tuples:
            c = ap(r, *t)
            add(c)
        for t in ([x, y, y], [x, x, y], [x, x, x], [y, x, y], [one, one, x], [x, y, y, x], [x, x, y, y]):
            c = lambda: ap(r, *t)
            add(ap('and', c(), ap('leq', x, y)))
            add(ap('or', c(), ap('gt', x, y)))
            add(ap('not', c()))
            add(ap('and', ap('not', c()), c()))
            add(ap('xor', c(), ap(chains[(chains.index(r) + 1) % 5], *t)))
            add(E('piecewise', [E('piece', [cn('3'), c()]), E('otherwise', [cn('7')])]))
            add(E('piecewise', [E('piece', [x, ap('not', c())]), E('piece', [y, c()])]))
            add(ap('plus', E('piecewise', [E('piece', [x, c()]), E('otherwise', [y])]), cn('1')))
    return out


def gen_relation_operands():
    """every relation with 2 and 3 operands drawn, in every order, from {true, false, a relation, an identifier, a
    number, a derivative, an arithmetic application}: the boolean-operand checks of _get_nary_relation_callback"""
    out = []
    kinds = {
        'true': lambda i: E('true'), 'false': lambda i: E('false'),
        'rel': lambda i: ap('lt', ci('p%d' % i), ci('q%d' % i)),
        'ci': lambda i: ci('x%d' % i), 'cn': lambda i: cn(['2', '0.5', '3'][i]),
        'diff': lambda i: ap('diff', E('bvar', [ci('t')]), ci('y%d' % i)),
        'arith': lambda i: ap('plus', ci('a%d' % i), cn('1')),
    }
    for r in RELS:
        for n in (2, 3):
            for ks in itertools.product(sorted(kinds), repeat=n):
                out.append({'kind': 'relation-operands', 'tree': ap(r, *[kinds[k](i) for i, k in enumerate(ks)]),
                            'operand_kinds': list(ks)})
    return out


def must_refuse_mixed(tree):
    """the documented intent of the boolean-operand checks (parser.py, _wrapper_relational), for two operands:
    an inequality with true / false as an operand, and an equation between true / false and a derivative, are refused
    (an equation between a boolean and another non-boolean is only logged -- tolerated by design)"""
    for t, _, _ in _nodes(tree):
        if t[0] == 'apply' and len(t[4]) == 3 and t[4][0][0] in RELS:
            op, a, b = t[4][0][0], t[4][1], t[4][2]
            lits = [o[0] in ('true', 'false') for o in (a, b)]
            ders = [o[0] == 'apply' and o[4] and o[4][0][0] == 'diff' for o in (a, b)]
            if op in ('lt', 'leq', 'gt', 'geq') and any(lits):
                return 'an inequality with a boolean constant as operand'
            if op == 'eq' and any(lits) and not all(lits) and any(ders):
                return 'an equation between a boolean constant and a derivative'
    return None


def gen_qualifier_content():
    """qualifier content arity: <degree> / <logbase> / <bvar> with 0, 2 and 3 children (numbers, identifiers, applies)
    inside root / log / diff, and the <degree> inside a <bvar>; the oracle refuses every count other than the proper one
    (a <logbase> with surplus children is tolerated today: known finding qualifier-misuse, compared with the model only)"""
    out = []

    def add(t):
        out.append({'kind': 'qualifier-content', 'tree': t})
    x = ci('x')
    mk = {'cn': lambda i: cn(['3', '2', '4'][i]), 'ci': lambda i: ci('n%d' % i),
          'apply': lambda i: ap('plus', ci('m%d' % i), cn('1'))}
    for n in (0, 1, 2, 3):
        for ks in itertools.product(sorted(mk), repeat=n):
            kids = lambda: [mk[k](i) for i, k in enumerate(ks)]
            add(ap('root', E('degree', kids()), x))
            add(ap('log', E('logbase', kids()), x))
            add(ap('diff', E('bvar', kids()), x))
            add(ap('diff', E('bvar', [ci('t'), E('degree', kids())]), x))
            add(ap('diff', E('bvar', [ci('t')] + kids()), x))
            add(ap('plus', ap('root', E('degree', kids()), x), ci('w')))
            add(E('piecewise', [E('piece', [ap('root', E('degree', kids()), x), ap('lt', x, ci('w'))])]))
    return out


def gen_nested_powers():
    """power of a power, root of a power, power of a root: (a^b)^c is NOT a^(b*c) for a negative a with an even b and
    a fractional c -- power(power(x,2),0.5) is |x|.  Inner forms with a non-negative value x outer exponents, at
    negative and positive identifier values (full grid: every tree has at most two identifiers)"""
    out = []

    def add(t):
        out.append({'kind': 'nested-power', 'tree': t})
    x, y = ci('x'), ci('y')
    inners = [
        lambda: ap('power', x, cn('2')), lambda: ap('power', x, cn('4')), lambda: ap('power', x, cn('2.0')),
        lambda: ap('power', x, cn_e('2', '0')), lambda: ap('times', x, x), lambda: ap('power', ap('minus', x), cn('2')),
        lambda: ap('power', ap('plus', x, y), cn('2')), lambda: ap('power', ap('times', cn('2'), x), cn('4')),
        lambda: ap('power', ap('power', x, cn('2')), cn('2')), lambda: ap('power', x, cn('6')),
        lambda: ap('root', E('degree', [cn('3')]), ap('power', x, cn('2'))),
        lambda: ap('root', ap('power', x, cn('2'))),
        lambda: ap('abs', x),
    ]
    exps = ['0.5', '0.25', '1.5', '0.3333333333333333', '0.75', '2.5', '-0.5', '1', '2', '3', '0.5e0']
    degs = ['2', '3', '4', '0.5', '1.5', '6']
    for mk in inners:
        for e in exps:
            add(ap('power', mk(), cn(e)))
        add(ap('power', mk(), cn_e('5', '-1')))
        add(ap('power', mk(), ap('divide', cn('1'), cn('2'))))
        add(ap('power', mk(), ap('divide', cn('1'), cn('3'))))
        add(ap('power', mk(), ap('divide', y, cn('2'))))
        add(ap('root', mk()))
        for d in degs:
            add(ap('root', E('degree', [cn(d)]), mk()))
            add(ap('power', ap('root', E('degree', [cn(d)]), mk()), cn('1.5')))
        add(ap('power', ap('root', mk()), cn('3')))
        add(ap('power', ap('root', mk()), cn('0.5')))
        add(ap('power', ap('power', mk(), cn('0.5')), cn('0.5')))
        add(ap('power', ap('power', mk(), cn('0.5')), cn('2')))
        add(ap('plus', ap('power', mk(), cn('0.5')), y))
        add(ap('divide', y, ap('power', mk(), cn('0.5'))))
        add(ap('lt', ap('power', mk(), cn('0.5')), y))
        add(E('piecewise', [E('piece', [ap('power', mk(), cn('0.5')), ap('lt', x, cn('0'))]), E('otherwise', [x])]))
    return out


def gen_constants():
    """the constants as values and as operands (strict: where the extended reals give a value, the implementation's
    expression must have that value; an expression over <notanumber/> must not silently be a finite number)"""
    out = []

    def add(t):
        out.append({'kind': 'constant-operand', 'tree': t, 'strict': True})
    x, y = ci('x'), ci('y')
    for c in ('infinity', 'notanumber', 'pi', 'exponentiale'):
        C = lambda: E(c)
        neg = lambda: ap('minus', E(c))
        add(C())
        add(neg())
        add(ap('minus', neg()))
        for a, b in ((x, C()), (C(), x), (x, neg()), (neg(), x), (cn('2'), C()), (C(), cn('2')), (C(), C()), (neg(), neg())):
            for op in ('plus', 'times', 'minus', 'divide', 'max', 'min') + tuple(RELS):
                add(ap(op, a, b))
        add(ap('plus', x, y, C()))
        add(ap('times', cn('2'), y, neg()))
        for op in ('max', 'min'):
            add(ap(op, x, y, C()))
            add(ap(op, x, neg(), y))
            add(ap(op, C()))
        for op in RELS:
            if op != 'neq':
                add(ap(op, x, y, C()))
                add(ap(op, neg(), x, C()))
        for op in UNARY:
            add(ap(op, C()))
            add(ap(op, neg()))
            add(ap(op, ap('plus', x, C())))
        add(ap('log', C()))
        add(ap('log', E('logbase', [C()]), x))
        add(ap('log', E('logbase', [cn('2')]), C()))
        add(ap('root', C()))
        add(ap('root', E('degree', [cn('3')]), C()))
        # piecewise: as a value, in a condition, decided by it
        add(E('piecewise', [E('piece', [C(), ap('lt', x, y)]), E('otherwise', [neg()])]))
        add(E('piecewise', [E('piece', [x, ap('lt', y, C())]), E('otherwise', [cn('7')])]))
        add(E('piecewise', [E('piece', [x, ap('gt', y, C())]), E('otherwise', [cn('7')])]))
        add(E('piecewise', [E('piece', [x, ap('geq', neg(), y)]), E('piece', [y, ap('leq', y, C())])]))
        add(E('piecewise', [E('piece', [x, ap('and', ap('lt', neg(), y), ap('lt', y, C()))]), E('otherwise', [cn('7')])]))
        add(ap('exp', ap('minus', ap('times', C(), ap('abs', x)))))
    return out



def gen_random(seed, depth_max):
    """one well-formed tree, distinct identifiers, depth 2..depth_max"""
    import random
    rng = random.Random(seed)
    f = Fresh()
    consts = ['2', '3', '0.5', '1.5', '4', '10', '2.5e0']
    in_cond = [0]

    def leaf_real():
        r = rng.random()
        if r < 0.75:
            return f.ci()
        if r < 0.9:
            return cn(rng.choice(consts))
        if r < 0.95:
            return cn_e(rng.choice(['1.5', '2', '2.5']), rng.choice(['0', '1', '-1']))
        return E(rng.choice(['pi', 'exponentiale']))

    def real(d, const_ok=False):
        # a constant is only ever a direct operand next to a sub-tree that contains an identifier: SymPy evaluates
        # constant sub-expressions while building (atanh(E) is complex, Max refuses it; 1/0 is zoo; ...)
        if const_ok and rng.random() < 0.3:
            return leaf_real()
        if d <= 0:
            return f.ci()
        r = rng.random()
        if r < 0.08:
            return f.ci()
        if r < 0.30:
            n = rng.choice([1, 2, 2, 3, 4])
            return ap(rng.choice(NARY_REAL), real(d - 1), *[real(d - 1, True) for _ in range(n - 1)])
        if r < 0.40:
            return ap('minus', real(d - 1), *[real(d - 1, True) for _ in range(rng.choice([0, 1]))])
        if r < 0.55:
            op = rng.choice(['divide', 'power', 'rem'])
            if rng.random() < 0.25:
                return ap(op, leaf_real(), real(d - 1))
            return ap(op, real(d - 1), real(d - 1, True))
        if r < 0.63:
            if rng.random() < 0.5:
                return ap('root', real(d - 1))
            return ap('root', E('degree', [cn(rng.choice(['2', '3', '4', '0.5'])) if rng.random() < 0.7 else real(d - 1)]),
                      real(d - 1))
        if r < 0.71:
            if rng.random() < 0.5:
                return ap('log', real(d - 1))
            return ap('log', E('logbase', [cn(rng.choice(['2', '3', '10', '0.5'])) if rng.random() < 0.7 else real(d - 1)]),
                      real(d - 1))
        if r < 0.88:
            return ap(rng.choice(U_TAGS), real(d - 1))
        if r < 0.91:
            return ap('diff', E('bvar', [f.ci()]), f.ci())
        if in_cond[0]:
            # SymPy folds a piecewise inside a condition into an ITE (known finding partial-piecewise-in-condition
            # when it is not total; deeper nestings are not modelled): covered by the exhaustive stratum only
            return f.ci()
        n = rng.choice([1, 2, 3])
        kids = []
        for _ in range(n):
            v = real(d - 1)
            in_cond[0] += 1
            c = boolean(d - 1)
            in_cond[0] -= 1
            kids.append(E('piece', [v, c]))
        if rng.random() < 0.7:
            kids.append(E('otherwise', [real(d - 1)]))
        return E('piecewise', kids)

    def boolean(d):
        r = rng.random()
        if d <= 0 or r < 0.45:
            op = rng.choice(list(RELS))
            n = 2 if op == 'neq' else rng.choice([2, 2, 2, 3, 4])
            return ap(op, *[real(d - 1) if d > 0 else f.ci() for _ in range(n)])
        if r < 0.8:
            return ap(rng.choice(NARY_BOOL), *[boolean(d - 1) for _ in range(rng.choice([1, 2, 3, 4]))])
        if r < 0.95:
            return ap('not', boolean(d - 1))
        return E(rng.choice(['true', 'false']))

    d = rng.randint(2, depth_max)
    t = boolean(d) if rng.random() < 0.3 else real(d)
    if size(t) > 70:
        return gen_random(seed * 7 + 1000003, depth_max)
    return {'kind': 'random-d%d' % d, 'tree': t}


# ------------------------------------------------------------------------------------------------
# known findings (DESIGN section 6, F13): predicates over the violation record {'case':…, 'detail':…}
def _nodes(t, parent=None, pos=0):
    yield t, parent, pos
    for i, c in enumerate(t[4]):
        for x in _nodes(c, t, i):
            yield x


def _accepts_malformed(v):
    return v.get('detail', {}).get('kind') == 'accepts-malformed'


def _proper_place(t, parent, pos):
    tag = t[0]
    if parent is None:
        return False
    ptag = parent[0]
    if tag in ('piece', 'otherwise'):
        if ptag != 'piecewise':
            return False
        return tag == 'piece' or pos == len(parent[4]) - 1
    if ptag == 'bvar' and tag == 'degree':
        return pos == 1 and len(parent[4]) == 2
    if ptag != 'apply' or pos != 1 or not parent[4]:
        return False
    op = parent[4][0][0]
    return (tag, op) in (('degree', 'root'), ('logbase', 'log'), ('bvar', 'diff')) and len(parent[4]) == 3


def qualifier_misuse(v):
    """degree / logbase / bvar / piece / otherwise / math outside the one place where they mean something, with the
    wrong number of children, or missing (diff without bvar, root/log/diff with surplus operands): the handlers
    return the bare content, so the element is taken as an ordinary operand"""
    if not _accepts_malformed(v):
        return False
    for t, parent, pos in _nodes(v['case']['tree']):
        if t[0] in ('degree', 'logbase', 'bvar', 'piece', 'otherwise', 'math'):
            if not _proper_place(t, parent, pos):
                return True
            # only what the unchanged code tolerates: <logbase> uses its first child and ignores further ones;
            # <degree> with any other number of children than one, and an empty <logbase>, are refused today
            if t[0] == 'logbase' and len(t[4]) >= 2:
                return True
            if t[0] == 'bvar' and len(t[4]) == 2 and t[4][1][0] != 'degree':
                return True
        if t[0] == 'apply' and t[4] and t[4][0][0] in ('root', 'log', 'diff'):
            op, args = t[4][0][0], t[4][1:]
            q = {'root': 'degree', 'log': 'logbase', 'diff': 'bvar'}[op]
            if len(args) >= 2 and not (len(args) == 2 and args[0][0] == q):
                return True
    return False


def _has_partial_piecewise(t):
    return any(n[0] == 'piecewise' and not any(c[0] == 'otherwise' for c in n[4]) for n, _, _ in _nodes(t))


def partial_piecewise_in_condition(v):
    """a piecewise without <otherwise> inside the condition of a <piece>: SymPy cannot fold it into an ITE"""
    if v.get('detail', {}).get('kind') != 'rejects-valid':
        return False
    return any(t[0] == 'piece' and len(t[4]) == 2 and _has_partial_piecewise(t[4][1])
               for t, _, _ in _nodes(v['case']['tree']))


KNOWN_PREDICATES = {
    'partial_piecewise_in_condition': partial_piecewise_in_condition,
    'qualifier_misuse': qualifier_misuse,
}


# ------------------------------------------------------------------------------------------------
def evaluate(ctx, cases, impls, use_model=True):
    mods = None
    if use_model and ctx.model_ok():
        mods = vlib.model_run(FN, [sx(c['tree']) for c in cases])
    for i, (case, impl) in enumerate(zip(cases, impls)):
        ctx.count(case_key=xml(case['tree']), nontrivial=size(case['tree']) >= 4, kind=case['kind'])
        for what, detail in oracle(case, impl):
            ctx.violation(what, {'case': case, 'detail': detail})
        if mods is not None:
            ctx.corr_cases += 1
            d = compare_model(case, impl, mods[i])
            if d is not None and (case['kind'].startswith('random') or case['kind'] in ('special-operand', 'constant-operand')) \
                    and impl['cls'] == 'err' and mods[i][0] == 0 and nowhere_defined(case['tree']):
                # SymPy may refuse, while building, a sub-expression it can prove non-real (a relation over
                # log(-Max(1.5, x, y))); the tree has no value at any sample point, the model does no such reasoning
                STATS['refused_nowhere_defined'] = STATS.get('refused_nowhere_defined', 0) + 1
                d = None
            if d is not None:
                ctx.tie_break('correspondence C02 (Model/Transpile.v vs parser.Transpiler) differs: %s on %s'
                              % (d, xml(case['tree'])), {'case': case, 'impl': impl, 'model': mods[i]})
        if case['kind'].startswith('random') and i % 40 == 0:
            ctx.sample({'kind': case['kind'], 'mathml': xml(case['tree'])[:400]})


def nowhere_defined(tree):
    names, pts = points_for(tree)
    return all(spec_value(tree, {'v': dict(zip(names, p)), 'd': denv})[0] != 'v' for p in pts)


def exhaustive_cases():
    return (gen_tag_arity() + gen_qualifiers() + gen_numbers() + gen_special_operands() + gen_constants()
            + gen_repeated_chains() + gen_nested_powers() + gen_relation_operands()
            + gen_qualifier_content())


def run(ctx):
    n = 800 if ctx.tier == 'quick' else 5000
    ctx.rule = ('EXHAUSTIVE on every run: every tag (handlers, table, MathML 2 operators, 37 unsupported names) x arity 0..4 '
                'x operand kind (identifier, relation, number) with distinct identifiers; every structural element with '
                '0..4 children at the top and in its proper parent; qualifier placements (first/last/duplicated/alone/'
                'foreign operator) for degree, logbase, bvar on 18 operators; diff degree/bvar/operand/third-operand '
                'variants; boolean-operand checks of the 6 relations; piecewise shapes (0..3 pieces x otherwise '
                'none/last/first/duplicated/middle x 8 condition kinds); 18 objects in operator position; 9 '
                'non-expression values as operands of every operator; cn spellings from the lexical grammar '
                '(3 signs x 6 integer parts x 7 fractions x 10 exponents), 57 malformed spellings, e-notation 24 '
                'mantissas x 22 exponents, type attribute and <sep/> structure.  RANDOM: well-formed compositions of '
                'depth 2..5 with distinct identifiers.  Values compared at operand tuples from {-2.5,-1,0,0.5,1,3}^k '
                '(all tuples for k<=2, 12 otherwise); non-trivial = at least 4 elements')
    ctx.trusted += ['tools/translate_transpiler.py (_SIMPLE_MATHML_TO_SYMPY_CLASSES, MATHML_NARY_RELATIONS, MATHML_UNARY_OPERATORS, MATHML_CONTAINERS, self.handlers '
                    '-> Gen/TranspileTables_gen.v)',
                    'Model/Transpile.v sympy_table/method_table: what each sympy attribute and each handler method does '
                    '(exercised exhaustively by the correspondence)',
                    'numbers: the model keeps the exact decimal value, the implementation the nearest double; SymPy '
                    'evaluates constructors, the model keeps them unevaluated: results are compared by value',
                    'stage-D MathML evaluator in tools/props/c02.py (math module; floored rem, real roots only, '
                    'arccot x = arctan(1/x), plain <cn> may carry a decimal exponent)']
    ctx.assume += ['fsem (transcendental, rounding, max/min/mod functions) is abstract and shared by specification and Eval; '
                   'psem is pow_sem']
    cases = load_corpus() + exhaustive_cases()
    cases += [gen_random(ctx.seed * 1000003 + i, 5) for i in range(n)]
    impls = vlib.pmap(work, cases)
    evaluate(ctx, cases, impls)
    ctx.extra['exhaustive_cases'] = len(cases) - n
    ctx.extra['value_points_compared'] = dict(STATS)
    if ctx.tie_breaks and not ctx.violations:
        # a proof, the translator or the correspondence broke: search harder for a concrete failing input
        more = [gen_random(ctx.seed * 1000003 + 500000 + i, 5) for i in range(10 * n)]
        evaluate(ctx, more, vlib.pmap(work, more), use_model=False)


def load_corpus():
    import glob
    import json
    out = []
    for p in sorted(glob.glob(os.path.join(vlib.VERIF, 'corpus', 'C02', '*.json'))):
        out.append(json.load(open(p)))
    return out


def replay(ctx, case):
    c = case.get('case', case)
    impl = run_impl(c)
    for what, detail in oracle(c, impl):
        ctx.violation(what, {'case': c, 'detail': detail})
    if ctx.model_ok():
        m = vlib.model_run(FN, [sx(c['tree'])])[0]
        d = compare_model(c, impl, m)
        if d and (c['kind'].startswith('random') or c['kind'] in ('special-operand', 'constant-operand')) and impl['cls'] == 'err' and m[0] == 0 and nowhere_defined(c['tree']):
            d = None
        if d:
            return 'correspondence differs: %s' % d
    return None
