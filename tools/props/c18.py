"""C18 -- every number in every equation keeps a real unit, through every manipulation.

correspondence: the convert_variable histories of C06: the implementation's scan of all Quantity / Variable atoms vs the
                model's units_invariant flag after every conversion (coq/Model/QtyUnits.v, ConvertVar.v)
oracle:         scan of every atom of every equation of the implementation's model (units is a Unit object of the model's
                own registry) and evaluate_units on both sides of every equation (a unit or a UnitError, nothing else)
                after: loading, convert_variable histories, API equation edits, singularity removal, unit-fix passes.
"""
import glob
import json
import os
import random
import tempfile

import cvlib
import vlib
from props import c06

FN = cvlib.FN
CELLML = os.path.join(vlib.REPO, 'tests', 'cellml_files')
DOCS = ['basic_ode.cellml', 'test_simple_odes.cellml', 'beeler_reuter_model_1977.cellml',
        'hodgkin_huxley_squid_axon_model_1952_modified.cellml', 'repeated_ode_for_conversion_tests.cellml',
        'literals_for_conversion_tests.cellml', 'simple_model_units.cellml', 'aslanidi_model_2009.cellml']


def scan(m, where):
    """violations of the property in the current state of model m"""
    import cellmlmanip.model as M
    import cellmlmanip.units as U
    bad = []
    for eq in m.equations:
        for a in eq.atoms(M.Quantity, M.Variable):
            if isinstance(a, M.Variable) and m._name_to_variable.get(a.name) is not a:
                bad.append(('%s: variable %s in the equation for %s is not a variable of this model (an object of another '
                            'model or a removed one)' % (where, a.name, eq.lhs), {'where': where}))
                break
            u = getattr(a, 'units', None)
            if not isinstance(u, m.units.Unit):
                bad.append(('%s: %s %r in equation for %s has units %r (%s), not a unit of the model\'s store'
                            % (where, type(a).__name__, str(a), eq.lhs, u, type(u).__name__), {'where': where}))
                break
            if getattr(u, '_REGISTRY', None) is not m.units._registry:
                bad.append(('%s: %s %r in equation for %s has a unit of a foreign registry' % (where, type(a).__name__, str(a), eq.lhs),
                            {'where': where}))
                break
        # a number that is not a Quantity: only SymPy's structural numbers are allowed (the coefficient -1 of a negation or
        # difference, exponents); any other bare number multiplied or added into an equation has no unit at all
        import sympy
        exempt = getattr(m, '_verif_user_floats', ())     # bare floats the harness itself wrote into an API-built model
        floats = [a for a in eq.atoms(sympy.Float) if not isinstance(a, M.Quantity) and a not in exempt]
        if floats:
            # every number of a model is a Quantity; SymPy's own structural numbers are Integers / Rationals, never Floats
            bad.append(('%s: bare floating-point number(s) %s (no Quantity, hence no unit) in equation for %s'
                        % (where, [str(a) for a in floats[:3]], eq.lhs), {'where': where}))
            continue
        for sub in sympy.preorder_traversal(eq.rhs):
            bare = [a for a in getattr(sub, 'args', ()) if isinstance(a, sympy.Number) and not isinstance(a, M.Quantity)]
            if not bare:
                continue
            if (isinstance(sub, sympy.Mul) and any(a not in (-1, 1) for a in bare)) or isinstance(sub, sympy.Add):
                bad.append(('%s: bare number %s (no Quantity, hence no unit) in equation for %s: %s'
                            % (where, bare, eq.lhs, str(sub)[:80]), {'where': where}))
                break
        for side in (eq.lhs, eq.rhs):
            try:
                m.units.evaluate_units(side)
            except U.UnitError:
                pass
            except Exception as e:
                bad.append(('%s: evaluate_units(%s) raises %s (%s), neither a unit nor a UnitError'
                            % (where, str(side)[:80], type(e).__name__, str(e)[:80]), {'where': where}))
                break
        if len(bad) > 3:
            break
    return bad


def run_generated(case):
    """the C06 history with a scan after every conversion"""
    from cellmlmanip.model import DataDirectionFlow
    from fractions import Fraction
    bad = []
    try:
        m, objs = cvlib.build_model(case['spec'])
    except Exception as e:
        return {'harness_error': repr(e)}
    reif = cvlib.Reified(m, objs)
    first = reif
    ops, flags = [], []
    bad += scan(m, 'generated model')
    prev_new = None
    for j, (vi, ui, is_input, move) in enumerate(case['convs']):
        v = cvlib.resolve_index(vi, reif.objs, prev_new)
        vec = reif.vars[v][1]
        fam = c06.family_of(vec) if vec is not None else []
        if not fam:
            break
        tname = fam[ui % len(fam)]
        tvec = {k: Fraction(e) for k, e in cvlib.POOL[tname][1].items()}
        ops.append([v, cvlib.vec_sexp(tvec), bool(is_input), bool(move)])
        try:
            prev_new = m.convert_variable(reif.objs[v], m.units.get_unit(tname),
                                          DataDirectionFlow.INPUT if is_input else DataDirectionFlow.OUTPUT, move_annotations=bool(move))
        except Exception as e:
            flags.append(None)
            break
        found = scan(m, 'after convert_variable #%d' % j)
        bad += found
        flags.append(not found)
        # a unit-fix pass over every equation creates further conversion quantities
        try:
            for eq in list(m.equations):
                new = m.units.convert_expression_recursively(eq, None)
                if new is not eq:
                    for a in new.atoms(type(m.create_quantity(1, 'dimensionless'))):
                        if not isinstance(a.units, m.units.Unit):
                            bad.append(('unit-fix pass created a quantity with units %r' % (a.units,), {'conv': j}))
        except Exception:
            pass
        reif = cvlib.Reified(m, reif.objs)
    return {'input': first.sexp(ops), 'flags': flags, 'bad': bad}


def run_doc(args):
    import sympy
    import cellmlmanip
    from cellmlmanip.model import DataDirectionFlow
    fname, seed = args[0], args[1]
    forced = args[2] if len(args) > 2 else None
    rng = random.Random(seed)
    bad = []
    hist = []
    try:
        m = cellmlmanip.load_model(os.path.join(CELLML, fname))
    except Exception as e:
        return [('cannot load %s: %r' % (fname, e), {})], hist
    bad += scan(m, fname + ' as loaded')
    for j in range(rng.randint(2, 4)):
        kind = rng.choice(['convert', 'singularity', 'edit', 'fix', 'foreign', 'mixfix'])
        if j == 0 and forced:
            kind = forced
        hist.append(kind)
        try:
            if kind == 'convert':
                import cellmlmanip.model as M
                used = set()
                for eq in m.equations:
                    used |= eq.atoms(M.Variable)
                vs = [x for x in m.variables() if x in used]
                v = rng.choice(vs)
                name = 'c18_u%d' % j
                if not m.units.is_defined(name):
                    m.units.add_unit(name, '%s * %s' % (m.units.format(v.units), rng.choice(['1000', '0.001', '60'])))
                m.convert_variable(v, m.units.get_unit(name), rng.choice([DataDirectionFlow.INPUT, DataDirectionFlow.OUTPUT]))
            elif kind == 'singularity':
                states = m.get_state_variables()
                cands = [s for s in states if s.name.endswith('$V') or s.name.endswith('$v')] or states
                if cands:
                    m.remove_fixable_singularities(cands[0])
            elif kind == 'foreign':
                # a unit object of ANOTHER model must not end up inside this model's equations
                from cellmlmanip.model import Model
                other = Model('other')
                fu = other.units.add_unit('mV', 'volt / 1000')
                try:
                    fq = m.create_quantity(5.0, fu)
                except Exception:
                    fq = None
                if fq is not None:
                    v = m.add_variable('c18$foreign%d' % j, 'dimensionless')
                    m.add_equation(sympy.Eq(v, fq))
                # ... nor may a VARIABLE be created with such a unit, or with something that is no unit at all
                for k_, fu2 in enumerate((fu, 1 / m.units.get_unit('second'), 'c18_undefined_unit_name')):
                    try:
                        fv = m.add_variable('c18$fvar%d_%d' % (j, k_), fu2, initial_value=1.0)
                    except Exception:
                        continue
                    w = m.add_variable('c18$fvaruse%d_%d' % (j, k_), 'dimensionless')
                    m.add_equation(sympy.Eq(w, fv * m.create_quantity(1.0, 'dimensionless')))
            elif kind == 'mixfix':
                # an equation that mixes scales goes through a unit-fix pass: the conversion factor it plants is a number
                # of the model like any other (and a second pass over the result is a no-op, not an error)
                some = rng.choice(list(m.variables()))
                uname = 'c18_mix%d' % j
                if not m.units.is_defined(uname):
                    m.units.add_unit(uname, '%s * %s' % (m.units.format(some.units), rng.choice(['1000', '0.001', '60'])))
                y = m.add_variable('c18$mixy%d' % j, m.units.get_unit(uname), initial_value=1.0)
                z = m.add_variable('c18$mixz%d' % j, some.units)
                new = m.units.convert_expression_recursively(sympy.Eq(z, some + y), None)
                m.add_equation(new)
                again = m.units.convert_expression_recursively(new, None)
                if again is not new:
                    bad.append(('%s: a second unit-fix pass over %s changes it again' % (fname, new), {'where': 'mixfix'}))
                if rng.random() < 0.6:
                    # a piecewise whose CONDITION compares a variable with a literal bound written in a differently scaled unit
                    wv = m.add_variable('c18$cmpw%d' % j, 'dimensionless')
                    cond = some < m.create_quantity(0.05, m.units.get_unit(uname))
                    eqc = sympy.Eq(wv, sympy.Piecewise((m.create_quantity(1.0, 'dimensionless'), cond),
                                                       (m.create_quantity(2.0, 'dimensionless'), True)))
                    m.add_equation(m.units.convert_expression_recursively(eqc, None))
                if rng.random() < 0.6:
                    # a power whose exponent is ONE number in a scaled dimensionless unit (50 [percent]): the pass makes the
                    # exponent a plain number, and that number is a quantity of the model too
                    if not m.units.is_defined('c18_pc'):
                        m.units.add_unit('c18_pc', 'dimensionless * 0.01')
                    w = m.add_variable('c18$poww%d' % j, 'dimensionless')
                    inv = m.create_quantity(1.0, m.units.get_unit('dimensionless') / some.units)
                    eqp = sympy.Eq(w, (m.create_quantity(2.0, 'dimensionless') + inv * some)
                                   ** m.create_quantity(rng.choice([50.0, 200.0, 150.0]), m.units.get_unit('c18_pc')))
                    m.add_equation(m.units.convert_expression_recursively(eqp, None))
            elif kind == 'edit':
                v = m.add_variable('c18$extra%d' % j, 'dimensionless')
                some = rng.choice(list(m.variables()))
                m.add_equation(sympy.Eq(v, m.create_quantity(2.5, 'dimensionless') * m.create_quantity(1.0, m.units.get_unit('dimensionless') / some.units) * some))
            else:
                for eq in list(m.equations)[:10]:
                    new = m.units.convert_expression_recursively(eq, None)
                    if new is not eq:
                        m.remove_equation(eq)
                        m.add_equation(new)
        except Exception as e:
            hist[-1] += ':raises:' + vlib.err_class(e)
        bad += scan(m, '%s after %s' % (fname, '+'.join(hist)))
        if bad:
            break
    return bad, hist


def run_api_singular(seed):
    """two or three models built through the API in ONE process, each with GHK-like singular terms (all four documented
    forms, also inside a reciprocal written with an integer or a float exponent); singularities removed in each; every
    model scanned after every removal (numbers created during the analysis must not be shared between models)"""
    import sympy as sp
    from cellmlmanip import parser
    from cellmlmanip.model import Model, Quantity
    rng = random.Random(seed)
    EXP = parser.SIMPLE_MATHML_TO_SYMPY_CLASSES['exp']
    bad = []
    models = []
    nmodels = rng.randint(2, 3)
    subseeds = [rng.randrange(10 ** 9) for _ in range(nmodels)]
    force = seed % 3 == 0
    if force or rng.random() < 0.4:
        subseeds[1] = subseeds[0]      # two models with identical names and equations (a cached analysis must not be shared)
    for k in range(nmodels):
        rng = random.Random(subseeds[k])
        m = Model('m%d' % k)
        mV = m.units.add_unit('mV', 'volt / 1000')
        ms = m.units.add_unit('ms', 'second / 1000')
        per_mV = m.units.add_unit('per_mV', '1 / mV')
        mV_per_ms = m.units.add_unit('mV_per_ms', 'mV / ms')
        t = m.add_variable('t', ms)
        V = m.add_variable('V', mV, initial_value=-80)
        q = m.create_quantity
        d = 'dimensionless'
        names = []
        excluded = []
        for j in range(rng.randint(1, 3)):
            a = m.add_variable('a%d' % j, d)
            slope = rng.choice([0.16, -0.04, 0.1, -1.0, 5.0, -8.0])       # steep ones: the two window ends nearly coincide
            named = rng.random() < 0.35

            def num(x, u, tag):
                # a number, or (named) a constant parameter defined by its own variable and equation
                if not named:
                    return q(x, u)
                kv = m.add_variable('k%d_%s' % (j, tag), u)
                m.add_equation(sp.Eq(kv, q(x, u)))
                return kv
            offs = rng.choice([-10.0, 30.0, 4.0, -2.5, -50.0])
            if rng.random() < 0.5:
                U = num(slope, per_mV, 's') * V + q(-slope * offs, d)
            else:
                U = num(slope, per_mV, 's') * (V - num(offs, mV, 'o'))

            def pattern(U, form):
                return [U / (EXP(U) - q(1, d)), U / (q(1, d) - EXP(U)), (EXP(U) - q(1, d)) / U, (q(1, d) - EXP(U)) / U][form]
            form = rng.randrange(4)
            ghk = pattern(U, form)
            shape = rng.randrange(9)
            if force and j == 0:
                shape = 7      # every third case: twin models whose first equation has a singular point depending on a variable
            if shape == 0:
                rhs = q(rng.choice([2, 0.5, 3]), d) * ghk
            elif shape == 1:
                rhs = sp.Pow(q(2, d) + ghk, -1.0)
            elif shape == 2:
                rhs = sp.Pow(q(2, d) + ghk, -1)
            elif shape == 3:
                rhs = q(1.5, d) + ghk
            elif shape == 8:
                # next to the term, a negative power other than -1 of something with exp (a squared sigmoid in a denominator,
                # once with an integer and once with a quantity exponent)
                U2 = q(rng.choice([0.26, -0.08]), per_mV) * V + q(1.5, d)
                sig = q(1, d) + EXP(U2)
                rhs = ghk + q(2, d) / sig ** 2 + q(0.5, d) * sig ** q(-3, d) + q(1, d) / sp.sqrt(sig)
            elif shape == 6:
                # product of two terms with DIFFERENT singular points (nested repair)
                offs2 = offs + rng.choice([15.0, -7.5, 40.0])
                slope2 = rng.choice([0.26, -0.08, 0.5])
                rhs = ghk * pattern(q(slope2, per_mV) * (V - q(offs2, mV)), rng.randrange(4)) * q(rng.choice([1, 0.3]), d)
            elif shape == 7:
                # the singular point depends on a parameter that is excluded from the analysis (it stays symbolic)
                if rng.random() < 0.5 and not force:
                    E = m.add_variable('E%d' % j, mV)
                    m.add_equation(sp.Eq(E, q(offs, mV)))
                    excluded.append(E)
                else:
                    # ... or on another state variable (symbolic without being excluded)
                    E = m.add_variable('E%d' % j, mV, initial_value=offs)
                    m.add_equation(sp.Eq(sp.Derivative(E, t), q(0.5, mV_per_ms)))
                Ue = q(slope, per_mV) * (V - E) if rng.random() < 0.5 else q(slope, per_mV) * V - q(slope, per_mV) * E
                rhs = q(rng.choice([3, 0.5]), d) * pattern(Ue, form)
            else:
                # two terms with the SAME singular point and different slopes (their repair windows are merged)
                slope2 = rng.choice([s2 for s2 in (0.26, -0.08, 0.5, -2.0) if s2 != slope])
                U2 = q(slope2, per_mV) * (V - q(offs, mV)) if shape == 4 else q(slope2, per_mV) * V + q(-slope2 * offs, d)
                rhs = ghk + pattern(U2, rng.randrange(4)) * q(rng.choice([1, 2.5]), d)
            m.add_equation(sp.Eq(a, rhs))
            names.append(a)
        m.add_equation(sp.Eq(sp.Derivative(V, t), sum(names[1:], names[0]) * q(1, mV_per_ms)))
        m._verif_user_floats = {f for eq in m.equations for f in eq.atoms(sp.Float) if not isinstance(f, Quantity)}
        models.append((m, V, excluded))
    for k, (m, V, excluded) in enumerate(models):
        try:
            m.remove_fixable_singularities(V, exclude=set(excluded)) if excluded else m.remove_fixable_singularities(V)
        except Exception as e:
            bad.append(('remove_fixable_singularities raises %r on an API-built model' % (e,), {'seed': seed}))
            continue
        for i, (m2, _, _) in enumerate(models[:k + 1]):
            bad += scan(m2, 'API-built model %d after singularity removal in model %d (same process)' % (i, k))
    return bad


CHAIN_DOC = """<?xml version="1.0"?>
<model xmlns="http://www.cellml.org/cellml/1.0#" name="chain">
  <units name="u1"><unit units="%(base)s" %(a1)s/></units>
  <units name="u2"><unit units="%(base)s" %(a2)s/></units>
  <units name="u3"><unit units="%(base)s" %(a3)s/></units>
  <component name="env"><variable name="t" units="second" public_interface="out"/>
    <variable name="x" units="u1" public_interface="out" initial_value="2"/>
    <math xmlns="http://www.w3.org/1998/Math/MathML"><apply><eq/><apply><diff/><bvar><ci>t</ci></bvar><ci>x</ci></apply>
      <cn xmlns:cellml="http://www.cellml.org/cellml/1.0#" cellml:units="u1_per_s">1</cn></apply></math></component>
  <units name="u1_per_s"><unit units="u1"/><unit units="second" exponent="-1"/></units>
  <component name="cell"><variable name="x" units="u2" public_interface="in" private_interface="out"/>
    <variable name="y" units="u2"/><variable name="r" units="dimensionless"/><variable name="w" units="dimensionless" initial_value="2"/>
    <math xmlns="http://www.w3.org/1998/Math/MathML"><apply><eq/><ci>r</ci><apply><root/><degree><cn xmlns:cellml="http://www.cellml.org/cellml/1.0#" cellml:units="dimensionless">%(deg)s</cn></degree><ci>w</ci></apply></apply><apply><eq/><ci>y</ci><apply><plus/><ci>x</ci><cn xmlns:cellml="http://www.cellml.org/cellml/1.0#" cellml:units="u2">1</cn></apply></apply></math></component>
  <component name="gate"><variable name="x" units="u3" public_interface="in"/>
    <variable name="z" units="u3"/>
    <math xmlns="http://www.w3.org/1998/Math/MathML"><apply><eq/><ci>z</ci><apply><plus/><ci>x</ci><cn xmlns:cellml="http://www.cellml.org/cellml/1.0#" cellml:units="u3">1</cn></apply></apply></math></component>
  <connection><map_components component_1="%(c1)s" component_2="%(c2)s"/><map_variables variable_1="x" variable_2="x"/></connection>
  <connection><map_components component_1="%(c3)s" component_2="%(c4)s"/><map_variables variable_1="x" variable_2="x"/></connection>
  <group><relationship_ref relationship="encapsulation"/><component_ref component="cell"><component_ref component="gate"/></component_ref></group>
</model>"""


def run_chain_doc(k):
    """a value handed through TWO successive converting connections (env [u1] -> cell [u2] -> encapsulated gate [u3]): every
    number the loader creates for the connections is a quantity of the model; also after the unit-fix pass"""
    import cellmlmanip
    rng = random.Random(k)
    base = rng.choice(['second', 'volt', 'mole', 'metre'])
    attrs = rng.sample(['prefix="milli"', 'prefix="micro"', '', 'multiplier="60"', 'prefix="kilo"', 'prefix="-9"'], 3)
    first_up = rng.random() < 0.5
    doc = CHAIN_DOC % {'base': base, 'a1': attrs[0], 'a2': attrs[1], 'a3': attrs[2], 'deg': rng.choice(['2.5', '3', '2', '1.5']),
                       'c1': 'env' if first_up else 'cell', 'c2': 'cell' if first_up else 'env',
                       'c3': 'cell' if rng.random() < 0.5 else 'gate', 'c4': None}
    doc = doc.replace('component_1="gate" component_2="None"', 'component_1="gate" component_2="cell"') \
             .replace('component_1="cell" component_2="None"', 'component_1="cell" component_2="gate"')
    if rng.random() < 0.5:     # downstream connection listed first
        i, j = doc.index('<connection>'), doc.index('</connection>') + len('</connection>')
        first = doc[i:j]
        doc = doc[:i] + doc[j:].replace('<group>', first + '<group>', 1)
    d = tempfile.mkdtemp(prefix='c18_')
    path = os.path.join(d, 'm.cellml')
    try:
        with open(path, 'w') as f:
            f.write(doc)
        try:
            m = cellmlmanip.load_model(path)
        except Exception as e:
            return [('a document with two successive converting connections is refused: %r' % (e,), {'chain': k})]
        bad = scan(m, 'document with two successive converting connections (%s: %s -> %s -> %s), after loading' % (base, *attrs))
        if not bad:
            import cellmlmanip.units as U
            for eq in list(m.equations):
                try:
                    new = m.units.convert_expression_recursively(eq, None)
                except U.UnitError:
                    continue
                if new is not eq:
                    m.remove_equation(eq)
                    m.add_equation(new)
            bad = scan(m, 'document with two successive converting connections, after the unit-fix pass')
        return [(w, dict(dt, chain=k)) for w, dt in bad]
    finally:
        try:
            os.remove(path)
            os.rmdir(d)
        except OSError:
            pass


def run(ctx):
    n = 100 if ctx.tier == 'quick' else 1200
    ctx.rule = ('(a) the C06 histories (generated unit-consistent models, 1-4 conversions, unit-fix pass after each) scanned after '
                'every conversion and compared with the model\'s units_invariant; (b) bundled documents with 2-4 random operations '
                '(convert_variable, singularity removal, API edit, unit-fix pass), scanned after each; non-trivial = at least one '
                'operation changed the equations; (c) 2-3 models built through the API per process with singular terms (four forms, '
                'reciprocals, named constants, same-point sums, products with different points, excluded parameters), repaired one '
                'after another and all scanned after each repair; any bare sympy Float in an equation is a violation')
    ctx.trusted += ['isinstance(units, store.Unit) and registry identity are the implementation-side reading of "unit object of that model\'s store"']
    cases = [c06.gen_case(ctx.seed * 100000 + i) for i in range(n)]
    results = vlib.pmap(run_generated, cases)
    idx = [i for i, r in enumerate(results) if 'input' in r]
    outs = vlib.model_run(FN, [results[i]['input'] for i in idx]) if ctx.model_ok() and idx else None
    for k, i in enumerate(idx):
        case, r = cases[i], results[i]
        ctx.count(case_key=(case['spec'], case['convs']), nontrivial=len(r['flags']) > 0, kind='generated')
        for what, detail in r['bad']:
            ctx.violation(what, {'case': case, 'detail': detail})
        if outs is not None:
            ctx.corr_cases += 1
            for j, (flag, mo) in enumerate(zip(r['flags'], outs[k])):
                if flag is None or mo[0] == -1:
                    continue
                mflag = bool(mo[2][3])
                if mflag != flag:
                    ctx.tie_break('correspondence C18: after conversion %d the model says units_invariant=%s, the implementation scan says %s'
                                  % (j, mflag, flag), {'case': case})
                    break
    ctx.sample({'generated_case_convs': cases[0]['convs']})
    docs = DOCS if ctx.tier == 'thorough' else DOCS[:7]
    dargs = [(f, ctx.seed * 100 + k) for f in docs for k in range(3 if ctx.tier == 'quick' else 25)]
    dargs += [(f, ctx.seed * 100 + 50 + k, kind) for f in docs for k, kind in enumerate(['singularity', 'convert', 'fix', 'mixfix'])]
    for a, (bad, hist) in zip(dargs, vlib.pmap(run_doc, dargs)):
        ctx.count(case_key=a, nontrivial=bool(hist), kind='doc')
        for h in hist:
            ctx.hist['op:' + h] = ctx.hist.get('op:' + h, 0) + 1
        for what, detail in bad:
            ctx.violation(what, {'doc': list(a)})
    ctx.sample({'doc_case': list(dargs[0])})
    cks = [ctx.seed * 1000 + i for i in range(16 if ctx.tier == 'quick' else 200)]
    for ck, bad in zip(cks, vlib.pmap(run_chain_doc, cks)):
        ctx.count(case_key=('chain-doc', ck), kind='chain-doc')
        for what, detail in bad:
            ctx.violation(what, {'chain_doc': ck})
    seeds = [ctx.seed * 1000 + i for i in range(24 if ctx.tier == 'quick' else 300)]
    for sd, bad in zip(seeds, vlib.pmap(run_api_singular, seeds)):
        ctx.count(case_key=('api-singular', sd), kind='api-singular')
        for what, detail in bad:
            ctx.violation(what, {'api_singular': sd})


def replay(ctx, case):
    if 'chain_doc' in case:
        bad = run_chain_doc(case['chain_doc'])
        return bad[0][0] if bad else None
    if 'doc' in case:
        bad, _ = run_doc(tuple(case['doc']))
        return bad[0][0] if bad else None
    if 'api_singular' in case:
        bad = run_api_singular(case['api_singular'])
        return bad[0][0] if bad else None
    r = run_generated(case.get('case', case))
    return r['bad'][0][0] if r.get('bad') else None


KNOWN_PREDICATES = {}
