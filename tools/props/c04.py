"""C04 -- unit inference (UnitStore.evaluate_units / UnitCalculator.traverse) is sound.

correspondence: evaluate_units on random trees and all their single-leaf unit mutations vs the extracted
                Model/UnitCalc.v infer (unit as scale + dimensions / UnitError subclass / other exception)
oracle:         on the implementation alone: consistency of every sum, piecewise, relation, exponent and
                function argument (units of the operands taken from evaluate_units itself), the rescaling
                test (value with every leaf rescaled to SI = value x scale of the returned unit), and
                "no exception other than a UnitError subclass"
"""
import random
import zlib

import vlib
from props import uc_common as uc

FN = 40
GEN_DEPS = ()
F = uc.F

ERR_CODES = {0: 'UnitError:UnexpectedMathUnitsError', 1: 'UnitError:InputArgumentsInvalidUnitsError',
             2: 'UnitError:InputArgumentsMustBeDimensionlessError', 3: 'UnitError:InputArgumentMustBeNumberError',
             4: 'UnitError:BooleanUnitsError', 5: 'UnitError:UnitConversionError'}

Q = lambda i, v, u=0: [2, i, F(v), u]   # noqa: E731
# fixed witnesses, always run first (variable 3*u+j: unit index u; unit 2 = mV, 1 = volt, 0 = dimensionless, 5 = ms)
CORPUS = [
    {'name': 'F6 (repaired) a**(_1 + _2)', 'tree': [6, [3, 6], [4, Q(1, 1), Q(2, 2)]]},
    {'name': 'F6 (repaired) a**(_2 - _1)', 'tree': [6, [3, 6], [4, Q(1, 2), [5, [0, 0, F(-1)], Q(2, 1)]]]},
    {'name': 'F6 (repaired) a**log(_100)', 'tree': [6, [3, 6], [7, 1, Q(1, 100)]]},
    {'name': '(repaired) exp(a[mV]/b[volt])', 'tree': [7, 0, [5, [3, 6], [6, [3, 3], [0, 0, F(-1)]]]]},
    {'name': 'piecewise condition a[mV] < t[ms]', 'tree': [13, [[3, 6], [9, 2, [3, 6], [3, 15]]], [[3, 6], [11]]]},
    {'name': 'exp(x) with initial value 1000', 'tree': [7, 0, [5, [0, 0, F(1000)], [3, 1]]]},
    {'name': 'zero first: _0[mV] + t[ms]', 'tree': [4, Q(1, 0, 2), [3, 15]]},
    {'name': 'zero first: Piecewise((_0[mV], a < a), (t[ms], True))',
     'tree': [13, [Q(1, 0, 2), [9, 2, [3, 6], [3, 6]]], [[3, 15], [11]]]},
    {'name': 'zero first: 0 + a[mV]', 'tree': [4, [0, 0, F(0)], [3, 6]]},
    {'name': 'zero first, consistent: _0[mV] + a[mV]', 'tree': [4, Q(1, 0, 2), [3, 6]]},
    {'name': 'sin(x[deg]): a scaled angle is not a plain number', 'tree': [7, 10, [3, 45]]},
    {'name': 'cosh(x[mrad])', 'tree': [7, 17, [3, 42]]},
    {'name': 'sin(r[radian])', 'tree': [7, 10, [3, 39]]},
    {'name': '(repaired) r[radian] + k[dimensionless]', 'tree': [4, [3, 39], [3, 0]]},
    {'name': '(repaired) a[mV] ** _2[one]', 'tree': [6, [3, 6], Q(1, 2, 17)]},
    {'name': 'a[mV] ** _50[percent]', 'tree': [6, [3, 6], Q(1, 50, 8)]},
    {'name': '1/floor(_0.5)', 'tree': [6, [7, 3, Q(1, F(1, 2))], [0, 0, F(-1)]]},
]


def stratum_cases():
    """Deterministic stratum for "never another exception type": every unary function of the supported table applied
    to dimensionless operands whose magnitude is 0, -0.0, negative or huge, to variables with zero / negative initial
    values and to quotients / products of them.  On the unchanged tree every case gives a unit or a UnitError
    (operands on which the unchanged code is known to raise -- exp of 1e308, x**2 of 1e308, 1/_0: finding
    magnitude-arithmetic-exception -- are left to the random strata)."""
    X0 = 3 * uc.NU                      # extra variables: -2.5, -1, 4, -0.5
    vneg, vneg1, vpos, vnegh = [3, X0], [3, X0 + 1], [3, X0 + 2], [3, X0 + 3]
    inv = lambda x: [6, x, [0, 0, F(-1)]]       # noqa: E731
    operands = [
        ('_0.0', [2, 2, F(0), 0]), ('_-0.0', [2, 1, F(0), 0]), ('_-2.5', [2, 2, F(-5, 2), 0]), ('_-1', [2, 2, F(-1), 0]),
        ('_1e308', [2, 2, F(10 ** 308), 0]), ('0', [0, 0, F(0)]), ('0.0', [0, 2, F(0)]), ('-2.5', [0, 2, F(-5, 2)]),
        ('z (initial value 0)', [3, 2]), ('n (initial value -2.5)', vneg), ('m (initial value -1)', vneg1),
        ('n/p (-2.5/4)', [5, vneg, inv(vpos)]), ('p/n (4/-2.5)', [5, vpos, inv(vneg)]), ('n*m', [5, vneg, vneg1]),
        ('n*p', [5, vneg, vpos]), ('h/p (-0.5/4)', [5, vnegh, inv(vpos)]), ('-1*p', [5, [0, 0, F(-1)], vpos]),
        ('z/p', [5, [3, 2], inv(vpos)]), ('_0.0*p', [5, [2, 2, F(0), 0], vpos]),
    ]
    fns = [('log', 1), ('exp', 0), ('Abs', 2), ('floor', 3), ('ceiling', 4), ('factorial', 43)] + \
          [(uc.bridge.FN_NAMES[i], i) for i in range(10, 34)]
    cases = []
    for oname, o in operands:
        for fname, f in fns:
            if oname == '_1e308' and f == 0:
                continue            # exp(1e308): OverflowError, known finding
            cases.append({'kind': 'stratum', 'tree': uc.tree_json([7, f, o]), 'evaluate': False,
                          'name': '%s(%s)' % (fname, oname)})
        for ename, e in (('sqrt', [0, 1, F(1, 2)]), ('cube root', [0, 1, F(1, 3)])):
            cases.append({'kind': 'stratum', 'tree': uc.tree_json([6, o, e]), 'evaluate': False,
                          'name': '%s(%s)' % (ename, oname)})
    # variables whose initial value is exactly 0 (kept symbolic by the unchanged code) as divisors, under negative
    # powers and as the differentiation variable; every unit
    for u in (0, 2, 4, 5, 13):
        z, p, a = [3, 3 * u + 2], [3, 3 * u + 1], [3, 3 * u]
        for name, t in (('1/z', inv(z)), ('p/z', [5, p, inv(z)]), ('z**-2', [6, z, [0, 0, F(-2)]]),
                        ('z**-0.5', [6, z, [0, 1, F(-1, 2)]]), ('(p - z)/z', [5, [4, p, [5, [0, 0, F(-1)], z]], inv(z)]),
                        ('a/(z*z)', [5, a, inv([5, z, z])]), ('d a/d z', [8, a, z, 1]), ('d p/d z', [8, p, z, 1]),
                        ('d z/d z', [8, z, z, 1]), ('Abs(p)/Abs(z)', [5, [7, 2, p], inv([7, 2, z])])):
            cases.append({'kind': 'stratum', 'tree': uc.tree_json(t), 'evaluate': False,
                          'name': '%s, z in unit %d with initial value 0' % (name, u)})
    # sums whose leaves all carry one unit (percent, mV/volt, ms, mV) with product / quotient / power / exp terms
    for name, tree, u in uc.same_unit_sums():
        cases.append({'kind': 'stratum', 'tree': uc.tree_json(tree), 'evaluate': False, 'name': name})
    return cases


def gen_cases(seed, n_trees):
    rng = random.Random(seed)
    cases = []
    for i in range(n_trees):
        g = uc.Gen(rng, strict=rng.choice([0.95, 0.95, 0.8, 0.4]), max_depth=5)
        tree, _ = g.any(rng.choice([2, 3, 3, 4, 4, 5]))
        ev = rng.random() < 0.3
        cases.append({'kind': 'base', 'tree': uc.tree_json(tree), 'evaluate': ev, 'seed': seed, 'i': i})
        for kind, m in uc.mutations(rng, tree):
            cases.append({'kind': kind, 'tree': uc.tree_json(m), 'evaluate': ev, 'seed': seed, 'i': i})
    return cases


# ---- implementation + oracle (worker) ------------------------------------------------------------------
def _sub_unit(W, cache, sub):
    key = id(sub)
    if key not in cache:
        try:
            u = W.store.evaluate_units(W.build(sub))
            sc, dims = W.unit_obs(u)
            cache[key] = ('ok', sc, dims)
        except Exception as e:
            cache[key] = ('err', vlib.err_class(e))
    return cache[key]


def _nodim(d):
    """radian is a base unit without a dimension: an angle is dimensionless (CellML; UnitStore.is_equivalent)"""
    return {k: v for k, v in d.items() if k != 'radian'}


def _equiv(a, b):
    return a[0] == 'ok' and b[0] == 'ok' and uc.close(a[1], b[1]) and _nodim(a[2]) == _nodim(b[2])


def _dimless(a):
    return a[0] == 'ok' and not _nodim(a[2]) and uc.close(a[1], 1.0)


def structure_findings(W, tree):
    """consistency of every node, operand units taken from evaluate_units itself"""
    cache = {}
    out = []
    causes = set()
    homog = True

    def su(s):
        return _sub_unit(W, cache, s)

    def note(in_cond, kind, text):
        if in_cond:
            causes.add('unchecked_condition')
            out.append(('condition', 'inside a piecewise condition: ' + text))
        else:
            out.append((kind, text))

    def walk(s, in_cond):
        nonlocal homog
        k = s[0]
        if k == 4:
            us = [su(a) for a in s[1:]]
            if not all(_equiv(us[0], x) for x in us):
                note(in_cond, 'sum', 'operands of a sum in %s' % [x[:3] for x in us])
        elif k == 9:
            if not _equiv(su(s[2]), su(s[3])):
                note(in_cond, 'relation', 'relation %s compares %s with %s' % (s[1], su(s[2])[:3], su(s[3])[:3]))
        elif k == 13:
            us = [su(p[0]) for p in s[1:]]
            if not all(_equiv(us[0], x) for x in us):
                note(in_cond, 'piecewise', 'pieces in %s' % [x[:3] for x in us])
        elif k == 6:
            if not _dimless(su(s[2])):
                note(in_cond, 'exponent', 'exponent in %s' % (su(s[2])[:3],))
        elif k == 7 and s[1] not in (2, 3, 4):
            for a in s[2:]:
                r = su(a)
                if not _dimless(r):
                    note(in_cond, 'fn-arg', 'argument of function %d in %s' % (s[1], r[:3]))
        elif k == 7 and s[1] in (3, 4):
            r = su(s[2])
            if not (r[0] == 'ok' and uc.close(r[1], 1.0)):
                homog = False
        elif k == 8 and s[3] != 1:
            causes.add('derivative_order')
        if k == 13:
            for p in s[1:]:
                walk(p[0], in_cond)
                walk(p[1], True)
        else:
            for c in uc.children(s):
                walk(c, in_cond)

    walk(tree, False)
    return out, sorted(causes), homog


def rescale_findings(tree, scale, seed):
    rng = random.Random(seed)
    out = []
    tested = 0
    for _ in range(3):
        vals, dv = uc.valuation(rng)
        vals = uc.pin_exponent_vars(tree, vals)
        if not uc.stable_point(tree, vals, dv):
            continue
        n = uc.try_eval(uc.eval_n, tree, vals, dv)
        s = uc.try_eval(uc.eval_si, tree, vals, dv)
        if n is None and s is None:
            continue
        tested += 1
        if n is None or s is None:
            out.append(('rescale', 'defined in only one reading: numeric %r, SI %r' % (n, s)))
            break
        if isinstance(n, bool) or isinstance(s, bool):
            continue
        if not uc.same_value(s / scale, n):
            out.append(('rescale', 'value %r in the returned unit (scale %r) but %r after rescaling the leaves to SI'
                        % (n, scale, s)))
            break
    return out, tested


def work(case):
    W = uc.world()
    tree = uc.tree_unjson(case['tree'])
    try:
        expr = W.build(tree, evaluate=case.get('evaluate', False))
        eff = W.reifier().reify(expr)
    except Exception as e:
        return {'skip': repr(e)[:200]}
    res = {'eff': uc.tree_json(eff), 'same': eff == uc.renumber(tree)}   # SymPy may normalise (Piecewise after True)
    try:
        u = W.store.evaluate_units(expr)
        sc, dims = W.unit_obs(u)
        res['impl'] = ['ok', sc, dims]
    except Exception as e:
        res['impl'] = ['err', vlib.err_class(e), str(e)[:120]]
    findings = []
    causes = []
    if res['impl'][0] == 'ok':
        findings, causes, homog = structure_findings(W, eff)
        res['homog'] = homog
        if homog and 1e-250 < res['impl'][1] < 1e250:
            r, tested = rescale_findings(eff, res['impl'][1], zlib.crc32(repr(case["tree"]).encode()))
            findings += r
            res['tested'] = tested
    elif not res['impl'][1].startswith('UnitError:'):
        findings.append(('exception', 'evaluate_units raised %s: %s' % (res['impl'][1], res['impl'][2])))
    res['findings'] = findings
    res['causes'] = causes
    return res


def safe_work(case):
    try:
        return vlib.with_alarm(20, work, case)
    except vlib.Timeout:
        return {'skip': 'timeout (SymPy)'}
    except Exception as e:
        return {'skip': 'harness: ' + repr(e)[:300]}


# ---- comparison -------------------------------------------------------------------------------------------
def compare(impl, mod):
    tag = mod[0]
    if tag == 3:
        return 'unsupported'
    if tag == 0:
        if impl[0] == 'err' and impl[1] == 'Other:OverflowError':
            try:
                sc = uc.vec_float(mod[1][0])
            except OverflowError:
                sc = 0.0
            if not 1e-250 < sc < 1e250:
                return 'unsupported'     # the exact scale is outside the float range (pint overflows)
        if impl[0] != 'ok':
            return 'model: unit, implementation raised %s' % impl[1]
        if not uc.same_unit_obs(mod[1], (impl[1], impl[2])):
            return 'unit: model scale %r dims %r, implementation %r %r' % (
                uc.vec_float(mod[1][0]), uc.vec_dims(mod[1][1]), impl[1], impl[2])
        return None
    if tag == 1:
        want = ERR_CODES[mod[1]]
        if impl[0] == 'err' and impl[1] == want:
            return None
        return 'model: %s, implementation: %r' % (want, impl[:2])
    if tag == 2:
        if impl[0] == 'err' and not impl[1].startswith('UnitError:'):
            return None
        return 'model: an exception that is not a UnitError, implementation: %r' % (impl[:2],)
    return 'harness: bad model output %r' % (mod,)


def evaluate(ctx, cases, results, use_model=True):
    live = [(c, r) for c, r in zip(cases, results) if 'skip' not in r]
    for c, r in zip(cases, results):
        if 'skip' in r:
            k = 'skipped:' + r['skip'].split(':')[0].split('(')[0][:24]
            ctx.hist[k] = ctx.hist.get(k, 0) + 1
        if 'skip' in r and r['skip'].startswith('harness'):
            ctx.tie_break('harness failure: ' + r['skip'], c)
    mods = None
    if use_model and ctx.model_ok():
        env = uc.env_sexp()
        mods = vlib.model_run(FN, [env + [uc.tree_unjson(r['eff'])] for _, r in live])
    for i, (c, r) in enumerate(live):
        eff = uc.tree_unjson(r['eff'])
        impl = r['impl']
        kind = '%s:%s' % (c['kind'], impl[0] if impl[0] == 'ok' else impl[1])
        ctx.count(case_key=r['eff'], nontrivial=uc.depth(eff) >= 3, kind=kind)
        mtag = mods[i][0] if mods is not None else None       # 0 unit, 1 UnitError, 2 other exception, 3 declined
        if mtag is None and r['findings'] and impl[0] == 'err' and ctx.model_ok():      # search stage: ask the model anyway
            try:
                mtag = vlib.model_run(FN, [uc.env_sexp() + [eff]])[0][0]
            except Exception:
                mtag = None
        for what, text in r['findings']:
            ctx.violation('C04 %s: %s' % (what, text),
                          {'tree': r['eff'], 'name': c.get('name'), 'kind': c['kind'], 'impl': impl,
                           'detail': {'kind': what, 'causes': r['causes'], 'err': impl[1] if impl[0] == 'err' else None,
                                      'model': mtag}})
        if mods is not None:
            ctx.corr_cases += 1
            m = mods[i]
            guard = bool(m[-1])
            d = compare(impl, m[:-1])
            if d == 'unsupported':
                ctx.hist['model:declined'] = ctx.hist.get('model:declined', 0) + 1
            elif d is not None:
                ctx.tie_break('correspondence C04 (Model/UnitCalc.v infer vs units.py traverse): ' + d,
                              {'tree': r['eff'], 'impl': impl, 'model': m})
            elif m[0] == 0 and guard and r['findings']:
                ctx.tie_break('C04_infer_sound_partial predicts a sound result (guard holds) but the oracle fails: %s'
                              % (r['findings'][0],), {'tree': r['eff'], 'impl': impl, 'model': m})
            if m[0] == 0:
                ctx.hist['guard:%s' % guard] = ctx.hist.get('guard:%s' % guard, 0) + 1
        if i % 97 == 0:
            ctx.sample({'tree': r['eff'], 'impl': impl[:3], 'kind': c['kind']})


def run(ctx):
    n = 1200 if ctx.tier == 'quick' else 12000
    ctx.rule = ('random SymPy trees (depth <= 5) over + * ** Abs floor ceiling exp log trig Max Mod factorial '
                'Piecewise relations And/Or Derivative, numbers, quantities and variables (with / without initial '
                'value) in 21 units of 12 atoms (volt mV uV kV second ms minute metre cm percent ampere uA and '
                'products), built in a real cellmlmanip Model; plus every single-leaf unit mutation (same dimension '
                'other scale, other dimension); non-trivial = depth >= 3')
    ctx.trusted += ['tools/bridge.py reify/reflect/eval_tree; tools/props/uc_common.py (unit world, SI vectors of the '
                    'atoms asserted against pint get_base_units)',
                    'model magnitudes are exact rationals for binary floats; cases the model declines (irrational / '
                    'symbolic exponent magnitudes) are only run through the oracle']
    ctx.assume += ['exponents are dyadic rationals and non-zero (pint keeps {mV: 0} distinct from dimensionless)',
                   'fsem abstract; psem satisfies psem (s*x) q = s^q * psem x q for s > 0 (proved for Eval.pow_sem)']
    corpus = [{'kind': 'corpus', 'tree': uc.tree_json(c['tree']), 'evaluate': False, 'name': c['name']} for c in CORPUS]
    cases = corpus + stratum_cases() + gen_cases(ctx.seed * 7919 + 11, n)
    evaluate(ctx, cases, vlib.pmap(safe_work, cases))
    if ctx.tie_breaks and not ctx.violations:
        more = gen_cases(ctx.seed * 7919 + 5000011, 10 * n)
        evaluate(ctx, more, vlib.pmap(safe_work, more), use_model=False)


def replay(ctx, case):
    c = {'kind': case.get('kind', 'replay'), 'tree': case['tree'], 'evaluate': False}
    r = work(c)
    if 'skip' in r:
        return 'harness: ' + r['skip']
    evaluate(ctx, [c], [r])
    if ctx.tie_breaks:
        return ctx.tie_breaks[0][0]
    return None


# ---- known findings ----------------------------------------------------------------------------------------
def _d(case):
    return case.get('detail', {})


def unchecked_condition(case):
    """the conditions of a Piecewise are never traversed"""
    return _d(case).get('kind') in ('condition', 'rescale') and 'unchecked_condition' in _d(case).get('causes', [])


def magnitude_exception(case):
    """traverse does float arithmetic on magnitudes (non-zero initial values, quantities): ZeroDivisionError, OverflowError,
    TypeError (complex) escape.  Only where the MODEL of the unchanged code raises too (infer answers "other exception"),
    or declines because a complex magnitude arises (TypeError only): the same exception on an input where the model
    returns a unit or a UnitError is a new violation."""
    d = _d(case)
    if d.get('kind') != 'exception':
        return False
    return (d.get('model') == 2 and d.get('err') in ('ZeroDivisionError', 'Other:OverflowError', 'TypeError')) or \
        (d.get('model') == 3 and d.get('err') in ('ZeroDivisionError', 'Other:OverflowError', 'TypeError') and
         uc.model_may_decline(uc.tree_unjson(case['tree'])))


# repaired in /repo (fix: commits, see build/fixes): F6 compound exponents, scaled dimensionless arguments
KNOWN_PREDICATES = {'unchecked_condition': unchecked_condition,
                    'magnitude_exception': magnitude_exception}


def dev_cases(ctx, n):
    corpus = [{'kind': 'corpus', 'tree': uc.tree_json(c['tree']), 'evaluate': False, 'name': c['name']} for c in CORPUS]
    return corpus + stratum_cases() + gen_cases(ctx.seed * 7919 + 11, n)
