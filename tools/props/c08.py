"""C08 -- any sequence of edits leaves a coherent model; rejected edits change nothing.

correspondence: API-call histories on cellmlmanip.model.Model vs coq/Model/ModelSM.v (extracted)
oracle:         (a) after every edit, every query answers as a freshly built model with the same variables and
                equations; (b) an edit that raises leaves every observable as it was.
"""
import glob
import json
import os

import msm
import vlib

EDITS = ('addvar', 'rmvar', 'addeq', 'rmeq', 'addcmeta', 'transfer')


def fresh_obs(im):
    """observables of a freshly built model holding the same variables and equations, and of the current one"""
    M = im.M
    m = im.model
    f = M.Model('m', cmeta_id=im.case.get('mcmeta'))
    mp = {}
    for v in m.variables():
        mp[v] = f.add_variable(v.name, 'dimensionless', initial_value=v.initial_value, cmeta_id=v.cmeta_id)
    for eq in m.equations:
        import sympy
        f.add_equation(sympy.Eq(eq.lhs.xreplace(mp), eq.rhs.xreplace(mp), evaluate=False))
    return obs(f), obs(m)


def obs(m):
    out = {}

    def q(name, fn):
        try:
            out[name] = fn()
        except Exception as e:
            out[name] = 'raises ' + str(msm.errcode(e))

    def gd(g):
        nodes = sorted([str(n), str(d.get('equation')), str(d.get('variable_type'))] for n, d in g.nodes.items())
        edges = sorted([str(a), str(b)] for a, b in g.edges)
        return [nodes, edges]
    q('equations', lambda: [str(e) for e in m.equations])
    q('definitions', lambda: sorted([v.name, str(m.get_definition(v))] for v in m.variables()))
    q('states', lambda: sorted(v.name for v in m.get_state_variables()))
    q('graph', lambda: gd(m.graph))
    q('number_graph', lambda: gd(m.graph_with_sympy_numbers))
    q('free', lambda: m.get_free_variable().name)
    q('derived', lambda: sorted(v.name for v in m.get_derived_quantities()))
    q('derivatives', lambda: sorted(str(d) for d in m.get_derivatives()))
    return out


def _refs(expr, M):
    """variables and derivatives an expression refers to (a derivative counts as one reference)"""
    import sympy
    out = set()

    def walk(e):
        if isinstance(e, sympy.Derivative):
            out.add(e)
        elif isinstance(e, M.Variable):
            out.add(e)
        else:
            for a in getattr(e, 'args', ()):
                walk(a)
    walk(expr)
    return out


def run_oracle(case):
    """instrumented run: returns list of (what, detail)"""
    bad = []
    try:
        im = msm.Impl(case)
    except Exception as e:
        return [('harness', repr(e))]
    for j, op in enumerate(case['ops']):
        if op[0] not in EDITS:
            im.step(op)
            continue
        if op[0] == 'addeq':
            op = ['addeq', op[1], True]
        before = im.snapshot()
        rdf_before = list(im.model.rdf)
        removed_identity = None
        if op[0] == 'rmvar' and 0 <= op[1] < len(im.objs) and im.live[op[1]]:
            removed_identity = im.objs[op[1]].rdf_identity
        r = im.step(op)
        if r[0] == 'ok':
            # annotation edits are edits too: a successful edit deletes no annotation but those of a removed variable
            gone = msm.annotations_lost(rdf_before, list(im.model.rdf), op, removed_identity)
            if op[0] == 'rmvar' and removed_identity is None:
                gone = [t for t in rdf_before if t not in list(im.model.rdf)]
            if gone:
                bad.append(('%r deleted annotation(s) that do not belong to a removed variable: %s'
                            % (op, [tuple(str(x) for x in t) for t in gone[:3]]), {'op_index': j}))
        elif list(im.model.rdf) != rdf_before and r[1] != 9:
            bad.append(('a rejected edit changed the annotations: %r raised %r' % (op, r[1:]), {'op_index': j}))
        if r[0] == 'err':
            if r[1] == 9:
                continue
            after = im.snapshot()
            if after != before:
                diff = [k for k in before if before[k] != after.get(k)]
                bad.append(('a rejected edit changed the model: %r raised %r, observables changed: %s'
                            % (op, r[1:], ', '.join(diff)), {'op_index': j, 'changed': diff}))
            continue
        # no variable may have two defining equations (assignment and / or ODE)
        seen = {}
        for eq in im.model.equations:
            v = eq.lhs.args[0] if eq.lhs.is_Derivative else eq.lhs
            if id(v) in seen:
                bad.append(('after %r variable %s is defined by two equations of Model.equations: %s and %s'
                            % (op, v, seen[id(v)], eq), {'op_index': j}))
                break
            seen[id(v)] = eq
        # the equations, and with them the definitions and graph nodes, are about variables OF THIS MODEL
        own = {id(w) for w in im.model.variables()}
        for eq in im.model.equations:
            v = eq.lhs.args[0] if eq.lhs.is_Derivative else eq.lhs
            if id(v) not in own:
                bad.append(('after %r Model.equations holds %s, whose left-hand side is not a variable of the model (a %s named %r)'
                            % (op, eq, type(v).__name__, getattr(v, 'name', None)), {'op_index': j}))
                break
        # every state variable is a node of the dependency graph (whatever the order of the equations), and the id registry
        # agrees with the ids the live variables carry (annotation edits are edits of the model too)
        try:
            g = im.model.graph
            for sv in im.model.get_state_variables():
                if sv not in g.nodes:
                    bad.append(('after %r the state variable %s is not a node of the dependency graph' % (op, sv.name), {'op_index': j}))
                    break
        except Exception:
            pass
        # graph and equation list agree: the 'equation' a node carries is the equation of Model.equations whose left-hand
        # side is that node (none for a state or free variable that no assignment defines)
        try:
            g = im.model.graph
            for node, data in g.nodes.items():
                want = [eq for eq in im.model.equations if eq.lhs == node]
                got = data.get('equation')
                if len(want) <= 1 and got is not (want[0] if want else None):
                    bad.append(('after %r the dependency graph says %s is defined by %s, Model.equations says %s'
                                % (op, node, got, want[0] if want else None), {'op_index': j}))
                    break
        except Exception:
            pass
        if len(bad) < 5:
            from props import c13
            c13.check_state(im, bad, j, op)
        # the number-substituted graph has exactly the edges its own equations justify (a derivative is one reference:
        # its state and free variable are not referenced by it)
        try:
            ng = im.model.graph_with_sympy_numbers
            for node, data in ng.nodes.items():
                eqn = data.get('equation')
                if eqn is None:
                    continue
                want = {str(r_) for r_ in _refs(eqn.rhs, im.M) if r_ in ng.nodes}
                got = {str(p_) for p_ in ng.pred[node]}
                if want != got:
                    bad.append(('after %r the number-substituted graph has edges into %s from %s, but its equation %s refers to %s'
                                % (op, node, sorted(got), eqn, sorted(want)), {'op_index': j}))
                    break
        except Exception:
            pass
        try:
            fo, co = fresh_obs(im)
        except Exception as e:
            bad.append(('a fresh model cannot be built from the current variables and equations after %r: %r' % (op, e),
                        {'op_index': j}))
            continue
        if fo != co:
            diff = [k for k in fo if fo[k] != co[k]]
            bad.append(('after %r the model answers differently from a freshly built model with the same content: %s '
                        '(current %r, fresh %r)' % (op, ', '.join(diff), co[diff[0]], fo[diff[0]]),
                        {'op_index': j, 'differs': diff}))
    return bad


def work(case):
    return msm.run_plain(case), run_oracle(case)


def run(ctx):
    n = 150 if ctx.tier == 'quick' else 3000
    ctx.rule = ('random API-call histories (8-25 calls + 8 closing queries) over 4-7 variables and a pool of 6-10 equations '
                '(assignments, ODEs, higher-order / two-variable / non-variable left-hand sides, zero-quantity terms), invalid '
                'calls and cache-populating queries interleaved at random positions; non-trivial = contains an edit that '
                'succeeds after a query; plus histories of convert_variable calls on generated unit-consistent models, '
                'compared with a freshly built model after every conversion (oracle only)')
    ctx.trusted += ['equations enter the model as what the Model code inspects (lhs shape, referenced variables/derivatives, '
                    'atoms) computed by the harness from the real SymPy objects',
                    'networkx DiGraph modelled as node/edge lists']
    cases = load_corpus() + [msm.gen_case(ctx.seed * 100000 + i) for i in range(n)]
    results = vlib.pmap(work, cases)
    evaluate(ctx, cases, results)
    conversion_stratum(ctx, 'C08', 40 if ctx.tier == 'quick' else 600)
    if ctx.tie_breaks and not ctx.violations:
        more = [msm.gen_case(ctx.seed * 100000 + 50000 + i) for i in range(10 * n if ctx.tier == 'quick' else n)]
        for case, bad in zip(more, vlib.pmap(run_oracle, more)):
            ctx.count(case_key=case['ops'], kind='search')
            for what, detail in bad:
                ctx.violation(what, {'case': case, 'detail': detail})


def conversion_stratum(ctx, prop, n):
    """unit conversion is one of the edits the property quantifies over: histories of convert_variable calls on generated
    unit-consistent models (the C06 generator), judged on the implementation by the fresh-model / look-up oracle
    (ModelSM has no conversion operation: this stratum is labelled testing, not correspondence)"""
    import cvlib
    from props import c06
    ccases = [c06.gen_case(ctx.seed * 100000 + 70000 + i) for i in range(n)]
    # in every run: the free variable and the first state converted four times in a row (as inputs, each result converted
    # again), so that the helper variables of a conversion (x_orig_deriv, x_orig_deriv_a, ...) need unique names repeatedly
    for i in range(min(8, n)):
        ccases[i] = dict(ccases[i], convs=[[i % 2, 0, True, True], ['prev', 1, True, True], ['prev', 2, True, True],
                                           ['prev', 3, True, True]])
    for case, bad in zip(ccases, vlib.pmap(cvlib.conversion_coherence, ccases)):
        ctx.count(case_key=(case['spec'], case['convs']), nontrivial=True, kind='conversion-history')
        for who, what, detail in bad:
            if who == 'harness':
                ctx.tie_break('harness error in the conversion stratum: ' + what, case)
            elif who == prop or (prop == 'C10' and who == 'C08'):     # roles / definitions are C10's concern too
                ctx.violation(what, {'conversion_case': case, 'detail': detail})


def evaluate(ctx, cases, results):
    for case, (plain, bad) in zip(cases, results):
        edits = sum(1 for o in case['ops'] if o[0] in EDITS)
        ctx.count(case_key=case['ops'], nontrivial=edits >= 3, kind='ops=%d' % (len(case['ops']) // 10 * 10))
        for what, detail in bad:
            ctx.violation(what, {'case': case, 'detail': detail})
        for j, (op, r) in enumerate(zip(case['ops'], plain.get('results', []))):
            kind = op[0] + (':err%s' % r[1] if r[0] == 'err' else '')
            ctx.hist[kind] = ctx.hist.get(kind, 0) + 1
    msm.correspond(ctx, cases, [p for p, _ in results], 'C08')
    for c in cases[:2]:
        ctx.sample({'base': c['base'], 'pool': c['pool'][:3], 'ops': c['ops'][:10]})


def load_corpus():
    out = []
    for p in sorted(glob.glob(os.path.join(vlib.VERIF, 'corpus', 'C08', '*.json'))):
        out.append(json.load(open(p)))
    return out


def replay(ctx, case):
    if 'conversion_case' in case:
        import cvlib
        bad = [b for b in cvlib.conversion_coherence(case['conversion_case']) if b[0] == 'C08']
        for who, what, detail in bad:
            ctx.violation(what, {'conversion_case': case['conversion_case'], 'detail': detail})
        return bad[0][1] if bad else None
    c = case.get('case', case)
    bad = run_oracle(c)
    for what, detail in bad:
        ctx.violation(what, {'case': c, 'detail': detail})
    if bad:
        return bad[0][0]
    plain = msm.run_plain(c)
    msm.correspond(ctx, [c], [plain], 'C08')
    if ctx.tie_breaks:
        return ctx.tie_breaks[0][0]
    return None


KNOWN_PREDICATES = {}
