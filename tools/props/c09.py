"""C09 -- requested equations come back complete, minimal and in evaluable order.

correspondence: query-heavy histories on cellmlmanip.model.Model vs coq/Model/ModelSM.v (graph, number graph,
                get_equations_for as ordered lists)
oracle:         on the implementation's own answer: closure, minimality, no duplicates, defined-before-use, the
                lexicographic tie-break (independent Kahn sort), identical answer on a second call, and for the unit-stripped
                variant numerically identical right-hand sides, every requested equation present, omissions only where the
                number-substituted right-hand sides no longer refer to them.
"""
import glob
import heapq
import itertools
import json
import os
import random

import msm
import vlib


def deps_of(im, expr):
    """variables / derivatives referenced by expr (derivatives opaque) as sympy objects"""
    out = []

    def walk(e):
        if e.is_Derivative or isinstance(e, im.M.Variable):
            if not any(e == o for o in out):
                out.append(e)
        else:
            for a in e.args:
                walk(a)
    walk(expr)
    return out


def check_answer(im, req, recurse, strip, eqs, bad, j):
    import sympy
    m = im.model
    defs = {}
    for eq in m.equations:
        defs[eq.lhs] = eq
    if any(not hasattr(eq, 'lhs') for eq in eqs):
        bad.append(('get_equations_for returned something that is not an equation: %r'
                    % ([str(eq) for eq in eqs if not hasattr(eq, 'lhs')],), {'op_index': j}))
        return
    lhss = [eq.lhs for eq in eqs]
    if len(set(lhss)) != len(lhss):
        bad.append(('get_equations_for returned an equation twice', {'op_index': j}))
    rhs_of = {eq.lhs: eq.rhs for eq in eqs}
    if not strip:
        for eq in eqs:
            if not any(eq is e0 for e0 in m.equations):
                bad.append(('get_equations_for(strip_units=False) returned an equation that is not in the model', {'op_index': j}))
    # the dependency relation the answer itself exhibits
    def deps(lhs):
        rhs = rhs_of[lhs] if (strip and lhs in rhs_of) else (defs[lhs].rhs if lhs in defs else None)
        if rhs is None:
            return []
        if strip and lhs not in rhs_of:
            dummies = rhs.atoms(im.M.Quantity)
            rhs = rhs.xreplace({d: d.evalf(im.M.FLOAT_PRECISION) for d in dummies})
        return deps_of(im, rhs)
    need = []
    work = list(req)
    seen = []
    while work:
        x = work.pop()
        if any(x == s for s in seen):
            continue
        seen.append(x)
        if recurse or any(x == r for r in req):
            for d in deps(x):
                work.append(d)
    required = [x for x in seen if x in defs]
    got = set(lhss)
    want = set(required)
    if got != want:
        bad.append(('get_equations_for(recurse=%s, strip_units=%s): returned left-hand sides %s, required %s'
                    % (recurse, strip, sorted(map(str, got)), sorted(map(str, want))), {'op_index': j}))
        return
    if recurse:
        pos = {lhs: i for i, lhs in enumerate(lhss)}
        for i, lhs in enumerate(lhss):
            for d in deps(lhs):
                if d in defs and pos.get(d, 10 ** 9) >= i:
                    bad.append(('equation for %s uses %s, which is defined later in the list (or not at all)' % (lhs, d),
                                {'op_index': j}))
    # tie-break: lexicographically least topological order of the whole system by str key, restricted to the answer
    nodes = list(defs)
    for lhs in list(defs):
        for d in (deps_of(im, defs[lhs].rhs)):
            if not any(d == n for n in nodes):
                nodes.append(d)
        if lhs.is_Derivative:
            for d in (lhs.args[0], lhs.args[1][0]):
                if not any(d == n for n in nodes):
                    nodes.append(d)
    gdeps = {n: (deps(n) if n in defs else []) for n in nodes}
    indeg = {n: len(gdeps[n]) for n in nodes}
    heap = [(str(n), i, n) for i, n in enumerate(nodes) if indeg[n] == 0]
    heapq.heapify(heap)
    order = []
    while heap:
        _, _, n = heapq.heappop(heap)
        order.append(n)
        for i, c in enumerate(nodes):
            if any(n == d for d in gdeps[c]):
                indeg[c] -= 1
                if indeg[c] == 0:
                    heapq.heappush(heap, (str(c), i, c))
    if len(order) == len(nodes):
        expect = [n for n in order if n in got]
        if [str(x) for x in expect] != [str(x) for x in lhss]:
            bad.append(('order is not the lexicographically least topological order: got %s, expected %s'
                        % ([str(x) for x in lhss], [str(x) for x in expect]), {'op_index': j}))
    # unit-stripped right-hand sides are numerically the original ones
    if strip:
        rng = random.Random(j)
        for eq in eqs:
            orig = defs[eq.lhs].rhs
            atoms = list(orig.atoms(im.M.Variable)) + list(orig.atoms(sympy.Derivative))
            for _ in range(2):
                # derivative atoms first (xreplace would otherwise rewrite their inner variables)
                env = {}
                for a in orig.atoms(sympy.Derivative):
                    env[a] = sympy.Float(rng.uniform(0.5, 2.0))
                for a in orig.atoms(im.M.Variable):
                    env[a] = sympy.Float(rng.uniform(0.5, 2.0))
                # exact values: SymPy's evalf answers a cancelling sum of Floats with a stand-in such as 2**-31
                env = {k_: sympy.Rational(float(v_)) for k_, v_ in env.items()}
                qenv = {d: sympy.Rational(float(d)) for d in orig.atoms(im.M.Quantity)}
                try:
                    a = complex(orig.xreplace(env).xreplace(qenv).evalf(30))
                    stripped = eq.rhs.xreplace(env)
                    stripped = stripped.xreplace({f: sympy.Rational(float(f)) for f in stripped.atoms(sympy.Float)})
                    b = complex(stripped.evalf(30))
                except Exception:
                    continue
                try:
                    # the error is measured against the size of the terms (sum of the summands' sizes, product of the
                    # factors' sizes), not against 1: a tiny constant such as 1.6e-19 must survive the substitution
                    differs = abs(a - b) > 1e-9 * expr_scale(orig, {**env, **qenv})
                except OverflowError:       # values beyond the double range: compare as they are
                    differs = a != b
                if differs:
                    bad.append(('unit-stripped right-hand side of %s evaluates to %r, the original to %r' % (eq.lhs, b, a),
                                {'op_index': j}))
                    break
            if eq.rhs.atoms(im.M.Quantity):
                bad.append(('unit-stripped equation for %s still contains a Quantity' % eq.lhs, {'op_index': j}))


def expr_scale(e, val):
    """size of an expression at the leaf values `val`: |value| for leaves and functions, sum over summands, product over
    factors (computed on the ORIGINAL structure: numbers that cancel still count with their size)"""
    if e in val:
        return abs(complex(val[e]))
    if e.is_Add:
        return sum(expr_scale(a, val) for a in e.args)
    if e.is_Mul:
        out = 1.0
        for a in e.args:
            out *= expr_scale(a, val)
        return out
    if e.is_Pow and e.exp.is_number:
        try:
            return expr_scale(e.base, val) ** float(e.exp)
        except Exception:
            pass
    try:
        return abs(complex(e.xreplace(val).evalf(30)))
    except Exception:
        return 1.0


def run_oracle(case):
    bad = []
    try:
        im = msm.Impl(case)
    except Exception as e:
        return [('harness', repr(e))]
    for j, op in enumerate(case['ops']):
        if op[0] != 'q_eqsfor':
            im.step(op)
            continue
        if not all(all(0 <= i < len(im.objs) and im.live[i] for i in r[1:]) for r in op[1]):
            continue
        req = [im.mkref(r) for r in op[1]]
        try:
            eqs = im.model.get_equations_for(req, recurse=bool(op[2]), strip_units=bool(op[3]))
        except Exception as e:
            if op[3]:
                # the unit-stripped variant answers every request the other variant answers
                try:
                    im.model.get_equations_for(req, recurse=bool(op[2]), strip_units=False)
                    bad.append(('get_equations_for(%s, recurse=%s, strip_units=True) raises %r although the same request '
                                'with strip_units=False is answered' % ([str(x) for x in req], bool(op[2]), e), {'op_index': j}))
                except Exception:
                    pass
            continue
        try:
            again = im.model.get_equations_for(req, recurse=bool(op[2]), strip_units=bool(op[3]))
            if [str(e) for e in again] != [str(e) for e in eqs]:
                bad.append(('a second identical call returned a different list', {'op_index': j}))
        except Exception as e:
            bad.append(('a second identical call raised %r' % (e,), {'op_index': j}))
        if len(bad) < 5:
            check_answer(im, req, bool(op[2]), bool(op[3]), eqs, bad, j)
    return bad


def work(case):
    return msm.run_plain(case), run_oracle(case)


def add_subset_queries(case, rng, exhaustive):
    """all request subsets (<= 6 variables) x both recursion modes x both number representations"""
    nb = len(case['base'])
    tvar = [i for i, b in enumerate(case['base']) if b[0] == 'time']
    t = tvar[0] if tvar else nb - 1
    refs = []
    for i in range(nb):
        refs.append(['v', i])
    for e in case['pool']:
        if e['lhs'][0] == 'd' and e['lhs'][3] == 1 and ['d', e['lhs'][1], e['lhs'][2]] not in refs:
            refs.append(['d', e['lhs'][1], e['lhs'][2]])
    if exhaustive and len(refs) <= 6:
        subsets = [list(c) for k in range(1, len(refs) + 1) for c in itertools.combinations(refs, k)]
    else:
        subsets = [rng.sample(refs, rng.randint(1, min(4, len(refs)))) for _ in range(10)] + [[r] for r in refs]
    subsets.append([])       # nothing requested: nothing returned
    for sub in subsets:
        for rec in (True, False):
            for strip in (False, True):
                case['ops'].append(['q_eqsfor', sub, rec, strip])
    return case


def gen(seed, tier):
    rng = random.Random(seed * 7 + 1)
    case = msm.gen_case(seed, 'query')
    return add_subset_queries(case, rng, tier == 'thorough' or rng.random() < 0.3)


def run(ctx):
    n = 120 if ctx.tier == 'quick' else 2000
    ctx.rule = ('random equation systems over 7-12 variables (chains, diamonds, shared sub-terms, derivative atoms on right-hand '
                'sides, zero-quantity terms that vanish after number substitution, occasional cycles and missing definitions), '
                'edited by a short history; request sets: all subsets when <= 6 candidates, else 10 random + all singletons; both '
                'recursion modes; both number representations; non-trivial = at least 5 successful get_equations_for answers')
    ctx.trusted += ['networkx lexicographical_topological_sort / ancestors modelled at specification level (lex_topo, ancestors)',
                    'SymPy re-evaluation after number substitution enters the model as data (refs_num) computed from the real objects']
    cases = load_corpus() + [gen(ctx.seed * 100000 + i, ctx.tier) for i in range(n)]
    results = vlib.pmap(work, cases)
    for case, (plain, bad) in zip(cases, results):
        okq = sum(1 for op, r in zip(case['ops'], plain.get('results', [])) if op[0] == 'q_eqsfor' and r[0] == 'ok')
        ctx.count(case_key=(case['base'], case['pool'], case['ops'][:30]), nontrivial=okq >= 5, kind='answers=%d' % min(okq // 10 * 10, 50))
        for what, detail in bad:
            ctx.violation(what, {'case': case, 'detail': detail})
        for op, r in zip(case['ops'], plain.get('results', [])):
            if op[0] == 'q_eqsfor':
                kind = 'eqsfor:%s:%s' % ('rec' if op[2] else 'direct', 'strip' if op[3] else 'units') + (':err%s' % r[1] if r[0] == 'err' else '')
                ctx.hist[kind] = ctx.hist.get(kind, 0) + 1
    msm.correspond(ctx, cases, [p for p, _ in results], 'C09')
    for c in cases[:2]:
        ctx.sample({'base': c['base'], 'pool': c['pool'][:4], 'ops': c['ops'][:8], 'n_ops': len(c['ops'])})
    if ctx.tie_breaks and not ctx.violations:
        more = [gen(ctx.seed * 100000 + 50000 + i, ctx.tier) for i in range(8 * n if ctx.tier == 'quick' else n)]
        for case, bad in zip(more, vlib.pmap(run_oracle, more)):
            ctx.count(case_key=(case['base'], case['pool']), kind='search')
            for what, detail in bad:
                ctx.violation(what, {'case': case, 'detail': detail})


def load_corpus():
    out = []
    for p in sorted(glob.glob(os.path.join(vlib.VERIF, 'corpus', 'C09', '*.json'))):
        out.append(json.load(open(p)))
    return out


def replay(ctx, case):
    c = case.get('case', case)
    bad = run_oracle(c)
    if bad:
        return bad[0][0]
    msm.correspond(ctx, [c], [msm.run_plain(c)], 'C09')
    return ctx.tie_breaks[0][0] if ctx.tie_breaks else None


KNOWN_PREDICATES = {}
