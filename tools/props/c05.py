"""C05 -- converting an expression to other units preserves its physical value.

correspondence: UnitCalculator.convert_expression_recursively (expression, flag, units / UnitError subclass)
                vs the extracted Model/UnitCalc.v convert on random trees x targets (none, right dimension in
                other scales, wrong dimension) and on single-leaf unit mutations; outputs compared by value at
                sample points, flags and units exactly
oracle:         on the implementation alone: value(output) x scale(target) = SI value(input); evaluate_units of
                the output is equivalent to the returned units; returned units are the target; flag False =>
                the very same object; wrong dimension => UnitError; only UnitError subclasses are raised; the
                public wrappers agree with the helper
"""
import random
import zlib

import vlib
from props import uc_common as uc
from props.c04 import ERR_CODES

FN = 50
GEN_DEPS = ()
F = uc.F

Q = lambda i, v, u=0: [2, i, F(v), u]   # noqa: E731
# fixed witnesses (variable 3*u+j has unit index u; unit 2 = mV, 1 = volt, 5 = ms)
CORPUS = [
    {'name': 'F7 floor(a[mV]) to volt', 'tree': [7, 3, [3, 6]], 'target': {0: 1}},
    {'name': 'F7 ceiling(a[mV]) + b[volt]', 'tree': [4, [3, 3], [7, 4, [3, 6]]], 'target': None},
    {'name': 'a[mV] + b[volt]', 'tree': [4, [3, 6], [3, 3]], 'target': None},
    {'name': 'a[mV]*a, unevaluated, to mV**2', 'tree': [5, [3, 6], [3, 6]], 'target': {1: 2}},
    {'name': 'a**(_1 + _2) to volt**3', 'tree': [6, [3, 6], [4, Q(1, 1), Q(2, 2)]], 'target': {0: 3}},
    {'name': '(repaired) r[radian] + k[dimensionless]', 'tree': [4, [3, 39], [3, 0]], 'target': None},
    {'name': '(repaired) a[mV] ** _2[one]', 'tree': [6, [3, 6], Q(1, 2, 17)], 'target': None},
    {'name': 'sin(x[deg]) + k', 'tree': [4, [7, 10, [3, 45]], [3, 0]], 'target': None},
    {'name': 'shared (x + y): factor, then relation side: Piecewise((_2*(x+y), T[s] < x+y), (_0[ms], True))',
     'tree': [13, [[5, Q(1, 2), [4, [3, 15], [3, 16]]], [9, 2, [3, 12], [4, [3, 15], [3, 16]]]], [Q(2, 0, 5), [11]]],
     'target': None},
    {'name': 'shared (x + y): exp argument, then sum operand: exp((x+y)/_2[ms]) * (T[s] + (x+y))',
     'tree': [5, [7, 0, [5, [4, [3, 15], [3, 16]], [6, Q(1, 2, 5), [0, 0, F(-1)]]]], [4, [3, 12], [4, [3, 15], [3, 16]]]],
     'target': None},
    {'name': 'shared (x + y): sum operand, then exp argument',
     'tree': [5, [4, [3, 12], [4, [3, 15], [3, 16]]], [7, 0, [5, [4, [3, 15], [3, 16]], [6, Q(1, 2, 5), [0, 0, F(-1)]]]]],
     'target': None},
    {'name': 'SymPy Piecewise recursion', 'target': None,
     'tree': [13, [[7, 43, Q(0, 2)], [9, 0, [4, [3, 30], [5, [0, 0, F(-1)], [3, 29]]], [4, Q(1, F(1, 2), 9), [3, 27]]]],
              [[3, 0], [11]]]},
]


def sympy_rebuild_error(cls, msg):
    """exceptions SymPy raises while expr.func(*new_args) re-evaluates a rebuilt node"""
    return cls == 'ValueError' and 'is not comparable' in msg


def tjson(n):
    return None if n is None else sorted([k, '%d/%d' % (F(v).numerator, F(v).denominator)] for k, v in n.items())


def tunjson(t):
    if t is None:
        return None
    return {k: F(int(v.split('/')[0]), int(v.split('/')[1])) for k, v in t}


def targets_for(rng, n):
    """None, the natural unit, the natural unit in other scales, a unit of another dimension"""
    out = [None, dict(n)]
    for _ in range(2):
        m = {}
        for j, e in n.items():
            alts = [k for k in range(len(uc.ATOMS)) if uc.vdims(uc.ATOMS[k][2]) == uc.vdims(uc.ATOMS[j][2])]
            m = uc.nmul(m, {rng.choice(alts): e})
        if not n:
            m = rng.choice([{}, {uc.ATOM_ID['percent']: F(1)}, uc.nu(mV=1, volt=-1)])
        out.append(m)
    extra = rng.choice([uc.nu(second=1), uc.nu(mV=1), uc.nu(metre=-1), uc.nu(ampere=1)])
    out.append(uc.nmul(n, extra))
    return out


def stratum_cases():
    """Deterministic stratum (every run, independent of the seed): sums all of whose leaves are already in one unit u,
    with terms that are products / quotients / powers / exp of such leaves or bare numbers, converted to u and to None"""
    cases = []
    for name, tree, u in uc.same_unit_sums():
        for tname, t in (('to its own unit', dict(uc.UTAB[u])), ('to None', None)):
            if tree[0] == 9 and t is not None:
                continue        # a relation can only be asked for dimensionless
            cases.append({'kind': 'stratum', 'tree': uc.tree_json(tree), 'target': tjson(t), 'evaluate': False,
                          'name': '%s %s' % (name, tname)})
    return cases


def gen_cases(seed, n_trees):
    rng = random.Random(seed)
    cases = []
    for i in range(n_trees):
        g = uc.Gen(rng, strict=rng.choice([0.3, 0.5, 0.8, 0.95]), max_depth=5)
        if i % 5 == 4:       # one compound subterm shared between different unit contexts
            tree, nat = uc.shared_tree(g)
            ev = False
        else:
            tree, nat = g.any(rng.choice([2, 3, 3, 4, 4, 5]))
            ev = rng.random() < 0.4
        if any(sub[0] == 9 and sub[2][0] == 0 and sub[3][0] == 0 for sub in uc.subtrees(tree)):
            # a relation between two plain number literals (3 < 0): in a model every number is a Quantity (a symbol), and
            # SymPy re-evaluating such a constant condition while a parent node is rebuilt raises errors of its own
            continue
        tj = uc.tree_json(tree)
        tgs = targets_for(rng, nat)
        for k, t in enumerate(tgs):
            cases.append({'kind': ['none', 'natural', 'rescaled', 'rescaled', 'wrong'][k], 'tree': tj,
                          'target': tjson(t), 'evaluate': ev, 'seed': seed, 'i': i})
        for kind, m in uc.mutations(rng, tree):
            if any(sub[0] == 9 and sub[2][0] == 0 and sub[3][0] == 0 for sub in uc.subtrees(m)):
                continue
            cases.append({'kind': 'mut-' + kind, 'tree': uc.tree_json(m), 'target': tjson(rng.choice(tgs[:4])),
                          'evaluate': ev, 'seed': seed, 'i': i})
    return cases


# ---- implementation + oracle (worker) ------------------------------------------------------------------
def _eval(fn, tree, vals, dv):
    try:
        return fn(tree, vals, dv)
    except (uc.bridge.Undefined, OverflowError, ZeroDivisionError, ValueError):
        return None


def count_qty(t):
    return sum(1 for s in uc.subtrees(t) if s[0] == 2)


def value_findings(eff, out, scale, seed):
    rng = random.Random(seed)
    res = []
    pts = []
    for _ in range(3):
        vals, dv = uc.valuation(rng)
        if not uc.stable_point(eff, vals, dv) or not uc.stable_point(out, vals, dv):
            pts.append('skip')
            continue
        s = uc.try_eval(uc.eval_si, eff, vals, dv)
        n = uc.try_eval(uc.eval_n, out, vals, dv)
        pts.append(n if s is not None and uc.try_eval(uc.eval_n, eff, vals, dv) is not None else 'skip')
        if res or s is None:
            continue        # where the input has no real value there is nothing to preserve (SymPy may even extend
            #                 the domain when it re-evaluates: (x**0.5)**2 -> x)
        if n is None:
            res.append(('value', 'the converted expression has no value where the input has: SI value %r' % (s,)))
        elif isinstance(n, bool) or isinstance(s, bool):
            if n != s:
                res.append(('value', 'converted condition is %r, the input in SI is %r' % (n, s)))
        elif not uc.same_value(s / scale, n):
            res.append(('value', 'converted value %r x scale %r = %r but the input is %r in SI'
                        % (n, scale, n * scale, s)))
    return res, pts



def units_equivalent(W, U, a, b):
    """same dimensions and same SI scale, with a tolerance on the (floating-point) exponents: UnitStore.is_equivalent compares
    the exponents exactly, and pint accumulates them in floating point (x**2.01 cubed: 6.03 vs 6.029999999999999)"""
    if U.is_equivalent(a, b):
        return True
    (sa, da), (sb, db) = W.unit_obs(a), W.unit_obs(b)
    keys = (set(da) | set(db)) - {'radian'}       # radian is a base unit without a dimension
    return uc.close(sa, sb, 1e-9) and all(abs(da.get(k, 0) - db.get(k, 0)) < 1e-9 for k in keys)


def work(case):
    W = uc.world()
    U = W.store
    tree = uc.tree_unjson(case['tree'])
    target = tunjson(case['target'])
    try:
        expr = W.build(tree, evaluate=case.get('evaluate', False))
        R = W.reifier()
        eff = R.reify(expr)
    except Exception as e:
        return {'skip': repr(e)[:200]}
    to = None if target is None else W.pint_unit(target)
    res = {'eff': uc.tree_json(eff)}
    findings = []
    seed = zlib.crc32(repr((case['tree'], case['target'])).encode())
    try:
        new_expr, flag, units = U._calculator.convert_expression_recursively(expr, to)
        ok = True
    except Exception as e:
        ok = False
        res['impl'] = ['err', vlib.err_class(e), str(e)[:120]]
    if ok:
        try:
            out = R.reify(new_expr)
            # the same tree with the conversion quantities' units tabulated (index NU + k), for the model's infer
            extra = []

            def ui(u):
                if id(u) in W.unit_index:
                    return W.unit_index[id(u)]
                extra.append(W.nunit_of(u))
                return uc.NU + len(extra) - 1
            res['out_units'] = uc.tree_json(uc.bridge.Reifier(lambda x: W.var_index[id(x)], ui).reify(new_expr))
            res['extra_units'] = [tjson(n) for n in extra]
        except uc.bridge.Unsupported as e:      # SymPy re-evaluation left the real numbers ((-1)**0.5 -> I)
            return {'skip': 'result not reifiable: ' + repr(e)[:100]}
        sc, dims = W.unit_obs(units)
        if not 1e-250 < sc < 1e250:
            return {'skip': 'scale out of float range'}
        res['impl'] = ['ok', bool(flag), sc, dims]
        res['out'] = uc.tree_json(out)
        res['same'] = new_expr is expr
    if res['impl'][0] == 'ok':
        f, pts = value_findings(eff, out, sc, seed)
        findings += f
        res['pts'] = pts
        if not flag and new_expr is not expr:
            findings.append(('identity', 'was_converted is False but a different object is returned%s'
                             % ('' if new_expr != expr else ' (equal, not identical)')))
        if to is not None and not (units == to):
            findings.append(('units', 'returned units %s are not the requested %s' % (units, to)))
        # strict inference of the result
        parts = list(new_expr.args) if new_expr.is_Relational else ([] if new_expr.is_Boolean else [new_expr])
        if new_expr == 0:
            parts = []      # SymPy cancelled everything (x - x): 0 has the same value in every unit
        for p in parts:
            try:
                u2 = U.evaluate_units(p)
                if not new_expr.is_Relational and not units_equivalent(W, U, u2, units):
                    findings.append(('strict', 'evaluate_units(result) = %s, not equivalent to the returned %s' % (
                        U.format(u2), U.format(units))))
            except Exception as e:
                if vlib.err_class(e) == 'UnitError:UnexpectedMathUnitsError':
                    res['strict_unsupported'] = True     # Max / Min / Mod ...: strict inference has no rule at all
                else:
                    findings.append(('strict', 'evaluate_units(result) raises %s' % vlib.err_class(e)))
                    res['strict_err'] = vlib.err_class(e)
                break
        if new_expr.is_Relational and len(findings) == 0:
            try:
                if not units_equivalent(W, U, U.evaluate_units(parts[0]), U.evaluate_units(parts[1])):
                    findings.append(('strict', 'sides of the converted relation are not in equivalent units'))
            except Exception:
                pass
        # a wrong dimension must be refused
        try:
            uin = W.unit_obs(U.evaluate_units(expr))
            if to is not None and {k: v for k, v in uin[1].items() if k != 'radian'} != \
                    {k: v for k, v in dims.items() if k != 'radian'}:
                findings.append(('dimension', 'input has dimensions %r, converted to %r without error' % (uin[1], dims)))
        except Exception:
            pass
        # the public wrappers
        try:
            pub = U.convert_expression_recursively(expr, to)
            if uc.renumber(W.reifier().reify(pub)) != uc.renumber(out):
                findings.append(('wrapper', 'UnitStore.convert_expression_recursively differs from the helper'))
            if to is None:
                u3, e3 = U.evaluate_units_and_fix(expr)
                if not (u3 == units) or uc.renumber(W.reifier().reify(e3)) != uc.renumber(out):
                    findings.append(('wrapper', 'evaluate_units_and_fix differs from the helper'))
        except Exception as e:
            findings.append(('wrapper', 'public wrapper raised %s' % vlib.err_class(e)))
    else:
        if not res['impl'][1].startswith('UnitError:'):
            findings.append(('exception', 'convert_expression_recursively raised %s: %s' % (res['impl'][1], res['impl'][2])))
        try:
            U.convert_expression_recursively(expr, to)
            findings.append(('wrapper', 'the public wrapper succeeds where the helper raises'))
        except Exception as e:
            if vlib.err_class(e) != res['impl'][1]:
                findings.append(('wrapper', 'public wrapper raises %s, helper %s' % (vlib.err_class(e), res['impl'][1])))
    res['findings'] = findings
    return res


def safe_work(case):
    try:
        return vlib.with_alarm(20, work, case)
    except vlib.Timeout:
        return {'skip': 'timeout (SymPy)'}
    except Exception as e:
        return {'skip': 'harness: ' + repr(e)[:300]}


# ---- comparison -------------------------------------------------------------------------------------------
def compare(r, mod, seed):
    impl = r['impl']
    tag = mod[0]
    if tag == 3:
        return 'unsupported'
    if tag == 0:
        if impl[0] == 'err' and sympy_rebuild_error(impl[1], impl[2]):
            return 'unsupported'     # SymPy's re-evaluation of the rebuilt node fails (known finding)
        if impl[0] != 'ok':
            return 'model: converts, implementation raised %s' % impl[1]
        if bool(mod[2]) != impl[1]:
            return 'was_converted: model %r, implementation %r' % (bool(mod[2]), impl[1])
        if not uc.same_unit_obs(mod[3], (impl[2], impl[3])):
            return 'units: model scale %r dims %r, implementation %r %r' % (
                uc.vec_float(mod[3][0]), uc.vec_dims(mod[3][1]), impl[2], impl[3])
        mt = uc.tree_of_sexp(mod[1])
        rng = random.Random(seed)
        for k in range(3):
            vals, dv = uc.valuation(rng)
            a = _eval(uc.eval_n, mt, vals, dv)
            b = r['pts'][k]
            if b == 'skip' or (a is None and b is None):
                continue
            if a is None or b is None or not uc.same_value(a, b):
                return 'converted expression: model value %r, implementation value %r' % (a, b)
        return None
    if tag == 1:
        want = ERR_CODES[mod[1]]
        if impl[0] == 'err' and impl[1] == want:
            return None
        return 'model: %s, implementation: %r' % (want, impl[:2])
    if tag == 2:
        if impl[0] == 'err' and not impl[1].startswith('UnitError:'):
            return None
        return 'model: an exception that is not a UnitError, implementation: %r' % (impl[:2],)
    return 'harness: bad model output %r' % (mod,)


def evaluate(ctx, cases, results, use_model=True):
    live = [(c, r) for c, r in zip(cases, results) if 'skip' not in r]
    for c, r in zip(cases, results):
        if 'skip' in r:
            k = 'skipped:' + r['skip'].split(':')[0].split('(')[0][:24]
            ctx.hist[k] = ctx.hist.get(k, 0) + 1
        if 'skip' in r and r['skip'].startswith('harness'):
            ctx.tie_break('harness failure: ' + r['skip'], c)
    mods = None
    if use_model and ctx.model_ok():
        env = uc.env_sexp()
        args = []
        for c, r in live:
            t = tunjson(c['target'])
            args.append(env + [uc.tree_unjson(r['eff']), [] if t is None else [uc.vec_sexp(t)]])
        mods = vlib.model_run(FN, args)
    for i, (c, r) in enumerate(live):
        eff = uc.tree_unjson(r['eff'])
        impl = r['impl']
        kind = '%s:%s' % (c['kind'], ('converted' if impl[1] else 'unchanged') if impl[0] == 'ok' else impl[1])
        ctx.count(case_key=(r['eff'], c['target']), nontrivial=uc.depth(eff) >= 3, kind=kind)
        infer_tag = None
        if r.get('strict_err') and ctx.model_ok() and r.get('out_units') is not None:
            # what does the model of the unchanged traverse answer on this very output?  (2 = other exception)
            try:
                extra = [tunjson(n) for n in r['extra_units']]
                infer_tag = vlib.model_run(40, [uc.env_sexp(extra) + [uc.tree_unjson(r['out_units'])]])[0][0]
            except Exception:
                infer_tag = None
        for what, text in r['findings']:
            ctx.violation('C05 %s: %s' % (what, text),
                          {'tree': r['eff'], 'target': c['target'], 'name': c.get('name'), 'kind': c['kind'],
                           'impl': impl, 'out': r.get('out'), 'detail': {'kind': what, 'err': r.get('strict_err') or (impl[1] if impl[0] == 'err' else None),
                                      'msg': impl[2] if impl[0] == 'err' else None, 'infer_model': infer_tag}})
        if mods is not None:
            ctx.corr_cases += 1
            m = mods[i]
            homog = bool(m[-1])
            seed = zlib.crc32(repr((c['tree'], c['target'])).encode())
            d = compare(r, m[:-1], seed)
            if d == 'unsupported':
                ctx.hist['model:declined'] = ctx.hist.get('model:declined', 0) + 1
            elif d is not None:
                ctx.tie_break('correspondence C05 (Model/UnitCalc.v convert vs units.py convert_expression_recursively): '
                              + d, {'tree': r['eff'], 'target': c['target'], 'impl': impl, 'out': r.get('out'), 'model': m})
            elif m[0] == 0 and homog and any(w in ('value', 'units') for w, _ in r['findings']):
                ctx.tie_break('C05_convert_preserves_value predicts value preservation (homog holds) but the oracle '
                              'fails: %s' % (r['findings'][0],), {'tree': r['eff'], 'target': c['target'], 'model': m})
            if m[0] == 0:
                ctx.hist['homog:%s' % homog] = ctx.hist.get('homog:%s' % homog, 0) + 1
        if i % 211 == 0:
            ctx.sample({'tree': r['eff'], 'target': c['target'], 'impl': impl[:4], 'out': r.get('out')})


def corpus_cases():
    return [{'kind': 'corpus', 'tree': uc.tree_json(c['tree']), 'target': tjson(c['target']), 'evaluate': False,
             'name': c['name']} for c in CORPUS]


def run(ctx):
    n = 700 if ctx.tier == 'quick' else 8000
    ctx.rule = ('the C04 generator (random SymPy trees, depth <= 5, 21 units of 12 atoms in a real cellmlmanip Model, '
                'siblings of sums/piecewise/relations in the same dimension and mostly different scales) x targets '
                '{None, natural unit, two rescaled variants, a unit of another dimension}, plus every single-leaf unit '
                'mutation with one target; non-trivial = depth >= 3')
    ctx.trusted += ['tools/bridge.py reify/reflect/eval_tree; tools/props/uc_common.py (unit world, SI vectors of the '
                    'atoms asserted against pint get_base_units)',
                    'math.isclose(cf, 1.0) modelled as cf = 1 (generated scale ratios are exact powers of 2, 3, 5)']
    ctx.assume += ['exponents are dyadic rationals and non-zero (pint keeps {mV: 0} distinct from dimensionless)',
                   'fsem abstract; psem satisfies psem (s*x) q = s^q * psem x q for s > 0 (proved for Eval.pow_sem)']
    cases = corpus_cases() + stratum_cases() + gen_cases(ctx.seed * 6007 + 17, n)
    evaluate(ctx, cases, vlib.pmap(safe_work, cases))
    if ctx.tie_breaks and not ctx.violations:
        more = gen_cases(ctx.seed * 6007 + 7000003, 10 * n)
        evaluate(ctx, more, vlib.pmap(safe_work, more), use_model=False)


def dev_cases(ctx, n):
    return corpus_cases() + stratum_cases() + gen_cases(ctx.seed * 6007 + 17, n)


def replay(ctx, case):
    c = {'kind': case.get('kind', 'replay'), 'tree': case['tree'], 'target': case.get('target'), 'evaluate': False}
    r = work(c)
    if 'skip' in r:
        return 'harness: ' + r['skip']
    evaluate(ctx, [c], [r])
    if ctx.tie_breaks:
        return ctx.tie_breaks[0][0]
    return None


# ---- known findings ----------------------------------------------------------------------------------------
def _kind(case):
    return case.get('detail', {}).get('kind')


def floor_ceiling_converted(case):
    """F7: the conversion is pushed inside floor / ceiling"""
    return _kind(case) == 'value' and uc.has_fn(uc.tree_unjson(case['tree']), (3, 4))


def result_magnitude_exception(case):
    """strict inference of the result raises a Python arithmetic exception (C04 magnitude-arithmetic-exception) -- only
    where the MODEL of the unchanged traverse raises on that very result too (infer answers "other exception"), or
    declines for a structural reason visible in the tree (uc.model_may_decline: floor / ceiling, pi / E, an exponent
    that is a function or not an integer -- magnitudes it does not track)"""
    d = case.get('detail', {})
    if _kind(case) != 'strict':
        return False
    return (d.get('infer_model') == 2 and d.get('err') in ('ZeroDivisionError', 'Other:OverflowError', 'TypeError')) or \
        (d.get('infer_model') == 3 and d.get('err') in ('ZeroDivisionError', 'Other:OverflowError', 'TypeError') and
         uc.model_may_decline(uc.tree_unjson(case.get('out') or case['tree'])))


def minmax_rebuild_not_comparable(case):
    """expr.func(*new_args) re-evaluates a rebuilt Min / Max with SymPy, which raises "is not comparable" for
    operands that are not real (log of a negative number ...)"""
    d = case.get('detail', {})
    return _kind(case) == 'exception' and sympy_rebuild_error(d.get('err'), d.get('msg') or '') and \
        uc.has_fn(uc.tree_unjson(case['tree']), (40, 41))


# repaired in /repo (fix: commits, see build/fixes): mul-rebuilt-without-conversion, piecewise-rebuild-recursion,
# result-fails-strict-inference-F6
KNOWN_PREDICATES = {'floor_ceiling_converted': floor_ceiling_converted,
                    'minmax_rebuild_not_comparable': minmax_rebuild_not_comparable,
                    'result_magnitude_exception': result_magnitude_exception,
                    }
