"""C07 -- conversion factors obey unit algebra.

correspondence: operation lists on UnitStore (implementation) vs Model/UStore.v (extracted)
oracle:         the algebraic laws checked directly on the implementation's numbers
"""
import math
import os
import re
import sys
from decimal import Decimal
from fractions import Fraction

import vlib

FN = 7
GEN_DEPS = ('builtins',)

NUMS = ['1000', '0.001', '1e-6', '1e3', '2.5', '60', '3600', '0.01', '100', '7', '0.5', '1.5', '12',
        '1e-9', '1e-12', '1e6', '2', '3', '0.2', '96', '1.1', '1e-15', '1e-18', '1e15', '1e-24', '1e-21', '1e18']
EXPS = ['2', '3', '-1', '-2', '0.5', '1.5', '-0.5', '1']
BUILTINS = ['ampere', 'candela', 'kelvin', 'kilogram', 'meter', 'mole', 'second', 'becquerel', 'coulomb',
            'farad', 'gray', 'henry', 'hertz', 'joule', 'lumen', 'lux', 'newton', 'ohm', 'pascal', 'radian',
            'siemens', 'sievert', 'steradian', 'tesla', 'volt', 'watt', 'weber', 'katal', 'dimensionless',
            'gram', 'liter', 'metre', 'litre']
NAMES = ['ua', 'ub', 'uc', 'ud', 'ue', 'uf', 'ug', 'uh', 'ui', 'uj', 'mV', 'ms', 'pc', 'half', '_u', 'e', 'pi',
         'metre_x', 'kilometre', 'store0_x', 'store1_u', 'x1', 'A_per_F', 'u_2', 'celsius', 'volt']

GEN_NAMES = {-8: 'radian', -1: 'meter', -2: 'kilogram', -3: 'second', -4: 'ampere', -5: 'kelvin', -6: 'mole', -7: 'candela'}


# ---- case generation -----------------------------------------------------------------------
def gen_uexpr(rng, known, depth=0):
    """random definition AST over the names in `known`: ('ref',n) ('num',s) ('mul',a,b) ('div',a,b) ('pow',a,s)"""
    r = rng.random()
    if depth >= 3 or r < 0.35:
        if rng.random() < 0.8 or depth == 0:
            return ('ref', rng.choice(known))
        return ('num', rng.choice(NUMS))
    if r < 0.6:
        return ('mul', gen_uexpr(rng, known, depth + 1),
                gen_uexpr(rng, known, depth + 1) if rng.random() < 0.6 else ('num', rng.choice(NUMS)))
    if r < 0.8:
        return ('div', gen_uexpr(rng, known, depth + 1),
                gen_uexpr(rng, known, depth + 1) if rng.random() < 0.6 else ('num', rng.choice(NUMS)))
    return ('pow', gen_uexpr(rng, known, depth + 1), rng.choice(EXPS))


def has_ref(e):
    if e[0] in ('ref', 'qref'):
        return True
    if e[0] == 'num':
        return False
    return has_ref(e[1]) or (e[0] in ('mul', 'div') and has_ref(e[2]))


def uexpr_str(e, stores=None):
    t = e[0]
    if t == 'ref':
        return e[1]
    if t == 'qref':
        # the registry-level (qualified) name of a unit of ANOTHER store, as str(unit) gives it: unknown in this store
        return str(stores[e[1]].get_unit(e[2])) if stores is not None else 'qualified_name_of_store%d_%s' % (e[1], e[2])
    if t == 'num':
        return e[1]
    if t == 'mul':
        return '(%s * %s)' % (uexpr_str(e[1], stores), uexpr_str(e[2], stores))
    if t == 'div':
        return '(%s / %s)' % (uexpr_str(e[1], stores), uexpr_str(e[2], stores))
    return '((%s) ** %s)' % (uexpr_str(e[1], stores), '(%s)' % e[2] if '/' in e[2] else e[2])


def frac(s):
    return Fraction(s) if '/' in str(s) else Fraction(Decimal(s))


def uexpr_sexp(e):
    t = e[0]
    if t == 'ref':
        return [0, e[1]]
    if t == 'qref':
        return [0, 'qualified_name_of_another_store']      # a name no store defines: the model answers "undefined"
    if t == 'num':
        return [1, frac(e[1])]
    if t == 'mul':
        return [2, uexpr_sexp(e[1]), uexpr_sexp(e[2])]
    if t == 'div':
        return [3, uexpr_sexp(e[1]), uexpr_sexp(e[2])]
    return [4, uexpr_sexp(e[1]), frac(e[2])]


def gen_uterm(rng, avail, depth=0):
    """Unit objects the caller builds: ('get', store, name) ('mul',a,b) ('div',a,b) ('pow',a,s)"""
    r = rng.random()
    if depth >= 2 or r < 0.7:
        s, n = rng.choice(avail)
        return ('get', s, n)
    if r < 0.82:
        return ('mul', gen_uterm(rng, avail, depth + 1), gen_uterm(rng, avail, depth + 1))
    if r < 0.92:
        return ('div', gen_uterm(rng, avail, depth + 1), gen_uterm(rng, avail, depth + 1))
    return ('pow', gen_uterm(rng, avail, depth + 1), rng.choice(EXPS))


def uterm_sexp(t):
    k = t[0]
    if k == 'get':
        return [0, t[1], t[2]]
    if k == 'mul':
        return [2, uterm_sexp(t[1]), uterm_sexp(t[2])]
    if k == 'div':
        return [3, uterm_sexp(t[1]), uterm_sexp(t[2])]
    return [4, uterm_sexp(t[1]), frac(t[2])]


def gen_case(seed, tier):
    rng = vlib.random.Random(seed)
    ops = []
    nstores = 1
    share = rng.random()
    ops.append(['new', -1])
    if share < 0.25:
        ops.append(['new', 0])
        nstores = 2
    elif share < 0.4:
        ops.append(['new', -1])
        nstores = 2
    reg_of = {0: 0, 1: (0 if share < 0.25 else 1)}
    siblings = share < 0.25 and rng.random() < 0.5
    if siblings:
        # two stores created from the SAME parent (siblings sharing its registry), with one user name meaning different things
        ops.append(['new', 0])
        nstores = 3
        reg_of[2] = 0
    known = {s: list(BUILTINS) for s in range(nstores)}
    if siblings:
        sib_name = rng.choice(['len', 'ua', 'x1'])
        sib_base = rng.choice(['metre', 'second', 'ampere'])
        a, b = rng.sample(['0.001', '1000', '60', '2.5', '1e-6'], 2)
        ops.append(['add', 1, sib_name, ('mul', ('ref', sib_base), ('num', a))])
        ops.append(['add', 2, sib_name, ('mul', ('ref', sib_base), ('num', b))])
        known[1].append(sib_name)
        known[2].append(sib_name)
    base_terms = []
    if nstores >= 2 and reg_of[0] == reg_of[1] and rng.random() < 0.5:
        # the same NEW BASE unit name declared in two stores sharing a registry: two different units, not convertible
        bname = rng.choice(['beat', 'cell', 'time'])
        for st_ in (0, 1):
            ops.append(['base', st_, bname])
            known[st_].append(bname)
            ops.append(['add', st_, 'per_' + bname, ('div', ('ref', bname), ('ref', 'second'))])
            known[st_].append('per_' + bname)
            base_terms += [('get', st_, bname), ('get', st_, 'per_' + bname)]
    nunits = rng.randint(3, 8)
    for _ in range(nunits):
        s = rng.randrange(nstores)
        r = rng.random()
        name = rng.choice(NAMES)
        if r < 0.12:
            if rng.random() < 0.3:
                name = rng.choice(['time', 'length', 'mass', 'substance', 'current'])   # names of pint's own dimensions
            ops.append(['base', s, name])
        elif r < 0.3:
            # scaled dimensionless unit
            base = rng.choice(['dimensionless', 'radian'] + [n for n in known[s] if n in ('pc', 'half')])
            e = rng.choice([('mul', ('ref', base), ('num', rng.choice(NUMS))),
                            ('div', ('ref', base), ('num', rng.choice(NUMS))),
                            ('div', ('ref', 'metre'), ('ref', 'meter'))])
            ops.append(['add', s, name, e])
        elif r < 0.36:
            # reference to an unknown name / redefinition
            ops.append(['add', s, name, ('mul', ('ref', 'nosuch'), ('ref', 'second'))])
        else:
            e = gen_uexpr(rng, known[s])
            if not has_ref(e):
                e = ('mul', e, ('ref', rng.choice(known[s])))
            ops.append(['add', s, name, e])
        if name not in known[s] and not (ops[-1][0] == 'add' and 'nosuch' in uexpr_str(ops[-1][3])) \
                and name not in ('celsius',):
            known[s].append(name)
    # stratum: a definition that mentions the QUALIFIED name of a unit of another store sharing the registry (what str(unit)
    # gives): names of one store are unknown in the other, so the definition is refused and the store stays as it was
    if nstores >= 2 and rng.random() < 0.5:
        for _ in range(rng.randint(1, 2)):
            s_to = rng.randrange(nstores)
            others = [(o, n) for o in range(nstores) if o != s_to and reg_of[o] == reg_of[s_to]
                      for n in known[o] if n not in BUILTINS and n not in known[s_to]]
            if others and not any(n_.startswith('store') for n_ in known[s_to]):
                o, n = rng.choice(others)
                nm = rng.choice(['qa', 'qb'])
                if nm not in known[s_to]:
                    ops.append(['add', s_to, nm, ('div', ('qref', o, n), ('ref', 'second'))])
    # stratum: scaled dimensionless units raised to powers / in denominators inside a definition, next to the same
    # expression formed from Unit objects
    pow_terms = []
    if rng.random() < 0.35:
        for nm, e in (('pc', ('mul', ('ref', 'dimensionless'), ('num', '0.01'))), ('half', ('div', ('ref', 'dimensionless'), ('num', '2')))):
            if nm not in known[0]:
                ops.append(['add', 0, nm, e])
                known[0].append(nm)
        templ = [('pcsq', ('pow', ('ref', 'pc'), '2')), ('perhalf', ('div', ('num', '1'), ('ref', 'half'))),
                 ('pcroot', ('pow', ('ref', 'pc'), '0.5')), ('mph2', ('div', ('mul', ('ref', 'metre'), ('ref', 'pc')), ('pow', ('ref', 'half'), '2'))),
                 ('spc', ('mul', ('pow', ('ref', 'pc'), '-1'), ('ref', 'second'))), ('pch3', ('mul', ('ref', 'pc'), ('pow', ('ref', 'half'), '3')))]

        def as_term(e):
            if e[0] == 'ref':
                return ('get', 0, e[1])
            if e[0] == 'num':
                return None
            if e[0] == 'pow':
                return ('pow', as_term(e[1]), e[2])
            a, b = as_term(e[1]), as_term(e[2])
            if a is None:       # 1 / x
                return ('pow', b, '-1')
            return (e[0], a, b)
        for nm, e in rng.sample(templ, rng.randint(2, 4)):
            if nm not in known[0]:
                ops.append(['add', 0, nm, e])
                known[0].append(nm)
                pow_terms += [('get', 0, nm), as_term(e)]
        pow_terms += [('get', 0, 'pc'), ('get', 0, 'half')]
    # stratum: products and quotients of two USER units that share their base unit (cm * mm is an area, cm / mm a number)
    if rng.random() < 0.35:
        st_ = rng.randrange(nstores)
        b_ = rng.choice(['metre', 'second', 'volt'])
        for nm_, e in (('ucm', ('mul', ('ref', b_), ('num', '0.01'))), ('umm', ('mul', ('ref', b_), ('num', '0.001'))),
                       ('uarea', ('mul', ('ref', 'ucm'), ('ref', 'umm'))), ('uratio', ('div', ('ref', 'ucm'), ('ref', 'umm'))),
                       ('uvol', ('mul', ('mul', ('ref', 'ucm'), ('ref', 'umm')), ('ref', 'ucm')))):
            if nm_ not in known[st_]:
                ops.append(['add', st_, nm_, e])
                known[st_].append(nm_)
        pow_terms += [('get', st_, 'uarea'), ('pow', ('get', st_, b_), '2'), ('get', st_, 'uratio'), ('get', st_, 'dimensionless'),
                      ('get', st_, 'uvol'), ('pow', ('get', st_, b_), '3'), ('get', st_, b_), ('mul', ('get', st_, 'ucm'), ('get', st_, 'umm'))]
    # stratum: a unit named X and then one named Xs in the same store (pint would read an unknown "Xs" as the plural of X)
    if rng.random() < 0.35:
        st_ = rng.randrange(nstores)
        xn = rng.choice(['m', 'half', 'ua', 'len', 'volt_'])
        defs = rng.sample([('metre', '1'), ('second', '0.001'), ('ampere', '1e-6'), ('dimensionless', '3'), ('volt', '1000')], 2)
        for nm_, (b_, k_) in zip((xn, xn + 's'), defs):
            if nm_ not in known[st_]:
                ops.append(['add', st_, nm_, ('mul', ('ref', b_), ('num', k_))])
                known[st_].append(nm_)
        pow_terms += [('get', st_, xn), ('get', st_, xn + 's')] + [('get', st_, b_) for b_, _ in defs]
    # stratum: named units with exponents whose decimal expansion never ends (1/3, 2/3), next to independent units of the
    # same dimension: the exponent must not be shortened on its way into the registry
    if rng.random() < 0.3:
        for nm, e, twin in (('cbl', ('pow', ('ref', 'liter'), '1/3'), ('div', ('get', 0, 'metre'), ('get', 0, 'xten'))),
                            ('s23', ('pow', ('ref', 'second'), '2/3'), ('pow', ('pow', ('get', 0, 'second'), '1/3'), '2')),
                            ('xten', ('mul', ('ref', 'dimensionless'), ('num', '10')), None)):
            if nm not in known[0]:
                ops.append(['add', 0, nm, e])
                known[0].append(nm)
        pow_terms += [('get', 0, 'cbl'), ('get', 0, 'metre'), ('div', ('get', 0, 'metre'), ('get', 0, 'xten')), ('get', 0, 's23'),
                      ('pow', ('pow', ('get', 0, 'second'), '1/3'), '2'), ('pow', ('get', 0, 'cbl'), '3'), ('get', 0, 'liter')]
    # stratum: factors whose decimal expansion never ends (1/60, 1/7, 1/3, 1/1.1 ...): full double precision in both directions
    if rng.random() < 0.45:
        for nm, e, b in rng.sample([('xm', ('mul', ('ref', 'second'), ('num', '60')), 'second'),
                                    ('xs7', ('mul', ('ref', 'metre'), ('num', '7')), 'metre'),
                                    ('xt3', ('div', ('ref', 'dimensionless'), ('num', '3')), 'dimensionless'),
                                    ('xh', ('mul', ('ref', 'second'), ('num', '3600')), 'second'),
                                    ('x11', ('mul', ('ref', 'volt'), ('num', '1.1')), 'volt'),
                                    ('x96', ('mul', ('ref', 'mole'), ('num', '96')), 'mole')], 2):
            if nm not in known[0]:
                ops.append(['add', 0, nm, e])
                known[0].append(nm)
                pow_terms += [('get', 0, nm), ('get', 0, b)]
    # stratum: several units of ONE dimension with extreme scales (tolerances must be relative, never absolute)
    if rng.random() < 0.5:
        basedim = rng.choice(['ampere', 'second', 'metre', 'volt', 'mole'])
        for nm, sc in rng.sample([('xa', '1e-12'), ('xb', '1e-15'), ('xc', '1e-18'), ('xd', '1e15'), ('xe', '1e18'), ('xf', '1e-24'), ('xg', '1e-21')], 3):
            if nm not in known[0]:
                ops.append(['add', 0, nm, ('mul', ('ref', basedim), ('num', sc))])
                known[0].append(nm)
    # queries: all ordered pairs of a sample of unit terms
    # (units with exponents 1/3, 2/3 are compared with their fixed partners only: pint adds exponents in floating point,
    # (2/3 + 1) - 1 is not 2/3, so random products with other units of the same base dimension fail in pint itself)
    avail = [(s, n) for s in range(nstores) for n in known[s] if (n not in BUILTINS or rng.random() < 0.15) and n not in ('cbl', 's23')]
    if not avail:
        avail = [(0, 'metre')]
    terms = [('get', 0, n) for n in known[0] if n in ('xa', 'xb', 'xc', 'xd', 'xe', 'xf', 'xg')]
    if len(terms) >= 2 and rng.random() < 0.5:
        terms.append(('pow', terms[0], '2'))
        terms.append(('pow', terms[1], '2'))
    if siblings:
        terms += [('get', 1, sib_name), ('get', 2, sib_name), ('get', 0, sib_base)]
    for _ in range(rng.randint(4, 7)):
        s0 = rng.randrange(nstores)
        pool = [a for a in avail if reg_of[a[0]] == reg_of[s0]]
        terms.append(gen_uterm(rng, pool or [(s0, 'second')]))
    terms.append(('get', 0, 'dimensionless'))
    terms += pow_terms + base_terms
    if rng.random() < 0.4:
        # units that carry pint's dimension-less base unit radian TOGETHER with a real dimension, next to their radian-free twins
        terms += [('get', 0, 'lux'), ('div', ('get', 0, 'candela'), ('pow', ('get', 0, 'metre'), '2')),
                  ('get', 0, 'lumen'), ('get', 0, 'candela'),
                  ('div', ('get', 0, 'radian'), ('get', 0, 'second')), ('get', 0, 'hertz')]
    for a in terms:
        ops.append(['fmt', a])
        for b in terms:
            if _reg_of_term(a, reg_of) != _reg_of_term(b, reg_of):
                continue
            ops.append(['cf', a, b])
            ops.append(['eq', a, b])
            if rng.random() < 0.3:
                ops.append(['conv', rng.choice(['5', '0.25', '-3', '1', '12', '0', '0']), a, b])
    for s in range(nstores):
        for n in rng.sample(NAMES, 3):
            ops.append(['isdef', s, n])
            ops.append(['getu', s, n])
    return {'seed': seed, 'ops': ops}


def _reg_of_term(t, reg_of):
    if t[0] == 'get':
        return reg_of[t[1]]
    return _reg_of_term(t[1], reg_of)


def case_sexp(case):
    out = []
    for op in case['ops']:
        k = op[0]
        if k == 'new':
            out.append([0, op[1]])
        elif k == 'add':
            out.append([1, op[1], op[2], uexpr_sexp(op[3])])
        elif k == 'base':
            out.append([2, op[1], op[2]])
        elif k == 'cf':
            out.append([3, uterm_sexp(op[1]), uterm_sexp(op[2])])
        elif k == 'conv':
            out.append([4, frac(op[1]), uterm_sexp(op[2]), uterm_sexp(op[3])])
        elif k == 'eq':
            out.append([5, uterm_sexp(op[1]), uterm_sexp(op[2])])
        elif k == 'isdef':
            out.append([6, op[1], op[2]])
        elif k == 'getu':
            out.append([7, op[1], op[2]])
        elif k == 'fmt':
            out.append([8, uterm_sexp(op[1])])
    return out


# ---- implementation run ----------------------------------------------------------------------
def _errcode(e):
    c = vlib.err_class(e)
    if c == 'ValueError':
        return 1
    if c == 'KeyError':
        return 2
    if c == 'pint:UndefinedUnitError':
        return 3
    if c == 'pint:DimensionalityError':
        return 4
    return c


def _term(stores, t):
    k = t[0]
    if k == 'get':
        return stores[t[1]].get_unit(t[2])
    if k == 'mul':
        return _term(stores, t[1]) * _term(stores, t[2])
    if k == 'div':
        return _term(stores, t[1]) / _term(stores, t[2])
    return _term(stores, t[1]) ** float(frac(t[2]))


def _sidx(t):
    return t[1] if t[0] == 'get' else _sidx(t[1])


_FMT = re.compile(r'^(\S+)(?: dimensionless)? (.*)$')


def parse_base(text):
    """'0.001 kilogram * meter ** 2 / second ** 3' -> (scale float, {name: exponent})"""
    m = _FMT.match(text)
    scale = float(m.group(1))
    dims = {}
    rest = m.group(2).strip()
    if rest and rest != 'dimensionless':
        toks = rest.split(' ')
        sign = 1
        i = 0
        while i < len(toks):
            t = toks[i]
            if t == '*':
                sign = 1
            elif t == '/':
                sign = -1
            elif t == '**':
                i += 1
                dims[last] = dims[last] - lastsign + lastsign * float(toks[i])
            elif t == '1':
                pass
            else:
                last, lastsign = t, sign
                dims[t] = dims.get(t, 0) + sign
            i += 1
    return scale, {k: v for k, v in dims.items() if abs(v) > 1e-12}


def run_impl(case):
    from cellmlmanip.units import UnitStore
    stores = []
    out = []
    for op in case['ops']:
        k = op[0]
        try:
            if k == 'new':
                stores.append(UnitStore(None if op[1] < 0 else stores[op[1]]))
                out.append(['ok'])
            elif k == 'add':
                stores[op[1]].add_unit(op[2], uexpr_str(op[3], stores))
                out.append(['ok'])
            elif k == 'base':
                stores[op[1]].add_base_unit(op[2])
                out.append(['ok'])
            elif k == 'cf':
                a, b = _term(stores, op[1]), _term(stores, op[2])
                cf = stores[_sidx(op[1])].get_conversion_factor(a, b)
                out.append(['ok', 'one' if (isinstance(cf, int) and cf == 1) else float(cf)])
            elif k == 'conv':
                a, b = _term(stores, op[2]), _term(stores, op[3])
                st = stores[_sidx(op[2])]
                q = st.convert(st.Quantity(float(frac(op[1])), a), b)
                out.append(['ok', float(q.magnitude), bool(q.units == b), str(q.units)])
            elif k == 'eq':
                a, b = _term(stores, op[1]), _term(stores, op[2])
                out.append(['ok', bool(stores[_sidx(op[1])].is_equivalent(a, b))])
            elif k == 'isdef':
                out.append(['ok', bool(stores[op[1]].is_defined(op[2]))])
            elif k == 'getu':
                stores[op[1]].get_unit(op[2])
                out.append(['ok'])
            elif k == 'fmt':
                a = _term(stores, op[1])
                text = stores[_sidx(op[1])].format(a, base_units=True)
                sc, dims = parse_base(text)
                out.append(['ok', sc, dims, text])
        except Exception as e:
            out.append(['err', _errcode(e), str(e)[:400]])
    return out


# ---- comparison --------------------------------------------------------------------------------
def vec_float(v):
    x = 1.0
    for k, (n, d) in v:
        if k > 0:
            x *= float(k) ** (n / d)
    return x


def close(a, b, tol=1e-9):
    return math.isclose(a, b, rel_tol=tol, abs_tol=1e-300)


def compare_op(op, impl, mod, base_names):
    """Returns None when implementation and model agree on this operation, else a description."""
    if mod[0] == -1:
        code = mod[1]
        if code in (5, 6, 99):
            return 'harness: model rejected the case (code %d)' % code
        if impl[0] == 'err' and impl[1] == code:
            return None
        return 'model: error %d, implementation: %r' % (code, impl[:3])
    if impl[0] == 'err':
        return 'model: ok %r, implementation raised %r' % (mod, impl[1:])
    k = op[0]
    if k in ('new', 'add', 'base', 'getu'):
        return None
    res = mod[1] if len(mod) > 1 else None
    if k == 'cf':
        if res[0] == 1:
            return None if impl[1] == 'one' else 'model: factor is exactly 1, implementation: %r' % (impl[1],)
        want = vec_float(res[1])
        if impl[1] == 'one':
            return 'model: factor %r, implementation returned the integer 1' % want
        return None if close(impl[1], want) else 'factor: model %r implementation %r' % (want, impl[1])
    if k == 'conv':
        q = Fraction(res[0][0], res[0][1])
        want = float(q) * vec_float(res[1])
        if not close(impl[1], want):
            return 'convert magnitude: model %r implementation %r' % (want, impl[1])
        if not impl[2]:
            return 'convert: result unit is %s, not the requested unit' % impl[3]
        return None
    if k in ('eq', 'isdef'):
        return None if bool(res) == impl[1] else 'model %r implementation %r' % (bool(res), impl[1])
    if k == 'fmt':
        want = vec_float(res[0])
        if not close(impl[1], want):
            return 'base-unit scale: model %r implementation %r (%s)' % (want, impl[1], impl[3])
        dims = {}
        for g, (n, d) in res[1]:
            nm = GEN_NAMES.get(g) or base_names.get(g)
            dims[nm] = dims.get(nm, 0) + n / d       # base units of two stores may print under one name
        dims = {k_: v_ for k_, v_ in dims.items() if v_ != 0}
        got = impl[2]
        # the exponents are read back from the text format() prints, which shows six significant digits
        if set(dims) != set(got) or any(abs(dims[x] - got[x]) > 6e-6 * max(1.0, abs(dims[x])) for x in dims):
            return 'base-unit dimensions: model %r implementation %r' % (dims, got)
        return None
    return 'unknown op'


def base_unit_names(case):
    """generator id -> name for user base units (the model numbers them per registry in creation order)"""
    names = {}
    count = {}
    reg_of = []
    nreg = 0
    for op in case['ops']:
        if op[0] == 'new':
            if op[1] < 0:
                reg_of.append(nreg)
                nreg += 1
            else:
                reg_of.append(reg_of[op[1]])
    # replay known-sets to see which add_base succeed (same checks as the code)
    known = [set(BUILTINS) for _ in reg_of]
    for op in case['ops']:
        if op[0] == 'base':
            s, n = op[1], op[2]
            if n in known[s]:
                continue
            r = reg_of[s]
            g = -100 - count.get(r, 0)
            count[r] = count.get(r, 0) + 1
            names[(r, g)] = n
            known[s].add(n)
        elif op[0] == 'add':
            s, n = op[1], op[2]
            if n not in known[s] and n != 'celsius' and 'nosuch' not in uexpr_str(op[3]) and 'qref' not in repr(op[3]):
                known[s].add(n)
    return names, reg_of


# ---- independent reference: exponent vectors computed in Python from the definitions -------------------------
SI = {'ampere': {-4: 1}, 'candela': {-7: 1}, 'kelvin': {-5: 1}, 'kilogram': {-2: 1}, 'meter': {-1: 1}, 'metre': {-1: 1},
      'mole': {-6: 1}, 'second': {-3: 1}, 'radian': {-8: 1}, 'dimensionless': {}}


def _vm(a, b, sign=1):
    out = dict(a)
    for k, e in b.items():
        out[k] = out.get(k, 0) + sign * e
    return {k: e for k, e in out.items() if e != 0}


def _vp(a, q):
    return {k: e * q for k, e in a.items() if e * q != 0}


def _vnum(fr):
    out = {}
    for part, sign in ((fr.numerator, 1), (fr.denominator, -1)):
        n = part
        for p in (2, 3, 5, 7, 11, 13, 17, 19, 23):
            while n % p == 0 and n > 1:
                out[p] = out.get(p, 0) + sign
                n //= p
        if n != 1:
            return None
    return out


def builtin_vectors():
    """SI meaning of the CellML built-ins (CellML 1.1 table 2), written independently of the Coq tables"""
    v = dict(SI)
    v['gram'] = {-2: 1, 2: -3, 5: -3}
    v['liter'] = v['litre'] = {-1: 3, 2: -3, 5: -3}
    v['hertz'] = v['becquerel'] = {-3: -1}
    v['coulomb'] = {-4: 1, -3: 1}
    v['newton'] = {-2: 1, -1: 1, -3: -2}
    v['joule'] = {-2: 1, -1: 2, -3: -2}
    v['watt'] = {-2: 1, -1: 2, -3: -3}
    v['pascal'] = {-2: 1, -1: -1, -3: -2}
    v['volt'] = {-2: 1, -1: 2, -3: -3, -4: -1}
    v['farad'] = {-2: -1, -1: -2, -3: 4, -4: 2}
    v['ohm'] = {-2: 1, -1: 2, -3: -3, -4: -2}
    v['siemens'] = {-2: -1, -1: -2, -3: 3, -4: 2}
    v['weber'] = {-2: 1, -1: 2, -3: -2, -4: -1}
    v['tesla'] = {-2: 1, -3: -2, -4: -1}
    v['henry'] = {-2: 1, -1: 2, -3: -2, -4: -2}
    v['sievert'] = v['gray'] = {-1: 2, -3: -2}
    v['katal'] = {-6: 1, -3: -1}
    v['steradian'] = {-8: 2}
    v['lumen'] = {-7: 1, -8: 2}
    v['lux'] = {-7: 1, -8: 2, -1: -2}
    return {k: {g: Fraction(e) for g, e in d.items()} for k, d in v.items()}


def reference_vectors(case):
    """(store, name) -> vector or None, following the same success rules as the code"""
    bv = builtin_vectors()
    reg_of, nreg = [], 0
    for op in case['ops']:
        if op[0] == 'new':
            if op[1] < 0:
                reg_of.append(nreg)
                nreg += 1
            else:
                reg_of.append(reg_of[op[1]])
    known = [dict(bv) for _ in reg_of]
    nbase = {}

    def ev(s, e):
        t = e[0]
        if t == 'ref':
            return known[s].get(e[1])
        if t == 'qref':
            return None
        if t == 'num':
            v = _vnum(frac(e[1]))
            return None if v is None else {k: Fraction(x) for k, x in v.items()}
        a = ev(s, e[1])
        if t == 'pow':
            return None if a is None else _vp(a, frac(e[2]))
        b = ev(s, e[2])
        if a is None or b is None:
            return None
        return _vm(a, b, 1 if t == 'mul' else -1)
    for op in case['ops']:
        if op[0] == 'add':
            s, n = op[1], op[2]
            if n in known[s] or n == 'celsius':
                continue
            v = ev(s, op[3])
            if v is not None:
                known[s][n] = v
        elif op[0] == 'base':
            s, n = op[1], op[2]
            if n in known[s]:
                continue
            r = reg_of[s]
            g = -100 - nbase.get(r, 0)
            nbase[r] = nbase.get(r, 0) + 1
            known[s][n] = {g: Fraction(1)}
    return known


def reference_term(known, t):
    k = t[0]
    if k == 'get':
        return known[t[1]].get(t[2])
    a = reference_term(known, t[1])
    if k == 'pow':
        return None if a is None else _vp(a, frac(t[2]))
    b = reference_term(known, t[2])
    if a is None or b is None:
        return None
    return _vm(a, b, 1 if k == 'mul' else -1)


def reference_oracle(case, impl):
    """the implementation's base-unit form, factors and equivalences against the reference vectors"""
    bad = []
    known = reference_vectors(case)

    def scale(v):
        x = 1.0
        for g, e in v.items():
            if g > 0:
                x *= float(g) ** float(e)
        return x
    for op, r in zip(case['ops'], impl):
        if r[0] != 'ok':
            continue
        if op[0] == 'fmt':
            v = reference_term(known, op[1])
            if v is not None and not close(r[1], scale(v)):
                bad.append(('base-unit scale of %r is %r, the definitions give %r' % (op[1], r[1], scale(v)),
                            {'term': op[1], 'got': r[1], 'want': scale(v)}))
        elif op[0] in ('cf', 'eq'):
            a, b = reference_term(known, op[1]), reference_term(known, op[2])
            if a is None or b is None:
                continue
            d = _vm(a, b, -1)
            if any(g < 0 and g != -8 for g in d):
                # different dimensions (e.g. new base units two stores declared under one name): no factor, not equivalent
                if op[0] == 'cf':
                    bad.append(('get_conversion_factor(%r, %r) returns %r although the definitions give the two units different '
                                'dimensions' % (op[1], op[2], r[1]), {'from': op[1], 'to': op[2]}))
                elif r[1]:
                    bad.append(('is_equivalent(%r, %r) is True although the definitions give the two units different dimensions'
                                % (op[1], op[2]), {'a': op[1], 'b': op[2]}))
                continue
            want = scale(d)
            exact_one = not any(g > 0 for g in d)
            if op[0] == 'cf':
                got = 1.0 if r[1] == 'one' else r[1]
                if not close(got, want):
                    bad.append(('factor %r -> %r is %r, the definitions give %r' % (op[1], op[2], got, want), {'from': op[1], 'to': op[2]}))
            else:
                # radian (generator -8, pint's base unit without a dimension) takes no part in equivalence
                if bool(r[1]) != exact_one:
                    bad.append(('is_equivalent(%r, %r) is %r, but the ratio of the SI scales is %r' % (op[1], op[2], r[1], want),
                                {'a': op[1], 'b': op[2]}))
    return bad


# ---- oracle (stage D): the laws on the implementation's own numbers -----------------------------
def oracle(case, impl):
    """Returns list of (what, detail) violations of C07 on the implementation."""
    bad = []
    cf = {}
    eq = {}
    fmt = {}
    for op, r in zip(case['ops'], impl):
        if op[0] == 'cf':
            cf[(repr(op[1]), repr(op[2]))] = r
        elif op[0] == 'eq':
            eq[(repr(op[1]), repr(op[2]))] = r
        elif op[0] == 'fmt':
            fmt[repr(op[1])] = r
        elif op[0] == 'conv':
            key = (repr(op[2]), repr(op[3]))
            c = cf.get(key)
            if c and c[0] == 'ok' and r[0] == 'ok':
                f = 1.0 if c[1] == 'one' else c[1]
                if not close(r[1], float(frac(op[1])) * f) or not r[2]:
                    bad.append(('convert(q, u) is not q x factor in unit u',
                                {'q': op[1], 'from': op[2], 'to': op[3], 'factor': f, 'got': r[1:]}))
            elif c and (c[0] == 'ok') != (r[0] == 'ok'):
                bad.append(('convert and get_conversion_factor disagree on convertibility',
                            {'from': op[2], 'to': op[3], 'cf': c, 'convert': r}))

    # a base-unit name declared in several stores prints the same for different units: the printed dimensions cannot decide
    # equality of dimensions then (the reference oracle, which knows the generators, does)
    declared = [op[2] for op in case['ops'] if op[0] == 'base']
    ambiguous = {n for n in declared if declared.count(n) > 1}

    terms_by_repr = {}
    for op in case['ops']:
        if op[0] in ('cf', 'eq'):
            terms_by_repr[repr(op[1])] = op[1]
            terms_by_repr[repr(op[2])] = op[2]
    refknown = reference_vectors(case) if ambiguous else None

    def uses_user_base(key):
        v = reference_term(refknown, terms_by_repr[key]) if key in terms_by_repr else None
        return v is None or any(g <= -100 for g in v)

    def val(r):
        return 1.0 if r[1] == 'one' else r[1]
    for (a, b), r in cf.items():
        fa, fb = fmt.get(a), fmt.get(b)
        same_dim = None
        rad_differs = False
        if fa and fb and fa[0] == 'ok' and fb[0] == 'ok' and not (ambiguous and (uses_user_base(a) or uses_user_base(b))):
            da = {k: v for k, v in fa[2].items() if k != 'radian'}
            db = {k: v for k, v in fb[2].items() if k != 'radian'}
            same_dim = da == db
            rad_differs = fa[2].get('radian', 0) != fb[2].get('radian', 0)
        if r[0] == 'err':
            if r[1] != 4:
                bad.append(('conversion raised something other than a dimensionality error', {'from': a, 'to': b, 'err': r}))
            elif same_dim is True:
                import re
                mm = re.search(r"\((\[[^)]*|dimensionless)\) to '.*' \((\[[^)]*|dimensionless)\)", r[2] if len(r) > 2 else '')
                fl = bool(mm and mm.group(1) == mm.group(2)) and any(
                    o[0] == 'add' and '/' in repr([x for x in _flat(o[3]) if isinstance(x, str)]) for o in case['ops'])
                bad.append(('conversion between units of equal dimensions failed', {'from': a, 'to': b, 'err': r,
                                                                                   'float_exponent_sum': fl}))
            continue
        if same_dim is False:
            bad.append(('dimension mismatch not reported', {'from': a, 'to': b, 'factor': r}))
        if a == b and not close(val(r), 1.0):
            bad.append(('factor(a,a) != 1', {'a': a, 'factor': r}))
        if same_dim and not close(val(r), fa[1] / fb[1]):
            bad.append(('factor is not the ratio of the SI scales', {'from': a, 'to': b, 'factor': val(r), 'scales': (fa[1], fb[1])}))
        back = cf.get((b, a))
        if back and back[0] == 'ok' and not close(val(r) * val(back), 1.0):
            bad.append(('factor(a,b) x factor(b,a) != 1', {'a': a, 'b': b, 'ab': val(r), 'ba': val(back)}))
        e = eq.get((a, b))
        if e and e[0] == 'ok' and e[1] != (r[1] == 'one'):
            bad.append(('is_equivalent differs from "factor is 1"',
                        {'a': a, 'b': b, 'equivalent': e[1], 'factor': r[1], 'radian_content_differs': rad_differs}))
    keys = sorted({a for a, _ in cf})
    for a in keys:
        for b in keys:
            for c in keys:
                ab, bc, ac = cf.get((a, b)), cf.get((b, c)), cf.get((a, c))
                if ab and bc and ac and ab[0] == bc[0] == 'ok':
                    if ac[0] != 'ok':
                        bad.append(('factor(a,c) fails although (a,b) and (b,c) convert', {'a': a, 'b': b, 'c': c, 'ac': ac}))
                    elif not close(val(ac), val(ab) * val(bc)):
                        bad.append(('factor(a,c) != factor(a,b) x factor(b,c)',
                                    {'a': a, 'b': b, 'c': c, 'ab': val(ab), 'bc': val(bc), 'ac': val(ac)}))
                e1, e2, e3 = eq.get((a, b)), eq.get((b, c)), eq.get((a, c))
                if e1 and e2 and e3 and e1[0] == e2[0] == e3[0] == 'ok' and e1[1] and e2[1] and not e3[1]:
                    bad.append(('is_equivalent is not transitive', {'a': a, 'b': b, 'c': c}))
    for (a, b), e in eq.items():
        if e[0] == 'ok':
            if a == b and not e[1]:
                bad.append(('is_equivalent is not reflexive', {'a': a}))
            o = eq.get((b, a))
            if o and o[0] == 'ok' and o[1] != e[1]:
                bad.append(('is_equivalent is not symmetric', {'a': a, 'b': b}))
    return bad


def work(case):
    try:
        return run_impl(case)
    except Exception as e:  # harness failure inside the worker
        return [['err', 'harness:' + repr(e)]]


def float_exponent_failure(case, op, r):
    """a conversion that pint refuses (dimension error) although the exact dimension vectors of the two terms are equal, in a
    family with a unit whose exponent has no finite binary expansion (1/3, 2/3)"""
    if op[0] not in ('cf', 'conv') or r[0] != 'err' or r[1] != 4:
        return False
    import re
    mm = re.search(r"\((\[[^)]*|dimensionless)\) to '.*' \((\[[^)]*|dimensionless)\)", r[2] if len(r) > 2 else '')
    if not mm or mm.group(1) != mm.group(2):
        return False        # the two dimensions differ visibly (six digits): not the last-bit artefact
    if not any(o[0] == 'add' and '/' in repr([x for x in _flat(o[3]) if isinstance(x, str)]) for o in case['ops']):
        return False
    known = reference_vectors(case)
    ta, tb = (op[1], op[2]) if op[0] == 'cf' else (op[2], op[3])
    a, b = reference_term(known, ta), reference_term(known, tb)
    if a is None or b is None:
        return False
    return not any(g < 0 and g != -8 for g in _vm(a, b, -1))


def _flat(e):
    for x in e:
        if isinstance(x, (list, tuple)):
            for y in _flat(x):
                yield y
        else:
            yield x


def evaluate(ctx, cases, impls, use_model=True):
    mods = None
    if use_model and ctx.model_ok():
        mods = vlib.model_run(FN, [case_sexp(c) for c in cases])
    for i, (case, impl) in enumerate(zip(cases, impls)):
        kinds = sorted({op[0] for op in case['ops']})
        ctx.count(case_key=case['ops'], nontrivial=len(case['ops']) > 8, kind='stores=%d' % sum(1 for o in case['ops'] if o[0] == 'new'))
        for what, detail in oracle(case, impl) + reference_oracle(case, impl):
            ctx.violation(what, {'case': case, 'detail': detail})
        if mods is not None:
            names, reg_of = base_unit_names(case)
            ctx.corr_cases += 1
            for op, r, m in zip(case['ops'], impl, mods[i]):
                bn = {}
                if op[0] == 'fmt':
                    bn = {g: n for (rr, g), n in names.items() if rr == reg_of[_sidx(op[1])]}
                d = compare_op(op, r, m, bn)
                ctx.hist['op:' + op[0]] = ctx.hist.get('op:' + op[0], 0) + 1
                if d is not None and float_exponent_failure(case, op, r):
                    ctx.violation('conversion between units of equal dimensions fails in pint: %s (exponents such as 2/3 are added '
                                  'in floating point, (2/3 + 1) - 1 is not 2/3)' % (r[2] if len(r) > 2 else r,),
                                  {'case': case, 'detail': {'float_exponent_sum': True, 'op': op}})
                    continue
                if d is not None:
                    ctx.tie_break('correspondence C07 (Model/UStore.v vs units.py) differs on %s: %s' % (op[0], d),
                                  {'case': case, 'op': op, 'impl': r, 'model': m})
                    break
        if i < 2:
            ctx.sample({'ops': case['ops'][:12], 'n_ops': len(case['ops'])})


def run(ctx):
    n = 60 if ctx.tier == "quick" else 4000
    ctx.rule = ('random families of 3-8 units (products, quotients, rational powers, scalings of built-ins, new base '
                'units, scaled dimensionless units) on 1-2 stores (independent or sharing a registry); all ordered '
                'pairs of 5-8 unit terms: factor, equivalence, convert (also of magnitude 0), base-unit form; strata: sibling stores with '
                'one name of two meanings, extreme scales, units carrying radian, scaled dimensionless units raised to powers inside '
                'definitions next to the same expression built from Unit objects, factors with non-terminating decimals (1/60, 1/7, '
                '1/1.1); non-trivial = more than 8 operations')
    ctx.trusted += ['tools/translate_builtins.py (units.py sets, data/cellml_units.txt -> Gen/Builtins_gen.v)',
                    'pint 0.18 arithmetic is binary floating point; the model is exact (tolerance 1e-9)']
    corpus = load_corpus()
    cases = corpus + [gen_case(ctx.seed * 100000 + i, ctx.tier) for i in range(n)]
    impls = vlib.pmap(work, cases)
    evaluate(ctx, cases, impls)
    if ctx.tie_breaks and not ctx.violations:
        # a proof or correspondence broke: search harder for a concrete failing input
        more = [gen_case(ctx.seed * 100000 + 50000 + i, ctx.tier) for i in range(10 * n)]
        evaluate(ctx, more, vlib.pmap(work, more), use_model=False)


def load_corpus():
    import glob
    import json
    out = []
    for p in sorted(glob.glob(os.path.join(vlib.VERIF, 'corpus', 'C07', '*.json'))):
        out.append(json.load(open(p)))
    return out


def replay(ctx, case):
    c = case.get('case', case)
    impl = run_impl(c)
    bad = oracle(c, impl) + reference_oracle(c, impl)
    for what, detail in bad:
        ctx.violation(what, {'case': c, 'detail': detail})
    if ctx.model_ok():
        mods = vlib.model_run(FN, [case_sexp(c)])[0]
        names, reg_of = base_unit_names(c)
        for op, r, m in zip(c['ops'], impl, mods):
            bn = {}
            if op[0] == 'fmt':
                bn = {g: n for (rr, g), n in names.items() if rr == reg_of[_sidx(op[1])]}
            d = compare_op(op, r, m, bn)
            if d:
                return 'correspondence differs on %s: %s' % (op, d)
    return None


def radian_content_differs(case):
    """known finding radian-not-equivalent: factor 1 but not is_equivalent, and the two units differ in
    their content of pint's dimension-less base unit radian"""
    d = case.get('detail', {})
    return bool(d.get('radian_content_differs')) and d.get('equivalent') is False and d.get('factor') == 'one'


def float_exponent_sum(case):
    return case.get('detail', {}).get('float_exponent_sum') is True


# the radian finding was repaired by a fix: commit in /repo
KNOWN_PREDICATES = {'float_exponent_sum': float_exponent_sum}
