"""C06 -- changing the units of a model variable never changes what the model computes.

correspondence: sequences of convert_variable calls on generated unit-consistent models (and bundled documents):
                cellmlmanip.model.Model vs coq/Model/ConvertVar.v (extracted); variables compared exactly, equations
                keyed by left-hand side and compared semantically
oracle:         numeric solution of the implementation's equations before and after each conversion: every old variable
                keeps its value, new = factor x original, derivatives rescale by the state / time factors; equations stay
                unit-consistent; initial values and cmeta ids move as documented; equivalent units are a no-op.
"""
import glob
import json
import math
import os
import random
from fractions import Fraction

import cvlib
import vlib

FN = cvlib.FN
CELLML = os.path.join(vlib.REPO, 'tests', 'cellml_files')


def gen_case(seed):
    rng = random.Random(seed * 3 + 1)
    spec = cvlib.gen_spec(seed)
    convs = []
    nv = len(spec['vars'])
    for _ in range(rng.randint(1, 4)):
        # the index may refer to a variable created by an earlier conversion (resolved at run time modulo the count)
        convs.append([rng.randrange(nv + 2), rng.randrange(3), rng.random() < 0.6, rng.random() < 0.7])
    if rng.random() < 0.25:
        # one quantity converted again and again: the same variable three or four times, or the lineage
        # x -> x_converted -> x_converted_converted ... (each conversion creates a variable with index nv, nv+1, ...)
        v = rng.randrange(nv)
        if rng.random() < 0.6:
            # states and time: their conversions create helper variables (x_orig_deriv ...) whose names must stay unique
            v = rng.choice([i for i, x in enumerate(spec['vars']) if x['kind'] in ('state', 'time')])
        n = rng.randint(3, 4)
        us = rng.sample(range(6), n)
        if rng.random() < 0.5:
            inp = rng.random() < 0.6
            convs = [[v, us[i], inp or rng.random() < 0.4, rng.random() < 0.7] for i in range(n)]
        else:
            # directions along the lineage: all inputs, all outputs (an output of an output of ...), alternating, random
            dirs = rng.choice([[True] * n, [False] * n, [i % 2 == 0 for i in range(n)], [i % 2 == 1 for i in range(n)],
                               [rng.random() < 0.5 for _ in range(n)]])
            convs = [[v if i == 0 else 'prev', us[i], dirs[i], rng.random() < 0.7] for i in range(n)]
    return {'seed': seed, 'spec': spec, 'convs': convs}


def family_of(vec):
    dims = {k: e for k, e in vec.items() if k < 0}
    out = []
    for n, (_, v) in cvlib.POOL.items():
        if {k: e for k, e in v.items() if k < 0} == dims:
            out.append(n)
    return sorted(out)


def independents_of(reif):
    """variables that are inputs of the equation system: no assignment defines them"""
    defined = set(l[1] for l, _ in reif.eqs if l[0] == 0)
    return [i for i in range(len(reif.vars)) if i not in defined]


def check_conversion(pre, post, v, n, cf, is_input, move, seed, bad, j):
    rng = random.Random(seed * 31 + j)
    states = set(l[1] for l, _ in pre.eqs if l[0] == 1)
    times = set(l[2] for l, _ in pre.eqs if l[0] == 1)
    # initial values and ids
    o_pre, o_post, new = pre.vars[v], post.vars[v], post.vars[n]
    if is_input:
        want = None if o_pre[2] is None else float(o_pre[2]) * cf
        if (want is None) != (new[2] is None) or (want is not None and not math.isclose(float(new[2]), want, rel_tol=1e-12, abs_tol=0.0)):
            bad.append(('INPUT conversion: initial value of the new variable is %r, expected %r' % (new[2], want), {'conv': j}))
        if o_post[2] is not None:
            bad.append(('INPUT conversion: the original variable keeps an initial value', {'conv': j}))
    else:
        if new[2] is not None or o_post[2] != o_pre[2]:
            bad.append(('OUTPUT conversion changed initial values: new %r, original %r -> %r' % (new[2], o_pre[2], o_post[2]), {'conv': j}))
    if o_pre[3] is not None and move:
        if new[3] != o_pre[3] or o_post[3] is not None:
            bad.append(('cmeta id did not move to the converted variable', {'conv': j}))
    elif new[3] is not None or o_post[3] != o_pre[3]:
        bad.append(('cmeta id moved although it should stay', {'conv': j}))
    # numeric equivalence
    for trial in range(2):
        ind = {i: rng.uniform(0.5, 2.0) for i in independents_of(pre)}
        sol = cvlib.evaluate_model(pre, ind)
        if sol is None:
            continue
        vals, dvals = sol
        ind2 = {}
        for i in independents_of(post):
            if i == n:
                if v not in vals:
                    break
                ind2[i] = cf * vals[v]
            elif i in vals:
                ind2[i] = vals[i]
            else:
                ind2[i] = rng.uniform(0.5, 2.0)
        else:
            sol2 = cvlib.evaluate_model(post, ind2)
            if sol2 is None:
                bad.append(('after the conversion the equations can no longer be evaluated in dependency order', {'conv': j}))
                continue
            vals2, dvals2 = sol2
            for i, x in vals.items():
                if i in vals2 and not math.isclose(vals2[i], x, rel_tol=1e-8, abs_tol=1e-10):
                    bad.append(('variable %s changed value: %r before, %r after the conversion' % (pre.vars[i][0], x, vals2[i]),
                                {'conv': j, 'var': i}))
                    break
            if v in vals and n in vals2 and not math.isclose(vals2[n], cf * vals[v], rel_tol=1e-8, abs_tol=1e-10):
                bad.append(('new variable is %r, expected factor x original = %r' % (vals2[n], cf * vals[v]), {'conv': j}))
            for (y, t), d in dvals.items():
                if is_input and y == v and y in states:
                    key, want = (n, t), cf * d
                elif is_input and t == v and t in times:
                    key, want = (y, n), d / cf
                else:
                    key, want = (y, t), d
                if key not in dvals2:
                    bad.append(('derivative d%s/d%s is no longer defined (expected as %r)' % (pre.vars[y][0], pre.vars[t][0], key), {'conv': j}))
                elif not math.isclose(dvals2[key], want, rel_tol=1e-8, abs_tol=1e-10):
                    bad.append(('derivative %r is %r after the conversion, expected %r' % (key, dvals2[key], want), {'conv': j}))


def units_consistent(m):
    out = []
    for eq in m.equations:
        try:
            a = m.units.evaluate_units(eq.lhs)
            b = m.units.evaluate_units(eq.rhs)
            out.append(bool(m.units.is_equivalent(a, b)))
        except Exception as e:
            out.append('raises ' + vlib.err_class(e))
    return out


def run_case(case, model=None, objs=None):
    """returns dict: model input sexp, impl states after each conversion, oracle findings"""
    from cellmlmanip.model import DataDirectionFlow
    bad = []
    try:
        if model is None:
            model, objs = cvlib.build_model(case['spec'])
    except Exception as e:
        return {'harness_error': repr(e)}
    m = model
    reif = cvlib.Reified(m, objs)
    first = reif
    ops = []
    states = []
    consistent = all(x is True for x in units_consistent(m))
    for j, (vi, ui, is_input, move) in enumerate(case['convs']):
        v = cvlib.resolve_index(vi, reif.objs, new if j else None)
        orig = reif.objs[v]
        vec = reif.vars[v][1]
        if vec is None:
            break
        fam = family_of(vec)
        if not fam:
            break
        tname = fam[ui % len(fam)]
        tvec = {k: Fraction(e) for k, e in cvlib.POOL[tname][1].items()}
        target = m.units.get_unit(tname)
        cf = cvlib.vscale(vec) / cvlib.vscale(tvec)
        ops.append([v, cvlib.vec_sexp(tvec), bool(is_input), bool(move)])
        eq_before = list(m.equations)
        units_before = [(x, x.units, x.initial_value, x.cmeta_id) for x in m.variables()]
        try:
            new = m.convert_variable(orig, target, DataDirectionFlow.INPUT if is_input else DataDirectionFlow.OUTPUT,
                                     move_annotations=bool(move))
        except Exception as e:
            states.append(['err', vlib.err_class(e), str(e)[:100]])
            bad.append(('convert_variable(%s -> %s, %s) raises %r' % (orig.name, tname, 'INPUT' if is_input else 'OUTPUT', e), {'conv': j}))
            break
        post = cvlib.Reified(m, reif.objs)
        n = post.var_index(new)
        states.append(['ok', n, post.vars, post.eqs, [vec_ for _, vec_ in post.units]])
        if math.isclose(cf, 1.0):
            if new is not orig or len(m.equations) != len(eq_before) or any(a is not b for a, b in zip(m.equations, eq_before)):
                bad.append(('conversion to equivalent units changed the model', {'conv': j}))
            now = [(x, x.units, x.initial_value, x.cmeta_id) for x in m.variables()]
            if len(now) != len(units_before) or any(a[0] is not b[0] or a[1] is not b[1] or a[2] != b[2] or a[3] != b[3]
                                                    for a, b in zip(now, units_before)):
                chg = [(b[0].name, str(b[1]), str(a[1])) for a, b in zip(now, units_before) if a[1] is not b[1]]
                bad.append(('conversion to equivalent units (%s -> %s) changed a variable of the model (units object, initial '
                            'value or id): %s' % (orig.name, tname, chg[:2]), {'conv': j}))
        else:
            if not m.units.is_equivalent(new.units, target):
                bad.append(('returned variable is in %s, not in %s' % (new.units, tname), {'conv': j}))
            check_conversion(reif, post, v, n, cf, bool(is_input), bool(move), case['seed'], bad, j)
            if consistent:
                uc = units_consistent(m)
                if not all(x is True for x in uc):
                    bad.append(('equations are no longer unit-consistent after the conversion: %r' % (uc,), {'conv': j}))
        if post.bad_units:
            pass    # C18's concern
        reif = post
    return {'input': first.sexp(ops), 'states': states, 'bad': bad, 'nvars': len(first.vars)}


def compare_with_model(ctx, case, res, out):
    """implementation states vs model states, conversion by conversion"""
    for j, (st, mo) in enumerate(zip(res['states'], out)):
        if mo[0] == -1:
            if st[0] == 'err':
                continue
            return 'conversion %d: model error %d, implementation ok' % (j, mo[1])
        if st[0] == 'err':
            return 'conversion %d: model ok, implementation raised %r' % (j, st[1:])
        if len(mo) > 3:
            ctx.hist['free_spec_code=%d' % mo[3]] = ctx.hist.get('free_spec_code=%d' % mo[3], 0) + 1
            if mo[3] == 2:
                return ('conversion %d: INPUT conversion of the free variable: the model\'s result is not the specification system '
                        'free_system of theorem C06_input_free_spec_equiv (or its premises fail)' % j)
        if len(mo) > 4:
            vi, ui, is_input, move = case['convs'][j]
            ctx.hist['step_ok=%d' % mo[4]] = ctx.hist.get('step_ok=%d' % mo[4], 0) + 1
            if not mo[4]:
                # the premises of the C06 theorems (step_ok) fail for this step: the history is outside every theorem
                return ('conversion %d: the premises of the C06 theorems (step_ok: fresh indices, distinct left-hand sides, '
                        'indices in range, all ODEs with respect to the free variable) do not hold for this step' % j)
        if mo[1] != st[1]:
            return 'conversion %d: returned variable index differs: model %d implementation %d' % (j, mo[1], st[1])
        mvars, meqs = cvlib.decode_state(mo[2])
        if len(mvars) != len(st[2]):
            return 'conversion %d: number of variables differs: model %d implementation %d' % (j, len(mvars), len(st[2]))
        for i, (a, b) in enumerate(zip(mvars, st[2])):
            if a[0] != b[0]:
                return 'conversion %d: variable %d is named %r in the model, %r in the implementation' % (j, i, a[0], b[0])
            if b[1] is not None and cvlib.vmul(a[1], b[1], -1) != {}:
                return 'conversion %d: unit of %s differs' % (j, a[0])
            if (a[2] is None) != (b[2] is None) or (a[2] is not None and not math.isclose(float(a[2]), float(b[2]), rel_tol=1e-9, abs_tol=1e-12)):
                return 'conversion %d: initial value of %s differs: model %r implementation %r' % (j, a[0], a[2], b[2])
            if a[3] != b[3]:
                return 'conversion %d: cmeta id of %s differs: model %r implementation %r' % (j, a[0], a[3], b[3])
        ml = {tuple(l): t for l, t in meqs}
        il = {tuple(l): t for l, t in st[3]}
        if set(ml) != set(il) or len(meqs) != len(st[3]):
            return 'conversion %d: left-hand sides differ: model %r implementation %r' % (j, sorted(ml), sorted(il))
        for l in ml:
            d = cvlib.same_rhs(ml[l], il[l], len(mvars), case['seed'])
            if d:
                return 'conversion %d: right-hand side of %r: model and implementation %s' % (j, l, d)
    # the last element of the model's answer is (2 b), b = wf_state of the initial state
    if out and isinstance(out[-1], list) and len(out[-1]) == 2 and out[-1][0] == 2:
        ctx.hist['wf_state=%d' % out[-1][1]] = ctx.hist.get('wf_state=%d' % out[-1][1], 0) + 1
        if out[-1] == [2, 0]:
            return ('the initial state of the generated model does not satisfy wf_state '
                    '(premise of C06_sequence_equiv_from_wf)')
    return None


def bundled_cases(tier):
    """conversions on the bundled documents (implementation + oracle only where units fall outside the pool)"""
    files = ['basic_ode.cellml', 'test_simple_odes.cellml', 'repeated_ode_for_conversion_tests.cellml',
             'literals_for_conversion_tests.cellml']
    if tier == 'thorough':
        files += ['hodgkin_huxley_squid_axon_model_1952_modified.cellml', 'beeler_reuter_model_1977.cellml']
    return files


def run_bundled(args):
    import cellmlmanip
    from cellmlmanip.model import DataDirectionFlow
    fname, seed = args
    rng = random.Random(seed)
    bad = []
    try:
        m = cellmlmanip.load_model(os.path.join(CELLML, fname))
    except Exception as e:
        return [('cannot load %s: %r' % (fname, e), {})]
    for j in range(3):
        import cellmlmanip.model as M
        used = set()
        for eq in m.equations:
            used |= eq.atoms(M.Variable)
        vs = [x for x in m.variables() if x in used]
        if not vs:
            break
        v = rng.choice(vs)
        name = 'c06_u%d' % j
        try:
            m.units.add_unit(name, '%s * %s' % (m.units.format(v.units), rng.choice(['1000', '0.001', '60'])))
        except Exception:
            continue
        target = m.units.get_unit(name)
        cf = float(m.units.get_conversion_factor(v.units, target))
        is_input = rng.random() < 0.6
        try:
            m.graph
            graph_ok = True
        except Exception:
            graph_ok = False
        try:
            ok = all(x is True for x in units_consistent(m))
            new = m.convert_variable(v, target, DataDirectionFlow.INPUT if is_input else DataDirectionFlow.OUTPUT)
        except Exception as e:
            bad.append(('%s: convert_variable(%s) raises %r' % (fname, v.name, e), {'file': fname}))
            break
        if ok and not all(x is True for x in units_consistent(m)):
            bad.append(('%s: equations no longer unit-consistent after converting %s' % (fname, v.name), {'file': fname}))
        try:
            if graph_ok:
                m.graph
                m.get_equations_for(list(m.get_state_variables()) or [new], strip_units=True)
        except Exception as e:
            bad.append(('%s: model is broken after converting %s: %r' % (fname, v.name, e), {'file': fname}))
    return bad


def run(ctx):
    n = 120 if ctx.tier == 'quick' else 1500
    ctx.rule = ('generated unit-consistent models (time, 1-3 states, input / parameter constants, computed variables; sums of '
                'products with quantity coefficients, exp of dimensionless products, derivative atoms on right-hand sides) with '
                'histories of 1-4 conversions: any variable incl. previously created ones, any unit of its family (equivalent '
                'ones included), both directions, both move_annotations; plus bundled documents; non-trivial = a conversion '
                'with factor != 1 happened')
    ctx.trusted += ['wf_state of the INITIAL state of every case is evaluated by the extracted model (premise of '
                    'C06_sequence_equiv_from_wf; it is an invariant: C06_wf_preserved, and implies the per-step premises: '
                    'C06_wf_implies_step_ok); step_ok per step and free_spec_code are re-computed as cross-checks only',
                    'conversion factors restricted to rationals with prime factors 2, 3, 5 (exact unit vectors)',
                    'SymPy builds / re-evaluates products: right-hand sides compared semantically (values + referenced atoms)']
    cases = load_corpus() + [gen_case(ctx.seed * 100000 + i) for i in range(n)]
    results = vlib.pmap(run_case, cases)
    idx = [i for i, r in enumerate(results) if 'input' in r]
    for i, r in enumerate(results):
        if 'harness_error' in r:
            ctx.tie_break('harness error while building a generated model: ' + r['harness_error'], cases[i])
    outs = vlib.model_run(FN, [results[i]['input'] for i in idx]) if ctx.model_ok() and idx else None
    for k, i in enumerate(idx):
        case, r = cases[i], results[i]
        nt = any(s[0] == 'ok' and len(s[2]) > r['nvars'] for s in r['states'])
        ctx.count(case_key=(case['spec'], case['convs']), nontrivial=nt, kind='convs=%d' % len(r['states']))
        for what, detail in r['bad']:
            ctx.violation(what, {'case': case, 'detail': detail})
        for (vi, ui, is_input, move), s in zip(case['convs'], r['states']):
            ctx.hist[('INPUT' if is_input else 'OUTPUT') + (':err' if s[0] == 'err' else '')] = \
                ctx.hist.get(('INPUT' if is_input else 'OUTPUT') + (':err' if s[0] == 'err' else ''), 0) + 1
        if outs is not None:
            ctx.corr_cases += 1
            d = compare_with_model(ctx, case, r, outs[k])
            if d:
                ctx.tie_break('correspondence C06 (Model/ConvertVar.v vs model.py): ' + d, {'case': case})
        if k < 2:
            ctx.sample({'vars': case['spec']['vars'], 'eqs': case['spec']['eqs'][:3], 'convs': case['convs']})
    bargs = [(f, ctx.seed * 100 + k) for f in bundled_cases(ctx.tier) for k in range(3 if ctx.tier == 'quick' else 20)]
    for (f, sd), bad in zip(bargs, vlib.pmap(run_bundled, bargs)):
        ctx.count(case_key=(f, sd), kind='bundled')
        for what, detail in bad:
            ctx.violation(what, {'bundled': [f, sd]})
    if ctx.tie_breaks and not ctx.violations:
        more = [gen_case(ctx.seed * 100000 + 50000 + i) for i in range(5 * n if ctx.tier == 'quick' else n)]
        for case, r in zip(more, vlib.pmap(run_case, more)):
            ctx.count(case_key=(case['spec'], case['convs']), kind='search')
            for what, detail in r.get('bad', []):
                ctx.violation(what, {'case': case, 'detail': detail})


def load_corpus():
    out = []
    for p in sorted(glob.glob(os.path.join(vlib.VERIF, 'corpus', 'C06', '*.json'))):
        out.append(json.load(open(p)))
    return out


def replay(ctx, case):
    if 'bundled' in case:
        bad = run_bundled(tuple(case['bundled']))
        return bad[0][0] if bad else None
    c = case.get('case', case)
    r = run_case(c)
    if r.get('bad'):
        return r['bad'][0][0]
    if ctx.model_ok() and 'input' in r:
        out = vlib.model_run(FN, [r['input']])[0]
        return compare_with_model(ctx, c, r, out)
    return None


KNOWN_PREDICATES = {}
