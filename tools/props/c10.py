"""C10 -- variable roles and initial-state values follow from the equations alone.

correspondence: query/value histories on cellmlmanip.model.Model vs coq/Model/ModelSM.v + ModelValue.v (roles, get_value)
oracle:         roles recomputed independently from Model.equations; get_value against an exact Fraction evaluator of the
                definitions (states at initial values, time at 0, derivative atoms = value of the ODE right-hand side);
                history independence: a second, differently ordered and noisier history with the same final content must
                give the same answers.
"""
import glob
import json
import math
import os
import random
from fractions import Fraction

import msm
import vlib

FN = 100


class NoValue(Exception):
    pass


def spec_value(case, state, v, memo, stack=()):
    """exact reference value of base variable v in the final state; raises NoValue where the specification gives none"""
    if v in memo:
        return memo[v]
    if v in stack:
        raise NoValue('cycle')
    odes, defs, inits, tvar = state
    if v in odes:
        if inits[v] is None:
            raise NoValue('state without initial value')
        memo[v] = Fraction(inits[v])
        return memo[v]
    if v not in defs:
        if odes and v == tvar:
            return Fraction(0)
        raise NoValue('no definition')
    val = spec_tree(case, state, case['pool'][defs[v]]['rhs'], memo, stack + (v,))
    memo[v] = val
    return val


def spec_tree(case, state, t, memo, stack):
    k = t[0]
    if k == 0 or k == 2:
        return Fraction(t[2])
    if k == 3:
        return spec_value(case, state, t[1], memo, stack)
    if k == 4:
        return sum((spec_tree(case, state, a, memo, stack) for a in t[1:]), Fraction(0))
    if k == 5:
        p = Fraction(1)
        for a in t[1:]:
            p *= spec_tree(case, state, a, memo, stack)
        return p
    if k == 6:
        b = spec_tree(case, state, t[1], memo, stack)
        e = spec_tree(case, state, t[2], memo, stack)
        if e.denominator != 1 or (b == 0 and e < 0):
            raise NoValue('power')
        return b ** int(e)
    if k == 8:
        odes = state[0]
        y = t[1][1]
        if y not in odes or t[2][1] != state[3]:
            raise NoValue('derivative of a non-state')
        return spec_tree(case, state, case['pool'][odes[y]]['rhs'], memo, stack)
    raise NoValue('outside the rational fragment')


def has_deriv_dep(case, state, v, seen=None):
    """the definition of v (transitively) mentions a derivative: finding F9"""
    seen = seen or set()
    if v in seen:
        return False
    seen.add(v)
    odes, defs, inits, tvar = state
    if v in odes or v not in defs:
        return False

    def walk(t):
        if t[0] == 8:
            return True
        if t[0] == 3:
            return has_deriv_dep(case, state, t[1], seen)
        return any(walk(a) for a in t[1:] if isinstance(a, list) and a and isinstance(a[0], int) and a[0] <= 13)
    return walk(case['pool'][defs[v]]['rhs'])


def final_state(im):
    """(odes: var -> eq, defs: var -> eq, inits, time index) read from Model.equations only"""
    odes, defs = {}, {}
    for eq in im.model.equations:
        e = im.eqid.get(id(eq), -1)
        lhs = eq.lhs
        if lhs.is_Derivative:
            odes[im.vidx(lhs.args[0])] = e
        else:
            defs[im.vidx(lhs)] = e
    inits = {i: (None if o.initial_value is None else Fraction(o.initial_value)) for i, o in enumerate(im.objs)}
    tv = set(im.vidx(eq.lhs.args[1][0]) for eq in im.model.equations if eq.lhs.is_Derivative)
    return odes, defs, inits, (tv.pop() if len(tv) == 1 else None)


def role_answers(m, names):
    out = {}

    def q(name, fn):
        try:
            out[name] = fn()
        except Exception as e:
            out[name] = 'raises'
    q('states', lambda: [v.name for v in m.get_state_variables()])
    q('free', lambda: m.get_free_variable().name)
    q('derivatives', lambda: sorted(str(d) for d in m.get_derivatives()))
    q('derived', lambda: [v.name for v in m.get_derived_quantities()])
    q('constants', lambda: sorted(v.name for v in m.variables() if m.is_constant(v)))
    vals = {}
    for v in m.variables():
        try:
            vals[v.name] = float(m.get_value(v))
        except Exception:
            vals[v.name] = 'raises'
    out['values'] = vals
    return out


def _wellformed(im, state):
    odes, defs, inits, tvar = state
    # every equation must refer to live variables for the model to be well-formed
    wellformed = all(im.eq_alive(im.eqid[id(eq)]) for eq in im.model.equations if id(eq) in im.eqid)
    # well-formed: no variable has both an ODE and an assignment, the free variable has no definition, one free variable
    if odes and tvar is None:
        wellformed = False
    if any(i in defs for i in odes) or (tvar is not None and (tvar in defs or tvar in odes)):
        wellformed = False
    return wellformed


def run_oracle(case):
    import sympy
    bad = []
    try:
        im = msm.Impl(case)
    except Exception as e:
        return [('harness', repr(e))]
    for jj, op in enumerate(case['ops']):
        before_iv = [(v, v.initial_value) for v in im.model.variables()] if op[0] in ('addeq', 'rmeq') else None
        r = im.step(op)
        if op[0] == 'q_value' and len(bad) < 3 and not (r[0] == 'err' and r[1] == 9):
            # get_value is judged where the history asks for it (not only on the final model): what it answers may depend
            # on which queries came before it
            st = final_state(im)
            if _wellformed(im, st):
                try:
                    want = spec_value(case, st, op[1], {})
                except (NoValue, RecursionError):
                    want = None
                if want is not None and r[0] == 'err':
                    bad.append(('operation %d: get_value(%s) raises %s, the definition evaluates to %s'
                                % (jj, im.objs[op[1]].name, r[1:], want), {'op_index': jj, 'var': op[1]}))
                elif want is not None and not math.isclose(r[1], float(want), rel_tol=1e-9, abs_tol=1e-12):
                    bad.append(('operation %d: get_value(%s) returns %r, the definition evaluates to %s'
                                % (jj, im.objs[op[1]].name, r[1], want), {'op_index': jj, 'var': op[1]}))
        if before_iv is not None and len(bad) < 3:
            # adding or removing an EQUATION never touches the initial value a variable was given (a state that is clamped by
            # x = number and released again is the same state afterwards)
            chg = [(v.name, iv, v.initial_value) for v, iv in before_iv if v.initial_value != iv]
            if chg:
                bad.append(('operation %r (an equation edit) changed the initial value of %s from %r to %r'
                            % (op, chg[0][0], chg[0][1], chg[0][2]), {'op_index': jj}))
    m = im.model
    M = im.M
    state = final_state(im)
    odes, defs, inits, tvar = state
    live = [i for i, l in enumerate(im.live) if l]
    if not _wellformed(im, state):
        return bad
    # ---- roles, recomputed from the equations
    want_states = sorted((i for i in odes), key=lambda i: im.objs[i].order_added)
    got_states = [im.vidx(v) for v in m.get_state_variables()]
    if sorted(got_states) != sorted(want_states) or \
            [im.objs[i].order_added for i in got_states] != sorted(im.objs[i].order_added for i in got_states):
        bad.append(('get_state_variables returns %r, the ODE-defined variables are %r' % (got_states, want_states), {}))
    try:
        fv = im.vidx(m.get_free_variable())
        if not odes:
            bad.append(('get_free_variable returns a variable although the model has no ODE', {}))
        elif tvar is not None and fv != tvar:
            bad.append(('get_free_variable returns %r, all ODEs differentiate by %r' % (fv, tvar), {}))
    except ValueError:
        if odes:
            bad.append(('get_free_variable raises although the model has ODEs', {}))
    graph_ok = True
    try:
        derivs = sorted(str(d) for d in m.get_derivatives())
        want = sorted(str(eq.lhs) for eq in m.equations if eq.lhs.is_Derivative)
        if derivs != want:
            bad.append(('get_derivatives returns %r, the equations define %r' % (derivs, want), {}))
        dq = sorted(im.vidx(v) for v in m.get_derived_quantities())
        wantq = sorted(i for i in defs if not isinstance(im.eqobjs[defs[i]].rhs, M.Quantity) and i not in odes and i != tvar)
        if dq != wantq:
            bad.append(('get_derived_quantities returns %r, the computed variables are %r' % (dq, wantq), {}))
    except Exception:
        graph_ok = False
    for i in live:
        v = im.objs[i]
        try:
            isc = m.is_constant(v)
        except Exception as e:
            # is_constant only looks at the definition of v: it has no reason to raise on a model it accepted
            if not graph_ok:
                continue        # ill-formed histories (a dangling variable): the graph itself raises, nothing to compare
            bad.append(('is_constant(%s) raises %s' % (v.name, vlib.err_class(e)), {}))
            continue
        want_c = i in defs and not any(True for _ in walk_vars(case['pool'][defs[i]]['rhs'])) if False else None
        eq = m.get_definition(v)
        want_c = (i in defs) and (i not in odes) and len(im.eqobjs[defs[i]].rhs.atoms(M.Variable)) == 0
        if i in defs and i in odes:
            continue
        if bool(isc) != bool(want_c):
            bad.append(('is_constant(%s) is %r, its definition %s' % (v.name, isc, 'mentions no variable' if want_c else 'mentions variables or is missing'), {}))
    # ---- get_value against the exact evaluator
    for i in live:
        v = im.objs[i]
        try:
            got = float(m.get_value(v))
        except Exception as e:
            got = None
        try:
            want = spec_value(case, state, i, {})
        except NoValue:
            want = None
        except RecursionError:
            want = None
        if want is None:
            if got is not None and i < len(case['base']):
                # the specification gives no value: the code must not invent one
                bad.append(('get_value(%s) returns %r although its definition has no value' % (v.name, got), {'var': i}))
            continue
        if got is None:
            bad.append(('get_value(%s) raises, the definition evaluates to %s' % (v.name, want),
                        {'var': i, 'mentions_derivative': has_deriv_dep(case, state, i)}))
        elif not math.isclose(got, float(want), rel_tol=1e-9, abs_tol=1e-12):
            bad.append(('get_value(%s) returns %r, the definition evaluates to %s' % (v.name, got, want), {'var': i}))
    # ---- history independence: same final content through a different history
    if graph_ok:
        rng = random.Random(case['seed'] + 17)
        f = M.Model('m', cmeta_id=case.get('mcmeta'))
        mp = {}
        for v in m.variables():
            mp[v] = f.add_variable(v.name, 'dimensionless', initial_value=v.initial_value, cmeta_id=v.cmeta_id)
        eqs = [sympy.Eq(eq.lhs.xreplace(mp), eq.rhs.xreplace(mp), evaluate=False) for eq in m.equations]
        order = list(range(len(eqs)))
        # keep the document order of the equations but interleave removals / re-additions and queries
        try:
            for k in order:
                f.add_equation(eqs[k])
                if rng.random() < 0.3:
                    try:
                        _ = f.graph
                    except Exception:
                        pass
                if rng.random() < 0.3:
                    f.remove_equation(eqs[k])
                    f.add_equation(eqs[k])
            a, b = role_answers(m, None), role_answers(f, None)
            # after removal and re-addition the equation list order may differ; roles must not
            for key in a:
                x, y = a[key], b[key]
                if key == 'values':
                    for n in x:
                        if (x[n] == 'raises') != (y[n] == 'raises') or (x[n] != 'raises' and not math.isclose(x[n], y[n], rel_tol=1e-9, abs_tol=1e-12)):
                            bad.append(('get_value(%s) depends on the history: %r vs %r' % (n, x[n], y[n]), {}))
                elif x != y:
                    bad.append(('%s depends on the history: %r vs %r' % (key, x, y), {}))
        except Exception as e:
            bad.append(('a second history with the same content fails: %r' % (e,), {}))
    return bad


def walk_vars(t):
    return []


def work(case):
    return msm.run_plain(case), run_oracle(case)


def mentions_derivative(case):
    d = case.get('detail', {})
    return bool(d.get('mentions_derivative'))


# F9 was repaired by a fix: commit in /repo; nothing is suppressed any more
KNOWN_PREDICATES = {}


def run_add_remove(k):
    """variables removed and added again through the API (a removed variable's place in the order of introduction may be
    re-used): the state variables / derivatives / derived quantities are still exactly what the equations define"""
    import sympy
    from cellmlmanip.model import Model
    rng = random.Random(k)
    m = Model('m%d' % k)
    m.units.add_unit('per_s', '1 / second')
    t = m.add_variable('t', 'second')
    q = m.create_quantity
    live, bad = {}, []

    def add(name, role):
        v = m.add_variable(name, 'dimensionless', initial_value=1.0 if role == 'state' else None)
        if role == 'state':
            m.add_equation(sympy.Eq(sympy.Derivative(v, t), q(rng.choice([1.0, -2.0]), 'per_s')))
        elif role == 'derived':
            m.add_equation(sympy.Eq(v, q(2.0, 'dimensionless') * t * q(1.0, 'per_s')))
        live[name] = (v, role)
    n = 0
    add('v0', 'state')       # from the start there is an ODE, so that t is the free variable
    for step in range(rng.randint(4, 9)):
        unused = [nm for nm, (v, role) in live.items() if role == 'plain']
        if unused and rng.random() < 0.4:
            nm = rng.choice(unused)
            m.remove_variable(live.pop(nm)[0])
        else:
            n += 1
            add('v%d' % n, rng.choice(['state', 'state', 'derived', 'plain', 'plain']))
        want_s = sorted(nm for nm, (v, role) in live.items() if role == 'state')
        want_d = sorted(nm for nm, (v, role) in live.items() if role == 'derived')
        got_s = [v.name for v in m.get_state_variables()] if want_s else []
        got_dv = [str(d.args[0].name) for d in m.get_derivatives()] if want_s else []
        got_d = [v.name for v in m.get_derived_quantities()] if (want_s or want_d) else []
        if sorted(got_s) != want_s or sorted(got_dv) != want_s or sorted(got_d) != want_d:
            bad.append(('after %d add / remove steps: states %s, derivatives of %s, derived %s; the equations define states %s and '
                        'derived quantities %s' % (step + 1, got_s, got_dv, got_d, want_s, want_d), {'add_remove': k}))
            break
    return bad


def run(ctx):
    n = 150 if ctx.tier == 'quick' else 3000
    ctx.rule = ('random well-formed-core systems over 4-8 variables with rational right-hand sides (sums, products, squares, '
                'zero-quantity terms, derivative atoms), ODEs, constants; short edit histories; role queries and get_value of '
                'every variable; second history with the same final content; histories of convert_variable calls on generated models '
                'compared with a freshly built model (roles, definitions, get_value; oracle only); non-trivial = at least 3 '
                'get_value answers')
    ctx.trusted += ['right-hand sides restricted to the rational fragment so that the reference value is exact',
                    'float(expr) of SymPy modelled as exact evaluation (tolerance 1e-9)']
    cases = load_corpus() + [msm.gen_case(ctx.seed * 100000 + i, 'value') for i in range(n)]
    results = vlib.pmap(work, cases)
    for case, (plain, bad) in zip(cases, results):
        okv = sum(1 for op, r in zip(case['ops'], plain.get('results', [])) if op[0] == 'q_value' and r[0] == 'ok')
        ctx.count(case_key=(case['base'], case['pool'], case['ops']), nontrivial=okv >= 3, kind='values=%d' % min(okv, 8))
        for what, detail in bad:
            ctx.violation(what, {'case': case, 'detail': detail})
        for op, r in zip(case['ops'], plain.get('results', [])):
            if op[0].startswith('q_'):
                kind = op[0] + (':err' if r[0] == 'err' else '')
                ctx.hist[kind] = ctx.hist.get(kind, 0) + 1
    msm.correspond(ctx, cases, [p for p, _ in results], 'C10', fn=FN, with_rhs=True)
    for c in cases[:2]:
        ctx.sample({'base': c['base'], 'pool': c['pool'][:4], 'ops': c['ops'][:10]})
    ks = [ctx.seed * 1000 + i for i in range(40 if ctx.tier == 'quick' else 600)]
    for k, bad in zip(ks, vlib.pmap(run_add_remove, ks)):
        ctx.count(case_key=('add-remove', k), kind='add-remove')
        for what, detail in bad:
            ctx.violation(what, detail)
    # "none of this depends on how the model was reached": unit conversion is one way to reach a model
    from props import c08
    c08.conversion_stratum(ctx, 'C10', 40 if ctx.tier == 'quick' else 600)
    if ctx.tie_breaks and not ctx.violations:
        more = [msm.gen_case(ctx.seed * 100000 + 50000 + i, 'value') for i in range(8 * n if ctx.tier == 'quick' else n)]
        for case, bad in zip(more, vlib.pmap(run_oracle, more)):
            ctx.count(case_key=(case['base'], case['pool']), kind='search')
            for what, detail in bad:
                ctx.violation(what, {'case': case, 'detail': detail})


def load_corpus():
    out = []
    for p in sorted(glob.glob(os.path.join(vlib.VERIF, 'corpus', 'C10', '*.json'))):
        out.append(json.load(open(p)))
    return out


def replay(ctx, case):
    if 'add_remove' in case:
        bad = run_add_remove(case['add_remove'])
        return bad[0][0] if bad else None
    if 'conversion_case' in case:
        import cvlib
        bad = [b for b in cvlib.conversion_coherence(case['conversion_case']) if b[0] in ('C10', 'C08')]
        for who, what, detail in bad:
            ctx.violation(what, {'conversion_case': case['conversion_case'], 'detail': detail})
        return bad[0][1] if bad else None
    c = case.get('case', case)
    bad = run_oracle(c)
    for what, detail in bad:
        ctx.violation(what, {'case': c, 'detail': detail})
    if bad:
        return None
    msm.correspond(ctx, [c], [msm.run_plain(c)], 'C10', fn=FN, with_rhs=True)
    return ctx.tie_breaks[0][0] if ctx.tie_breaks else None
