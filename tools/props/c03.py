"""C03 -- units definitions mean what the CellML specification says, in any order.

correspondence: families of <units> definitions loaded with cellmlmanip.load_model (implementation) vs
                Model/UnitsLoader.v (extracted), for every permutation of the family that is run
oracle:         the UnitSpec formula evaluated directly in Python (exact prime-exponent arithmetic with Fraction,
                hand-written SI tables), independent of the Coq model: scale and dimension exponents of every
                definition, rejection of cyclic / dangling / duplicate / built-in-overriding / non-zero-offset
                families, identical results for every permutation
"""
import glob
import itertools
import json
import math
import os
import re
import shutil
import tempfile
from decimal import Decimal, InvalidOperation
from fractions import Fraction

import vlib

FN = 30
GEN_DEPS = ('builtins', 'prefixes')

# ---- hand-written specification tables (CellML 1.1, 5.2.1 table 2 and 5.2.2 table 3) ---------------------------
SI_PREFIX = {'yotta': 24, 'zetta': 21, 'exa': 18, 'peta': 15, 'tera': 12, 'giga': 9, 'mega': 6, 'kilo': 3,
             'hecto': 2, 'deka': 1, 'deca': 1, 'deci': -1, 'centi': -2, 'milli': -3, 'micro': -6, 'nano': -9,
             'pico': -12, 'femto': -15, 'atto': -18, 'zepto': -21, 'yocto': -24}
SCHEMA_PREFIXES = [p for p in SI_PREFIX if p != 'deca']
DIMS = ['meter', 'kilogram', 'second', 'ampere', 'kelvin', 'mole', 'candela']
#                 10^   m  kg   s   A   K mol  cd  rad
SI_UNITS = {
    'ampere':        (0,  0,  0,  0,  1,  0,  0,  0, 0), 'becquerel':     (0,  0,  0, -1,  0,  0,  0,  0, 0),
    'candela':       (0,  0,  0,  0,  0,  0,  0,  1, 0), 'coulomb':       (0,  0,  0,  1,  1,  0,  0,  0, 0),
    'dimensionless': (0,  0,  0,  0,  0,  0,  0,  0, 0), 'farad':         (0, -2, -1,  4,  2,  0,  0,  0, 0),
    'gram':          (-3, 0,  1,  0,  0,  0,  0,  0, 0), 'gray':          (0,  2,  0, -2,  0,  0,  0,  0, 0),
    'henry':         (0,  2,  1, -2, -2,  0,  0,  0, 0), 'hertz':         (0,  0,  0, -1,  0,  0,  0,  0, 0),
    'joule':         (0,  2,  1, -2,  0,  0,  0,  0, 0), 'katal':         (0,  0,  0, -1,  0,  0,  1,  0, 0),
    'kelvin':        (0,  0,  0,  0,  0,  1,  0,  0, 0), 'kilogram':      (0,  0,  1,  0,  0,  0,  0,  0, 0),
    'liter':         (-3, 3,  0,  0,  0,  0,  0,  0, 0), 'litre':         (-3, 3,  0,  0,  0,  0,  0,  0, 0),
    'lumen':         (0,  0,  0,  0,  0,  0,  0,  1, 2), 'lux':           (0, -2,  0,  0,  0,  0,  0,  1, 2),
    'meter':         (0,  1,  0,  0,  0,  0,  0,  0, 0), 'metre':         (0,  1,  0,  0,  0,  0,  0,  0, 0),
    'mole':          (0,  0,  0,  0,  0,  0,  1,  0, 0), 'newton':        (0,  1,  1, -2,  0,  0,  0,  0, 0),
    'ohm':           (0,  2,  1, -3, -2,  0,  0,  0, 0), 'pascal':        (0, -1,  1, -2,  0,  0,  0,  0, 0),
    'radian':        (0,  0,  0,  0,  0,  0,  0,  0, 1), 'second':        (0,  0,  0,  1,  0,  0,  0,  0, 0),
    'siemens':       (0, -2, -1,  3,  2,  0,  0,  0, 0), 'sievert':       (0,  2,  0, -2,  0,  0,  0,  0, 0),
    'steradian':     (0,  0,  0,  0,  0,  0,  0,  0, 2), 'tesla':         (0,  0,  1, -2, -1,  0,  0,  0, 0),
    'volt':          (0,  2,  1, -3, -1,  0,  0,  0, 0), 'watt':          (0,  2,  1, -3,  0,  0,  0,  0, 0),
    'weber':         (0,  2,  1, -2, -1,  0,  0,  0, 0),
}
BUILTINS = sorted(SI_UNITS)
RESERVED = set(BUILTINS) | {'celsius'}

GEN_NAMES = {-8: 'radian', -1: 'meter', -2: 'kilogram', -3: 'second', -4: 'ampere', -5: 'kelvin', -6: 'mole',
             -7: 'candela'}

EXPONENTS = ['1', '-1', '2', '-2', '3', '-3', '0.5', '-0.5', '1.5', '2.0', '1.0']
MULTS = ['2', '3', '5', '7', '1000', '0.001', '1e-6', '1e3', '2.5', '60', '3600', '0.01', '100', '0.5', '1.5', '12',
         '96', '1.1', '9.7e1', '0.0255', '6.25e-2', '1.21', '89', '0.97', '1',
         # very small multipliers and multipliers with many significant digits (a fixed number of decimals loses them)
         '1e-10', '2.5e-9', '0.00000004', '0.0009765625', '9.5367431640625e-07', '1.0009765625']
WORD_NAMES = ['ua', 'ub', 'uc', 'ud', 'ue', 'uf', 'ug', 'uh', 'mV', 'ms', '_u', '__v2', '_1', 'e', 'pi', 'E', 'metre_x',
              'kilometre', 'millisecond', 'store{SID}_x', 'store{SID}_u', 'store12_volt', 'x1', 'A_per_F',
              'u_2', 'voltage', 'my_volt', 'second2', 'gram_per_litre', 'radians', 'INF', 'nan', 'j', 'k9',
              'm_2_s', 'per_ms', 'Unit', 'C_m', 'deca', 'kilo', 'e3', 'E5']
DIGIT_NAMES = ['2x', '1e3', '10', '3_m', '007', '1u', '2']
ZERO_OFFSETS_INT = ['0', ' 0 ', '00']
ZERO_OFFSETS_OTHER = ['0.0', '-0', '+0', '0.', '.0', '0.00']
NONZERO_OFFSETS = ['1', '32', '1.5', '-273.15']


def frac(s):
    return Fraction(Decimal(s.strip()))


# ---- exact positive rationals as prime-exponent vectors ---------------------------------------------------------
def factor(q):
    """positive Fraction -> ({prime: int exponent}, leftover Fraction with no prime factor below 100)"""
    out = {}
    n, d = q.numerator, q.denominator
    assert n > 0
    for p in range(2, 100):
        while n % p == 0:
            n //= p
            out[p] = out.get(p, 0) + 1
        while d % p == 0:
            d //= p
            out[p] = out.get(p, 0) - 1
    return out, Fraction(n, d)


def vmul(a, b):
    out = dict(a)
    for k, v in b.items():
        out[k] = out.get(k, 0) + v
    return out


def vpow(a, e):
    return {k: v * e for k, v in a.items()}


def vclean(a):
    return {k: v for k, v in a.items() if v != 0}


def qvec(q):
    f, rest = factor(q)
    if rest != 1:
        raise ValueError('number with a prime factor above 100 in a generated case: %s' % q)
    return {('p', p): Fraction(e) for p, e in f.items()}


def vec_scale(v):
    """float value of the scale part"""
    lg = 0.0
    for k, e in v.items():
        if k[0] == 'p':
            lg += float(e) * math.log(k[1])
    return math.exp(lg) if abs(lg) < 700 else float('inf')


def vec_log10(v):
    return sum(float(e) * math.log10(k[1]) for k, e in v.items() if k[0] == 'p')


def vec_dims(v):
    return {k[1]: float(e) for k, e in v.items() if k[0] == 'd' and e != 0}


def builtin_vec(name):
    row = SI_UNITS[name]
    v = {}
    if row[0]:
        v[('p', 2)] = Fraction(row[0])
        v[('p', 5)] = Fraction(row[0])
    for dname, e in zip(DIMS + ['radian'], row[1:]):
        if e:
            v[('d', dname)] = Fraction(e)
    return v


# ---- stage D oracle: the UnitSpec formula, order-free -----------------------------------------------------------
def offset_class(s):
    """1 isnumeric zero, 2 isnumeric non-zero, 3 other spelling of zero, 4 other non-zero"""
    t = s.strip()
    if t.isnumeric():
        return 1 if int(t) == 0 else 2
    try:
        return 3 if Decimal(t) == 0 else 4
    except InvalidOperation:
        return 4


def expected(defs):
    """('ok', {name: vector}) or ('err', reason)"""
    names = [d['name'] for d in defs]
    if len(set(names)) != len(names):
        return ('err', 'duplicate')
    for n in names:
        if n in RESERVED:
            return ('err', 'builtin-override')
    table = {d['name']: d for d in defs}

    def is_base(d):
        return d['base'] == 'yes'
    for d in defs:
        if is_base(d):
            continue
        if not d['children']:
            return ('err', 'no-children')
        for c in d['children']:
            if c.get('offset') is not None:
                k = offset_class(c['offset'])
                if k in (2, 4):
                    return ('err', 'offset')
    memo = {}

    def resolve(n, stack):
        if n in SI_UNITS:
            return builtin_vec(n)
        if n not in table:
            raise LookupError('dangling')
        if n in memo:
            return memo[n]
        if n in stack:
            raise LookupError('cycle')
        d = table[n]
        if is_base(d):
            v = {('d', n): Fraction(1)}
        else:
            v = {}
            for c in d['children']:
                r = resolve(c['units'], stack + [n])
                if c.get('prefix') is not None:
                    p = c['prefix'].strip()       # RELAX NG token / xsd:integer: surrounding white space is not significant
                    k = SI_PREFIX[p] if p in SI_PREFIX else int(p)
                    r = vmul(r, {('p', 2): Fraction(k), ('p', 5): Fraction(k)})
                if c.get('exponent') is not None:
                    r = vpow(r, frac(c['exponent']))
                if c.get('multiplier') is not None:
                    r = vmul(qvec(frac(c['multiplier'])), r)
                v = vmul(v, r)
        memo[n] = vclean(v)
        return memo[n]
    try:
        return ('ok', {n: resolve(n, []) for n in names})
    except LookupError as e:
        return ('err', str(e))


def close(a, b, tol=1e-9):
    return math.isclose(a, b, rel_tol=tol, abs_tol=1e-300)


def agrees(exp, impl, ignore_radian=True):
    """None when the implementation result [impl] is what [exp] demands, else a description"""
    if exp[0] == 'err':
        return None if impl[0] == 'err' else 'accepted although the family must be rejected (%s)' % exp[1]
    if impl[0] == 'err':
        return 'rejected (%s: %s) although every definition is well-formed' % (impl[1], impl[3][:100])
    for n, v in exp[1].items():
        got = impl[1].get(n)
        if got is None:
            return 'unit %s missing from the loaded model' % n
        want_s, want_d = vec_scale(v), vec_dims(v)
        got_d = dict(got[1])
        if ignore_radian:
            want_d.pop('radian', None)
            got_d.pop('radian', None)
        if not close(got[0], want_s):
            return 'unit %s: SI scale is %r, the definition means %r (%s)' % (n, got[0], want_s, got[2])
        if set(want_d) != set(got_d) or any(abs(want_d[k] - got_d[k]) > 1e-12 for k in want_d):
            return 'unit %s: dimension exponents are %r, the definition means %r (%s)' % (n, got_d, want_d, got[2])
    return None


# ---- documents -------------------------------------------------------------------------------------------------
def xml_attr(s):
    return s.replace('&', '&amp;').replace('<', '&lt;').replace('"', '&quot;')


def document(defs):
    out = ['<?xml version="1.0" encoding="UTF-8"?>', '<model name="m" xmlns="http://www.cellml.org/cellml/1.0#">']
    for d in defs:
        a = ' name="%s"' % xml_attr(d['name'])
        if d['base'] is not None:
            a += ' base_units="%s"' % d['base']
        if d['base'] == 'yes':
            out.append('  <units%s/>' % a)
            continue
        out.append('  <units%s>' % a)
        for c in d['children']:
            b = ' units="%s"' % xml_attr(c['units'])
            for k in ('prefix', 'exponent', 'multiplier', 'offset'):
                if c.get(k) is not None:
                    b += ' %s="%s"' % (k, xml_attr(c[k]))
            out.append('    <unit%s/>' % b)
        out.append('  </units>')
    out.append('  <component name="c">')
    seen = []
    for d in defs:
        if d['name'] not in seen:
            seen.append(d['name'])
    for i, n in enumerate(seen):
        out.append('    <variable name="v%d" units="%s"/>' % (i, xml_attr(n)))
    out.append('  </component>')
    out.append('</model>')
    return '\n'.join(out) + '\n'


def subst_sid(defs, sid):
    def f(s):
        return s.replace('{SID}', str(sid)) if s is not None else None
    return [{'name': f(d['name']), 'base': d['base'],
             'children': [dict(c, units=f(c['units'])) for c in d['children']]} for d in defs]


_FMT = re.compile(r'^(\S+) (.*)$')


def parse_base(text):
    """'0.001 kilogram * meter ** 2 / second ** 3' -> (scale float, {name: exponent})"""
    m = _FMT.match(text)
    scale = float(m.group(1))
    dims = {}
    toks = m.group(2).strip().split(' ')
    sign = 1
    last = lastsign = None
    i = 0
    while i < len(toks):
        t = toks[i]
        if t == '*':
            sign = 1
        elif t == '/':
            sign = -1
        elif t == '**':
            i += 1
            dims[last] = dims[last] - lastsign + lastsign * float(toks[i])
        elif t in ('1', 'dimensionless', ''):
            pass
        else:
            last, lastsign = t, sign
            dims[t] = dims.get(t, 0) + sign
        i += 1
    return scale, {k: v for k, v in dims.items() if abs(v) > 1e-12}


_TMP = {}


def _tmpdir():
    pid = os.getpid()
    if pid not in _TMP:
        _TMP.clear()
        _TMP[pid] = tempfile.mkdtemp(prefix='c03_')
    return _TMP[pid]


def load_family(defs):
    """-> ('ok', {name: (scale, dims, text)}, sid) | ('err', class, stage, message)"""
    import cellmlmanip
    from cellmlmanip.units import UnitStore
    sid = UnitStore._next_id
    defs = subst_sid(defs, sid)
    path = os.path.join(_tmpdir(), 'm.cellml')
    with open(path, 'w') as f:
        f.write(document(defs))
    try:
        model = cellmlmanip.load_model(path)
    except Exception as e:
        msg = str(e)
        stage = 'schema' if msg.startswith('Invalid or unsupported CellML file') else 'load'
        return ('err', vlib.err_class(e), stage, msg[:200])
    out = {}
    try:
        for d in defs:
            u = model.units.get_unit(d['name'])
            text = model.units.format(u, base_units=True)
            sc, dims = parse_base(text)
            out[d['name']] = (sc, dims, text)
    except Exception as e:
        return ('err', vlib.err_class(e), 'query', str(e)[:200])
    return ('ok', out, sid)


def run_impl(case):
    res = []
    for perm in case['perms']:
        defs = [case['defs'][i] for i in perm]
        r = load_family(defs)
        if r[0] == 'ok' and any('{SID}' in d['name'] for d in defs):
            # report names in their placeholder form
            back = {d['name'].replace('{SID}', str(r[2])): d['name'] for d in defs}
            r = ('ok', {back.get(n, n): (v[0], {back.get(k, k): e for k, e in v[1].items()}, v[2])
                        for n, v in r[1].items()}, r[2])
        res.append(r)
    return res


def work(case):
    try:
        return run_impl(case)
    except Exception as e:  # harness failure inside the worker
        return [('err', 'harness', 'harness', repr(e))] * len(case['perms'])


# ---- model side ------------------------------------------------------------------------------------------------
_INT = re.compile(r'\s*[+-]?[0-9]+\s*')     # xsd:integer, surrounding white space allowed


def modelable(case):
    """lexical forms the bridge can express: integer prefixes (the code applies int()), decimal exponents /
    multipliers without surrounding white space"""
    for d in case['defs']:
        for c in d['children']:
            p = c.get('prefix')
            if p is not None and p.strip() not in SI_PREFIX and not _INT.fullmatch(p):
                return False
            for k in ('exponent', 'multiplier'):
                if c.get(k) is not None and c[k] != c[k].strip():
                    return False
    return not case.get('oracle_only')


def child_sexp(c):
    p = c.get('prefix')
    if p is None:
        ps = []
    elif p.strip() in SI_PREFIX:     # the schema's prefix names are tokens: surrounding white space is not significant
        ps = [0, p.strip()]
    else:
        ps = [1, int(p)]
    e = [] if c.get('exponent') is None else [frac(c['exponent'])]
    m = [] if c.get('multiplier') is None else [frac(c['multiplier'])]
    o = 0 if c.get('offset') is None else offset_class(c['offset'])
    return [c['units'].replace('{SID}', '0'), ps, e, m, o]


def family_sexp(defs):
    return [[d['name'].replace('{SID}', '0'), {None: 0, 'yes': 1, 'no': 2}[d['base']],
             [child_sexp(c) for c in d['children']]] for d in defs]


RADIX = 2097152


def base_gen(name):
    code = 1
    for ch in reversed(name):
        code = (ord(ch) % RADIX) + RADIX * code
    return -100 - code


def svec_float(v):
    x = 0.0
    for k, (n, d) in v:
        x += (n / d) * math.log(k)
    return math.exp(x) if abs(x) < 700 else float('inf')


ERR_CODES = {1: 'ValueError', 3: 'pint:UndefinedUnitError', 8: 'AttributeError'}


def compare_model(defs, impl, mod):
    """None when implementation and extracted model agree on this document, 'skip' when the model does not
    predict (F2 fragment), else a description"""
    if mod[0] == -1:
        code = mod[1]
        if code == 97:
            return 'skip'
        if code not in ERR_CODES:
            return 'harness: the model cannot represent this case (code %d)' % code
        if impl[0] == 'err' and impl[2] != 'schema' and impl[1] == ERR_CODES[code]:
            return None
        return 'model: %s, implementation: %r' % (ERR_CODES[code], impl[:4] if impl[0] == 'err' else 'loaded')
    if impl[0] == 'err':
        return 'model: loads, implementation raised %r' % (impl[1:4],)
    gens = dict(GEN_NAMES)
    for d in defs:
        gens[base_gen(d['name'].replace('{SID}', '0'))] = d['name']
    for (nm, r), d in zip(mod[1], defs):
        name = d['name']
        if vlib.sexp_str(nm) != name.replace('{SID}', '0'):
            return 'harness: model answered for another name'
        if r[0] == -1:
            return 'model: get_unit(%s) fails with code %d, implementation: ok' % (name, r[1])
        got = impl[1].get(name)
        if got is None:
            return 'implementation has no unit %s' % name
        want = svec_float(r[1])
        if not close(got[0], want):
            return 'unit %s scale: model %r implementation %r (%s)' % (name, want, got[0], got[2])
        dims = {}
        for g, (n, dd) in r[2]:
            if g not in gens:
                return 'harness: unknown generator %d' % g
            dims[gens[g]] = n / dd
        if set(dims) != set(got[1]) or any(abs(dims[x] - got[1][x]) > 1e-12 for x in dims):
            return 'unit %s dimensions: model %r implementation %r (%s)' % (name, dims, got[1], got[2])
    return None


# ---- case generation ------------------------------------------------------------------------------------------
def mk_child(units, prefix=None, exponent=None, multiplier=None, offset=None):
    return {'units': units, 'prefix': prefix, 'exponent': exponent, 'multiplier': multiplier, 'offset': offset}


def mk_def(name, children=None, base=None):
    return {'name': name, 'base': base, 'children': children or []}


def rand_prefix(rng):
    return rng.choice(SCHEMA_PREFIXES) if rng.random() < 0.5 else str(rng.randint(-24, 24))


def rand_child(rng, refs, rich=True):
    c = mk_child(rng.choice(refs))
    if rng.random() < 0.5:
        c['prefix'] = rand_prefix(rng)
    if rng.random() < 0.5:
        c['exponent'] = rng.choice(EXPONENTS)
    if rng.random() < 0.4:
        c['multiplier'] = rng.choice(MULTS)
    if rich and rng.random() < 0.08:
        c['offset'] = rng.choice(ZERO_OFFSETS_INT)
    return c


def perms_for(rng, n, tier):
    ident = list(range(n))
    if n <= 1:
        return [ident]
    if tier == 'thorough' and n <= 5:
        return [list(p) for p in itertools.permutations(ident)]
    want = 6 if tier == 'quick' else 24
    out = [ident, ident[::-1]]
    tries = 0
    while len(out) < want and tries < 200:
        p = ident[:]
        rng.shuffle(p)
        if p not in out:
            out.append(p)
        tries += 1
    return out


# ---- order stratum: repeated references, chains, diamonds, in ALL orders ------------------------------------------
# structure templates: (definition, references); 'B' = some built-in unit, '!' prefix = new base unit
ORDER_TEMPLATES = [
    ('area', [('side', ['B']), ('depth', ['B']), ('area', ['side', 'side', 'depth'])]),
    ('xxy-dep', [('x', ['B']), ('y', ['x', 'B']), ('d', ['x', 'x', 'y'])]),
    ('xyx', [('x', ['B']), ('y', ['B', 'B']), ('d', ['x', 'y', 'x']), ('e', ['d', 'y'])]),
    ('xxxy', [('x', ['B']), ('y', ['B']), ('d', ['x', 'x', 'x', 'y']), ('e', ['d', 'y', 'y'])]),
    ('two-doubles', [('x', ['B']), ('y', ['B']), ('z', ['y']), ('d', ['x', 'z', 'x']), ('e', ['d', 'd', 'z'])]),
    ('xyxy', [('x', ['B']), ('y', ['B']), ('d', ['x', 'y', 'x', 'y']), ('e', ['y', 'd', 'y'])]),
    ('chain3', [('a', ['B']), ('b', ['a']), ('c', ['b'])]),
    ('chain4', [('a', ['B']), ('b', ['a']), ('c', ['b', 'B']), ('d', ['c'])]),
    ('chain5', [('a', ['B']), ('b', ['a']), ('c', ['b']), ('d', ['c']), ('e', ['d'])]),
    ('chain5-doubles', [('a', ['B']), ('b', ['a', 'a']), ('c', ['b', 'a']), ('d', ['c', 'c', 'b']), ('e', ['d', 'a'])]),
    ('diamond', [('a', ['B']), ('b', ['a']), ('c', ['a']), ('d', ['b', 'c'])]),
    ('diamond-tail', [('a', ['B']), ('b', ['a']), ('c', ['a', 'B']), ('d', ['b', 'c']), ('e', ['d', 'a'])]),
    ('double-diamond', [('a', ['B']), ('b', ['a', 'a']), ('c', ['a', 'B']), ('d', ['b', 'c', 'b']), ('e', ['d', 'c', 'c'])]),
    ('base-doubles', [('!u', []), ('x', ['!u', '!u', 'B']), ('y', ['x', 'B']), ('d', ['x', 'x', 'y', '!u'])]),
    ('wide', [('a', ['B']), ('b', ['B']), ('c', ['B']), ('d', ['a', 'b', 'a', 'c']), ('e', ['d', 'c', 'c', 'b'])]),
    ('chain6', [('a', ['B']), ('b', ['a']), ('c', ['b']), ('d', ['c']), ('e', ['d']), ('f', ['e', 'a', 'a'])]),
    ('chain7-doubles', [('a', ['B']), ('b', ['a', 'a']), ('c', ['b']), ('d', ['c', 'b', 'c']), ('e', ['d']), ('f', ['e', 'e', 'a']),
                        ('g', ['f', 'b'])]),
]


def order_perms(rng, n):
    """every order for up to 5 definitions; beyond that a deterministic subset (identity, reversed, all rotations of
    both, adjacent transpositions of both) plus random orders"""
    ident = list(range(n))
    if n <= 5:
        return [list(p) for p in itertools.permutations(ident)]
    out = []
    for base in (ident, ident[::-1]):
        for r in range(n):
            out.append(base[r:] + base[:r])
        for i in range(n - 1):
            q = base[:]
            q[i], q[i + 1] = q[i + 1], q[i]
            out.append(q)
    for _ in range(40):
        q = ident[:]
        rng.shuffle(q)
        out.append(q)
    seen = []
    for q in out:
        if q not in seen:
            seen.append(q)
    return seen


def simple_child(rng, ref):
    """small attributes so that long products of repeated references stay well inside floating point"""
    c = mk_child(ref)
    r = rng.random()
    if r < 0.35:
        c['prefix'] = rng.choice(['milli', 'kilo', 'centi', 'deci', 'hecto', 'micro', '-1', '2', '3', '-2'])
    if rng.random() < 0.4:
        c['exponent'] = rng.choice(['-1', '2', '-2', '0.5', '-0.5', '1.5', '1.0'])
    if rng.random() < 0.3:
        c['multiplier'] = rng.choice(['2', '3', '0.5', '2.5', '60', '0.01', '1.1', '7'])
    return c


def instantiate(rng, template):
    for attempt in range(50):
        names = rng.sample([n for n in WORD_NAMES if '{SID}' not in n], len(template))
        ren = {t[0]: n for t, n in zip(template, names)}
        defs = []
        for tname, refs in template:
            if tname.startswith('!'):
                defs.append(mk_def(ren[tname], base='yes'))
            else:
                defs.append(mk_def(ren[tname], [simple_child(rng, rng.choice(BUILTINS) if r == 'B' else ren[r])
                                                for r in refs]))
        if magnitude_ok(defs):
            return defs
    raise RuntimeError('order stratum: no instance of acceptable magnitude')


def dense_family(rng, k):
    """k definitions, each over 1-4 references drawn WITH repetition mostly from the earlier user definitions"""
    tmpl = []
    for i in range(k):
        prev = [t[0] for t in tmpl]
        if not prev:
            refs = ['B']
        else:
            refs = [rng.choice(prev) if rng.random() < 0.8 else 'B' for _ in range(rng.choice([1, 2, 3, 3, 4]))]
            if rng.random() < 0.5:
                refs.append(rng.choice(refs))       # a repeated reference
        tmpl.append(('n%d' % i, refs))
    return tmpl


def order_cases(seed, tier):
    rng = vlib.random.Random(seed * 17 + 9)
    out = []
    reps = 1 if tier == 'quick' else 6
    for _ in range(reps):
        for kind, tmpl in ORDER_TEMPLATES:
            out.append({'kind': 'order-' + kind, 'defs': instantiate(rng, tmpl), 'perms': order_perms(rng, len(tmpl))})
    for i in range(24 if tier == 'quick' else 400):
        k = rng.choice([3, 4, 4, 5, 5, 5]) if i % 8 else rng.choice([6, 7])
        tmpl = dense_family(rng, k)
        out.append({'kind': 'order-dense', 'defs': instantiate(rng, tmpl), 'perms': order_perms(rng, k)})
    return out


def magnitude_ok(defs):
    """Keep the family inside binary floating point: pint multiplies the own scale factor of every definition in the
    reference tree, raised to its total exponent, term by term (registry._get_root_units_recurse), so intermediate
    products can under/overflow although the result is representable (x = 1e-60 s^3, y = x^3 (1e20 s)^9, z = y^2
    raises OverflowError although z = 1 s^36).  Bound: sum over the tree of |log10(own factor) x total exponent|."""
    e = expected(defs)
    if e[0] != 'ok':
        return True
    table = {d['name']: d for d in defs}

    def walk(n, ex):
        if n in SI_UNITS:
            return abs(SI_UNITS[n][0] * ex)
        d = table[n]
        if d['base'] == 'yes':
            return 0.0
        own = 0.0
        tot = 0.0
        for c in d['children']:
            x = float(frac(c['exponent'])) if c.get('exponent') is not None else 1.0
            if c.get('prefix') is not None:
                p = c['prefix'].strip()
                own += x * (SI_PREFIX[p] if p in SI_PREFIX else int(p))
            if c.get('multiplier') is not None:
                own += math.log10(float(frac(c['multiplier'])))
            tot += walk(c['units'], ex * x)
        return tot + abs(own * ex)
    return all(walk(d['name'], 1.0) < 200 for d in defs) and \
        all(all(abs(x) < 40 for x in vec_dims(v).values()) for v in e[1].values())


def gen_family(seed, tier):
    """a well-formed family: 1-8 definitions over built-ins, new base units and one another (acyclic)"""
    for attempt in range(50):
        rng = vlib.random.Random(seed * 64 + attempt)
        k = rng.choice([1, 2, 3, 3, 4, 4, 5, 5, 6, 7, 8])
        pool = list(WORD_NAMES)
        if rng.random() < 0.15:
            pool += DIGIT_NAMES            # defined, never referenced: must work
        names = rng.sample(pool, k)
        chain = rng.random() < 0.3
        defs = []
        refable = []
        for i, n in enumerate(names):
            if not chain and rng.random() < 0.12:
                defs.append(mk_def(n, base='yes'))
            else:
                prev = [m for m in refable]
                refs = BUILTINS if not prev else (prev * 3 + BUILTINS if not chain else [prev[-1]])
                nch = 1 if chain and prev else rng.choice([1, 1, 2, 2, 3])
                ch = [rand_child(rng, refs) for _ in range(nch)]
                if chain and prev and rng.random() < 0.4:
                    ch.append(rand_child(rng, BUILTINS))
                defs.append(mk_def(n, ch))
            if n[0] not in '0123456789':
                refable.append(n)
        if not magnitude_ok(defs):
            continue
        # repaired findings F1 / F3 stay in the stream: base_units="no" is an ordinary definition, a zero offset
        # may be spelled in any way
        nonbase = [d for d in defs if d['base'] is None]
        for d in nonbase:
            if rng.random() < 0.08:
                d['base'] = 'no'
            for c in d['children']:
                if c.get('offset') is None and rng.random() < 0.05:
                    c['offset'] = rng.choice(ZERO_OFFSETS_OTHER)
                if c.get('prefix') is not None and rng.random() < 0.15:
                    c['prefix'] = rng.choice([' %s ', '%s ', ' %s', '\n%s'])  % c['prefix']
        order = list(range(k))
        rng.shuffle(order)
        defs = [defs[i] for i in order]
        return {'kind': 'chain' if chain else 'family', 'seed': seed, 'defs': defs, 'perms': perms_for(rng, k, tier)}
    raise RuntimeError('no family of acceptable magnitude for seed %d' % seed)


def enumerated_cases(seed):
    """finite decision spaces, run completely on every run"""
    rng = vlib.random.Random(seed * 7 + 1)
    out = []
    allp = SCHEMA_PREFIXES + [str(z) for z in range(-24, 25)]
    for i, p in enumerate(allp):
        e = EXPONENTS[(i + seed) % len(EXPONENTS)] if i % 3 else None
        if e is not None and abs(float(e) * (SI_PREFIX.get(p) if p in SI_PREFIX else int(p))) > 60:
            e = '-1'
        m = MULTS[(i * 5 + seed) % len(MULTS)] if i % 2 else None
        out.append({'kind': 'prefix', 'defs': [mk_def('p', [mk_child(rng.choice(['metre', 'second', 'volt', 'gram']), p, e, m)])],
                    'perms': [[0]]})
    for e in EXPONENTS:
        out.append({'kind': 'exponent', 'defs': [mk_def('q', [mk_child('litre', 'kilo', e, '2.5')])], 'perms': [[0]]})
    for m in MULTS:
        out.append({'kind': 'multiplier', 'defs': [mk_def('q', [mk_child('newton', '-2', '0.5', m)])], 'perms': [[0]]})
    # exponent is applied to (prefix x unit), the multiplier is outside the power
    out.append({'kind': 'interaction', 'defs': [mk_def('q', [mk_child('metre', 'centi', '3', '7')]),
                                                mk_def('r', [mk_child('q', 'milli', '-0.5', '3'), mk_child('second', '3', '2')])],
                'perms': [[0, 1], [1, 0]]})
    for b in BUILTINS:
        out.append({'kind': 'builtin', 'defs': [mk_def('b_' + b, [mk_child(b, 'milli', '2')])], 'perms': [[0]]})
    # every built-in as one factor among several, with a prefix and no multiplier (incl. dimensionless, radian)
    for i, b in enumerate(BUILTINS):
        out.append({'kind': 'builtin-factor',
                    'defs': [mk_def('c_' + b, [mk_child('mole'), mk_child(b, ['micro', '-6', 'kilo', '2'][i % 4],
                                                                         [None, '2', '-1'][i % 3]),
                                               mk_child('litre', exponent='-1')])], 'perms': [[0]]})
    for o in ZERO_OFFSETS_INT + ZERO_OFFSETS_OTHER + NONZERO_OFFSETS:
        out.append({'kind': 'offset', 'defs': [mk_def('o', [mk_child('kelvin', offset=o)])], 'perms': [[0]]})
    for o in ZERO_OFFSETS_INT + ZERO_OFFSETS_OTHER:
        out.append({'kind': 'offset', 'defs': [mk_def('o', [mk_child('kelvin', 'milli', '2', offset=o), mk_child('second')])],
                    'perms': [[0]]})
    out.append({'kind': 'base_units', 'defs': [mk_def('nb', [mk_child('second', 'milli')], base='no'),
                                               mk_def('yb', base='yes'),
                                               mk_def('z', [mk_child('nb', exponent='2'), mk_child('yb', exponent='-1')])],
                'perms': [[0, 1, 2], [2, 1, 0], [1, 2, 0]]})
    out.append({'kind': 'base_units', 'defs': [mk_def('nb', [mk_child('volt')], base='no')], 'perms': [[0]]})
    # CellML identifiers are case sensitive: a user unit whose name differs from a built-in (or from "celsius") only
    # in letter case is an ordinary unit -- as a derived unit and as a new base unit, referenced by a chained unit
    others = ['second', 'metre', 'kilogram', 'ampere', 'mole', 'volt', 'litre', 'newton']
    for i, b in enumerate(BUILTINS + ['celsius']):
        variants = [b.capitalize(), b.upper(), b[:-1] + b[-1].upper()]
        for j, v in enumerate(variants):
            o = others[(i + j) % len(others)]
            ref = b if b != 'celsius' else 'kelvin'
            out.append({'kind': 'case-name-derived',
                        'defs': [mk_def(v, [mk_child(o, ['kilo', '-3', 'micro'][j], [None, '2', '-1'][(i + j) % 3], '2.5')]),
                                 mk_def('chained', [mk_child(v, 'milli', '2'), mk_child(ref, exponent='-1')])],
                        'perms': [[0, 1], [1, 0]]})
            out.append({'kind': 'case-name-base',
                        'defs': [mk_def(v, base='yes'),
                                 mk_def('chained', [mk_child(v, 'centi', '2', '3'), mk_child(ref)]),
                                 mk_def('chained2', [mk_child('chained', exponent='0.5')])],
                        'perms': [[0, 1, 2], [2, 1, 0], [1, 0, 2]]})
    return out


def malformed_cases(seed, tier):
    rng = vlib.random.Random(seed * 11 + 3)
    out = []

    def add(kind, defs):
        out.append({'kind': kind, 'defs': defs, 'perms': perms_for(rng, len(defs), tier)})
    good = [mk_def('g1', [mk_child('volt', 'milli')]), mk_def('g2', [mk_child('g1', exponent='2')])]
    for extra in ([], good):
        add('cycle', extra + [mk_def('a', [mk_child('a')])])
        add('cycle', extra + [mk_def('a', [mk_child('b')]), mk_def('b', [mk_child('a', 'kilo')])])
        add('cycle', extra + [mk_def('a', [mk_child('b')]), mk_def('b', [mk_child('c'), mk_child('second')]),
                              mk_def('c', [mk_child('metre'), mk_child('a')])])
        add('dangling', extra + [mk_def('a', [mk_child('nosuch')])])
        add('dangling', extra + [mk_def('a', [mk_child('second'), mk_child('Volt')]), mk_def('b', [mk_child('a')])])
        add('dangling', extra + [mk_def('a', [mk_child('celsius')])])
        # undefined names that look like defined ones (plural, SI-prefixed, other case): a unit library may resolve them itself
        for look in ('g1s', 'kg1', 'millig1', 'G1', 'volts', 'mvolt', 'Second'):
            add('dangling', good + [mk_def('a', [mk_child(look)])])
            add('dangling', good + [mk_def('a', [mk_child('second'), mk_child(look, exponent='2')]), mk_def('b', [mk_child('a')])])
        add('duplicate', extra + [mk_def('a', [mk_child('second')]), mk_def('a', [mk_child('second')])])
        add('duplicate', extra + [mk_def('a', [mk_child('second')]), mk_def('a', [mk_child('metre', 'kilo')])])
        add('duplicate', extra + [mk_def('a', base='yes'), mk_def('a', [mk_child('second')])])
        add('duplicate', extra + [mk_def('a', base='yes'), mk_def('a', base='yes')])
        add('builtin-override', extra + [mk_def('volt', [mk_child('kelvin')])])
        add('builtin-override', extra + [mk_def('metre', base='yes')])
        add('builtin-override', extra + [mk_def('celsius', [mk_child('kelvin')])])
        add('builtin-override', extra + [mk_def(rng.choice(BUILTINS), [mk_child('second', 'milli')])])
        for o in NONZERO_OFFSETS:
            add('offset', extra + [mk_def('a', [mk_child('kelvin', multiplier='1.8', offset=o)])])
    # random well-formed family with one fault injected
    for i in range(12 if tier == 'quick' else 120):
        fam = gen_family(seed * 1000 + 500 + i, 'quick')
        defs = [dict(d, children=[dict(c) for c in d['children']]) for d in fam['defs']]
        nb = [d for d in defs if d['base'] is None and d['name'][0] not in '0123456789']
        if not nb:
            continue
        kind = rng.choice(['cycle', 'dangling', 'duplicate', 'override'])
        victim = rng.choice(nb)
        if kind == 'cycle':
            victim['children'].append(mk_child(victim['name'], exponent='-1'))
        elif kind == 'dangling':
            others = [d['name'] for d in defs if d is not victim]
            victim['children'].append(mk_child(rng.choice(['undefined_unit'] + [n + 's' for n in others] + ['k' + n for n in others])
                                               if others else 'undefined_unit'))
        elif kind == 'duplicate':
            defs.append(mk_def(victim['name'], [mk_child('second')]))
        else:
            victim['name'] = rng.choice(BUILTINS)
        add('injected-' + kind, defs)
    return out


def f2_cases(seed, tier):
    """references to names that begin with a digit (finding F2)"""
    rng = vlib.random.Random(seed * 13 + 5)
    out = []
    for n in DIGIT_NAMES:
        defs = [mk_def(n, [mk_child('second', '3')]), mk_def('w', [mk_child(n), mk_child('metre')])]
        out.append({'kind': 'digit-ref', 'defs': defs, 'perms': [[0, 1], [1, 0]]})
        defs = [mk_def(n, [mk_child('second', '3')]), mk_def('w', [mk_child(n, 'milli', '2', '3')])]
        out.append({'kind': 'digit-ref', 'defs': defs, 'perms': [[0, 1], [1, 0]]})
    return out


def lexical_cases(seed):
    """other spellings the schema allows for integers and doubles: oracle only (the bridge carries values)"""
    out = []
    for p in ['+3', '03', '-03', ' 3 ', '3 ', ' -6', '\t12', ' +24 ', '-0']:
        out.append({'kind': 'lexical-prefix',
                    'defs': [mk_def('a', [mk_child('second', p, '2')])], 'perms': [[0]]})
    for p in [' milli ', 'kilo ', ' yocto']:
        out.append({'kind': 'lexical-prefix-name',
                    'defs': [mk_def('a', [mk_child('second', p, '2')])], 'perms': [[0]]})
    for e in ['+2', ' 2 ', '2.', '2e0', '.5e1', '2E0']:
        out.append({'kind': 'lexical-exponent', 'oracle_only': True,
                    'defs': [mk_def('a', [mk_child('second', 'milli', e)])], 'perms': [[0]]})
    for m in [' 2 ', '+2', '2.', '.5', '1E3', '2e+0']:
        out.append({'kind': 'lexical-multiplier', 'oracle_only': True,
                    'defs': [mk_def('a', [mk_child('second', 'milli', '2', m)])], 'perms': [[0]]})
    return out


# ---- evaluation ------------------------------------------------------------------------------------------------
def same_outcome(a, b):
    if a[0] != b[0]:
        return 'one order loads, another is rejected'
    if a[0] == 'err':
        return None
    if set(a[1]) != set(b[1]):
        return 'different sets of units'
    for n in a[1]:
        x, y = a[1][n], b[1][n]
        if not close(x[0], y[0], 1e-12) or x[1] != y[1]:
            return 'unit %s: %s in one order, %s in another' % (n, x[2], y[2])
    return None


def oracle(case, impls):
    """list of (what, detail) : violations of C03 on the implementation"""
    bad = []
    exp = expected(case['defs'])
    for perm, impl in zip(case['perms'], impls):
        if impl[0] == 'err' and impl[1] == 'harness':
            bad.append(('harness failure: ' + impl[3], {'perm': perm}))
            continue
        if impl[0] == 'err' and impl[2] == 'schema' and exp[0] == 'ok':
            bad.append(('harness: generated document rejected by the schema: ' + impl[3], {'perm': perm}))
            continue
        d = agrees(exp, impl)
        if d is not None:
            bad.append((d, {'perm': perm, 'impl': impl, 'expected': 'rejected: ' + exp[1] if exp[0] == 'err' else 'ok'}))
            break
    for perm, impl in zip(case['perms'][1:], impls[1:]):
        d = same_outcome(impls[0], impl)
        if d is not None:
            bad.append(('result depends on the order of the definitions: ' + d,
                        {'perm': perm, 'impl': impl, 'first': impls[0], 'order': True}))
            break
    return bad


def evaluate(ctx, cases, impls, use_model=True):
    mods = None
    idx = []
    if use_model and ctx.model_ok():
        inputs = []
        for ci, case in enumerate(cases):
            if not modelable(case):
                continue
            for pi, perm in enumerate(case['perms']):
                idx.append((ci, pi))
                inputs.append(family_sexp([case['defs'][i] for i in perm]))
        mods = dict(zip(idx, vlib.model_run(FN, inputs)))
    for ci, (case, impl) in enumerate(zip(cases, impls)):
        ctx.count(case_key=case['defs'], nontrivial=len(case['defs']) > 1 or case['kind'] in ('prefix', 'offset'),
                  kind=case['kind'])
        ctx.hist['documents'] = ctx.hist.get('documents', 0) + len(case['perms'])
        for what, detail in oracle(case, impl):
            if what.startswith('harness'):
                ctx.tie_break(what, {'case': case, 'detail': detail})
            else:
                ctx.violation(what, {'case': case, 'detail': detail})
        if mods is not None and modelable(case):
            for pi, perm in enumerate(case['perms']):
                defs = [case['defs'][i] for i in perm]
                d = compare_model(defs, impl[pi], mods[(ci, pi)])
                if d == 'skip':
                    ctx.hist['model-does-not-predict(F2)'] = ctx.hist.get('model-does-not-predict(F2)', 0) + 1
                    continue
                ctx.corr_cases += 1
                if d is not None:
                    ctx.tie_break('correspondence C03 (Model/UnitsLoader.v vs parser.py) differs: ' + d,
                                  {'case': case, 'perm': perm, 'impl': impl[pi], 'model': mods[(ci, pi)]})
                    break
        if ci % 97 == 0:
            ctx.sample({'kind': case['kind'], 'defs': case['defs'][:3], 'n_defs': len(case['defs']),
                        'n_orders': len(case['perms'])})


def tables_check(ctx):
    """Python mirror of the Coq table checkers: names the offending entry when C03_prefix_table breaks"""
    import cellmlmanip.parser as P
    for n, k in SI_PREFIX.items():
        v = P.UNIT_PREFIXES.get(n)
        if v is None or not close(float(v), 10.0 ** k, 1e-12):
            ctx.hist['prefix-table-entry-wrong:' + n] = 1
    for n in P.UNIT_PREFIXES:
        if n not in SI_PREFIX:
            ctx.hist['prefix-table-extra:' + n] = 1


def load_corpus():
    out = []
    for p in sorted(glob.glob(os.path.join(vlib.VERIF, 'corpus', 'C03', '*.json'))):
        c = json.load(open(p))
        out.append(c.get('case', c))
    return out


def run(ctx):
    n = 900 if ctx.tier == 'quick' else 3000
    ctx.rule = ('families of 1-8 <units> definitions (chains to depth 8, 20 prefix names and integers -24..24, exponents '
                '+-1 +-2 +-3 +-1/2 3/2, multipliers with prime factors < 100, new base units, names of many shapes) loaded '
                'in 6 (quick) / all or 24 (thorough) orders; complete enumeration of prefixes, exponents, multipliers, '
                'built-ins, offset spellings, base_units values; malformed families (cycle, dangling, duplicate, built-in '
                'override, offset); digit-led references; order stratum: repeated references to one user unit inside a '
                'definition, chains of depth 3-7, diamonds, dense DAGs, in ALL orders up to 5 definitions (rotations, '
                'transpositions, reversed + random beyond); non-trivial = more than one definition or a table entry')
    ctx.trusted += ['tools/translate_prefixes.py (parser.py UNIT_PREFIXES -> Gen/Prefixes_gen.v)',
                    'tools/translate_builtins.py (units.py sets, data/cellml_units.txt -> Gen/Builtins_gen.v)',
                    'pint arithmetic is binary floating point; the model and the oracle are exact (tolerance 1e-9)',
                    'model inputs are post-schema, post-lexing values (integer prefixes after int(), decimal numbers); other '
                    'spellings of exponents / multipliers are checked by the oracle only',
                    'references to names beginning with a digit that are not all digits are outside the model (F2)']
    tables_check(ctx)
    cases = load_corpus() + enumerated_cases(ctx.seed) + malformed_cases(ctx.seed, ctx.tier) + f2_cases(ctx.seed, ctx.tier) \
        + lexical_cases(ctx.seed) + order_cases(ctx.seed, ctx.tier) + [gen_family(ctx.seed * 100000 + i, ctx.tier) for i in range(n)]
    try:
        impls = vlib.pmap(work, cases)
        evaluate(ctx, cases, impls)
        if ctx.tie_breaks and not ctx.violations:
            # a proof, translator or correspondence broke: search harder for a concrete failing input
            more = [gen_family(ctx.seed * 100000 + 50000 + i, ctx.tier) for i in range(10 * min(n, 400))]
            evaluate(ctx, more, vlib.pmap(work, more), use_model=False)
    finally:
        for d in list(_TMP.values()):
            shutil.rmtree(d, ignore_errors=True)


def replay(ctx, case):
    c = case.get('case', case)
    impls = run_impl(c)
    for what, detail in oracle(c, impls):
        ctx.violation(what, {'case': c, 'detail': detail})
    if ctx.model_ok() and modelable(c):
        mods = vlib.model_run(FN, [family_sexp([c['defs'][i] for i in perm]) for perm in c['perms']])
        for perm, impl, mod in zip(c['perms'], impls, mods):
            d = compare_model([c['defs'][i] for i in perm], impl, mod)
            if d not in (None, 'skip'):
                return 'correspondence differs: ' + d
    return None


# ---- known findings: predicates over the record handed to ctx.violation -----------------------------------------
def reference_to_digit_name(rec):
    """F2: some <unit units="..."> references a (defined) name that begins with a digit"""
    names = {d['name'] for d in rec['case']['defs']}
    return any(c['units'][:1].isdigit() and c['units'] in names for d in rec['case']['defs'] for c in d['children'])


def named_prefix_with_whitespace(rec):
    """a prefix NAME written with surrounding white space (the schema's <value> is a token, so it validates),
    everything else well-formed, refused by int()"""
    hit = False
    clean = []
    for d in rec['case']['defs']:
        cs = []
        for c in d['children']:
            p = c.get('prefix')
            if p is not None and p != p.strip() and p.strip() in SI_PREFIX:
                hit = True
            cs.append(dict(c, prefix=p.strip() if p is not None else None))
        clean.append(dict(d, children=cs))
    impl = rec.get('detail', {}).get('impl')
    return hit and expected(clean)[0] == 'ok' and impl is not None and impl[0] == 'err' \
        and impl[1] == 'ValueError' and 'invalid literal for int()' in impl[3]


# named_prefix_with_whitespace was repaired by the fix: commit 35c5a99; it suppresses nothing any more
KNOWN_PREDICATES = {'reference_to_digit_name': reference_to_digit_name}
