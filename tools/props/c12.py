"""C12 -- singularity removal only repairs (DESIGN.md section 5, C12).

Two kinds of cases.

{'kind': 'pw', ...}     correspondence for _generate_piecewise: the real function is called with a SymPy expression with
                        rational coefficients and bounds given as Rational / Float / Quantity / symbolic (bound + CAL);
                        the resulting Piecewise is evaluated exactly at V values on, next to, inside and outside the
                        bounds and compared (branch and value) with the extracted Model/Singularity.v (run 120).

{'kind': 'model', ...}  stage D on whole models: a CellML document with equations of the four documented forms
                        (N / (exp(U) - 1), N / (1 - exp(U)), (exp(U) - 1) / N, (1 - exp(U)) / N, N a multiple of the affine
                        U = a*V + b) with slopes of both signs, offsets, outer factors, additive terms, products and sums of
                        two terms with equal or different singular points, constants as literals or as other variables,
                        U defined in another equation; plus equations without the pattern and excluded variables.
                        model.remove_fixable_singularities(V, exclude); every right-hand side is evaluated with mpmath
                        (50 digits) before and after at sp and sp +- {1e-9, 5e-8, 0.99e-7, 1.01e-7, 1e-3, 1}/|a|:
                          outside every window   after == before
                          inside a window        after finite, within 1e-6*scale of the analytic limit at sp and within
                                                 1e-9*scale of the analytic continuation at V
                          affine-U equations are always repaired; the window contains sp and has half-width delta/|a|;
                          equations without the pattern, excluded equations: the identical Eq object stays in the model;
                          the set of defined variables is unchanged.
The specification side evaluates the generator's own AST (never the implementation's expressions).
"""
import math
import os
import random
import tempfile
from decimal import Decimal
from fractions import Fraction

import mpmath as mp

import vlib

FN = 120
GEN_DEPS = ()
KNOWN_PREDICATES = {}
DPS = 50
OFFSETS = ['1e-9', '5e-8', '0.99e-7', '1.01e-7', '1e-3', '1']
DELTA = '1e-7'


# ================================================================================================
# AST:  ['n', text] ['v', name] ['+', ...] ['*', ...] ['-', a, b] ['neg', a] ['/', a, b] ['exp', a] ['pow', a, int]
#       ['sw', thr, a, b]  a if V < thr else b (a piecewise in the document)
#       ['ghk', k, N, U]   k = 0: N/(exp(U)-1)   1: N/(1-exp(U))   2: (exp(U)-1)/N   3: (1-exp(U))/N
def mathml(t):
    k = t[0]
    if k == 'n':
        return '<cn cellml:units="dimensionless">%s</cn>' % t[1]
    if k == 'v':
        return '<ci>%s</ci>' % t[1]
    ops = {'+': 'plus', '*': 'times', '-': 'minus', '/': 'divide'}
    if k in ops:
        return '<apply><%s/>%s</apply>' % (ops[k], ''.join(mathml(a) for a in t[1:]))
    if k == 'neg':
        return '<apply><minus/>%s</apply>' % mathml(t[1])
    if k == 'exp':
        return '<apply><exp/>%s</apply>' % mathml(t[1])
    if k == 'pow':
        return '<apply><power/>%s<cn cellml:units="dimensionless">%d</cn></apply>' % (mathml(t[1]), t[2])
    if k == 'ghk':
        return mathml(ghk_written(t))
    if k == 'sw':       # voltage switch: a if V < thr else b
        return ('<piecewise><piece>%s<apply><lt/><ci>V</ci>%s</apply></piece><otherwise>%s</otherwise></piecewise>'
                % (mathml(t[2]), mathml(t[1]), mathml(t[3])))
    raise ValueError(t)


def ghk_written(t):
    k, N, U = t[1:4]
    one = ['n', '1.0']
    ex = ['v', t[4]] if len(t) > 4 else ['exp', U]      # the exponential may live in a helper variable e = exp(U)
    em1 = ['-', ex, one] if k in (0, 2) else ['-', one, ex]
    return ['/', N, em1] if k in (0, 1) else ['/', em1, N]


class Env(object):
    """specification-side environment: constants (doubles of their literals) and intermediate variables"""

    def __init__(self, case):
        self.consts = case['consts']
        self.inter = case['inter']

    def value(self, name, V):
        if name == 'V':
            return V
        if name in self.consts:
            return mp.mpf(float(self.consts[name]))
        return spec_eval(self.inter[name], self, V)


def spec_eval(t, env, V):
    """value of the AST at V with the analytic continuation of the ghk nodes (mpmath, DPS digits)"""
    k = t[0]
    ev = lambda x: spec_eval(x, env, V)       # noqa: E731
    if k == 'n':
        return mp.mpf(float(t[1]))
    if k == 'v':
        return env.value(t[1], V)
    if k == '+':
        return mp.fsum(ev(a) for a in t[1:])
    if k == '*':
        return mp.fprod(ev(a) for a in t[1:])
    if k == '-':
        return ev(t[1]) - ev(t[2])
    if k == 'neg':
        return -ev(t[1])
    if k == '/':
        return ev(t[1]) / ev(t[2])
    if k == 'exp':
        return mp.exp(ev(t[1]))
    if k == 'pow':
        return ev(t[1]) ** t[2]
    if k == 'sw':
        return ev(t[2]) if V < ev(t[1]) else ev(t[3])
    if k == 'ghk':
        kk, N, U = t[1:4]
        u, n = ev(U), ev(N)
        if abs(u) < mp.mpf(10) ** (-30):
            # limit: N = r * U with r the ratio of the slopes
            r = (spec_eval(N, env, V + 1) - n) / (spec_eval(U, env, V + 1) - u)
            return [r, -r, 1 / r, -1 / r][kk]
        e = mp.expm1(u)
        return [n / e, -n / e, e / n, -e / n][kk]
    raise ValueError(t)


def summands(t):
    return t[1:] if t[0] == '+' else [t]


def spec_scale(t, env, V):
    """sum of the absolute values of the top-level summands: the scale errors are measured against"""
    k = t[0]
    if k == '+':
        return mp.fsum(spec_scale(a, env, V) for a in t[1:])
    if k == '*':
        # a factor applied to a sum: the summands inside may cancel, the error of each is still relative to its own size
        return mp.fprod(spec_scale(a, env, V) for a in t[1:])
    if k == '/':
        return spec_scale(t[1], env, V) / abs(spec_eval(t[2], env, V))
    return abs(spec_eval(t, env, V))


# ================================================================================================
# known findings (KNOWN_FINDINGS.txt): predicates over the shrunk case {.., 'eqs': [equation], 'failure': {...}}
NOT_FOUND = ('not_repaired', 'no_window', 'not_finite')


def _failing_terms(case):
    if case.get('kind') != 'model' or len(case.get('eqs', [])) != 1:
        return None, []
    f = case.get('failure') or {}
    e = case['eqs'][0]
    if f.get('kind') not in NOT_FOUND or e['kind'] != 'pattern':
        return None, []
    return e, [e['terms'][i] for i in f.get('terms', [])]


def product_same_singular_point(case):
    """a product of two singular terms that share the singular point"""
    e, ts = _failing_terms(case)
    return e is not None and e['shape'] == 'prod_same'


KNOWN_PREDICATES['product_same_singular_point'] = product_same_singular_point


# ================================================================================================
# implementation side
def document(case):
    names = ['V'] + sorted(case['consts']) + sorted(case['inter']) + [e['name'] for e in case['eqs']]
    vs = ['<variable name="t" units="second"/>',
          '<variable name="V" units="dimensionless" initial_value="-80"/>']
    odes = set(e['name'] for e in case['eqs'] if e.get('ode'))
    vs += ['<variable name="%s" units="dimensionless"%s/>' % (n, ' initial_value="0.5"' if n in odes else '') for n in names[1:]]
    eqs = ['<apply><eq/><apply><diff/><bvar><ci>t</ci></bvar><ci>V</ci></apply>%s</apply>'
           % mathml(['neg', ['+'] + [['v', e['name']] for e in case['eqs']] + [['n', '0']]])]
    defs = []
    for n in sorted(case['consts']):
        defs.append('<apply><eq/><ci>%s</ci>%s</apply>' % (n, mathml(['n', case['consts'][n]])))
    for n in sorted(case['inter']):
        defs.append('<apply><eq/><ci>%s</ci>%s</apply>' % (n, mathml(case['inter'][n])))
    # 'ode': the documented form is written directly as the right-hand side of an ODE  d name / dt = ...
    uses = ['<apply><eq/>%s%s</apply>' % ('<apply><diff/><bvar><ci>t</ci></bvar><ci>%s</ci></apply>' % e['name'] if e.get('ode')
                                          else '<ci>%s</ci>' % e['name'], mathml(e['ast'])) for e in case['eqs']]
    # 'late_defs': the equations are listed before the definitions of the constants / helper variables they use (legal:
    # the order of equations in a document carries no meaning)
    eqs += (uses + defs[::-1]) if case.get('late_defs') else (defs + uses)
    return ('<?xml version="1.0"?><model name="m" xmlns="http://www.cellml.org/cellml/1.0#" '
            'xmlns:cellml="http://www.cellml.org/cellml/1.0#"><component name="c">' + ''.join(vs)
            + '<math xmlns="http://www.w3.org/1998/Math/MathML">' + ''.join(eqs) + '</math></component></model>')


class Singular(Exception):
    pass


def mp_eval(e, var):
    """mpmath value of an implementation expression; var(Variable) -> mpf.  Raises Singular on a division by zero."""
    import sympy
    from cellmlmanip.model import Quantity, Variable
    ev = lambda x: mp_eval(x, var)      # noqa: E731
    if isinstance(e, Quantity):
        v = e._value
        return mp.mpf(v._mpf_) if isinstance(v, sympy.Float) else mp.mpf(v)
    if isinstance(e, Variable):
        return var(e)
    if e is sympy.true:
        return True
    if e is sympy.false:
        return False
    if isinstance(e, sympy.Float):
        return mp.mpf(e._mpf_)
    if isinstance(e, sympy.Rational):
        return mp.mpf(int(e.p)) / int(e.q)
    if isinstance(e, sympy.Add):
        return mp.fsum(ev(a) for a in e.args)
    if isinstance(e, sympy.Mul):
        return mp.fprod(ev(a) for a in e.args)
    if isinstance(e, sympy.Pow):
        b, x = ev(e.args[0]), ev(e.args[1])
        if b == 0 and x < 0:
            raise Singular()
        if x == int(x):
            return b ** int(x)
        return b ** x
    if isinstance(e, sympy.Piecewise):
        for ex, c in e.args:
            if ev(c):
                return ev(ex)
        raise Singular()
    if isinstance(e, sympy.core.relational.Relational):
        a, b = ev(e.args[0]), ev(e.args[1])
        return {'LessThan': a <= b, 'StrictLessThan': a < b, 'GreaterThan': a >= b, 'StrictGreaterThan': a > b,
                'Equality': a == b, 'Unequality': a != b}[type(e).__name__]
    if isinstance(e, sympy.And):
        return all(ev(a) for a in e.args)
    if isinstance(e, sympy.Or):
        return any(ev(a) for a in e.args)
    if isinstance(e, sympy.Not):
        return not ev(e.args[0])
    if isinstance(e, sympy.Function):
        name = type(e).__name__
        if name in ('exp', 'exp_'):
            return mp.exp(ev(e.args[0]))
        if name in ('log', 'log_', 'ln'):
            return mp.log(ev(e.args[0]))
    raise TypeError('mp_eval: %s' % type(e).__name__)


def mstr(x):
    return mp.nstr(x, DPS, strip_zeros=False)


def pw_windows(e):
    """numeric (lo, hi) of every `lo <= V & V <= hi` condition in the expression (SymPy may write V <= hi as hi >= V)"""
    import sympy
    out = []
    for p in e.atoms(sympy.Piecewise):
        for _, c in p.args:
            if not isinstance(c, sympy.And):
                continue
            lo, hi = [], []
            for a in c.args:
                if isinstance(a, (sympy.LessThan, sympy.GreaterThan)):
                    x, y = a.args if isinstance(a, sympy.LessThan) else (a.args[1], a.args[0])     # x <= y
                    if _is_num(x) and not _is_num(y):
                        lo.append(float(x))
                    elif _is_num(y) and not _is_num(x):
                        hi.append(float(y))
            if len(lo) == 1 and len(hi) == 1:
                out.append((lo[0], hi[0]))
    return sorted(set(out))


def _is_num(x):
    from cellmlmanip.model import Quantity, Variable
    return isinstance(x, Quantity) or (x.is_number and not x.atoms(Variable))


def run_model_case(case):
    import cellmlmanip
    import sympy
    mp.mp.dps = DPS
    out = {'load': None, 'eqs': {}, 'defined_same': None, 'error': None}
    fd, path = tempfile.mkstemp(suffix='.cellml')
    try:
        os.write(fd, document(case).encode())
        os.close(fd)
        try:
            m = cellmlmanip.load_model(path)
        except Exception as e:
            out['load'] = vlib.err_class(e) + ': ' + str(e)[:300]
            return out
    finally:
        os.unlink(path)
    V = m.get_variable_by_name('c$V')
    byname = {}
    def eq_name(eq):
        # the variable an equation defines: x for x = ..., and the state for d state / dt = ... (except the voltage)
        x = eq.lhs.args[0] if eq.lhs.is_Derivative else eq.lhs
        nm = x.name.split('$')[1]
        return None if (eq.lhs.is_Derivative and nm == 'V') else nm
    for eq in m.equations:
        if eq_name(eq) is not None:
            byname[eq_name(eq)] = eq
    before_eq = dict(byname)
    before_def = {eq.lhs: eq.rhs for eq in m.equations}
    defined_before = sorted(str(eq.lhs) for eq in m.equations)
    nvars_before = sorted(v.name for v in m.variables())
    exclude = set(m.get_variable_by_name('c$' + n) for n in case['exclude'])
    try:
        vlib.with_alarm(600, m.remove_fixable_singularities, V, exclude)
    except Exception as e:
        out['error'] = vlib.err_class(e) + ': ' + str(e)[:300]
        return out
    after_def = {eq.lhs: eq.rhs for eq in m.equations}
    after_eq = {}
    for eq in m.equations:
        if eq_name(eq) is not None:
            after_eq[eq_name(eq)] = eq
    out['defined_same'] = (defined_before == sorted(str(eq.lhs) for eq in m.equations)
                           and nvars_before == sorted(v.name for v in m.variables())
                           and len(after_def) == len(m.equations))
    try:
        m.graph     # the repaired model must still be a coherent model
        out['graph'] = None
    except Exception as e:
        out['graph'] = vlib.err_class(e) + ': ' + str(e)[:200]

    def evaluator(defs, v):
        memo = {}

        def var(x):
            if x is V:
                return v
            if x not in memo:
                memo[x] = mp_eval(defs[x], var)
            return memo[x]
        return var

    def value(defs, rhs, v):
        try:
            r = mp_eval(rhs, evaluator(defs, v))
            if not mp.isfinite(r):
                return 'singular'
            return mstr(r)
        except (Singular, ZeroDivisionError):
            return 'singular'
        except Exception as e:
            return 'ERR:' + type(e).__name__ + ':' + str(e)[:80]

    for name in list(case['inter']) + list(case['consts']) + [e['name'] for e in case['eqs']]:
        b, a = before_eq[name], after_eq.get(name)
        rec = {'identical': a is b, 'has_pw': bool(a is not None and a.rhs.has(sympy.Piecewise)),
               'windows': pw_windows(a.rhs) if a is not None else [], 'pts': []}
        out['eqs'][name] = rec
    for e in case['eqs']:
        rec = out['eqs'][e['name']]
        b, a = before_eq[e['name']], after_eq.get(e['name'])
        for p in e['points']:
            v = mp.mpf(p)
            rec['pts'].append([value(before_def, b.rhs, v), value(after_def, a.rhs, v) if a is not None else 'missing'])
    return out


def work(case):
    try:
        if case['kind'] == 'model':
            return run_model_case(case)
        return run_pw_case(case)
    except Exception:
        import traceback
        return {'load': 'harness: ' + traceback.format_exc()[-600:], 'error': None, 'eqs': {}}


# ================================================================================================
# oracle for model cases
def close(a, b, tol):
    return abs(a - b) <= tol


def term_windows(e, env):
    """[(sp, half width in V)] of the generator's terms, exact (from the doubles of the literals)"""
    out = []
    for t in e['terms']:
        sp = mp.mpf(t['sp'])
        a = abs(mp.mpf(t['slope']))
        out.append((sp, mp.mpf(DELTA) / a))
    return out


def judge_model(case, res):
    mp.mp.dps = DPS
    bad = []
    if res.get('load'):
        return [('generated document refused: ' + res['load'], None, {'kind': 'load'})]
    if res.get('error'):
        return [('remove_fixable_singularities raised ' + res['error'], None, {'kind': 'raised'})]
    env = Env(case)
    if not res['defined_same']:
        bad.append(('the set of defined variables / variables changed', None, {'kind': 'defined'}))
    if res.get('graph'):
        bad.append(('the model graph cannot be built after the repair: ' + res['graph'], None, {'kind': 'graph'}))
    for n in list(case['consts']) + list(case['inter']):
        if not res['eqs'][n]['identical']:
            bad.append(('equation of %s (no pattern) was replaced' % n, n, {'kind': 'replaced'}))
    for e in case['eqs']:
        rec = res['eqs'][e['name']]
        name = e['name']
        if e['kind'] in ('nopattern', 'excluded'):
            if not rec['identical']:
                bad.append(('equation %s (%s) is not the identical object any more' % (name, e['kind']), name,
                            {'kind': 'replaced'}))
        wins = term_windows(e, env)
        unrepaired = set()
        if e['kind'] == 'pattern':
            if not rec['has_pw']:
                bad.append(('equation %s of a documented form with affine U was not repaired' % name, name,
                            {'kind': 'not_repaired', 'terms': list(range(len(wins)))}))
                unrepaired = set(range(len(wins)))
            else:
                for ti, (sp, hw) in enumerate(wins):
                    cont = [w for w in rec['windows'] if w[0] <= sp <= w[1]]
                    if not cont:
                        bad.append(('equation %s: no window of the repair contains the singular point %s (windows %s)'
                                    % (name, mp.nstr(sp, 12), rec['windows']), name, {'kind': 'no_window', 'terms': [ti]}))
                        unrepaired.add(ti)
                    elif not any(0.9 * hw <= (w[1] - w[0]) / 2 <= 1.1 * hw for w in cont) and e.get('merge') is None:
                        bad.append(('equation %s: window %s around %s has not half-width delta/|a| = %s'
                                    % (name, cont, mp.nstr(sp, 12), mp.nstr(hw, 5)), name, {'kind': 'window_width', 'terms': [ti]}))
        for p, (bv, av) in zip(e['points'], rec['pts']):
            v = mp.mpf(p)
            inside = e['kind'] == 'pattern' and any(abs(v - sp) <= hw * mp.mpf('0.995') for sp, hw in wins)
            near_edge = any(mp.mpf('0.995') * hw < abs(v - sp) < mp.mpf('1.005') * hw for sp, hw in wins)
            if near_edge:
                continue
            if any(abs(v - wins[i][0]) <= wins[i][1] for i in unrepaired):
                continue        # inside the window of a term that was reported as not repaired
            spec = spec_eval(e['ast'], env, v)
            scale = max(spec_scale(e['ast'], env, v), mp.mpf(10) ** -300)
            if av.startswith('ERR') or bv.startswith('ERR') or av == 'missing':
                bad.append(('equation %s at V=%s: cannot evaluate (%s / %s)' % (name, p, bv, av), name, {'kind': 'eval'}))
                continue
            if not inside:
                at_sp = any(abs(v - sp) <= hw for sp, hw in wins)
                if at_sp and e['kind'] != 'pattern':
                    # an equation that is left alone keeps its singularity: only "unchanged" is required
                    if av != bv:
                        bad.append(('equation %s (%s) changed value at V=%s: %s -> %s' % (name, e['kind'], p, bv, av), name,
                                    {'kind': 'changed'}))
                    continue
                if bv == 'singular' or av == 'singular':
                    bad.append(('equation %s at V=%s outside every window: before %s, after %s' % (name, p, bv, av), name,
                                {'kind': 'outside_singular'}))
                    continue
                b, a = mp.mpf(bv), mp.mpf(av)
                if not close(b, spec, scale * mp.mpf(10) ** -25):
                    bad.append(('HARNESS: equation %s at V=%s: original evaluates to %s, specification %s'
                                % (name, p, bv, mstr(spec)), name, {'kind': 'harness'}))
                if not close(a, b, scale * mp.mpf(10) ** -25):
                    bad.append(('equation %s changed outside the window: V=%s before %s after %s'
                                % (name, p, mp.nstr(b, 20), mp.nstr(a, 20)), name, {'kind': 'changed_outside'}))
            else:
                ti = [i for i in range(len(wins)) if abs(wins[i][0] - v) <= wins[i][1]]
                if av == 'singular':
                    bad.append(('equation %s is not finite inside the window at V=%s (singular point %s)'
                                % (name, p, [mp.nstr(sp, 12) for sp, _ in wins]), name, {'kind': 'not_finite', 'terms': ti}))
                    continue
                a = mp.mpf(av)
                # the analytic continuation at V (= the analytic limit when V is the singular point); the limit at sp
                # itself differs from it by the variation of the function over the window, which is not an error
                at_sp = any(v == sp for sp, _ in wins)
                # "within interpolation error": the error of a chord over the window [c - hw, c + hw] is bounded by the
                # second difference of the analytic continuation over that window (h^2 f''); a chord through wrong end
                # values or a misplaced window errs by the first-order variation h f', which is larger by 1/h
                interp = mp.mpf(0)
                for i in ti:
                    c, hw = wins[i]
                    interp = max(interp, abs(spec_eval(e['ast'], env, c + hw) - 2 * spec_eval(e['ast'], env, c)
                                             + spec_eval(e['ast'], env, c - hw)))
                tol = scale * mp.mpf('1e-9') + 2 * interp
                if not close(a, spec, tol):
                    bad.append(('equation %s inside the window at V=%s%s: %s is not within %s (1e-9*%s + interpolation error '
                                'bound %s) of the analytic %s %s'
                                % (name, p, ' (the singular point)' if at_sp else '', mp.nstr(a, 20), mp.nstr(tol, 5),
                                   mp.nstr(scale, 5), mp.nstr(2 * interp, 5), 'limit' if at_sp else 'continuation',
                                   mp.nstr(spec, 20)), name,
                                {'kind': 'inaccurate', 'terms': ti}))
    return bad


# ================================================================================================
# generator for model cases
def dec(x):
    return format(Decimal(x).normalize(), 'f') if 'e' not in str(x).lower() else str(x)


SLOPES = ['0.04', '0.0625', '0.1', '0.16', '0.2', '0.25', '0.26', '0.5', '0.8', '1', '1.5', '2', '0.037', '0.128', '10', '37.4']      # the last two: steep slopes (exp(-a*sp) under- / overflows a double for large offsets)


def lit_or_const(r, case, text, p=0.3):
    """a literal, or (with probability p) a variable defined by `k = literal`"""
    if r.random() < p or case.get('force_const'):
        name = 'k%d' % len(case['consts'])
        case['consts'][name] = text
        return ['v', name]
    return ['n', text]


def value_of(t, case):
    return float(t[1]) if t[0] == 'n' else float(case['consts'][t[1]])


def gen_term(r, case, sp_text=None):
    """-> (ast, term record).  U affine in V with slope a (either sign), singular point sp."""
    k = r.randrange(4)
    a_text = r.choice(SLOPES)
    if r.random() < 0.5:
        a_text = '-' + a_text
    free_sp = sp_text is None
    if sp_text is None and r.random() < 0.1:
        # singular points that are small integers (SymPy's pattern matcher then returns Integers where the solver returns
        # Floats: the two must still be recognised as the same point)
        sp_text = r.choice(['1', '-1', '2', '10', '-40', '3'])
    if sp_text is None:
        sp_text = dec(Decimal(r.randint(-9000, 6000)) / (100 if r.random() < 0.8 else 1000))
    a_dec, sp_dec = Decimal(a_text), Decimal(sp_text)
    style = r.choice(['axb', 'axb', 'a(V-sp)', '(V-sp)/k', 'cN', 'interU'])
    V = ['v', 'V']
    if free_sp and r.random() < 0.12:
        style = 'noshift'    # singular point exactly V = 0: no offset is written at all (SymPy solves it to the integer Zero)
    if style == 'noshift':
        a_ast = lit_or_const(r, case, a_text)
        form = r.randrange(3)
        if form == 0:
            U, slope = ['*', a_ast, V], Fraction(value_of(a_ast, case))
        elif form == 1:
            U, slope = ['*', V, a_ast], Fraction(value_of(a_ast, case))
        else:
            U, slope = ['/', V, a_ast], 1 / Fraction(value_of(a_ast, case))
        sp_true = Fraction(0)
        N = U
    elif style == 'axb':
        b_text = dec(-a_dec * sp_dec)
        a_ast, b_ast = lit_or_const(r, case, a_text), lit_or_const(r, case, b_text)
        U = ['+', ['*', a_ast, V], b_ast] if r.random() < 0.7 else ['+', b_ast, ['*', V, a_ast]]
        a_val, b_val = Fraction(value_of(a_ast, case)), Fraction(value_of(b_ast, case))
        sp_true, slope = -b_val / a_val, a_val
        N = U
    elif style in ('a(V-sp)', 'cN', 'interU'):
        a_ast = lit_or_const(r, case, a_text)
        if r.random() < 0.5:
            s_ast = lit_or_const(r, case, sp_text)
            W = ['-', V, s_ast]
            sp_true = Fraction(value_of(s_ast, case))
        else:
            s_ast = lit_or_const(r, case, dec(-sp_dec))
            W = ['+', V, s_ast]
            sp_true = -Fraction(value_of(s_ast, case))
        U = ['*', a_ast, W]
        slope = Fraction(value_of(a_ast, case))
        N = U
        if style == 'cN':
            c_ast = lit_or_const(r, case, r.choice(['0.32', '2.5', '-0.7', '12', '0.001']))
            N = ['*', c_ast, W]
        if style == 'interU':
            name = 'u%d' % len(case['inter'])
            case['inter'][name] = U
            U = N = ['v', name]
    else:  # (V - sp)/k
        k_text = dec(1 / a_dec) if (1 / a_dec) == (1 / a_dec).quantize(Decimal('0.0001')) else dec((1 / a_dec).quantize(Decimal('0.01')))
        k_ast = lit_or_const(r, case, k_text)
        s_ast = lit_or_const(r, case, dec(-sp_dec))
        U = ['/', ['+', V, s_ast], k_ast]
        sp_true = -Fraction(value_of(s_ast, case))
        slope = 1 / Fraction(value_of(k_ast, case))
        N = U
    term = {'k': k, 'style': style, 'sp': frac_str(sp_true), 'slope': frac_str(slope)}
    if r.random() < 0.12:
        # the exponential itself is a helper variable: e = exp(U), term = N / (e - 1)
        name = 'e%d' % len(case['inter'])
        case['inter'][name] = ['exp', U]
        term['style'] += '+expvar'
        return ['ghk', k, N, U, name], term
    return ['ghk', k, N, U], term


def frac_str(q):
    mp.mp.dps = DPS + 10
    return mp.nstr(mp.mpf(q.numerator) / q.denominator, DPS + 5)


def points_for(terms):
    mp.mp.dps = DPS + 10
    pts = []
    for t in terms:
        sp, a = mp.mpf(t['sp']), abs(mp.mpf(t['slope']))
        pts.append(sp)
        for o in OFFSETS:
            pts += [sp + mp.mpf(o) / a, sp - mp.mpf(o) / a]
    return [mp.nstr(p, DPS + 5) for p in pts]


def gen_equation(r, case, idx):
    name = 'i%d' % idx
    shape = r.choice(['outer', 'outer', 'plain', 'additive', 'additiveV', 'factorV', 'prod_same', 'prod_diff',
                      'sum_same', 'sum_diff', 'nopattern', 'nopattern', 'excluded', 'pwouter', 'outer_sum_same', 'recip',
                      'negpow', 'sum_same_recip'])
    V = ['v', 'V']
    P = lambda: lit_or_const(r, case, r.choice(['0.32', '3', '-2.1', '120', '0.0005', '-0.08', '7.5']))   # noqa: E731
    kind, merge = 'pattern', None
    if shape == 'nopattern':
        a = ['n', r.choice(SLOPES)]
        U = ['+', ['*', a, V], ['n', r.choice(['1.6', '-3', '0.5'])]]
        ast = r.choice([
            ['*', P(), ['exp', U]],
            ['/', P(), ['+', ['n', '1.0'], ['exp', U]]],
            ['/', U, ['+', ['exp', U], ['n', '1.0']]],
            ['/', ['-', ['exp', U], ['n', '1.0']], ['+', ['*', U, U], ['n', '1.0']]],
            ['+', ['*', ['n', '0.5'], V], ['n', '3']],
            ['*', P(), ['/', ['exp', U], ['+', ['exp', U], ['exp', ['neg', U]]]]],
        ])
        return {'name': name, 'ast': ast, 'kind': 'nopattern', 'shape': shape, 'terms': [], 'points':
                points_for([{'sp': '-10', 'slope': '1'}])[:5]}
    g1, t1 = gen_term(r, case)
    terms = [t1]
    if shape in ('plain', 'excluded'):
        ast = g1
    elif shape == 'outer':
        ast = ['*', P(), g1]
    elif shape == 'pwouter':
        # outer factor that is itself a (voltage-switched) piecewise, switching well away from the singular point
        thr = float(mp.mpf(t1['sp'])) + r.choice([-1, 1]) * r.choice([7.5, 20, 35.25])
        ast = ['*', ['sw', ['n', repr(thr)], P(), P()], g1]
    elif shape == 'additive':
        ast = ['+', ['*', P(), g1], P()]
    elif shape == 'negpow':
        # next to the term: a NEGATIVE POWER other than -1 of something containing exp (a sigmoid squared / cubed in a
        # denominator); it has no singularity and must come through unchanged
        U2 = ['+', ['*', ['n', r.choice(SLOPES)], V], ['n', r.choice(['1.6', '-3', '0.5'])]]
        sig = ['pow', ['+', ['n', '1.0'], ['exp', U2]], r.choice([2, 3])]
        ast = r.choice([['+', ['*', P(), g1], ['/', P(), sig]], ['/', ['+', g1, P()], sig], ['+', g1, ['/', ['n', '1.0'], sig]]])
    elif shape == 'recip':
        # the term (with an additive constant that keeps the denominator away from zero) in a denominator
        c = lit_or_const(r, case, r.choice(['400', '250.5', '1000']))
        ast = ['/', P(), ['+', c, g1]]
    elif shape == 'additiveV':
        ast = ['+', g1, ['*', P(), V]]
    elif shape == 'factorV':
        ast = ['*', ['+', ['*', ['n', '0.01'], V], ['n', '3']], g1]
    else:
        same = 'same' in shape
        g2, t2 = gen_term_with_sp(r, case, t1) if same else gen_term(r, case)
        if not same:
            # keep the two singular points well apart
            tries = 0
            while abs(mp.mpf(t2['sp']) - mp.mpf(t1['sp'])) < 3 and tries < 20:
                g2, t2 = gen_term(r, case)
                tries += 1
        else:
            merge = 'same'
        terms.append(t2)
        ast = ['*', g1, g2] if shape.startswith('prod') else ['+', g1, g2]
        if shape == 'sum_same_recip':
            # two terms sharing a singular point plus a summand that has no singularity of its own but WRAPS a term with
            # another singular point in a denominator kept away from zero (round-13 seed C12-21: the nested repair of that
            # summand must survive when the same-point summands are merged into one window)
            g3, t3 = gen_term(r, case)
            tries = 0
            while abs(mp.mpf(t3['sp']) - mp.mpf(t1['sp'])) < 3 and tries < 20:
                g3, t3 = gen_term(r, case)
                tries += 1
            terms.append(t3)
            c = lit_or_const(r, case, r.choice(['400', '250.5', '1000']))
            ast = ['+', ast, ['/', P(), ['+', c, g3]]]
        if shape == 'outer_sum_same':
            # an outer factor / divisor applied to the sum of two terms sharing the singular point
            ast = ['*', P(), ast] if r.random() < 0.5 else ['+', ['/', ast, P()], P()]
    if shape == 'excluded':
        kind = 'excluded'
        case['exclude'].append(name)
    return {'name': name, 'ast': ast, 'kind': kind, 'shape': shape, 'terms': terms, 'merge': merge,
            'points': points_for(terms), 'ode': shape != 'excluded' and r.random() < 0.12}


def gen_term_with_sp(r, case, t1):
    """a second term with exactly the same singular point (the same literal), any slope"""
    # the literal of the first term's singular point must be reused verbatim: regenerate in the V - sp style
    sp = mp.mpf(t1['sp'])
    sp_text = mp.nstr(sp, 17)
    for _ in range(50):
        g2, t2 = gen_term(r, case, sp_text=dec(Decimal(sp_text)))
        if mp.mpf(t2['sp']) == sp:
            return g2, t2
    return g2, t2


def gen_model_case(seed, neq):
    r = random.Random(seed)
    case = {'kind': 'model', 'seed': seed, 'consts': {}, 'inter': {}, 'eqs': [], 'exclude': [], 'late_defs': r.random() < 0.35}
    for i in range(neq):
        case['eqs'].append(gen_equation(r, case, i))
    if r.random() < 0.3:
        # the SAME product of two terms with different singular points twice in one model (two gates with identical
        # kinetics): every number is a model constant, so the two right-hand sides are structurally equal expressions and
        # the cached analysis of the first is reused for the second
        case['force_const'] = True
        for _ in range(20):
            excl = list(case['exclude'])
            e = gen_equation(r, case, neq)
            case['exclude'] = excl          # a discarded try must not leave its name on the exclusion list
            if e['shape'] == 'prod_diff':
                twin = dict(e, name='i%d' % (neq + 1))
                if r.random() < 0.5:
                    twin = dict(twin, ast=['+', e['ast'], lit_or_const(r, case, '0.25')], shape='additive-twin')
                case['eqs'] += [e, twin]
                break
        case['force_const'] = False
    return case


# ================================================================================================
# _generate_piecewise correspondence
def run_pw_case(case):
    """-> list per V: [branch, value as [num, den]] from the real function"""
    import sympy
    from cellmlmanip._singularity_fixes import _generate_piecewise
    from cellmlmanip.model import Quantity, Variable
    V = Variable(name='V', units='millivolt')
    CAL = Variable(name='CAL', units='dimensionless')
    R = lambda s: sympy.Rational(Fraction(s).numerator, Fraction(s).denominator)    # noqa: E731
    expr = sum((R(c) * V ** i for i, c in enumerate(case['coef'])), sympy.Integer(0))
    if case['pole'] is not None:
        expr = expr + 1 / (V - R(case['pole']))

    def bound(s):
        q = R(s)
        if case['btype'] == 'float':
            return sympy.Float(float(Fraction(s)))
        if case['btype'] == 'quantity':
            return Quantity(float(Fraction(s)), 'dimensionless')
        if case['btype'] == 'symbolic':
            return q + CAL
        return q
    pw = _generate_piecewise(expr, V, R(case['sp']), bound(case['vmin']), bound(case['vmax']))
    out = []
    if not isinstance(pw, sympy.Piecewise) or len(pw.args) != 2 or pw.args[1][1] is not sympy.true:
        return {'shape': 'not a two-branch Piecewise: ' + str(pw)[:200], 'vals': []}
    cal = R(case['cal']) if case['btype'] == 'symbolic' else None
    for v in case['vs']:
        sub = {V: R(v)}
        if cal is not None:
            sub[CAL] = cal
        qs = {q: sympy.Rational(float(q)) for q in pw.atoms(Quantity)}
        fs = {f: sympy.Rational(f) for f in pw.atoms(sympy.Float)}
        try:
            cond = pw.args[0][1].xreplace(qs).xreplace(fs).xreplace(sub)
            cond = bool(cond)
            branch = 0 if cond else 1
            val = sympy.nsimplify(pw.args[branch][0].xreplace(qs).xreplace(fs).xreplace(sub), rational=True)
            val = sympy.Rational(val)
            out.append([branch, [int(val.p), int(val.q)]])
        except Exception as e:
            out.append(['ERR:' + vlib.err_class(e) + ':' + str(e)[:80]])
    return {'shape': None, 'vals': out}


def pw_f(case, v):
    """exact value of the expression of a pw case (specification side, Fractions)"""
    x = sum(Fraction(c) * v ** i for i, c in enumerate(case['coef']))
    if case['pole'] is not None:
        x += 1 / (v - Fraction(case['pole']))
    return x


def gen_pw_case(seed):
    r = random.Random(seed)

    def dy():    # dyadic rationals: exact as Float / Quantity as well
        return Fraction(r.randint(-4000, 4000), r.choice([1, 2, 4, 8, 64, 1024]))
    lo = dy()
    hi = lo + Fraction(r.randint(1, 4000), r.choice([1, 2, 8, 1024, 2 ** 20]))
    vmin, vmax = (lo, hi) if r.random() < 0.5 else (hi, lo)
    btype = r.choice(['rational', 'float', 'quantity', 'symbolic'])
    cal = dy() if btype == 'symbolic' else Fraction(0)
    coef = [Fraction(r.randint(-50, 50), r.choice([1, 2, 5, 10])) for _ in range(r.randint(2, 4))]
    coef.append(Fraction(r.choice([-1, 1]) * r.randint(1, 50), r.choice([1, 2, 5, 10])))      # degree >= 2
    pole = None
    if r.random() < 0.4:
        pole = hi + cal + Fraction(r.randint(1, 100), 7)     # pole outside the window
    L, H = lo + cal, hi + cal
    w = H - L
    vs = [L, H, (L + H) / 2, L + w / 3, H - w / 1024, L - w / 1024, H + w / 1024, L - 1, H + 1,
          L + w * Fraction(r.randint(1, 999), 1000), L - w * Fraction(r.randint(1, 999), 100),
          H + w * Fraction(r.randint(1, 999), 100)]
    if pole is not None:
        vs = [v for v in vs if v != pole]
    return {'kind': 'pw', 'seed': seed, 'coef': [str(c) for c in coef], 'pole': None if pole is None else str(pole),
            'vmin': str(vmin), 'vmax': str(vmax), 'sp': str((lo + hi) / 2), 'btype': btype, 'cal': str(cal),
            'vs': [str(v) for v in vs]}


def model_inputs(case):
    cal = Fraction(case['cal'])
    a, b = Fraction(case['vmin']) + cal, Fraction(case['vmax']) + cal
    return [[a, b, Fraction(v), pw_f(case, a), pw_f(case, b), pw_f(case, Fraction(v))] for v in case['vs']]


def judge_pw(case, res, model_out):
    """-> (ties, violations)"""
    ties, viol = [], []
    if res.get('load'):
        return [res['load']], []
    if res['shape']:
        return ['_generate_piecewise: ' + res['shape']], []
    cal0 = Fraction(case['cal'])
    a0, b0 = Fraction(case['vmin']) + cal0, Fraction(case['vmax']) + cal0
    fmag = abs(pw_f(case, a0)) + abs(pw_f(case, b0))

    def same(val, expect, x=Fraction(0)):
        # Float bounds make SymPy fold the interpolant into c1*V + c0 in 15-digit floating point (cancellation between
        # f(Vmin) and Vmin*slope): compare with the corresponding absolute tolerance there, exactly everywhere else
        if case['btype'] == 'float':
            amp = 1 + (abs(a0) + abs(b0) + abs(x)) / abs(b0 - a0)
            return abs(val - expect) <= Fraction(1, 10 ** 11) * (abs(expect) + fmag * amp)
        return val == expect

    for v, got, mo in zip(case['vs'], res['vals'], model_out):
        want = [mo[0], [mo[1][0], mo[1][1]]]
        if mo[0] is not None and (len(got) != 2 or got[0] != want[0]
                                  or not same(Fraction(*got[1]), Fraction(*want[1]), Fraction(v))):
            ties.append('_generate_piecewise at V=%s (Vmin=%s Vmax=%s %s): implementation %s, model %s'
                        % (v, case['vmin'], case['vmax'], case['btype'], got, want))
        # property on the implementation, independent of the model
        cal = Fraction(case['cal'])
        a, b = Fraction(case['vmin']) + cal, Fraction(case['vmax']) + cal
        lo, hi, x = min(a, b), max(a, b), Fraction(v)
        if len(got) == 2:
            val = Fraction(got[1][0], got[1][1])
            if not (lo <= x <= hi):
                if not same(val, pw_f(case, x), x):
                    viol.append('_generate_piecewise changes the value outside the window: V=%s gives %s, expr is %s'
                                % (v, val, pw_f(case, x)))
            else:
                flo, fhi = pw_f(case, lo), pw_f(case, hi)
                expect = flo + (x - lo) / (hi - lo) * (fhi - flo)
                if not same(val, expect, x):
                    viol.append('_generate_piecewise inside the window: V=%s gives %s, the interpolant is %s'
                                % (v, val, expect))
        else:
            viol.append('_generate_piecewise result cannot be evaluated at V=%s: %s' % (v, got))
    return ties, viol


# ================================================================================================
def evaluate(ctx, cases):
    results = vlib.pmap(work, cases)
    pw = [(c, r) for c, r in zip(cases, results) if c['kind'] == 'pw']
    if pw and ctx.model_ok():
        flat = [inp for c, _ in pw for inp in model_inputs(c)]
        mo = vlib.model_run(FN, flat)
    else:
        mo = None
    pos = 0
    for c, r in pw:
        n = len(c['vs'])
        ties, viol = judge_pw(c, r, mo[pos:pos + n] if mo is not None else [[None, [None, None]]] * n)
        pos += n
        if mo is not None:
            ctx.corr_cases += 1
            for t in ties[:2]:
                ctx.tie_break(t, c)
        for v in viol[:2]:
            ctx.violation(v, c)
        ctx.count(('pw', c['seed']), True, 'pw/' + c['btype'])
    for c, r in zip(cases, results):
        if c['kind'] != 'model':
            continue
        bad = judge_model(c, r)
        for what, name, failure in bad[:8]:
            ctx.violation(what, shrink(c, name, failure))
        for e in c['eqs']:
            ctx.count((c['seed'], e['name']), True, 'eq/' + e['shape'])
            for t in e['terms']:
                ctx.hist['term/form%d/%s/slope%s' % (t['k'] + 1, t['style'], '-' if t['slope'].startswith('-') else '+')] = \
                    ctx.hist.get('term/form%d/%s/slope%s' % (t['k'] + 1, t['style'],
                                                             '-' if t['slope'].startswith('-') else '+'), 0) + 1
        if len(ctx.samples) < 3 and c['eqs']:
            ctx.sample({'equation': c['eqs'][0], 'observed': (r.get('eqs') or {}).get(c['eqs'][0]['name'])})


def names_in(t, acc):
    if t[0] == 'v':
        acc.add(t[1])
    elif t[0] != 'n':
        for a in t[1:]:
            if isinstance(a, list):
                names_in(a, acc)
    return acc


def shrink(case, name, failure=None):
    """the sub-case with only the failing equation (and what it refers to)"""
    if name is None:
        return dict(case, failure=failure)
    eqs = [e for e in case['eqs'] if e['name'] == name]
    if not eqs:
        return case
    used = names_in(eqs[0]['ast'], set())
    inter = {k: v for k, v in case['inter'].items() if k in used}
    for v in inter.values():
        names_in(v, used)
    return {'kind': 'model', 'seed': case['seed'], 'consts': {k: v for k, v in case['consts'].items() if k in used},
            'inter': inter, 'eqs': eqs, 'exclude': [x for x in case['exclude'] if x == name], 'failure': failure}


def run(ctx):
    mp.mp.dps = DPS
    quick = ctx.tier == 'quick'
    nmodels, neq = (120, 6) if quick else (900, 6)
    npw = 200 if quick else 2000
    ctx.rule = ('_generate_piecewise: %d generated calls (bounds in either order; Rational / Float / Quantity / symbolic bounds; '
                'polynomials with an optional pole outside the window) x 12 voltages (ends, just inside / outside, middle, '
                'far) compared exactly with the extracted model.  Whole models: %d documents x %d equations: the four '
                'forms x slopes of both signs x 6 ways of writing U (a*V+b, a*(V-sp), (V-sp)/k, numerator c*(V-sp), U in '
                'another equation, constants as variables) x shapes (plain, outer factor, additive constant / V term, '
                'V-dependent factor, product / sum of two terms with equal / different singular points), plus equations '
                'without the pattern and excluded variables; 13 voltages per term.  Also: the term in a denominator, an outer factor / '
                'divisor on a sum of two same-point terms, a voltage-switched outer factor, exp(U) in a helper variable, twin '
                'equations, negative powers (-2, -3) of an exp-containing sub-expression next to the term, 12%% of the forms written '
                'directly as the right-hand side of an ODE, and in 35%% of the documents the definitions listed AFTER the equations '
                'that use them.' % (npw, nmodels, neq))
    ctx.trusted += ['mpmath 1.3 at 50 digits (both sides of the stage-D comparison)',
                    'Interval 4 / Flocq 4 / Coquelicot (tactic `interval` for the end-point bounds)',
                    'the pattern search (_get_singularity: SymPy match / solveset) is NOT modelled: tied through stage D only']
    ctx.assume += ['PARTIAL: no theorem says that every equation of a documented form is found by the pattern search',
                   'theorems are about real arithmetic; the implementation stores window bounds as 17-digit Floats']
    cases = [gen_pw_case(ctx.seed * 1000003 + i) for i in range(npw)]
    cases += [gen_model_case(ctx.seed * 1000003 + 100000 + i, neq) for i in range(nmodels)]
    # long-running model cases first
    cases.sort(key=lambda c: 0 if c['kind'] == 'model' else 1)
    evaluate(ctx, cases)
    if ctx.tie_breaks and not ctx.violations:
        ctx.log.append('[C12] tie broken: running the oracle on more cases')
        more = [gen_pw_case(ctx.seed * 1000003 + 500000 + i) for i in range(10 * npw)]
        more += [gen_model_case(ctx.seed * 1000003 + 700000 + i, neq) for i in range(3 * nmodels)]
        evaluate(ctx, more)


def replay(ctx, case):
    mp.mp.dps = DPS
    res = work(case)
    if case['kind'] == 'pw':
        mo = vlib.model_run(FN, model_inputs(case)) if ctx.model_ok() else [[None, [None, None]]] * len(case['vs'])
        ties, viol = judge_pw(case, res, mo)
        for v in viol[:1]:
            ctx.violation(v, case)
        return (viol or ties or [None])[0]
    bad = judge_model(case, res)
    want = (case.get('failure') or {}).get('kind')
    bad = [b for b in bad if b[2].get('kind') == want] or bad
    for what, name, failure in bad[:4]:
        ctx.violation(what, shrink(case, name, failure))
    return bad[0][0] if bad else None
